import Q1t.Spec.OQ2Link
import Q1t.Spec.OQ2Exact
/-!
The per-gate semantic obligation of C11: the statements a library gate is exported as denote — through
`qelib1.inc` — the gate's documented unitary, up to a global phase.
-/
namespace Q1t.OpenQasm
open Q1t.Spec.OQ2

/-- `M = c·N` for a scalar `c` of modulus one -/
def PhaseEq {α : Type} (P : Type) [One α] [Mul α] [Amp α P] (M N : LMat α) : Prop :=
  ∃ c : α, c * Amp.conj P c = 1 ∧ M = smulMat c N

/-- the exported statements of library gate `name` with (direct) parameters `ps`, read through `qelib1.inc`,
denote the documented unitary of the gate up to a global phase -/
def LibGateOK (α P : Type) [Zero α] [One α] [Add α] [Mul α] [Neg α] [Sub α] [Amp α P] [Angle P]
    (tbl : List GateTpl) (name : String) (ps : List P) : Prop :=
  ∃ (M : LMat α) (g : GateTerm P), libMeaning (α := α) tbl name (ps.map QParam.direct) = some M ∧
    libTerm name ps = some g ∧ PhaseEq P M (Spec.specMatrix g)

/-- the same for a constant gate, decided in the exact field `ℚ(ζ₈)` (phase an eighth root of unity) -/
def constOK (tbl : List GateTpl) (name : String) : Bool :=
  match libMeaning (α := Q8) (P := QPi) tbl name [], libTerm (P := QPi) name [] with
  | some M, some g => phaseEq8 M (Spec.specMatrix g)
  | _, _ => false

/-- the exported statements have no meaning at all: some gate name is not defined by `qelib1.inc` -/
def constUndefined (tbl : List GateTpl) (name : String) : Bool :=
  match libApps (P := QPi) tbl name [] with
  | some apps => apps.any (fun a => (signature true a.1).isNone) && (libMeaning (α := Q8) (P := QPi) tbl name []).isNone
  | none => false

end Q1t.OpenQasm

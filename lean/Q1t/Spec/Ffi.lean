/-!
# Reference semantics for the C interface (C19), written without looking at `ffi.rs`

* the documented gates: which name stands for which gate, how many qubits it acts on and how many
  parameters it takes (from the documentation of each gate in `src/gates/*.rs`, the `Circuit`
  convenience methods and the Python wrapper's docstrings);
* the result convention of the interface (`RESULT_*`) and what a caller may rely on: which blocks a
  result owns and what `result_free` must release;
* the mirror rule: what a C call must answer given what the equivalent Rust call answers.

Core Lean only; nothing here imports the model or the generated tables.
-/
namespace Q1t.Spec.Ffi

/-- the gates the C interface documents -/
inductive GateKind where
  | CH | CRX | CRY | CRZ | CX | CY | CZ | H | I | RX | RY | RZ | S | Sdg | Swap | T | Tdg
  | U1 | U2 | U3 | V | Vdg | X | Y | Z
  deriving DecidableEq, Repr

namespace GateKind

/-- the Rust type implementing the gate -/
def rustName : GateKind → String
  | CH => "CH" | CRX => "CRX" | CRY => "CRY" | CRZ => "CRZ" | CX => "CX" | CY => "CY" | CZ => "CZ"
  | H => "H" | I => "I" | RX => "RX" | RY => "RY" | RZ => "RZ" | S => "S" | Sdg => "Sdg"
  | Swap => "Swap" | T => "T" | Tdg => "Tdg" | U1 => "U1" | U2 => "U2" | U3 => "U3" | V => "V"
  | Vdg => "Vdg" | X => "X" | Y => "Y" | Z => "Z"

/-- number of qubits the gate acts on: the controlled gates and `Swap` are binary, the rest unary -/
def arity : GateKind → Nat
  | CH | CRX | CRY | CRZ | CX | CY | CZ | Swap => 2
  | _ => 1

/-- number of real parameters: one angle for the rotations and `U1`, two for `U2(ϕ, λ)`, three for
`U3(θ, ϕ, λ)` -/
def nparams : GateKind → Nat
  | CRX | CRY | CRZ | RX | RY | RZ | U1 => 1
  | U2 => 2
  | U3 => 3
  | _ => 0

end GateKind

open GateKind in
/-- name (matched case-insensitively) ↦ gate -/
def documented : List (String × GateKind) :=
  [("ch", CH), ("crx", CRX), ("cry", CRY), ("crz", CRZ), ("cx", CX), ("cy", CY), ("cz", CZ),
   ("h", H), ("i", I), ("rx", RX), ("ry", RY), ("rz", RZ), ("s", S), ("sdg", Sdg), ("swap", Swap),
   ("t", T), ("tdg", Tdg), ("u1", U1), ("u2", U2), ("u3", U3), ("v", V), ("vdg", Vdg),
   ("x", X), ("y", Y), ("z", Z)]

/-- The documented table in the column layout of the generated tables:
`(name, Rust type, arity, parameters, count named in the wrong-parameter-count message,
parameter count enforced)`.  A gate with parameters must receive exactly that many; a gate
without parameters takes none (surplus ones have no meaning and are not looked at). -/
def documentedTable : List (String × String × Nat × Nat × Nat × Bool) :=
  documented.map fun (n, k) => (n, k.rustName, k.arity, k.nparams, k.nparams, k.nparams != 0)

/-- Nothing in the documentation restricts which gates may be classically controlled. -/
def documentedCondTable : List (String × String × Nat × Nat × Nat × Bool) := documentedTable

def lookup (name : String) : Option GateKind := documented.lookup name.toLower

/-! ## result convention -/

def RESULT_ERROR : Nat := 0
def RESULT_EMPTY : Nat := 1
def RESULT_STRING : Nat := 2
def RESULT_HISTOGRAM : Nat := 3
def RESULT_CSTATE : Nat := 5

/-- what the caller sees of a result -/
inductive Seen where
  | empty
  | error (msg : String)
  | string (s : String)
  | histogram (h : List (String × Nat))   -- sorted by key
  | cstate (ws : List Nat)
  deriving DecidableEq, Repr

def Seen.code : Seen → Nat
  | .empty => RESULT_EMPTY
  | .error _ => RESULT_ERROR
  | .string _ => RESULT_STRING
  | .histogram _ => RESULT_HISTOGRAM
  | .cstate _ => RESULT_CSTATE

/-- Ownership: the layouts `(size, align)` of the blocks a result hands to the caller, all of which
`result_free` has to release — a NUL-terminated byte string per message/key, one array of
`{char*, size_t}` per histogram with `cap ≥ length` slots, one array of `uint64_t` per register. -/
def ownedLayouts (s : Seen) (cap : Nat) : List (Nat × Nat) :=
  match s with
  | .empty => []
  | .error m => [(m.utf8ByteSize + 1, 1)]
  | .string m => [(m.utf8ByteSize + 1, 1)]
  | .histogram h => h.map (fun kv => (kv.1.utf8ByteSize + 1, 1)) ++ (if cap = 0 then [] else [(cap * 16, 8)])
  | .cstate _ => if cap = 0 then [] else [(cap * 8, 8)]

/-! ## the mirror rule -/

/-- outcome of the equivalent Rust call -/
inductive Rust where
  | ok                              -- `Ok(())`
  | err (msg : String)              -- `Err(e)`, `msg = e.to_string()`
  | str (s : String)                -- `Ok(text)` of an export
  | hist (h : List (String × Nat))  -- `Ok(map)`, sorted by key
  | words (ws : List Nat)           -- `Some(c_state)`
  | noState                         -- `cstate() == None`
  | none                            -- there is no Rust call: NULL argument, unknown gate name, wrong number of parameters, invalid basis, invalid UTF-8
  deriving DecidableEq, Repr

/-- what the C call has to show; `none` = any error result -/
def mirror : Rust → Option Seen
  | .ok => some .empty
  | .err m => some (.error m)
  | .str s => some (.string s)
  | .hist h => some (.histogram h)
  | .words ws => some (.cstate ws)
  | .noState => none
  | .none => none

def mirrors (r : Rust) (seen : Seen) : Bool :=
  match mirror r with
  | some s => s == seen
  | none => seen.code == RESULT_ERROR

/-- the message for a wrong number of parameters names the documented count -/
def msgNrArguments (actual : Nat) (k : GateKind) : String :=
  "Expected " ++ toString k.nparams ++ " arguments to \"" ++ k.rustName ++ "\" gate, got " ++ toString actual

end Q1t.Spec.Ffi

import Q1t.Base.Amp
import Q1t.Model.Tableau
import Q1t.Spec.Embed
/-!
Reference semantics for C06: what it means for a Pauli-conjugation rule to be *exact* for a matrix.

* `sigma`, `pauliMat` — the Pauli matrices and the matrix `σ_{p₀} ⊗ σ_{p₁} ⊗ …` of a Pauli string
  (first operator = qubit 0 = most significant index bit), over any amplitude type;
* `adjoint`, `conjBy M A = M · A · Mᴴ`, `signed flip A = ±A`;
* `IsConj M ops flip ops'` — `M · P(ops) · Mᴴ = ± P(ops')`, the statement of the property for one string;
* `Intertwines M ops flip ops'` — `M · P(ops) = ± P(ops') · M`, the form that composes (equivalent
  to `IsConj` for unitary `M`);
* `RuleExact M k rule` — the rule answers every string of length `k` with `(flip, ops')` such that
  `IsConj`/`Intertwines` hold.

Only the datatype `Tableau.P` (I, Z, X, Y) is shared with the model.  Import-free, executable
(used by the driver over `CFloat`, by the kernel over `Q8`, by the proofs over any commutative ring).
-/
namespace Q1t.Spec.Clifford
open Q1t Q1t.Spec

abbrev Pauli := Q1t.Tableau.P

variable {α A : Type} [Zero α] [One α] [Add α] [Mul α] [Neg α] [Amp α A]

variable (A) in
/-- the Pauli matrices: I, Z = diag(1,−1), X = [[0,1],[1,0]], Y = [[0,−i],[i,0]] -/
def sigma : Pauli → LMat α
  | .I => [[1, 0], [0, 1]]
  | .Z => [[1, 0], [0, -1]]
  | .X => [[0, 1], [1, 0]]
  | .Y => [[0, -(Amp.I A)], [Amp.I A, 0]]

variable (A) in
/-- `σ_{p₀} ⊗ σ_{p₁} ⊗ …` (`2^k × 2^k` for a string of length `k`) -/
def pauliMat : List Pauli → LMat α
  | [] => [[1]]
  | p :: ps => kronecker (sigma A p) (pauliMat ps)

variable (A) in
/-- conjugate transpose -/
def adjoint (M : LMat α) : LMat α := LMat.transpose M.length (LMat.mapEntries (Amp.conj A) M)

variable (A) in
/-- `M · X · Mᴴ` -/
def conjBy (M X : LMat α) : LMat α := LMat.mul (LMat.mul M X) (adjoint A M)

/-- `−X` if `flip`, else `X` -/
def signed (flip : Bool) (X : LMat α) : LMat α := if flip then LMat.mapEntries (- ·) X else X

variable (A) in
/-- `M · P(ops) · Mᴴ = ± P(ops')` -/
def IsConj (M : LMat α) (ops : List Pauli) (flip : Bool) (ops' : List Pauli) : Prop :=
  conjBy A M (pauliMat A ops) = signed flip (pauliMat A ops')

variable (A) in
/-- `M · P(ops) = ± P(ops') · M` -/
def Intertwines (M : LMat α) (ops : List Pauli) (flip : Bool) (ops' : List Pauli) : Prop :=
  LMat.mul M (pauliMat A ops) = signed flip (LMat.mul (pauliMat A ops') M)

variable (A) in
/-- `M · Mᴴ = 1` for a `2^k × 2^k` matrix -/
def IsUnitary (k : Nat) (M : LMat α) : Prop :=
  M.length = 2 ^ k ∧ (∀ r ∈ M, r.length = 2 ^ k) ∧
    LMat.mul M (adjoint A M) = LMat.identity (2 ^ k)

/-- all `4^k` Pauli strings of length `k`, lexicographic in I Z X Y -/
def allStrings : Nat → List (List Pauli)
  | 0 => [[]]
  | k + 1 => [Tableau.P.I, .Z, .X, .Y].flatMap fun p => (allStrings k).map (p :: ·)

end Q1t.Spec.Clifford

/-!
Reference semantics for C17, written independently of the code: what a permutation object is
supposed to be and do.  Import-free and executable (used by the driver's `spec` mode).
-/
namespace Q1t.Spec.Perm

/-- `idxs` is a bijection of `0..n-1`, `n ≥ 1`. -/
def IsPerm (idxs : List Nat) : Prop :=
  idxs ≠ [] ∧ (∀ x ∈ idxs, x < idxs.length) ∧ idxs.Nodup

instance (idxs : List Nat) : Decidable (IsPerm idxs) := by unfold IsPerm; infer_instance

/-- first element that already occurred earlier in the list -/
def firstRepeat : List Nat → List Nat → Option Nat
  | _, [] => none
  | earlier, x :: rest => if x ∈ earlier then some x else firstRepeat (x :: earlier) rest

/-- the documented error of `new` (as text of the line protocol) -/
def expectedNew (idxs : List Nat) : String :=
  if idxs = [] then "err empty"
  else
    let n := idxs.length
    let m := idxs.foldl max 0
    if m ≥ n then s!"err invalid {m} {n}"
    else match firstRepeat [] idxs with
      | some e => s!"err double {e}"
      | none => "ok " ++ " ".intercalate (idxs.map toString)

/-- the permuted vector: position `i` receives `v[idxs[i]]` -/
def permuted {α} [Inhabited α] (idxs : List Nat) (v : List α) : List α :=
  (List.range idxs.length).map (fun i => v[idxs[i]!]!)

end Q1t.Spec.Perm

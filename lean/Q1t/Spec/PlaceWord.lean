import Q1t.Spec.Place
/-!
C04: the one place where the machine word size enters.  `Composite::apply_slice` (and therefore `Loop`)
reads the register size off the state: `state.len().trailing_zeros()`, a `usize` operation.  A state of
`2^N` rows with `N ≥ 64` cannot exist in the code (`usize` is 64 bits wide); the model's
`trailingZeros` is that of a 64-bit word, so the theorems about terms that contain a composite carry
the hypothesis `N < 64`.  Terms without `Composite`/`Loop` need no bound.  Import-free.
-/
namespace Q1t.Spec
open Q1t
variable {P : Type}

/-- the term contains a `Composite` or a `Loop` (whose routes use `usize::trailing_zeros`) -/
def hasComposite : GateTerm P → Bool
  | .C g => hasComposite g
  | .Kron g0 g1 => hasComposite g0 || hasComposite g1
  | .Composite .. => true
  | .Loop .. => true
  | _ => false

/-- a register of `n` qubits is addressable (`2^n` fits a `usize`) whenever `g` needs it to be -/
def WordOK (g : GateTerm P) (n : Nat) : Prop := hasComposite g = true → n < 64

end Q1t.Spec

import Q1t.Base.Amp
import Q1t.Spec.Embed
/-!
# Reference reading of OpenQASM 2.0 (the subset the exporter can emit) — C11

Independent of the exporter and of its model (imports neither):

* `lex` — characters to tokens (identifiers, integer and real literals kept as exact decimals, strings,
  punctuation, `//` comments);
* `parse` — tokens to the abstract syntax of the subset: the header `OPENQASM 2.0; include "qelib1.inc";`,
  `qreg`/`creg` declarations, gate applications `name(expr, …) arg, …;` (including the built-ins `U`, `CX`),
  `measure a -> c;`, `reset a;`, `barrier a, …;`, `if (c == k) qop;`.  Everything else (gate definitions,
  `opaque`, empty statements, stray tokens) is a parse error with a class tag;
* `qelib1` — the gate list of `qelib1.inc`: the 23 gates `u3 u2 u1 cx id x y z h s sdg t tdg rx ry rz cz cy ch
  ccx crz cu1 cu3` of the file published with the OpenQASM 2.0 specification (arXiv:1707.03429), each with its
  *body* over the built-ins; `gateMatrix` gives each application its meaning as a matrix (product of the
  embedded matrices of the body).  Because every gate is a fixed circuit over `U` and `CX`, the global phase
  convention chosen for `U` (here the one with `U[0][0]` real, `u3` of Qiskit; the specification text uses the
  determinant-1 form `Rz(φ)Ry(θ)Rz(λ)`) changes every meaning by a scalar only — the semantics below is
  used up to a global phase per branch.
  READING USED FOR `cu3`: the *corrected* body, which starts with `u1((lambda+phi)/2) c;` (the file shipped with
  Qiskit since the fix of its `cu3`), i.e. `cu3(θ,φ,λ) = 1 ⊕ u3(θ,φ,λ)`, the gate's documented intent
  ("controlled-U3") and what every consumer of the name implements.  The body as first printed in the paper lacks
  that statement and denotes `1 ⊕ Rz(φ)Ry(θ)Rz(λ)`, which differs by a relative phase `e^{i(φ+λ)/2}`; this is a
  known erratum of the library file, not of an exporter that emits `cu3` for a controlled U3
  (`Props/C11.remark_original_cu3_body` records the difference).  The other bodies (`cu1`, `crz`, `ch`, `ccx`,
  `cy`, `cz`, `rx`, `ry`, `rz`) have no later correction that changes their meaning up to a global phase.
* `wf` — well-formedness: registers declared (once, before use), indices in range, gate known (built-in, or
  from `qelib1.inc` if included) with the right number of parameters and arguments, parameter expressions
  closed, arguments of one application distinct, broadcast sizes equal;
* `run` — single-shot branching semantics in the carrier of `Spec/Born.lean`: a list of
  (unnormalised state, register word) branches; the squared norm of a branch is its probability.

Qubit `i` of the first declared `qreg` is qubit `i` of the register (`Spec.embed`: qubit 0 is the most
significant bit of a basis index); later registers follow.  Bit `i` of the first `creg` is bit `i` of the word.
Core Lean only, executable.
-/
namespace Q1t.Spec.OQ2
open Q1t

/-! ## Lexer -/

inductive Tok where
  | id (s : String)
  | int (n : Nat)
  /-- `m · 10^e` -/
  | real (m : Nat) (e : Int)
  | sym (s : String)
  | str (s : String)
  deriving DecidableEq, Repr

def isAlpha (c : Char) : Bool := ('a' ≤ c && c ≤ 'z') || ('A' ≤ c && c ≤ 'Z') || c == '_'
def isDigit (c : Char) : Bool := '0' ≤ c && c ≤ '9'
def isSpace (c : Char) : Bool := c == ' ' || c == '\n' || c == '\t' || c == '\r'
def digitsVal (ds : List Char) : Nat := ds.foldl (fun a c => a * 10 + (c.toNat - 48)) 0

/-- a number starting at `cs` (first char is a digit, or `.` followed by a digit): token and rest -/
def lexNumber (cs : List Char) : Tok × List Char :=
  let ip := cs.takeWhile isDigit
  let r1 := cs.dropWhile isDigit
  let (fp, r2, hasDot) := match r1 with
    | '.' :: t => (t.takeWhile isDigit, t.dropWhile isDigit, true)
    | _ => ([], r1, false)
  let expo : Option (Int × List Char) := match r2 with
    | e :: '-' :: d :: t => if (e == 'e' || e == 'E') && isDigit d then
        some (-(digitsVal (d :: t.takeWhile isDigit) : Int), t.dropWhile isDigit) else none
    | e :: '+' :: d :: t => if (e == 'e' || e == 'E') && isDigit d then
        some ((digitsVal (d :: t.takeWhile isDigit) : Int), t.dropWhile isDigit) else none
    | e :: d :: t => if (e == 'e' || e == 'E') && isDigit d then
        some ((digitsVal (d :: t.takeWhile isDigit) : Int), t.dropWhile isDigit) else none
    | _ => none
  match expo with
  | some (ex, r3) => (.real (digitsVal (ip ++ fp)) (ex - fp.length), r3)
  | none => if hasDot then (.real (digitsVal (ip ++ fp)) (-(fp.length : Int)), r2) else (.int (digitsVal ip), r2)

def lexGo : Nat → List Char → Except String (List Tok)
  | _, [] => .ok []
  | 0, _ :: _ => .error "fuel"
  | fuel + 1, c :: cs =>
    if isSpace c then lexGo fuel cs
    else if c == '/' && cs.head? == some '/' then lexGo fuel (cs.dropWhile (· != '\n'))
    else if isAlpha c then
      let w := c :: cs.takeWhile (fun x => isAlpha x || isDigit x)
      (lexGo fuel (cs.dropWhile (fun x => isAlpha x || isDigit x))).map (Tok.id (String.ofList w) :: ·)
    else if isDigit c || (c == '.' && (cs.head?.map isDigit).getD false) then
      let (t, rest) := lexNumber (c :: cs)
      -- `rest` is a proper suffix, so the fuel suffices
      (lexGo fuel rest).map (t :: ·)
    else if c == '"' then
      match cs.dropWhile (· != '"') with
      | [] => .error "unterminated string"
      | _ :: rest => (lexGo fuel rest).map (Tok.str (String.ofList (cs.takeWhile (· != '"'))) :: ·)
    else if c == '=' && cs.head? == some '=' then (lexGo fuel (cs.drop 1)).map (Tok.sym "==" :: ·)
    else if c == '-' && cs.head? == some '>' then (lexGo fuel (cs.drop 1)).map (Tok.sym "->" :: ·)
    else if "()[]{},;+-*/^".toList.contains c then (lexGo fuel cs).map (Tok.sym (String.ofList [c]) :: ·)
    else .error s!"unexpected character {c}"

def lex (s : String) : Except String (List Tok) := lexGo (s.toList.length + 1) s.toList

/-! ## Abstract syntax -/

inductive Expr where
  | int (n : Nat)
  | real (m : Nat) (e : Int)
  | pi
  | ident (s : String)
  | neg (e : Expr)
  | add (a b : Expr)
  | sub (a b : Expr)
  | mul (a b : Expr)
  | div (a b : Expr)
  | pow (a b : Expr)
  | call (f : String) (e : Expr)
  deriving DecidableEq, Repr, Inhabited

inductive QArg where
  | reg (r : String)
  | idx (r : String) (i : Nat)
  deriving DecidableEq, Repr

inductive Op where
  | app (name : String) (params : List Expr) (args : List QArg)
  | measure (q c : QArg)
  | reset (q : QArg)
  | barrier (qs : List QArg)
  deriving DecidableEq, Repr

inductive Stmt where
  | qreg (r : String) (n : Nat)
  | creg (r : String) (n : Nat)
  | op (o : Op)
  | cond (creg : String) (k : Nat) (o : Op)
  deriving DecidableEq, Repr

/-- a program after its header `OPENQASM 2.0;`; `qelib` = `include "qelib1.inc";` follows the version line -/
structure Program where
  qelib : Bool
  stmts : List Stmt
  deriving DecidableEq, Repr

/-- class tag and detail -/
structure Problem where
  tag : String
  detail : String
  deriving DecidableEq, Repr

/-! ## Parser -/

/-- split at every `;`; the tokens after the last `;` (normally none) are returned separately -/
def splitStmts : List Tok → List (List Tok) × List Tok
  | [] => ([], [])
  | t :: ts =>
    let (ss, tail) := splitStmts ts
    if t = .sym ";" then
      ([] :: ss, tail)
    else
      match ss with
      | [] => ([], t :: tail)
      | s :: rest => ((t :: s) :: rest, tail)

/-- split at top-level commas (depth of parentheses 0) -/
def splitCommas : Nat → List Tok → List (List Tok)
  | _, [] => [[]]
  | d, t :: ts =>
    let d' := if t = .sym "(" then d + 1 else if t = .sym ")" then d - 1 else d
    match splitCommas d' ts with
    | [] => [[t]]
    | cur :: rest => if t = .sym "," ∧ d = 0 then [] :: cur :: rest else (t :: cur) :: rest

mutual
/-- `expr := term (('+'|'-') term)*` -/
def pExpr : Nat → List Tok → Option (Expr × List Tok)
  | 0, _ => none
  | f + 1, ts => (pTerm f ts).bind fun (a, r) => pExprTail f a r
def pExprTail : Nat → Expr → List Tok → Option (Expr × List Tok)
  | 0, _, _ => none
  | f + 1, a, .sym "+" :: r => (pTerm f r).bind fun (b, r') => pExprTail f (.add a b) r'
  | f + 1, a, .sym "-" :: r => (pTerm f r).bind fun (b, r') => pExprTail f (.sub a b) r'
  | _ + 1, a, r => some (a, r)
/-- `term := factor (('*'|'/') factor)*` -/
def pTerm : Nat → List Tok → Option (Expr × List Tok)
  | 0, _ => none
  | f + 1, ts => (pFactor f ts).bind fun (a, r) => pTermTail f a r
def pTermTail : Nat → Expr → List Tok → Option (Expr × List Tok)
  | 0, _, _ => none
  | f + 1, a, .sym "*" :: r => (pFactor f r).bind fun (b, r') => pTermTail f (.mul a b) r'
  | f + 1, a, .sym "/" :: r => (pFactor f r).bind fun (b, r') => pTermTail f (.div a b) r'
  | _ + 1, a, r => some (a, r)
/-- `factor := '-' factor | atom ('^' factor)?` -/
def pFactor : Nat → List Tok → Option (Expr × List Tok)
  | 0, _ => none
  | f + 1, .sym "-" :: r => (pFactor f r).map fun (e, r') => (.neg e, r')
  | f + 1, ts =>
    (pAtom f ts).bind fun (a, r) =>
      match r with
      | .sym "^" :: r' => (pFactor f r').map fun (b, r'') => (.pow a b, r'')
      | _ => some (a, r)
def pAtom : Nat → List Tok → Option (Expr × List Tok)
  | 0, _ => none
  | _ + 1, .int n :: r => some (.int n, r)
  | _ + 1, .real m e :: r => some (.real m e, r)
  | f + 1, .id s :: .sym "(" :: r =>
    (pExpr f r).bind fun (e, r') =>
      match r' with
      | .sym ")" :: r'' => some (.call s e, r'')
      | _ => none
  | _ + 1, .id s :: r => some (if s = "pi" then .pi else .ident s, r)
  | f + 1, .sym "(" :: r =>
    (pExpr f r).bind fun (e, r') =>
      match r' with
      | .sym ")" :: r'' => some (e, r'')
      | _ => none
  | _ + 1, _ => none
end

def parseExpr (ts : List Tok) : Option Expr :=
  match pExpr (4 * ts.length + 8) ts with
  | some (e, []) => some e
  | _ => none

def parseQArg : List Tok → Option QArg
  | [.id r] => some (.reg r)
  | [.id r, .sym "[", .int i, .sym "]"] => some (.idx r i)
  | _ => none

def parseQArgs (ts : List Tok) : Option (List QArg) := (splitCommas 0 ts).mapM parseQArg

def keywords : List String :=
  ["OPENQASM", "include", "qreg", "creg", "gate", "opaque", "measure", "reset", "barrier", "if", "pi"]

/-- a quantum operation (what may follow `if (…)`) -/
def parseOp (ts : List Tok) : Except Problem Op :=
  match ts with
  | [] => .error ⟨"empty_statement", ""⟩
  | .id "measure" :: rest =>
    let q := rest.takeWhile (· ≠ .sym "->")
    match rest.dropWhile (· ≠ .sym "->") with
    | _ :: c =>
      match parseQArg q, parseQArg c with
      | some q, some c => .ok (.measure q c)
      | _, _ => .error ⟨"syntax", "measure arguments"⟩
    | [] => .error ⟨"syntax", "measure without ->"⟩
  | .id "reset" :: rest =>
    match parseQArg rest with
    | some q => .ok (.reset q)
    | none => .error ⟨"syntax", "reset argument"⟩
  | .id "barrier" :: rest =>
    match parseQArgs rest with
    | some qs => .ok (.barrier qs)
    | none => .error ⟨"syntax", "barrier arguments"⟩
  | .id name :: .sym "(" :: rest =>
    if keywords.contains name then .error ⟨"syntax", s!"keyword {name}"⟩ else
    -- find the matching `)`
    let rec close (d : Nat) (acc : List Tok) : List Tok → Option (List Tok × List Tok)
      | [] => none
      | t :: ts =>
        if t = .sym ")" then (if d = 0 then some (acc.reverse, ts) else close (d - 1) (t :: acc) ts)
        else if t = .sym "(" then close (d + 1) (t :: acc) ts
        else close d (t :: acc) ts
    match close 0 [] rest with
    | none => .error ⟨"syntax", "unbalanced parentheses"⟩
    | some (inner, after) =>
      let ps : Option (List Expr) := if inner.isEmpty then some [] else (splitCommas 0 inner).mapM parseExpr
      match ps, parseQArgs after with
      | some ps, some args => .ok (.app name ps args)
      | none, _ => .error ⟨"syntax", s!"parameters of {name}"⟩
      | _, none => .error ⟨"syntax", s!"arguments of {name}"⟩
  | .id name :: rest =>
    if keywords.contains name then .error ⟨"syntax", s!"keyword {name}"⟩ else
    match parseQArgs rest with
    | some args => .ok (.app name [] args)
    | none => .error ⟨"syntax", s!"arguments of {name}"⟩
  | _ => .error ⟨"syntax", "statement does not start with a name"⟩

def parseStmt (ts : List Tok) : Except Problem Stmt :=
  match ts with
  | [.id "qreg", .id r, .sym "[", .int n, .sym "]"] => .ok (.qreg r n)
  | [.id "creg", .id r, .sym "[", .int n, .sym "]"] => .ok (.creg r n)
  | .id "qreg" :: _ => .error ⟨"syntax", "qreg"⟩
  | .id "creg" :: _ => .error ⟨"syntax", "creg"⟩
  | .id "gate" :: _ => .error ⟨"unsupported", "gate definition"⟩
  | .id "opaque" :: _ => .error ⟨"unsupported", "opaque"⟩
  | .id "if" :: .sym "(" :: .id c :: .sym "==" :: .int k :: .sym ")" :: rest =>
    match rest with
    | .id "barrier" :: _ => .error ⟨"syntax", "if barrier"⟩
    | _ => (parseOp rest).map (.cond c k)
  | .id "if" :: _ => .error ⟨"syntax", "if"⟩
  | ts => (parseOp ts).map .op

def parseStmts : List (List Tok) → Except Problem (List Stmt)
  | [] => .ok []
  | s :: ss => do
    let a ← parseStmt s
    let r ← parseStmts ss
    pure (a :: r)

def parse (ts : List Tok) : Except Problem Program :=
  let (ss, tail) := splitStmts ts
  if !tail.isEmpty then .error ⟨"syntax", "text after the last ';'"⟩ else
  match ss with
  | [.id "OPENQASM", .real 20 (-1)] :: rest =>
    (match rest with
     | [.id "include", .str "qelib1.inc"] :: body => (parseStmts body).map (Program.mk true)
     | (.id "include" :: _) :: _ => .error ⟨"unsupported", "include of another file"⟩
     | body => (parseStmts body).map (Program.mk false))
  | _ => .error ⟨"syntax", "missing OPENQASM 2.0 header"⟩

/-! ## Angles -/

/-- what the semantics needs from the type of gate parameters -/
class Angle (P : Type) where
  /-- the decimal literal `m · 10^e` -/
  ofDec : Nat → Int → P
  pi : P
  neg : P → P
  add : P → P → P
  sub : P → P → P
  mul : P → P → P
  div : P → P → P

/-- value of a parameter expression; `none`: unbound identifier, `^`, function call -/
def eval {P} [Angle P] (env : String → Option P) : Expr → Option P
  | .int n => some (Angle.ofDec n 0)
  | .real m e => some (Angle.ofDec m e)
  | .pi => some Angle.pi
  | .ident s => env s
  | .neg e => (eval env e).map Angle.neg
  | .add a b => do pure (Angle.add (← eval env a) (← eval env b))
  | .sub a b => do pure (Angle.sub (← eval env a) (← eval env b))
  | .mul a b => do pure (Angle.mul (← eval env a) (← eval env b))
  | .div a b => do pure (Angle.div (← eval env a) (← eval env b))
  | .pow _ _ => none
  | .call _ _ => none

/-- identifiers occurring in an expression -/
def idents : Expr → List String
  | .ident s => [s]
  | .neg e | .call _ e => idents e
  | .add a b | .sub a b | .mul a b | .div a b | .pow a b => idents a ++ idents b
  | _ => []

/-! ## `qelib1.inc` -/

structure GateDef where
  name : String
  params : List String
  nq : Nat
  /-- applications in program order: gate, parameter expressions over `params`, formal qubit indices -/
  body : List (String × List Expr × List Nat)
  deriving Repr

private def v (s : String) : Expr := .ident s
private def half (e : Expr) : Expr := .div e (.int 2)

/-- `qelib1.inc` as published with the OpenQASM 2.0 specification -/
def qelib1 : List GateDef := [
  ⟨"u3", ["theta", "phi", "lambda"], 1, [("U", [v "theta", v "phi", v "lambda"], [0])]⟩,
  ⟨"u2", ["phi", "lambda"], 1, [("U", [half .pi, v "phi", v "lambda"], [0])]⟩,
  ⟨"u1", ["lambda"], 1, [("U", [.int 0, .int 0, v "lambda"], [0])]⟩,
  ⟨"cx", [], 2, [("CX", [], [0, 1])]⟩,
  ⟨"id", [], 1, [("U", [.int 0, .int 0, .int 0], [0])]⟩,
  ⟨"x", [], 1, [("u3", [.pi, .int 0, .pi], [0])]⟩,
  ⟨"y", [], 1, [("u3", [.pi, half .pi, half .pi], [0])]⟩,
  ⟨"z", [], 1, [("u1", [.pi], [0])]⟩,
  ⟨"h", [], 1, [("u2", [.int 0, .pi], [0])]⟩,
  ⟨"s", [], 1, [("u1", [half .pi], [0])]⟩,
  ⟨"sdg", [], 1, [("u1", [.neg (half .pi)], [0])]⟩,
  ⟨"t", [], 1, [("u1", [.div .pi (.int 4)], [0])]⟩,
  ⟨"tdg", [], 1, [("u1", [.neg (.div .pi (.int 4))], [0])]⟩,
  ⟨"rx", ["theta"], 1, [("u3", [v "theta", .neg (half .pi), half .pi], [0])]⟩,
  ⟨"ry", ["theta"], 1, [("u3", [v "theta", .int 0, .int 0], [0])]⟩,
  ⟨"rz", ["phi"], 1, [("u1", [v "phi"], [0])]⟩,
  ⟨"cz", [], 2, [("h", [], [1]), ("cx", [], [0, 1]), ("h", [], [1])]⟩,
  ⟨"cy", [], 2, [("sdg", [], [1]), ("cx", [], [0, 1]), ("s", [], [1])]⟩,
  ⟨"ch", [], 2, [("h", [], [1]), ("sdg", [], [1]), ("cx", [], [0, 1]), ("h", [], [1]), ("t", [], [1]),
                 ("cx", [], [0, 1]), ("t", [], [1]), ("h", [], [1]), ("s", [], [1]), ("x", [], [1]),
                 ("s", [], [0])]⟩,
  ⟨"ccx", [], 3, [("h", [], [2]), ("cx", [], [1, 2]), ("tdg", [], [2]), ("cx", [], [0, 2]), ("t", [], [2]),
                  ("cx", [], [1, 2]), ("tdg", [], [2]), ("cx", [], [0, 2]), ("t", [], [1]), ("t", [], [2]),
                  ("h", [], [2]), ("cx", [], [0, 1]), ("t", [], [0]), ("tdg", [], [1]), ("cx", [], [0, 1])]⟩,
  ⟨"crz", ["lambda"], 2, [("u1", [half (v "lambda")], [1]), ("cx", [], [0, 1]),
                          ("u1", [.neg (half (v "lambda"))], [1]), ("cx", [], [0, 1])]⟩,
  ⟨"cu1", ["lambda"], 2, [("u1", [half (v "lambda")], [0]), ("cx", [], [0, 1]),
                          ("u1", [.neg (half (v "lambda"))], [1]), ("cx", [], [0, 1]),
                          ("u1", [half (v "lambda")], [1])]⟩,
  ⟨"cu3", ["theta", "phi", "lambda"], 2,
    [("u1", [half (.add (v "lambda") (v "phi"))], [0]),
     ("u1", [half (.sub (v "lambda") (v "phi"))], [1]), ("cx", [], [0, 1]),
     ("u3", [.neg (half (v "theta")), .int 0, .neg (half (.add (v "phi") (v "lambda")))], [1]),
     ("cx", [], [0, 1]),
     ("u3", [half (v "theta"), v "phi", .int 0], [1])]⟩
]

def findDef (name : String) : Option GateDef := qelib1.find? (·.name == name)

/-- `(number of parameters, number of qubits)` of a gate name: built-ins always, `qelib1` if included -/
def signature (qelib : Bool) (name : String) : Option (Nat × Nat) :=
  if name = "U" then some (3, 1) else if name = "CX" then some (0, 2)
  else if qelib then (findDef name).map fun d => (d.params.length, d.nq) else none

section meaning
variable {α P : Type} [Zero α] [One α] [Add α] [Mul α] [Neg α] [Sub α] [Amp α P] [Angle P]

def expi (θ : P) : α := Amp.cos θ + Amp.I P * Amp.sin θ

/-- the built-in single-qubit gate `U(θ, φ, λ)`, in the phase convention with a real upper left entry -/
def matU (θ φ l : P) : LMat α :=
  let c : α := Amp.cos (Amp.phalf α θ); let s : α := Amp.sin (Amp.phalf α θ)
  [[c, -(expi l * s)], [expi φ * s, expi (Amp.padd α φ l) * c]]

/-- the built-in `CX` (first argument = control = most significant bit) -/
def matCX : LMat α := [[1, 0, 0, 0], [0, 1, 0, 0], [0, 0, 0, 1], [0, 0, 1, 0]]

def bindEnv (names : List String) (vals : List P) (s : String) : Option P :=
  match names.idxOf? s with
  | some i => vals[i]?
  | none => none

/-- meaning of a gate application as a `2^nq × 2^nq` matrix: built-ins directly, `qelib1` gates as the ordered
product of their body (first statement acts first).  `fuel` bounds the nesting depth of definitions (3 in
`qelib1`). -/
def gateMatrix : Nat → String → List P → Option (LMat α)
  | 0, _, _ => none
  | fuel + 1, name, ps =>
    if name = "U" then
      match ps with
      | [θ, φ, l] => some (matU θ φ l)
      | _ => none
    else if name = "CX" then (if ps.isEmpty then some matCX else none)
    else match findDef name with
      | none => none
      | some d =>
        if ps.length ≠ d.params.length then none else
        d.body.foldlM (fun acc (g, es, qs) => do
          let vals ← es.mapM (eval (bindEnv d.params ps))
          let m ← gateMatrix fuel g vals
          pure (LMat.mul (embed d.nq qs m) acc)) (LMat.identity (2 ^ d.nq))

def defaultFuel : Nat := 6

/-- meaning of a sequence of gate applications (name, parameter values, qubits) on `k` qubits: the ordered
product of the embedded matrices, the first application acting first -/
def seqMatrix (k : Nat) (apps : List (String × List P × List Nat)) : Option (LMat α) :=
  apps.foldlM (fun acc (g, vals, qs) => do
    let m ← gateMatrix (α := α) defaultFuel g vals
    pure (LMat.mul (embed k qs m) acc)) (LMat.identity (2 ^ k))

end meaning

/-! ## Registers, well-formedness -/

structure Regs where
  /-- `(name, size)` in declaration order -/
  qregs : List (String × Nat)
  cregs : List (String × Nat)
  deriving Repr, DecidableEq

def Regs.empty : Regs := ⟨[], []⟩
def total (l : List (String × Nat)) : Nat := (l.map (·.2)).foldl (· + ·) 0

/-- offset and size of a register -/
def findReg : List (String × Nat) → String → Option (Nat × Nat)
  | [], _ => none
  | (n, sz) :: rest, r => if n = r then some (0, sz) else (findReg rest r).map fun (o, s) => (o + sz, s)

def allRegs (p : Program) : Regs :=
  p.stmts.foldl (fun rg s => match s with
    | .qreg r n => { rg with qregs := rg.qregs ++ [(r, n)] }
    | .creg r n => { rg with cregs := rg.cregs ++ [(r, n)] }
    | _ => rg) Regs.empty

/-- the global indices an argument denotes: one for `r[i]`, all of them for `r` -/
def resolveArg (regs : List (String × Nat)) : QArg → Option (List Nat × Bool)
  | .reg r => (findReg regs r).map fun (o, s) => ((List.range s).map (o + ·), true)
  | .idx r i => (findReg regs r).bind fun (o, s) => if i < s then some ([o + i], false) else none

/-- broadcast: the list of argument tuples an application stands for; `none` if sizes differ -/
def instances (resolved : List (List Nat × Bool)) : Option (List (List Nat)) :=
  let sizes := (resolved.filter (·.2)).map (·.1.length)
  match sizes with
  | [] => some [resolved.map fun (l, _) => l.headD 0]
  | s :: rest =>
    if rest.all (· == s) then
      some ((List.range s).map fun j => resolved.map fun (l, whole) => if whole then l.getD j 0 else l.headD 0)
    else none

def argProblem (regs : List (String × Nat)) (a : QArg) : Option Problem :=
  match a with
  | .reg r => if (findReg regs r).isSome then none else some ⟨"undeclared_register", r⟩
  | .idx r i => match findReg regs r with
    | none => some ⟨"undeclared_register", r⟩
    | some (_, s) => if i < s then none else some ⟨"index_out_of_range", s!"{r}[{i}]"⟩

def firstProblem {β} (f : β → Option Problem) : List β → Option Problem
  | [] => none
  | x :: xs => match f x with
    | some p => some p
    | none => firstProblem f xs

def opProblem (qelib : Bool) (rg : Regs) : Op → Option Problem
  | .app name ps args =>
    match signature qelib name with
    | none => some ⟨"not_qelib1", name⟩
    | some (np, nq) =>
      if ps.length ≠ np then some ⟨"param_count", name⟩
      else if args.length ≠ nq then some ⟨"arg_count", name⟩
      else match (ps.flatMap idents).head? with
        | some i => some ⟨"unbound_identifier", i⟩
        | none =>
          match firstProblem (argProblem rg.qregs) args with
          | some p => some p
          | none =>
            match args.mapM (resolveArg rg.qregs) with
            | none => some ⟨"undeclared_register", name⟩
            | some rs => match instances rs with
              | none => some ⟨"broadcast_mismatch", name⟩
              | some insts => if insts.all (fun l => l.eraseDups.length == l.length) then none
                              else some ⟨"duplicate_qubit", name⟩
  | .measure q c =>
    match argProblem rg.qregs q, argProblem rg.cregs c with
    | some p, _ => some p
    | _, some p => some p
    | none, none =>
      match resolveArg rg.qregs q, resolveArg rg.cregs c with
      | some (ql, qw), some (cl, cw) =>
        if qw == cw && ql.length == cl.length then none else some ⟨"broadcast_mismatch", "measure"⟩
      | _, _ => some ⟨"undeclared_register", "measure"⟩
  | .reset q => argProblem rg.qregs q
  | .barrier qs =>
    if qs.isEmpty then some ⟨"syntax", "barrier without arguments"⟩ else firstProblem (argProblem rg.qregs) qs

/-- first well-formedness problem of the statements, given the registers declared so far -/
def stmtsProblem (qelib : Bool) : Regs → List Stmt → Option Problem
  | _, [] => none
  | rg, .qreg r n :: rest =>
    if (findReg rg.qregs r).isSome || (findReg rg.cregs r).isSome then some ⟨"duplicate_register", r⟩
    else if n = 0 then some ⟨"empty_register", r⟩
    else stmtsProblem qelib { rg with qregs := rg.qregs ++ [(r, n)] } rest
  | rg, .creg r n :: rest =>
    if (findReg rg.qregs r).isSome || (findReg rg.cregs r).isSome then some ⟨"duplicate_register", r⟩
    else if n = 0 then some ⟨"empty_register", r⟩
    else stmtsProblem qelib { rg with cregs := rg.cregs ++ [(r, n)] } rest
  | rg, .op o :: rest =>
    match opProblem qelib rg o with
    | some p => some p
    | none => stmtsProblem qelib rg rest
  | rg, .cond c _ o :: rest =>
    if (findReg rg.cregs c).isNone then some ⟨"undeclared_register", c⟩ else
    match opProblem qelib rg o with
    | some p => some p
    | none => stmtsProblem qelib rg rest

/-- `none` = well-formed -/
def wfProblem (p : Program) : Option Problem := stmtsProblem p.qelib Regs.empty p.stmts

def WellFormed (p : Program) : Prop := wfProblem p = none
instance (p : Program) : Decidable (WellFormed p) := inferInstanceAs (Decidable (_ = _))

/-- every gate application uses a built-in or a `qelib1` gate -/
def usesOnlyQelib1 (p : Program) : Bool :=
  p.stmts.all fun s => match s with
    | .op (.app name _ _) | .cond _ _ (.app name _ _) => (signature true name).isSome
    | _ => true

/-! ## Single-shot branching semantics -/

section run
variable {α P : Type} [Zero α] [One α] [Add α] [Mul α] [Neg α] [Sub α] [Amp α P] [Angle P]

/-- a branch: unnormalised state and register word -/
abbrev Branch (α : Type) := List α × Nat

def projectQ (n q : Nat) (o : Bool) (ψ : List α) : List α :=
  ψ.zipIdx.map fun (a, idx) => if (qbit n q idx == 1) == o then a else 0

def flipQ (n q : Nat) (ψ : List α) : List α :=
  LMat.mulVec (embed n [q] ([[0, 1], [1, 0]] : LMat α)) ψ

def setBit (w c : Nat) (o : Bool) : Nat :=
  if o then w ||| (1 <<< c) else w ^^^ (w &&& (1 <<< c))

/-- value of the `sz` bits of `w` starting at `off` -/
def slice (w off sz : Nat) : Nat := (w >>> off) % 2 ^ sz

/-- a gate application with its parameter VALUES, on one branch (broadcast over whole-register arguments) -/
def runApp (n : Nat) (rg : Regs) (name : String) (vals : List P) (args : List QArg) (br : Branch α) :
    Option (List (Branch α)) := do
  let m ← gateMatrix (α := α) defaultFuel name vals
  let rs ← args.mapM (resolveArg rg.qregs)
  let insts ← instances rs
  pure [(insts.foldl (fun φ qs => LMat.mulVec (embed n qs m) φ) br.1, br.2)]

/-- one quantum operation on one branch; `none` = outside the semantics (ill-formed, or an expression the
evaluator does not support) -/
def runOp (n : Nat) (rg : Regs) (nonzero : List α → Bool) (o : Op) (br : Branch α) : Option (List (Branch α)) :=
  let (ψ, w) := br
  match o with
  | .app name ps args => do
    let vals ← ps.mapM (eval (P := P) (fun _ => none))
    runApp (α := α) n rg name vals args (ψ, w)
  | .measure q c => do
    let (ql, _) ← resolveArg rg.qregs q
    let (cl, _) ← resolveArg rg.cregs c
    if ql.length ≠ cl.length then none else
    pure ((ql.zip cl).foldl (fun brs (qi, ci) =>
      (brs.flatMap fun (φ, u) =>
        [(projectQ n qi false φ, setBit u ci false), (projectQ n qi true φ, setBit u ci true)]).filter
          fun b => nonzero b.1) [(ψ, w)])
  | .reset q => do
    let (ql, _) ← resolveArg rg.qregs q
    pure (ql.foldl (fun brs qi =>
      (brs.flatMap fun (φ, u) =>
        [(projectQ n qi false φ, u), (flipQ n qi (projectQ n qi true φ), u)]).filter
          fun b => nonzero b.1) [(ψ, w)])
  | .barrier _ => some [(ψ, w)]

def runStmt (n : Nat) (rg : Regs) (nonzero : List α → Bool) (s : Stmt) (br : Branch α) :
    Option (List (Branch α)) :=
  match s with
  | .qreg _ _ | .creg _ _ => some [br]
  | .op o => runOp (P := P) n rg nonzero o br
  | .cond c k o =>
    match findReg rg.cregs c with
    | none => none
    | some (off, sz) => if slice br.2 off sz = k then runOp (P := P) n rg nonzero o br else some [br]

def runStmts (n : Nat) (rg : Regs) (nonzero : List α → Bool) : List Stmt → List (Branch α) →
    Option (List (Branch α))
  | [], brs => some brs
  | s :: ss, brs => (brs.mapM (runStmt (P := P) n rg nonzero s)).bind fun l => runStmts n rg nonzero ss l.flatten

/-- `|0…0⟩` on `n` qubits -/
def zeroState (n : Nat) : List α := (List.range (2 ^ n)).map fun i => if i = 0 then 1 else 0

/-- all branches of one shot of the program, from `|0…0⟩` and the all-zero classical registers -/
def run (nonzero : List α → Bool) (p : Program) : Option (List (Branch α)) :=
  let rg := allRegs p
  let n := total rg.qregs
  runStmts (P := P) n rg nonzero p.stmts [(zeroState n, 0)]

end run

end Q1t.Spec.OQ2

import Q1t.Spec.Embed
/-!
Reference notions for C04 beyond `embed`: validity of a placement, the index map that gathers the
listed qubits to the front, and the block product `(M ⊗ I_t)·v`.  Import-free, executable.
-/
namespace Q1t.Spec
open Q1t

/-- `bits` are distinct qubits of an `n`-qubit register -/
def validBits (n : Nat) (bits : List Nat) : Bool := bits.all (· < n) && bits.Nodup

/-- the qubits that are not listed, in increasing order -/
def others (n : Nat) (bits : List Nat) : List Nat := (List.range n).filter fun q => !bits.contains q

/-- the index obtained from `i` by moving the listed qubits to the front (in the listed order) and
keeping the other qubits in their order -/
def gatherIndex (n : Nat) (bits : List Nat) (i : Nat) : Nat := subIndex n (bits ++ others n bits) i

variable {α : Type} [Zero α] [Add α] [Mul α]

/-- `(M ⊗ I_t)·v` for a `d×d` matrix `M` and a vector of `d·t` entries: entry `(i, j)` of the result
is `Σ_c M[i][c] · v[c·t + j]` -/
def blockMulVec (M : LMat α) (t : Nat) (v : List α) : List α :=
  (List.range M.length).flatMap fun i => (List.range t).map fun j =>
    (List.range M.length).foldl (fun acc c => acc + LMat.get M i c * v.getD (c * t + j) 0) 0

end Q1t.Spec

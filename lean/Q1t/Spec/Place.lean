import Q1t.Spec.Embed
import Q1t.Model.Gate
/-!
Reference notions for C04 beyond `embed`: validity of a placement, the index map that gathers the
listed qubits to the front, and the block product `(M ⊗ I_t)·v`.  Import-free, executable.
-/
namespace Q1t.Spec
open Q1t

/-- `bits` are distinct qubits of an `n`-qubit register -/
def validBits (n : Nat) (bits : List Nat) : Bool := bits.all (· < n) && bits.Nodup

/-- the qubits that are not listed, in increasing order -/
def others (n : Nat) (bits : List Nat) : List Nat := (List.range n).filter fun q => !bits.contains q

/-- the index obtained from `i` by moving the listed qubits to the front (in the listed order) and
keeping the other qubits in their order -/
def gatherIndex (n : Nat) (bits : List Nat) (i : Nat) : Nat := subIndex n (bits ++ others n bits) i

variable {α : Type} [Zero α] [Add α] [Mul α]

/-! A route acts on a list of rows (`Row α m`: an amplitude in mode `vec`, a matrix row in mode
`mat`).  The reference result is given entry by entry (only the *types* `Mode`/`Row` are shared
with the model). -/

/-- number of entries of a row -/
def rowWidth : (m : Mode) → Row α m → Nat
  | .vec, _ => 1
  | .mat, r => r.length

/-- entry `col` of a row -/
def rowEntry : (m : Mode) → Row α m → Nat → α
  | .vec, r, _ => r
  | .mat, r, c => r.getD c 0

/-- the row of width `w` with entries `f 0 … f (w-1)` (`w = 1` in mode `vec`) -/
def rowMk : (m : Mode) → Nat → (Nat → α) → Row α m
  | .vec, _, f => f 0
  | .mat, w, f => (List.range w).map f

/-- entry `col` of row `k` of a state, 0 outside -/
def stateEntry (m : Mode) (v : List (Row α m)) (k col : Nat) : α :=
  match v[k]? with
  | some r => rowEntry m r col
  | none => 0

/-- `Σ_{c<d} f c`, left to right from 0 -/
def sumTo (d : Nat) (f : Nat → α) : α := (List.range d).foldl (fun acc c => acc + f c) 0

/-- `(M ⊗ I_t)·v` for a `d×d` matrix `M` and a state of `d·t` rows of width `w`: row `i·t + j` of the
result has entries `Σ_c M[i][c] · v[c·t + j][col]` -/
def blockMul (m : Mode) (w : Nat) (M : LMat α) (t : Nat) (v : List (Row α m)) : List (Row α m) :=
  (List.range (M.length * t)).map fun r => rowMk m w fun col =>
    sumTo M.length fun c => LMat.get M (r / t) c * stateEntry m v (c * t + r % t) col

/-- `A·v` row-wise: row `r` of the result has entries `Σ_c A[r][c] · v[c][col]` -/
def mulState (m : Mode) (w : Nat) (A : LMat α) (v : List (Row α m)) : List (Row α m) :=
  (List.range A.length).map fun r => rowMk m w fun col =>
    sumTo A.length fun c => LMat.get A r c * stateEntry m v c col


/-! ### well-formed gate terms, and the reference semantics of a list of placed gates -/

section terms
variable {P : Type}

mutual
/-- a gate term whose composite placements have matching arity and distinct in-range qubits
(composites act on at least one qubit) -/
def WF : GateTerm P → Prop
  | .C g => WF g
  | .Kron g0 g1 => WF g0 ∧ WF g1
  | .Composite _ n ops => 0 < n ∧ WFOps n ops
  | .Loop _ _ _ n body => 0 < n ∧ WFOps n body
  | _ => True
def WFOps (n : Nat) : OpList P → Prop
  | .nil => True
  | .cons g bits rest => WF g ∧ Gate.nrBits g = bits.length ∧ validBits n bits = true ∧ WFOps n rest
end

mutual
/-- apply the ops in order to a state of an `N`-qubit register: each op multiplies by the matrix
`matOf g` embedded on its qubits -/
def applyOps (matOf : GateTerm P → LMat α) (m : Mode) (w N : Nat) :
    OpList P → List (Row α m) → List (Row α m)
  | .nil, v => v
  | .cons g bits rest, v => applyOps matOf m w N rest (mulState m w (embed N bits (matOf g)) v)
end

mutual
/-- the ordered matrix product `E_k ⋯ E_2 E_1 · acc` of the embedded matrices (first op acts first) -/
def opsMatrix [One α] (matOf : GateTerm P → LMat α) (n : Nat) : OpList P → LMat α → LMat α
  | .nil, acc => acc
  | .cons g bits rest, acc => opsMatrix matOf n rest (LMat.mul (embed n bits (matOf g)) acc)
end

end terms

end Q1t.Spec

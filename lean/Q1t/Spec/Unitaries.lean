import Q1t.Base.Amp
import Q1t.Model.Gate
import Q1t.Spec.Embed
/-!
Reference semantics for C05: the *documented* unitary of every gate term, defined without reference
to any application route: Paulis, H, S, T, V and adjoints as the standard matrices;
`R_P(θ) = cos(θ/2)·1 − i·sin(θ/2)·P`; `U3(θ,φ,λ)` per OpenQASM; `U2(φ,λ) = U3(π/2,φ,λ)`;
`U1(λ) = diag(1, e^{iλ})`; controlled = `1 ⊕ G`; tensor product = Kronecker product;
composite = ordered product of its sub-gates embedded on their local qubits; loop = power.
(The gate *syntax* `GateTerm` is shared with the model; the semantics here is independent.)
-/
namespace Q1t.Spec
open Q1t

variable {α P : Type} [Zero α] [One α] [Add α] [Mul α] [Neg α] [Sub α] [Amp α P]

/-- `e^{iθ}` -/
def expi (θ : P) : α := Amp.cos θ + Amp.I P * Amp.sin θ

def pauliX : LMat α := [[0, 1], [1, 0]]
def pauliY : LMat α := [[0, -(Amp.I P)], [Amp.I P, 0]]
def pauliZ : LMat α := [[1, 0], [0, -1]]

/-- `cos(θ/2)·1 − i·sin(θ/2)·P` for a 2×2 matrix `Pm` -/
def rot (θ : P) (Pm : LMat α) : LMat α :=
  let c : α := Amp.cos (Amp.phalf α θ); let s : α := Amp.sin (Amp.phalf α θ)
  (List.range 2).map fun i => (List.range 2).map fun j =>
    (if i = j then c else 0) - Amp.I P * s * LMat.get Pm i j

mutual
def specMatrix : GateTerm P → LMat α
  | .I => [[1, 0], [0, 1]]
  | .X => pauliX | .Y => pauliY (P := P) | .Z => pauliZ
  | .H => let x : α := Amp.hsqrt2 P; [[x, x], [x, -x]]
  | .S => [[1, 0], [0, Amp.I P]] | .Sdg => [[1, 0], [0, -(Amp.I P)]]
  | .T => [[1, 0], [0, Amp.zeta8 P]] | .Tdg => [[1, 0], [0, Amp.conj P (Amp.zeta8 P)]]
  | .V => let h : α := Amp.half P; let i : α := Amp.I P
      [[h * (1 + i), h * (1 - i)], [h * (1 - i), h * (1 + i)]]
  | .Vdg => let h : α := Amp.half P; let i : α := Amp.I P
      [[h * (1 - i), h * (1 + i)], [h * (1 + i), h * (1 - i)]]
  | .RX θ => rot θ pauliX | .RY θ => rot θ (pauliY (P := P)) | .RZ l => rot l pauliZ
  | .U1 l => [[1, 0], [0, expi l]]
  | .U2 φ l => let x : α := Amp.hsqrt2 P
      [[x, -(x * expi l)], [x * expi φ, x * expi (Amp.padd α φ l)]]
  | .U3 θ φ l =>
      let c : α := Amp.cos (Amp.phalf α θ); let s : α := Amp.sin (Amp.phalf α θ)
      [[c, -(expi l * s)], [expi φ * s, expi (Amp.padd α φ l) * c]]
  | .CX => ctrl pauliX | .CY => ctrl (pauliY (P := P)) | .CZ => ctrl pauliZ
  | .Swap => [[1, 0, 0, 0], [0, 0, 1, 0], [0, 1, 0, 0], [0, 0, 0, 1]]
  | .C g => ctrl (specMatrix g)
  | .Kron g0 g1 => kronecker (specMatrix g0) (specMatrix g1)
  | .Composite _ n ops => specOps ops n (LMat.identity (2 ^ n))
  | .Loop _ iters _ n body => mpow (specOps body n (LMat.identity (2 ^ n))) iters

/-- ordered product: the first op acts first, so later ops multiply on the left -/
def specOps : OpList P → Nat → LMat α → LMat α
  | .nil, _, acc => acc
  | .cons g bits rest, n, acc => specOps rest n (LMat.mul (embed n bits (specMatrix g)) acc)
end

/-- `M · Mᴴ` -/
def mulAdjoint (M : LMat α) : LMat α :=
  LMat.mul M (LMat.transpose M.length (LMat.mapEntries (Amp.conj P) M))

end Q1t.Spec

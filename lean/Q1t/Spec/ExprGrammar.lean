import Q1t.Base.DecFloat
/-!
Reference semantics for C14, written without looking at how `src/expression.rs` parses
(Mathlib-free, executable).

* `Ast` — abstract syntax of the documented grammar: decimal and integer literals, `pi`, `+ - * / ^`,
  unary minus, the six functions.
* `evalConv` — the conventional value of an `Ast` under any interpretation of the float operations.
* `Cst` — concrete syntax: an `Ast` decorated with the blanks before every token and with explicit
  parenthesis nodes.  `Cst.flatten` is the rendered text, `Cst.toAst` forgets layout and parentheses.
* `Conv` — conventional parenthesisation: `^` right-associative and tighter than unary minus (whose
  operand may itself be a power or a unary minus), `* /` left-associative above `+ -`, a unary minus may
  directly follow `+ - * /` (`2*-3`, `2--3`); both operands of `^` bind at least as tight as `^`
  (base: an atom; exponent: an atom or another power), so a signed exponent is written `2^(-1)` — a
  bare `2^-1` is outside the grammar (a `^` that is not followed by an operand of the power level is a
  dangling operator); anything else needs parentheses; extra parentheses are allowed anywhere.
* `layOut` — the conventional renderer: minimal parentheses, blanks and optional redundant parentheses
  taken from a `Layout`.
* `Stops` — remainders that cannot continue an expression.
-/
namespace Q1t.Spec.ExprGrammar
open Q1t.DecFloat (isDigit digitsToNat decToBits)

inductive Fn where
  | sin | cos | tan | exp | ln | sqrt
deriving DecidableEq, Repr, Inhabited

def Fn.name : Fn → List Char
  | .sin => ['s', 'i', 'n'] | .cos => ['c', 'o', 's'] | .tan => ['t', 'a', 'n']
  | .exp => ['e', 'x', 'p'] | .ln => ['l', 'n'] | .sqrt => ['s', 'q', 'r', 't']

inductive BinOp where
  | add | sub | mul | div | pow
deriving DecidableEq, Repr, Inhabited

def BinOp.sym : BinOp → Char
  | .add => '+' | .sub => '-' | .mul => '*' | .div => '/' | .pow => '^'

/-- Exponent part of a decimal literal: marker `e`/`E`, optional sign, digits. -/
structure ExpPart where
  marker : Char
  sign : Option Char
  digits : List Char
deriving DecidableEq, Repr, Inhabited

/-- Literal tokens: `int ds` (digits, no superfluous leading zero), `dec ip fp ex` (`ip . fp [exponent]`,
at least one digit in `ip ++ fp`), `pi`. -/
inductive LitTok where
  | int (ds : List Char)
  | dec (ip fp : List Char) (ex : Option ExpPart)
  | pi
deriving DecidableEq, Repr, Inhabited

def ExpPart.text (x : ExpPart) : List Char :=
  x.marker :: ((match x.sign with | some c => [c] | none => []) ++ x.digits)

def LitTok.text : LitTok → List Char
  | .int ds => ds
  | .dec ip fp ex => ip ++ '.' :: fp ++ (match ex with | some x => x.text | none => [])
  | .pi => ['p', 'i']

def allDigits (ds : List Char) : Bool := ds.all isDigit

def ExpPart.WF (x : ExpPart) : Bool :=
  (x.marker == 'e' || x.marker == 'E') &&
  (match x.sign with | some c => c == '+' || c == '-' | none => true) &&
  !x.digits.isEmpty && allDigits x.digits

/-- Well-formed tokens of the documented grammar. -/
def LitTok.WF : LitTok → Bool
  | .int ds => allDigits ds && (ds == ['0'] || (match ds with | c :: _ => c != '0' | [] => false))
  | .dec ip fp ex => allDigits ip && allDigits fp && !(ip.isEmpty && fp.isEmpty) &&
      (match ex with | some x => x.WF | none => true)
  | .pi => true

/-- The decimal value `m · 10^e` a token denotes (`pi` aside). -/
def LitTok.decimal : LitTok → Nat × Int
  | .int ds => (digitsToNat ds, 0)
  | .dec ip fp ex =>
    let e : Int := match ex with
      | some x => (match x.sign with | some '-' => - (digitsToNat x.digits : Int) | _ => (digitsToNat x.digits : Int))
      | none => 0
    (digitsToNat (ip ++ fp), e - fp.length)
  | .pi => (0, 0)

/-- The IEEE double a token denotes: the nearest double of its decimal value; `pi` is the double nearest π. -/
def LitTok.bits : LitTok → UInt64
  | .pi => 0x400921FB54442D18
  | t => decToBits t.decimal.1 t.decimal.2

inductive Ast where
  | lit (t : LitTok)
  | bin (op : BinOp) (a b : Ast)
  | neg (a : Ast)
  | app (f : Fn) (a : Ast)
deriving DecidableEq, Repr, Inhabited

/-- An interpretation of the operations of the grammar. -/
structure Interp (F : Type) where
  lit : LitTok → F
  bin : BinOp → F → F → F
  neg : F → F
  app : Fn → F → F

/-- Conventional value. -/
def evalConv {F} (I : Interp F) : Ast → F
  | .lit t => I.lit t
  | .bin op a b => I.bin op (evalConv I a) (evalConv I b)
  | .neg a => I.neg (evalConv I a)
  | .app f a => I.app f (evalConv I a)

/-- The IEEE interpretation. -/
def ieee : Interp Float where
  lit t := Float.ofBits t.bits
  bin op x y := match op with
    | .add => x + y | .sub => x - y | .mul => x * y | .div => x / y | .pow => Float.pow x y
  neg x := -x
  app f x := match f with
    | .sin => Float.sin x | .cos => Float.cos x | .tan => Float.tan x
    | .exp => Float.exp x | .ln => Float.log x | .sqrt => Float.sqrt x

/-- Only correctly rounded operations (`+ - * /`, unary minus, `sqrt`) below: value is bit-exact. -/
def Ast.exactOps : Ast → Bool
  | .lit _ => true
  | .bin op a b => op != .pow && a.exactOps && b.exactOps
  | .neg a => a.exactOps
  | .app f a => f == .sqrt && a.exactOps

/-! ### Concrete syntax -/

abbrev Blank := List Char

inductive Cst where
  | lit (w : Blank) (t : LitTok)
  | bin (op : BinOp) (a : Cst) (w : Blank) (b : Cst)
  | neg (w : Blank) (a : Cst)
  | app (w1 : Blank) (f : Fn) (w2 : Blank) (a : Cst) (w3 : Blank)
  | paren (w1 : Blank) (a : Cst) (w2 : Blank)
deriving DecidableEq, Repr, Inhabited

def Cst.flatten : Cst → List Char
  | .lit w t => w ++ t.text
  | .bin op a w b => a.flatten ++ (w ++ op.sym :: b.flatten)
  | .neg w a => w ++ '-' :: a.flatten
  | .app w1 f w2 a w3 => w1 ++ (f.name ++ (w2 ++ '(' :: (a.flatten ++ (w3 ++ [')']))))
  | .paren w1 a w2 => w1 ++ '(' :: (a.flatten ++ (w2 ++ [')']))

def Cst.toAst : Cst → Ast
  | .lit _ t => .lit t
  | .bin op a _ b => .bin op a.toAst b.toAst
  | .neg _ a => .neg a.toAst
  | .app _ f _ a _ => .app f a.toAst
  | .paren _ a _ => a.toAst

/-- White space: Unicode `White_Space`. -/
def isBlank (c : Char) : Bool :=
  let n := c.toNat
  (9 ≤ n && n ≤ 13) || n == 0x20 || n == 0x85 || n == 0xA0 || n == 0x1680 ||
  (0x2000 ≤ n && n ≤ 0x200A) || n == 0x2028 || n == 0x2029 || n == 0x202F || n == 0x205F || n == 0x3000

/-- All layout strings are blank, all tokens well formed. -/
def Cst.WF : Cst → Bool
  | .lit w t => w.all isBlank && t.WF
  | .bin _ a w b => a.WF && w.all isBlank && b.WF
  | .neg w a => w.all isBlank && a.WF
  | .app w1 _ w2 a w3 => w1.all isBlank && w2.all isBlank && a.WF && w3.all isBlank
  | .paren w1 a w2 => w1.all isBlank && a.WF && w2.all isBlank

/-- Binding level of the outermost construct: 0 sum, 1 product, 2 unary minus, 3 power, 4 atom. -/
def Cst.level : Cst → Nat
  | .bin .add _ _ _ | .bin .sub _ _ _ => 0
  | .bin .mul _ _ _ | .bin .div _ _ _ => 1
  | .neg _ _ => 2
  | .bin .pow _ _ _ => 3
  | _ => 4

/-- Levels required of the two operands of a binary operator. -/
def BinOp.needs : BinOp → Nat × Nat
  | .add | .sub => (0, 1)
  | .mul | .div => (1, 2)
  | .pow => (4, 3)

/-- Conventionally parenthesised. -/
def Conv : Cst → Bool
  | .lit _ _ => true
  | .bin op a _ b => op.needs.1 ≤ a.level && op.needs.2 ≤ b.level && Conv a && Conv b
  | .neg _ a => 2 ≤ a.level && Conv a
  | .app _ _ _ a _ => Conv a
  | .paren _ a _ => Conv a

/-- Some unary minus is applied directly (no parentheses) to another unary minus: `--x`, `- -x`. -/
def Cst.adjNeg : Cst → Bool
  | .lit _ _ => false
  | .bin _ a _ b => a.adjNeg || b.adjNeg
  | .neg _ a => a.level == 2 || a.adjNeg
  | .app _ _ _ a _ => a.adjNeg
  | .paren _ a _ => a.adjNeg

/-- Some integer literal exceeds 2^64 - 1. -/
def Cst.bigInt : Cst → Bool
  | .lit _ (.int ds) => 2 ^ 64 ≤ digitsToNat ds
  | .lit _ _ => false
  | .bin _ a _ b => a.bigInt || b.bigInt
  | .neg _ a => a.bigInt
  | .app _ _ _ a _ => a.bigInt
  | .paren _ a _ => a.bigInt

/-- All tokens well formed. -/
def Ast.WF : Ast → Bool
  | .lit t => t.WF
  | .bin _ a b => a.WF && b.WF
  | .neg a => a.WF
  | .app _ a => a.WF

/-- Some integer literal exceeds 2^64 - 1. -/
def Ast.bigInt : Ast → Bool
  | .lit (.int ds) => 2 ^ 64 ≤ digitsToNat ds
  | .lit _ => false
  | .bin _ a b => a.bigInt || b.bigInt
  | .neg a => a.bigInt
  | .app _ a => a.bigInt

/-- Layout: a supply of blank strings and of "put redundant parentheses here" flags, consumed in order. -/
structure Layout where
  blanks : List Blank
  parens : List Bool
deriving Repr, Inhabited

/-- Every string of the supply consists of white space. -/
def Layout.OK (l : Layout) : Prop := ∀ w ∈ l.blanks, w.all isBlank = true

def Layout.blank (l : Layout) : Blank × Layout :=
  match l.blanks with
  | [] => ([], l)
  | w :: ws => (w, { l with blanks := ws })

def Layout.flag (l : Layout) : Bool × Layout :=
  match l.parens with
  | [] => (false, l)
  | b :: bs => (b, { l with parens := bs })

def Ast.level : Ast → Nat
  | .bin .add _ _ | .bin .sub _ _ => 0
  | .bin .mul _ _ | .bin .div _ _ => 1
  | .neg _ => 2
  | .bin .pow _ _ => 3
  | _ => 4

/-- The conventional renderer, as a concrete syntax tree: `a` laid out in a position that needs binding
level `need`.  Parentheses where the level is too low, or where the layout asks for redundant ones. -/
def wrap (lvl need : Nat) (l : Layout) (body : Layout → Cst × Layout) : Cst × Layout :=
  let (extra, l) := l.flag
  if lvl < need || extra then
    let (w1, l) := l.blank
    let (c, l) := body l
    let (w2, l) := l.blank
    (.paren w1 c w2, l)
  else body l

def layOut : Ast → Nat → Layout → Cst × Layout
  | .lit t, need, l => wrap 4 need l fun l => let (w, l) := l.blank; (.lit w t, l)
  | .bin op a b, need, l => wrap (Ast.bin op a b).level need l fun l =>
      let (ca, l) := layOut a op.needs.1 l
      let (w, l) := l.blank
      let (cb, l) := layOut b op.needs.2 l
      (.bin op ca w cb, l)
  | .neg a, need, l => wrap 2 need l fun l =>
      let (w, l) := l.blank
      let (c, l) := layOut a 2 l
      (.neg w c, l)
  | .app f a, need, l => wrap 4 need l fun l =>
      let (w1, l) := l.blank
      let (w2, l) := l.blank
      let (c, l) := layOut a 0 l
      let (w3, l) := l.blank
      (.app w1 f w2 c w3, l)

/-- `render ast layout`: the text. -/
def render (a : Ast) (l : Layout) : List Char := (layOut a 0 l).1.flatten

/-- A remainder that cannot continue an expression: empty, or it does not start with a digit, `.`, `e`, `E`
(which could extend the last literal) and its first non-blank character is none of `+ - * / ^`. -/
def Stops (rest : List Char) : Bool :=
  match rest with
  | [] => true
  | c :: _ =>
    !(isDigit c || c == '.' || c == 'e' || c == 'E') &&
    (match rest.dropWhile isBlank with
     | [] => true
     | d :: _ => !(d == '+' || d == '-' || d == '*' || d == '/' || d == '^'))

/-- Sufficient condition for "cannot start an expression": after the blanks the text is empty, or starts
with neither a digit, `.`, `-`, `(`, `pi` nor a function name. -/
def cannotStart (s : List Char) : Bool :=
  match s.dropWhile isBlank with
  | [] => true
  | c :: t =>
    !(isDigit c || c == '.' || c == '-' || c == '(') &&
    !((c :: t).take 2 == ['p', 'i']) &&
    !([Fn.sin, .cos, .tan, .exp, .ln, .sqrt].any fun f => (c :: t).take f.name.length == f.name)

end Q1t.Spec.ExprGrammar

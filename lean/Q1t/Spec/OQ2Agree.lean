import Q1t.Spec.OQ2Obligation
import Q1t.Spec.Born
/-! ### exact comparison of a whole (parameter-free) circuit with its exported program -/
namespace Q1t.OpenQasm
open Q1t.Spec.OQ2

def nonzeroQ8 (ψ : List Q8) : Bool := ψ.any (· != 0)

/-- unnormalised density matrix of the branches that end with register value `w` -/
def densityQ8 (dim : Nat) (brs : List (List Q8 × Nat)) (w : Nat) : LMat Q8 :=
  (List.range dim).map fun i => (List.range dim).map fun j =>
    (brs.filter (·.2 == w)).foldl (fun acc b => acc + b.1.getD i 0 * Q8.conj (b.1.getD j 0)) 0

/-- Does the program the model exports for `c` (displayed numbers replaced by 0: use parameter-free circuits)
have, for every register value, the same unnormalised density matrix of final states as the Born semantics of
`c`?  `none`: the export fails, is not a program, or one of the two semantics is undefined. -/
def exactAgree (c : QCircuit QPi) : Option Bool := do
  let ls ← match exportCircuit libTable c with
    | .ok ls => some ls
    | _ => none
  let prog ← toProgram ls
  let ops ← c.ops.mapM QOp.toCOp
  let bs ← Spec.branches (α := Q8) (P := QPi) c.nq nonzeroQ8 ops [(zeroState c.nq, 0)]
  let ps ← run (α := Q8) (P := QPi) nonzeroQ8 prog
  pure ((List.range (2 ^ c.nc)).all fun w => densityQ8 (2 ^ c.nq) bs w == densityQ8 (2 ^ c.nq) ps w)

end Q1t.OpenQasm

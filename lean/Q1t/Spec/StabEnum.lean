import Q1t.Spec.Stab
/-!
Enumeration of all stabilizer states of `n` qubits as pairs (model tableau, canonical exact vector),
by breadth-first closure of `|0…0⟩` under {H, S, CX} — the tableau side computed by the *model*
(`Tab.applyGate` with the given phase table and conjugation function), the vector side by the
reference semantics.  Used by the finite, kernel-checked theorems of C03 and by the driver.

Also the list of all operations checked exhaustively on every enumerated state.
-/
namespace Q1t.Spec.StabEnum
open Q1t Q1t.Tableau Q1t.Spec.Pauli Q1t.Spec.Stab

/-- Parameters of the model: phase table and conjugation function per gate name. -/
structure Params where
  ph : List Nat
  conj : SGate → Tab.Conj

abbrev Pair := Tab × Vec

def stepT (pr : Params) (t : Tab) (g : SGate) (bits : List Nat) : Res Tab :=
  t.applyGate pr.ph (pr.conj g) bits

def stepV (n : Nat) (v : Vec) (g : SGate) (bits : List Nat) : Vec :=
  match applyGateG g n bits v with
  | some w => Z8.canonRay w
  | none => []

/-- successors of one pair under the closure generators; `none` if the model does not return `ok` -/
def succs (pr : Params) (n : Nat) (tv : Pair) : Option (List Pair) :=
  (gens n).mapM fun g =>
    match stepT pr tv.1 g.gate g.bits with
    | .ok t => some (t, stepV n tv.2 g.gate g.bits)
    | _ => none

def insertNew (acc : List Pair × List Pair) (tv : Pair) : List Pair × List Pair :=
  if acc.1.any (fun s => s.1 == tv.1) then acc else (tv :: acc.1, tv :: acc.2)

/-- BFS; `none` if the model fails somewhere or the fuel runs out before the frontier is empty -/
def bfs (pr : Params) (n : Nat) : Nat → List Pair → List Pair → Option (List Pair)
  | 0, _, _ => none
  | fuel + 1, seen, frontier =>
    match frontier.mapM (succs pr n) with
    | none => none
    | some nexts =>
      let (seen', fr') := nexts.flatten.foldl insertNew (seen, [])
      if fr'.isEmpty then some seen' else bfs pr n fuel seen' fr'

def start (n : Nat) : Pair := (Tab.new n, Vec.basis n 0)

/-- all (tableau, vector) pairs reachable from `|0…0⟩` -/
def closure (pr : Params) (n fuel : Nat) : Option (List Pair) :=
  bfs pr n fuel [start n] [start n]

/-! ### the operations checked on every state -/

/-- the library's primitive stabilizer gates -/
def gates1 : List SGate := SGate.all1
def gates2 : List SGate := SGate.all2

/-- every library stabilizer gate on every ordered tuple of distinct qubits -/
def gateOps (n : Nat) : List (SGate × List Nat) :=
  (gates1.flatMap fun g => (List.range n).map fun q => (g, [q])) ++
  (gates2.flatMap fun g => (List.range n).flatMap fun a =>
    ((List.range n).filter (· != a)).map fun b => (g, [a, b]))

/-- the tableau associated with a (canonical) vector in an enumeration -/
def tabOfVec (all : List Pair) (v : Vec) : Option Tab :=
  (all.find? (fun tv => tv.2 == v)).map (·.1)

/-- gate check on one state: for every gate and placement the model's result is the tableau that the
enumeration associates with the state-vector result -/
def gatesOk (pr : Params) (n : Nat) (all : List Pair) (tv : Pair) : Bool :=
  (gateOps n).all fun gb =>
    match stepT pr tv.1 gb.1 gb.2 with
    | .ok t => tabOfVec all (stepV n tv.2 gb.1 gb.2) == some t
    | _ => false

/-- measurement check on one state and qubit: classification against block norms; for a random qubit
both collapses agree with the projected vectors -/
def measureOk (pr : Params) (n : Nat) (all : List Pair) (tv : Pair) (q : Nat) : Bool :=
  match tv.1.measure q, measKind n q tv.2 with
  | .ok (.deterministic b), .certain b' => b == b'
  | .ok (.random i), .fair =>
    [false, true].all fun b =>
      match tv.1.collapse pr.ph i q b with
      | .ok t => tabOfVec all (Z8.canonRay (proj n q b tv.2)) == some t
      | _ => false
  | _, _ => false

/-- the state after a *correct* reset when it is pure: `X^b ψ` for a certain qubit; for a fair qubit
`P₀ψ`, provided `X P₁ψ` is the same ray (qubit not entangled) -/
def resetPure (n q : Nat) (v : Vec) : Option Vec :=
  match measKind n q v with
  | .certain false => some (Z8.canonRay v)
  | .certain true => some (Z8.canonRay (apply1 ⟨0, 1, 1, 0⟩ n q v))
  | .fair =>
    let v0 := Z8.canonRay (proj n q false v)
    let v1 := Z8.canonRay (apply1 ⟨0, 1, 1, 0⟩ n q (proj n q true v))
    if v0 == v1 then some v0 else none
  | .other => none

/-- reset check: whenever the correct result is a pure state, the model produces its tableau;
otherwise (entangled random qubit, defect D4) the model produces the tableau of `P₀ψ` -/
def resetOk (pr : Params) (n : Nat) (all : List Pair) (tv : Pair) (q : Nat) : Bool :=
  match tv.1.reset pr.ph q with
  | .ok t =>
    match resetPure n q tv.2 with
    | some w => tabOfVec all w == some t
    | none => tabOfVec all (Z8.canonRay (proj n q false tv.2)) == some t
  | _ => false

/-- the tableau is stabilizing and canonical for the model (a fixed point of `normalize`) -/
def pairOk (pr : Params) (tv : Pair) : Bool :=
  stabilizesB tv.1 tv.2 && tv.1.normalize pr.ph == .ok tv.1 && Z8.canonRay tv.2 == tv.2

def nodupBy {α} (eq : α → α → Bool) : List α → Bool
  | [] => true
  | x :: xs => !xs.any (eq x) && nodupBy eq xs

/-- everything, for all states of the list `all` (`n` qubits) -/
def allOkOn (pr : Params) (n : Nat) (all : List Pair) : Bool :=
  nodupBy (fun a b => a.1 == b.1) all && nodupBy (fun a b => a.2 == b.2) all &&
  all.all fun tv =>
    pairOk pr tv && gatesOk pr n all tv &&
    (List.range n).all fun q => measureOk pr n all tv q && resetOk pr n all tv q

/-- everything, for all enumerated states of `n` qubits -/
def allOk (pr : Params) (n fuel : Nat) : Bool :=
  match closure pr n fuel with
  | none => false
  | some all => allOkOn pr n all

/-- states on which reset of qubit `q` is the defect D4 (fair and entangled) -/
def resetDefect (n q : Nat) (v : Vec) : Bool :=
  measKind n q v == .fair && (resetPure n q v).isNone

end Q1t.Spec.StabEnum

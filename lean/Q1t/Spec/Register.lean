import Q1t.Model.Register
import Q1t.Spec.Bits
/-!
Reference semantics for C08: what the property says a circuit does to the classical register of one
shot, and what the three histogram views are.  Shares only the *syntax* (`Op`, `G`, `Shot`) and the
gate action on basis states with the model; the register semantics is written from the property
text: a write to bit `c` sets bit `c` and nothing else; measure-all / peek-all write qubit `i` to the
`i`-th listed bit, one after the other; gates and resets do not touch the register.
-/
namespace Q1t.Spec.Register
open Q1t.Register

abbrev Word := BitVec 64

/-- The program is inside the domain the property speaks about: every classical bit index is below
64 and below the register width, every qubit index is in range, measure-all/peek-all list exactly
one bit per qubit, gates are in the basis-state fragment with the right arity. -/
def opValid (nq nc : Nat) : Op → Bool
  | .gate g bits => bits.all (· < nq) && (applyG g bits (List.replicate nq false)).isSome
  | .cond control _ g bits => control.all (fun c => c < nc && c < 64) && control.length ≤ 64 &&
      bits.all (· < nq) && (applyG g bits (List.replicate nq false)).isSome
  | .measure q c | .peek q c => q < nq && c < nc && c < 64
  | .measureAll cbits | .peekAll cbits => cbits.length = nq && cbits.all (fun c => c < nc && c < 64)
  | .reset q => q < nq
  | .resetAll => true
  | .barrier bits => bits.all (· < nq)

/-- reference effect of one operation on one shot -/
def step (nq : Nat) (op : Op) (s : Shot) : Shot :=
  match op with
  | .gate g bits => ⟨(applyG g bits s.qs).getD s.qs, s.word⟩
  | .cond control target g bits =>
    if Spec.Bits.select control s.word = target then ⟨(applyG g bits s.qs).getD s.qs, s.word⟩ else s
  | .measure q c | .peek q c => ⟨s.qs, Spec.Bits.write s.word c (s.qs.getD q false)⟩
  | .measureAll cbits | .peekAll cbits =>
    ⟨s.qs, Spec.Bits.writeAll (fun q => s.qs.getD q false) cbits 0 s.word⟩
  | .reset q => ⟨s.qs.set q false, s.word⟩
  | .resetAll => ⟨List.replicate nq false, s.word⟩
  | .barrier _ => s

/-- the shot after every operation -/
def trace (nq : Nat) : List Op → Shot → List Shot
  | [], _ => []
  | op :: ops, s => step nq op s :: trace nq ops (step nq op s)

/-- MSB-first binary key of width `width`: character `width-1-i` is bit `i`; the last is bit 0 -/
def key (width : Nat) (k : Nat) : List Char :=
  (List.range width).reverse.map (fun i => if k.testBit i then '1' else '0')

def keysDistinct {κ} [BEq κ] : List (κ × Nat) → Bool
  | [] => true
  | kc :: rest => !(rest.any (fun x => x.1 == kc.1)) && keysDistinct rest

/-- A list of `(key, count)` pairs is a histogram of `cs` under the key map `f`: keys are distinct,
every listed count is positive and is the number of shots with that key, every shot's key is listed. -/
def isHistogram {κ} [BEq κ] (f : Word → κ) (cs : List Word) (h : List (κ × Nat)) : Bool :=
  h.all (fun kc => kc.2 > 0 && kc.2 == (cs.filter (fun w => f w == kc.1)).length) &&
  cs.all (fun w => h.any (fun kc => kc.1 == f w)) &&
  keysDistinct h

/-- `v` is the vector histogram of `cs` for an `nc`-bit register -/
def isVecHistogram (nc : Nat) (cs : List Word) (v : List Nat) : Bool :=
  v.length == 2 ^ nc &&
  (List.range v.length).all (fun k => v[k]! == (cs.filter (fun w => w.toNat == k)).length)

end Q1t.Spec.Register

import Q1t.Base.Amp
import Q1t.Model.Gate
/-!
Reference notions for C16 (and the `U3` decomposition of C05): scalar multiples of a matrix, and
"`g2` is the square of `g`" — exactly, or up to one global phase.  Import-free, executable.
-/
namespace Q1t.Spec
open Q1t

variable {α P : Type} [Zero α] [One α] [Add α] [Mul α] [Neg α] [Sub α]

/-- `c · M` -/
def scale (c : α) (M : LMat α) : LMat α := M.map fun row => row.map fun x => c * x

variable [Amp α P]

/-- `g2` denotes exactly the unitary of `g` applied twice -/
def sqOK (g g2 : GateTerm P) : Prop :=
  (Gate.matrix g2 : LMat α) = LMat.mul (Gate.matrix g) (Gate.matrix g)

/-- `g2` denotes the unitary of `g` applied twice up to the global phase `c` (a unit-modulus scalar) -/
def sqPhaseBy (c : α) (g g2 : GateTerm P) : Prop :=
  c * Amp.conj P c = 1 ∧
  (Gate.matrix g2 : LMat α) = scale c (LMat.mul (Gate.matrix g) (Gate.matrix g))

/-- `g2` denotes the unitary of `g` applied twice up to one global phase -/
def sqPhase (g g2 : GateTerm P) : Prop := ∃ c : α, sqPhaseBy c g g2

end Q1t.Spec

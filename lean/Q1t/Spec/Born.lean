import Q1t.Base.Amp
import Q1t.Model.Sim
import Q1t.Spec.Embed
import Q1t.Spec.Unitaries
/-!
Reference single-shot semantics of a circuit (C01/C02), written with textbook objects only:
documented unitaries embedded on their qubits (`Spec.embed`, `Spec.specMatrix`), projectors
`P_o^{(q)}`, no ranges, no block routes, no permutations.

* `replay ops outs ψ w` — run one shot with every recorded outcome *forced*: `outs[j]` is the
  register word of this shot right after operation `j`.  States are kept unnormalised, so the squared
  norm of a result is the probability of the forced outcome record.  A reset has a hidden outcome, so
  the result is a list of candidates (one per hidden record).
* `branches ops ψ w` — the full Born branching: all (final word, final state) pairs with their
  unnormalised states; the probability of a register value `v` is the sum of squared norms of the
  branches ending in `v`.
-/
namespace Q1t.Spec
open Q1t Q1t.Sim

variable {α P : Type} [Zero α] [One α] [Add α] [Mul α] [Neg α] [Sub α] [Amp α P]

/-- `M ψ` for the documented unitary of `g` on qubits `bits` of an `n`-qubit register -/
def gateOn (n : Nat) (g : GateTerm P) (bits : List Nat) (ψ : List α) : List α :=
  LMat.mulVec (embed n bits (specMatrix g)) ψ

/-- projector `|o⟩⟨o|` on qubit `q` -/
def project (n q : Nat) (o : Bool) (ψ : List α) : List α :=
  ψ.zipIdx.map fun (a, idx) => if (qbit n q idx == 1) == o then a else 0

/-- change to the eigenbasis of `b` on qubit `q` (so that a Z-measurement measures `b`) … -/
def toBasis (n q : Nat) (b : Basis) (ψ : List α) : List α :=
  match b with
  | .Z => ψ
  | .X => gateOn (P := P) n .H [q] ψ
  | .Y => gateOn (P := P) n .H [q] (gateOn (P := P) n .Sdg [q] ψ)

/-- … and back -/
def fromBasis (n q : Nat) (b : Basis) (ψ : List α) : List α :=
  match b with
  | .Z => ψ
  | .X => gateOn (P := P) n .H [q] ψ
  | .Y => gateOn (P := P) n .S [q] (gateOn (P := P) n .H [q] ψ)

/-- projective measurement of qubit `q` in basis `b` with outcome `o` (unnormalised) -/
def measureTo (n q : Nat) (b : Basis) (o : Bool) (ψ : List α) : List α :=
  fromBasis (P := P) n q b (project n q o (toBasis (P := P) n q b ψ))

def bitOf (w c : Nat) : Bool := (w >>> c) % 2 == 1

/-- measure all qubits in basis `b`, qubit `i` forced to `outs i` -/
def measureAllTo (n : Nat) (b : Basis) (outs : Nat → Bool) (ψ : List α) : List α :=
  (List.range n).foldl (fun φ q => measureTo (P := P) n q b (outs q) φ) ψ

/-- the word after writing bit `c` -/
def writeBit (w c : Nat) (o : Bool) : Nat := Sim.setBitTo w c o

/-- One operation of one shot with the post-operation word `w'` given (forced outcomes).
Returns the candidate (state, word) pairs; the empty list means the record is impossible for
structural reasons (a word that the operation cannot produce). Zero-norm candidates are kept here and
filtered by the caller (which has the norm test). -/
def replayOp (n : Nat) (nonzero : List α → Bool) (op : COp P) (ψ : List α) (w w' : Nat) :
    List (List α × Nat) :=
  match op with
  | .gate g bits => if w' = w then [(gateOn n g bits ψ, w)] else []
  | .cond control target g bits =>
      if w' ≠ w then [] else
      match controlWord control w with
      | none => []
      | some cw => [(if cw = target then gateOn n g bits ψ else ψ, w)]
  | .measure q c b =>
      let o := bitOf w' c
      if writeBit w c o = w' then [(measureTo (P := P) n q b o ψ, w')] else []
  | .peek q c b =>
      let o := bitOf w' c
      if writeBit w c o = w' ∧ nonzero (measureTo (P := P) n q b o ψ) then [(ψ, w')] else []
  | .measureAll cbits b =>
      let outs := fun q => bitOf w' (cbits.getD q 0)
      let wExp := (List.range n).foldl (fun acc q => writeBit acc (cbits.getD q 0) (outs q)) w
      if wExp = w' then [(measureAllTo (P := P) n b outs ψ, w')] else []
  | .peekAll cbits b =>
      let outs := fun q => bitOf w' (cbits.getD q 0)
      let wExp := (List.range n).foldl (fun acc q => writeBit acc (cbits.getD q 0) (outs q)) w
      if wExp = w' ∧ nonzero (measureAllTo (P := P) n b outs ψ) then [(ψ, w')] else []
  | .reset q =>
      if w' ≠ w then [] else
      [(project n q false ψ, w), (gateOn (P := P) n .X [q] (project n q true ψ), w)]
  | .resetAll =>
      -- reset every qubit in turn (hidden outcome per qubit): every candidate is a multiple of
      -- |0…0⟩ and the squared norms of the candidates add up to the squared norm of `ψ`
      if w' ≠ w then [] else
      ((List.range n).foldl (fun cands q => cands.flatMap fun φ =>
          [project n q false φ, gateOn (P := P) n .X [q] (project n q true φ)]) [ψ]).map fun φ => (φ, w)
  | .barrier _ => if w' = w then [(ψ, w)] else []

/-- forced replay of a whole shot; `outs` = the word after each operation -/
def replay (n : Nat) (nonzero : List α → Bool) : List (COp P) → List Nat → List (List α × Nat) →
    List (List α × Nat)
  | [], _, cands => cands
  | _ :: _, [], _ => []
  | op :: ops, w' :: outs, cands =>
      replay n nonzero ops outs
        ((cands.flatMap fun (ψ, w) => replayOp n nonzero op ψ w w').filter fun c => nonzero c.1)

/-- all words an operation can write given the current word (for the branching semantics) -/
def outcomesOf (n : Nat) (op : COp P) (w : Nat) : List Nat :=
  match op with
  | .measure _ c _ | .peek _ c _ => [writeBit w c false, writeBit w c true]
  | .measureAll cbits _ | .peekAll cbits _ =>
      (List.range (2 ^ n)).map fun k =>
        (List.range n).foldl (fun acc q => writeBit acc (cbits.getD q 0) ((k >>> q) % 2 == 1)) w
  | _ => [w]

/-- Born branching semantics of one operation on one branch `(ψ, w)` (unnormalised state: the squared
norm of `ψ` is the probability of the branch).  Peeks are not expressible without division (the state
is kept while the branch probability shrinks); `none` for them — the fragment F of C01 excludes peeks,
and the float driver handles them separately. -/
def branchesOp (n : Nat) (nonzero : List α → Bool) (op : COp P) (br : List α × Nat) :
    Option (List (List α × Nat)) :=
  let (ψ, w) := br
  match op with
  | .peek _ _ _ | .peekAll _ _ => none
  | _ =>
      some ((outcomesOf n op w).eraseDups.flatMap fun w' =>
        (replayOp n nonzero op ψ w w').filter fun c => nonzero c.1)

def branches (n : Nat) (nonzero : List α → Bool) : List (COp P) → List (List α × Nat) →
    Option (List (List α × Nat))
  | [], brs => some brs
  | op :: ops, brs =>
      (brs.mapM (branchesOp n nonzero op)).bind fun l => branches n nonzero ops l.flatten

end Q1t.Spec

import Q1t.Model.Gate
import Q1t.Spec.ExprGrammar
/-!
Reference semantics for C15, written from the documentation of `Composite::from_string` and of the gates
(Mathlib-free, executable).

* `documentedTable` — the documented gate names (lower case) with the gate struct they stand for, the number
  of parameters, the number of qubits and the order in which the parameters are passed.
* `docGate` — the gate a documented name stands for, as a gate term (whose documented unitary is
  `Spec.specMatrix`, C05).
* `PartL` — one sub-gate description *with its layout*: name as written (any letter case), argument
  expressions as concrete syntax trees (`ExprGrammar.Cst`: tree + blanks + parentheses), qubit indices as written
  (blanks before, superfluous leading zeros); `renderPart`/`renderDesc` — the text.
* `expected` — the composite gate a description denotes: the documented gates, in order, with the
  conventional values of the argument expressions, on the listed qubits; width = highest index + 1.
-/
namespace Q1t.Spec.FromString
open Q1t Q1t.Spec.ExprGrammar

/-- name ↦ (gate struct, #parameters, #qubits, parameter order), from the documentation; sorted by name (a lookup table
with distinct names: the order carries no meaning). -/
def documentedTable : List (String × String × Nat × Nat × List Nat) := [
  ("ccrx", "CCRX", 1, 3, [0]), ("ccry", "CCRY", 1, 3, [0]), ("ccrz", "CCRZ", 1, 3, [0]),
  ("ccx", "CCX", 0, 3, []), ("ccz", "CCZ", 0, 3, []),
  ("ch", "CH", 0, 2, []),
  ("crx", "CRX", 1, 2, [0]), ("cry", "CRY", 1, 2, [0]), ("crz", "CRZ", 1, 2, [0]),
  ("cs", "CS", 0, 2, []), ("csdg", "CSdg", 0, 2, []), ("ct", "CT", 0, 2, []), ("ctdg", "CTdg", 0, 2, []),
  ("cu1", "CU1", 1, 2, [0]), ("cu2", "CU2", 2, 2, [0, 1]), ("cu3", "CU3", 3, 2, [0, 1, 2]),
  ("cv", "CV", 0, 2, []), ("cvdg", "CVdg", 0, 2, []),
  ("cx", "CX", 0, 2, []), ("cy", "CY", 0, 2, []), ("cz", "CZ", 0, 2, []),
  ("h", "H", 0, 1, []), ("i", "I", 0, 1, []),
  ("rx", "RX", 1, 1, [0]), ("ry", "RY", 1, 1, [0]), ("rz", "RZ", 1, 1, [0]),
  ("s", "S", 0, 1, []), ("sdg", "Sdg", 0, 1, []), ("swap", "Swap", 0, 2, []),
  ("t", "T", 0, 1, []), ("tdg", "Tdg", 0, 1, []),
  ("u1", "U1", 1, 1, [0]), ("u2", "U2", 2, 1, [0, 1]), ("u3", "U3", 3, 1, [0, 1, 2]),
  ("v", "V", 0, 1, []), ("vdg", "Vdg", 0, 1, []),
  ("x", "X", 0, 1, []), ("y", "Y", 0, 1, []), ("z", "Z", 0, 1, [])]

/-- (#parameters, #qubits) of a documented name. -/
def docArity (key : String) : Option (Nat × Nat) :=
  (documentedTable.find? fun r => r.1 == key).map fun r => (r.2.2.1, r.2.2.2.1)

/-- The gate a documented (lower-case) name stands for, given its parameters in the documented order
(`U2(φ, λ)`, `U3(θ, φ, λ)`; a `c` prefix is one control qubit in front, `cc` two). -/
def docGate {P : Type} (key : String) (ps : List P) : Option (GateTerm P) :=
  match key, ps with
  | "h", [] => some .H | "x", [] => some .X | "y", [] => some .Y | "z", [] => some .Z
  | "s", [] => some .S | "sdg", [] => some .Sdg | "t", [] => some .T | "tdg", [] => some .Tdg
  | "v", [] => some .V | "vdg", [] => some .Vdg | "i", [] => some .I
  | "rx", [θ] => some (.RX θ) | "ry", [θ] => some (.RY θ) | "rz", [l] => some (.RZ l)
  | "u1", [l] => some (.U1 l) | "u2", [φ, l] => some (.U2 φ l) | "u3", [θ, φ, l] => some (.U3 θ φ l)
  | "cx", [] => some .CX | "cy", [] => some .CY | "cz", [] => some .CZ | "swap", [] => some .Swap
  | "ch", [] => some (.C .H) | "cs", [] => some (.C .S) | "csdg", [] => some (.C .Sdg)
  | "ct", [] => some (.C .T) | "ctdg", [] => some (.C .Tdg) | "cv", [] => some (.C .V) | "cvdg", [] => some (.C .Vdg)
  | "crx", [θ] => some (.C (.RX θ)) | "cry", [θ] => some (.C (.RY θ)) | "crz", [l] => some (.C (.RZ l))
  | "cu1", [l] => some (.C (.U1 l)) | "cu2", [φ, l] => some (.C (.U2 φ l))
  | "cu3", [θ, φ, l] => some (.C (.U3 θ φ l))
  | "ccx", [] => some (.C .CX) | "ccz", [] => some (.C .CZ)
  | "ccrx", [θ] => some (.C (.C (.RX θ))) | "ccry", [θ] => some (.C (.C (.RY θ)))
  | "ccrz", [l] => some (.C (.C (.RZ l)))
  | _, _ => none

/-- ASCII lower case (gate names are ASCII; "case-insensitive" is ASCII case-insensitivity). -/
def lower (c : Char) : Char :=
  if 65 ≤ c.toNat && c.toNat ≤ 90 then Char.ofNat (c.toNat + 32) else c

def isLetter (c : Char) : Bool := (97 ≤ c.toNat && c.toNat ≤ 122) || (65 ≤ c.toNat && c.toNat ≤ 90)
def isAlnum (c : Char) : Bool := isLetter c || (48 ≤ c.toNat && c.toNat ≤ 57)

/-- An identifier: a letter followed by letters and digits. -/
def isIdent : List Char → Bool
  | [] => false
  | c :: t => isLetter c && t.all isAlnum

/-- An argument with the blanks between it and the following `,` or `)`. -/
structure ArgL where
  c : Cst
  wAfter : Blank
deriving Repr, Inhabited

/-- A qubit index as written: blanks, superfluous zeros, decimal digits of `val`. -/
structure BitL where
  w : Blank
  zeros : Nat
  val : Nat
deriving Repr, Inhabited

/-- One sub-gate description with its layout. -/
structure PartL where
  w0 : Blank
  name : List Char
  wOpen : Blank
  args : List ArgL
  bits : List BitL
  wEnd : Blank
deriving Repr, Inhabited

/-- `a1 w , a2 w , … an w )` (the text after the opening parenthesis). -/
def renderArgs : List ArgL → List Char
  | [] => []
  | [a] => a.c.flatten ++ (a.wAfter ++ [')'])
  | a :: b :: more => a.c.flatten ++ (a.wAfter ++ ',' :: renderArgs (b :: more))

def renderBit (b : BitL) : List Char := b.w ++ (List.replicate b.zeros '0' ++ Nat.toDigits 10 b.val)

def renderBits : List BitL → List Char
  | [] => []
  | b :: more => renderBit b ++ renderBits more

/-- The argument list in parentheses, nothing if there is no argument. -/
def renderArgList (p : PartL) : List Char :=
  if p.args.isEmpty then [] else p.wOpen ++ '(' :: renderArgs p.args

def renderPart (p : PartL) : List Char :=
  p.w0 ++ (p.name ++ (renderArgList p ++ (renderBits p.bits ++ p.wEnd)))

/-- Parts separated by `;`. -/
def renderDesc : List PartL → List Char
  | [] => []
  | [p] => renderPart p
  | p :: q :: more => renderPart p ++ ';' :: renderDesc (q :: more)

def allBlank (w : Blank) : Bool := w.all isBlank

/-- Layout conditions: blanks are white space; the name is an identifier; the argument expressions are
conventionally parenthesised trees with well-formed tokens; qubit indices are separated from each other — and,
if there is no argument list, from the name — by at least one blank. -/
def PartL.WF (p : PartL) : Bool :=
  allBlank p.w0 && isIdent p.name && allBlank p.wOpen && allBlank p.wEnd &&
  p.args.all (fun a => a.c.WF && Conv a.c && allBlank a.wAfter) &&
  p.bits.all (fun b => allBlank b.w) &&
  (match p.bits with
   | [] => true
   | b :: more => (!p.args.isEmpty || !b.w.isEmpty) && more.all fun b => !b.w.isEmpty)

def PartL.vals (p : PartL) : List Nat := p.bits.map (·.val)

/-- Conventional values of the arguments. -/
def PartL.params {F : Type} (J : Interp F) (p : PartL) : List F := p.args.map fun a => evalConv J a.c.toAst

def PartL.key (p : PartL) : String := String.ofList (p.name.map lower)

/-- The name is documented and the numbers of parameters and qubits are the documented ones. -/
def PartL.Matches (p : PartL) : Bool := docArity p.key == some (p.args.length, p.bits.length)

/-- Some argument contains an integer literal ≥ 2^64 (rejected by the pinned code, finding C14-int-literal-overflow). -/
def PartL.bigInt (p : PartL) : Bool := p.args.any fun a => a.c.bigInt

def maxIndex (ps : List PartL) : Nat := (ps.flatMap PartL.vals).foldl max 0

/-- The listed gates in order. -/
def expectedOps {F : Type} (J : Interp F) : List PartL → Option (OpList F)
  | [] => some .nil
  | p :: more =>
    match docGate p.key (p.params J), expectedOps J more with
    | some g, some r => some (.cons g p.vals r)
    | _, _ => none

/-- The composite a description denotes: on one more qubit than the highest index mentioned. -/
def expected {F : Type} (J : Interp F) (name : String) (ps : List PartL) : Option (GateTerm F) :=
  (expectedOps J ps).map fun ops => .Composite name (maxIndex ps + 1) ops

/-- Every listed gate acts on distinct qubits (otherwise "applied to the listed qubits" has no meaning). -/
def distinctBits (ps : List PartL) : Bool := ps.all fun p => decide p.vals.Nodup

end Q1t.Spec.FromString

import Q1t.Spec.OQ2Link
/-!
C11: from the model's structured lines to the OpenQASM PROGRAM WITH ITS DECIMAL LITERALS.

`exportedRun` (`Spec/OQ2Link.lean`) runs the lines with parameter values taken from the model.  The text the
exporter writes contains, for a displayed `f64`, the decimal literal Rust's `Display` prints.  `NumRoundTrip` is
the assumption about that printer: the literal (an optional `-`, then `m · 10^e`), read back, is the value.
Under it `toProgramV` — the exported lines as a `Spec.OQ2.Program` whose parameter expressions carry those
literals — is run by `Spec.OQ2.run` exactly as `exportedRun` runs the lines (`Proofs/OpenQasmText.lean`).
What is then still only checked on generated cases ((A), (B)) is that the TEXT lexes and parses to that program.
-/
namespace Q1t.OpenQasm
open Q1t.Spec.OQ2

variable {P : Type}

/-- a printed number: an optional minus sign and the decimal literal `m · 10^e` -/
structure DecLit where
  neg : Bool
  m : Nat
  e : Int
  deriving DecidableEq, Repr

/-- the value a printed number reads back as -/
def DecLit.value [Angle P] (d : DecLit) : P :=
  if d.neg then Angle.neg (Angle.ofDec d.m d.e) else Angle.ofDec d.m d.e

/-- the displayed numbers of an argument expression -/
def Arg.vals : Arg P → List P
  | .val v => [v]
  | .neg e => e.vals
  | .div a b => a.vals ++ b.vals
  | _ => []

/-- the displayed numbers of the exported lines (the values of the circuit's direct parameters) -/
def linesVals (ls : List (Line P)) : List P :=
  ls.flatMap fun l => match l with
    | .gate c => match c.app with
      | some a => a.args.flatMap Arg.vals
      | none => []
    | _ => []

/-- ASSUMPTION about the number printer `sh` (Rust's `Display for f64`: the shortest decimal that round-trips) on
the numbers `vs` that are displayed: each is printed as a literal that reads back as that value.  (With `P` the
reals and `Angle.ofDec` "the double nearest to `m · 10^e`", this holds for every `v` that is a double.) -/
def NumRoundTrip (P : Type) [Angle P] (sh : P → DecLit) (vs : List P) : Prop := ∀ v ∈ vs, (sh v).value = v

/-- an argument expression with its displayed numbers as decimal literals -/
def Arg.toExpr (sh : P → DecLit) : Arg P → Expr
  | .lit n => .int n
  | .pi => .pi
  | .val v => if (sh v).neg then .neg (.real (sh v).m (sh v).e) else .real (sh v).m (sh v).e
  | .name s _ => .ident s
  | .neg e => .neg (e.toExpr sh)
  | .div a b => .div (a.toExpr sh) (b.toExpr sh)

def Chunk.toStmtV (sh : P → DecLit) (c : Chunk P) : Option Stmt :=
  match c.app with
  | none => none
  | some a =>
    match a.qargs.mapM QRef.toQArg with
    | none => none
    | some qs =>
      let op := Op.app a.name (a.args.map (Arg.toExpr sh)) qs
      match c.conds with
      | [] => some (.op op)
      | [k] => some (.cond "b" k op)
      | _ => none

def Line.toStmtV (sh : P → DecLit) : Line P → Option (Option Stmt)
  | .version | .includeLib => some none
  | .qreg n => some (some (.qreg "q" n))
  | .creg n => some (some (.creg "b" n))
  | .gate c => (c.toStmtV sh).map some
  | .measure q c => do pure (some (.op (.measure (← q.toQArg) (← c.toQArg))))
  | .reset q => do pure (some (.op (.reset (← q.toQArg))))
  | .barrier qs => do pure (some (.op (.barrier (← qs.mapM QRef.toQArg))))

/-- the exported lines as an OpenQASM program with its decimal literals -/
def toProgramV (sh : P → DecLit) : List (Line P) → Option Program
  | .version :: .includeLib :: rest => (rest.mapM (Line.toStmtV sh)).map fun l => ⟨true, l.filterMap id⟩
  | _ => none

end Q1t.OpenQasm

import Q1t.Spec.OQ2Link
/-!
C11: from the model's structured lines to the OpenQASM PROGRAM WITH ITS DECIMAL LITERALS.

`exportedRun` (`Spec/OQ2Link.lean`) runs the lines with parameter values taken from the model.  The text the
exporter writes contains, for a displayed `f64`, the decimal literal Rust's `Display` prints.  `NumRoundTrip` is
the assumption about that printer: the literal (an optional `-`, then `m · 10^e`), read back, is the value.
Under it `toProgramV` — the exported lines as a `Spec.OQ2.Program` whose parameter expressions carry those
literals — is run by `Spec.OQ2.run` exactly as `exportedRun` runs the lines (`Proofs/OpenQasmText.lean`).
What is then still only checked on generated cases ((A), (B)) is that the TEXT lexes and parses to that program.
-/
namespace Q1t.OpenQasm
open Q1t.Spec.OQ2

variable {P : Type}

/-- a printed number: an optional minus sign and the decimal literal `m · 10^e` -/
structure DecLit where
  neg : Bool
  m : Nat
  e : Int
  deriving DecidableEq, Repr

/-- the literal as the parser reads it: an integer literal when there is neither a fraction nor an exponent
(`Display for f64` prints `1` for `1.0`), else a real literal -/
def DecLit.lit (d : DecLit) : Expr := if d.e = 0 then .int d.m else .real d.m d.e

/-- the literal as the lexer reads it -/
def DecLit.tok (d : DecLit) : Spec.OQ2.Tok := if d.e = 0 then .int d.m else .real d.m d.e

/-- the value a printed number reads back as -/
def DecLit.value [Angle P] (d : DecLit) : P :=
  if d.neg then Angle.neg (Angle.ofDec d.m d.e) else Angle.ofDec d.m d.e

/-- the displayed numbers of an argument expression -/
def Arg.vals : Arg P → List P
  | .val v => [v]
  | .neg e => e.vals
  | .div a b => a.vals ++ b.vals
  | _ => []

/-- the displayed numbers of the exported lines (the values of the circuit's direct parameters) -/
def linesVals (ls : List (Line P)) : List P :=
  ls.flatMap fun l => match l with
    | .gate c => match c.app with
      | some a => a.args.flatMap Arg.vals
      | none => []
    | _ => []

/-- ASSUMPTION about the number printer `sh` (Rust's `Display for f64`: the shortest decimal that round-trips) on
the numbers `vs` that are displayed: each is printed as a literal that reads back as that value.  (With `P` the
reals and `Angle.ofDec` "the double nearest to `m · 10^e`", this holds for every `v` that is a double.) -/
def NumRoundTrip (P : Type) [Angle P] (sh : P → DecLit) (vs : List P) : Prop := ∀ v ∈ vs, (sh v).value = v

/-- an argument expression with its displayed numbers as decimal literals -/
def Arg.toExpr (sh : P → DecLit) : Arg P → Expr
  | .lit n => .int n
  | .pi => .pi
  | .val v => if (sh v).neg then .neg (sh v).lit else (sh v).lit
  | .name s _ => .ident s
  | .neg e => .neg (e.toExpr sh)
  | .div a b => .div (a.toExpr sh) (b.toExpr sh)

def Chunk.toStmtV (sh : P → DecLit) (c : Chunk P) : Option Stmt :=
  match c.app with
  | none => none
  | some a =>
    match a.qargs.mapM QRef.toQArg with
    | none => none
    | some qs =>
      let op := Op.app a.name (a.args.map (Arg.toExpr sh)) qs
      match c.conds with
      | [] => some (.op op)
      | [k] => some (.cond "b" k op)
      | _ => none

def Line.toStmtV (sh : P → DecLit) : Line P → Option (Option Stmt)
  | .version | .includeLib => some none
  | .qreg n => some (some (.qreg "q" n))
  | .creg n => some (some (.creg "b" n))
  | .gate c => (c.toStmtV sh).map some
  | .measure q c => do pure (some (.op (.measure (← q.toQArg) (← c.toQArg))))
  | .reset q => do pure (some (.op (.reset (← q.toQArg))))
  | .barrier qs => do pure (some (.op (.barrier (← qs.mapM QRef.toQArg))))

/-- the exported lines as an OpenQASM program with its decimal literals -/
def toProgramV (sh : P → DecLit) : List (Line P) → Option Program
  | .version :: .includeLib :: rest => (rest.mapM (Line.toStmtV sh)).map fun l => ⟨true, l.filterMap id⟩
  | _ => none

/-! ### the token sequence of the exported text

`specToks sh ls` is the token sequence (in the vocabulary of the reference lexer `Spec.OQ2.lex`) that the text
`Circuit::open_qasm()` writes must lex to: the same sequence as the model's `programToks` (what correspondence (A)
compares, numbers by value), with every displayed number spelled as its printed literal `sh v`. -/

def DecLit.toks (d : DecLit) : List Spec.OQ2.Tok := (if d.neg then [Spec.OQ2.Tok.sym "-"] else []) ++ [d.tok]

def Arg.specToks (sh : P → DecLit) : Arg P → List Spec.OQ2.Tok
  | .lit n => [.int n]
  | .pi => [.id "pi"]
  | .val v => (sh v).toks
  | .name s _ => [.id s]
  | .neg e => .sym "-" :: e.specToks sh
  | .div a b => a.specToks sh ++ .sym "/" :: b.specToks sh

def QRef.specToks : QRef → List Spec.OQ2.Tok
  | .reg r => [.id r]
  | .bit r i => [.id r, .sym "[", .int i, .sym "]"]
  | .raw k => [.int k]

def commaSepT (xs : List (List Spec.OQ2.Tok)) : List Spec.OQ2.Tok :=
  match xs with
  | [] => []
  | x :: rest => x ++ (rest.map (fun y => Spec.OQ2.Tok.sym "," :: y)).flatten

def App.specToks (sh : P → DecLit) (a : App P) : List Spec.OQ2.Tok :=
  .id a.name ::
    ((if a.args.isEmpty then [] else
      .sym "(" :: commaSepT (a.args.map (Arg.specToks sh)) ++ [.sym ")"]) ++
     commaSepT (a.qargs.map QRef.specToks))

def Chunk.specToks (sh : P → DecLit) (c : Chunk P) : List Spec.OQ2.Tok :=
  (c.conds.map fun k => [Spec.OQ2.Tok.id "if", .sym "(", .id "b", .sym "==", .int k, .sym ")"]).flatten ++
    (match c.app with
     | some a => a.specToks sh
     | none => [])

def Line.specToks (sh : P → DecLit) : Line P → List Spec.OQ2.Tok
  | .version => [.id "OPENQASM", .real 20 (-1), .sym ";"]
  | .includeLib => [.id "include", .str "qelib1.inc", .sym ";"]
  | .qreg n => [.id "qreg", .id "q", .sym "[", .int n, .sym "]", .sym ";"]
  | .creg n => [.id "creg", .id "b", .sym "[", .int n, .sym "]", .sym ";"]
  | .gate c => c.specToks sh ++ [.sym ";"]
  | .measure q c => .id "measure" :: q.specToks ++ .sym "->" :: c.specToks ++ [.sym ";"]
  | .reset q => .id "reset" :: q.specToks ++ [.sym ";"]
  | .barrier qs => .id "barrier" :: commaSepT (qs.map QRef.specToks) ++ [.sym ";"]

def specToks (sh : P → DecLit) (ls : List (Line P)) : List Spec.OQ2.Tok := (ls.map (Line.specToks sh)).flatten

/-- ASSUMPTION (checked on every generated case by correspondence (A), which compares exactly this token sequence,
numbers by value): the text lexes to the token sequence of the model's lines -/
def LexesAsPrinted (sh : P → DecLit) (ls : List (Line P)) (text : String) : Prop :=
  lex text = .ok (specToks sh ls)

/-- ASSUMPTION (kernel-checked on an instance of every statement shape and of every argument shape of the generated
template table, `Props/C11.parses_as_printed_samples`; checked on every generated case by (B)): the reference parser
reads the token sequence of the lines as the program `toProgramV`.  The shapes are: the two header statements;
`qreg q[n]`, `creg b[n]`; `name args? q[i], …` with `args` a parenthesised comma-separated list of expressions of the
shapes `x`, `-x`, `x/k`, `-x/k` (`x` a literal with an optional sign, or `pi`; `k` an integer literal); the same
after `if (b == k)`; `measure a -> c`; `reset a`; `barrier a, …` (`a`, `c` a register or an indexed register). -/
def ParsesAsPrinted (sh : P → DecLit) (ls : List (Line P)) : Prop :=
  ∀ p, toProgramV sh ls = some p → parse (specToks sh ls) = .ok p

end Q1t.OpenQasm

/-!
C04/C07 reference notion: the per-shot reading of a range-compressed simulation state.  A state is a
list of columns with multiplicities; shot `s` carries the column of the range it falls in.
Import-free, executable.
-/
namespace Q1t.Spec

/-- the state of every shot, in shot order: column `k` repeated `counts[k]` times -/
def shotExpand {σ : Type} : List Nat → List σ → List σ
  | c :: cs, x :: xs => List.replicate c x ++ shotExpand cs xs
  | _, _ => []

/-- apply `f` to the state of exactly the shots whose mask bit is set -/
def onSelected {σ : Type} (f : σ → σ) (mask : List Bool) (shots : List σ) : List σ :=
  List.zipWith (fun b ψ => if b then f ψ else ψ) mask shots

end Q1t.Spec

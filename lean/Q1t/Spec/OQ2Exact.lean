import Q1t.Base.Q8
import Q1t.Spec.OQ2
/-!
Exact arithmetic for the constant part of C11: parameter values of the shape `a + b·π` with rational `a`, `b`
(what the expressions `pi/2`, `-pi/4`, `0`, `pi` of `qelib1.inc` and of the exporter's constant templates
evaluate to), and cosine / sine of the multiples of `π/4` in the exact field `ℚ(ζ₈)`.  Used for kernel-checked
(`decide +kernel`) statements only.  A value outside the representable set (a product of two multiples of `π`,
a division by a multiple of `π` or by 0, the cosine of anything that is not `k·π/4`) is flagged `bad` and its
cosine and sine are both `0`, which no unitary matrix survives: such a value cannot make a checked identity true
by accident.
-/
namespace Q1t.Spec.OQ2

/-- `a + b·π` -/
structure QPi where
  a : Rat
  b : Rat
  bad : Bool := false
  deriving DecidableEq, Repr

namespace QPi

def pow10 (e : Int) : Rat := if e ≥ 0 then ((10 ^ e.toNat : Nat) : Rat) else 1 / ((10 ^ (-e).toNat : Nat) : Rat)

instance : Angle QPi where
  ofDec m e := ⟨(m : Rat) * pow10 e, 0, false⟩
  pi := ⟨0, 1, false⟩
  neg x := ⟨-x.a, -x.b, x.bad⟩
  add x y := ⟨x.a + y.a, x.b + y.b, x.bad || y.bad⟩
  sub x y := ⟨x.a - y.a, x.b - y.b, x.bad || y.bad⟩
  mul x y := ⟨x.a * y.a, x.a * y.b + x.b * y.a, x.bad || y.bad || (x.b != 0 && y.b != 0)⟩
  div x y := ⟨x.a / y.a, x.b / y.a, x.bad || y.bad || y.b != 0 || y.a == 0⟩

/-- `ζ₈^k` -/
def zetaPow (k : Nat) : Q8 :=
  match k % 8 with
  | 0 => ⟨1, 0, 0, 0⟩ | 1 => ⟨0, 1, 0, 0⟩ | 2 => ⟨0, 0, 1, 0⟩ | 3 => ⟨0, 0, 0, 1⟩
  | 4 => ⟨-1, 0, 0, 0⟩ | 5 => ⟨0, -1, 0, 0⟩ | 6 => ⟨0, 0, -1, 0⟩ | _ => ⟨0, 0, 0, -1⟩

/-- `k` with `x = k·π/4`, if there is one -/
def eighths (x : QPi) : Option Nat :=
  if x.bad || x.a != 0 then none else
  let q := x.b * 4
  if q.den = 1 then some (q.num % 8).toNat else none

/-- `cos(kπ/4) = (ζ^k + ζ^{-k})/2` -/
def cosQ (x : QPi) : Q8 :=
  match eighths x with
  | some k => (⟨1/2, 0, 0, 0⟩ : Q8) * (zetaPow k + zetaPow (8 - k))
  | none => 0

/-- `sin(kπ/4) = (ζ^k − ζ^{-k})/(2i) = −i(ζ^k − ζ^{-k})/2` -/
def sinQ (x : QPi) : Q8 :=
  match eighths x with
  | some k => (⟨0, 0, -1/2, 0⟩ : Q8) * (zetaPow k - zetaPow (8 - k))
  | none => 0

instance : Amp Q8 QPi where
  I := ⟨0, 0, 1, 0⟩
  hsqrt2 := ⟨0, 1/2, 0, -1/2⟩
  half := ⟨1/2, 0, 0, 0⟩
  zeta8 := ⟨0, 1, 0, 0⟩
  conj := Q8.conj
  cos := cosQ
  sin := sinQ
  phalf x := ⟨x.a / 2, x.b / 2, x.bad⟩
  padd x y := ⟨x.a + y.a, x.b + y.b, x.bad || y.bad⟩
  pneg x := ⟨-x.a, -x.b, x.bad⟩

end QPi

/-- scalar multiple of a matrix -/
def smulMat {α} [Mul α] (c : α) (M : LMat α) : LMat α := M.map (·.map (c * ·))

/-- `M = ζ₈^j · N` for some `j < 8` (equality up to a global phase that is an eighth root of unity) -/
def phaseEq8 (M N : LMat Q8) : Bool := (List.range 8).any fun j => M == smulMat (QPi.zetaPow j) N

end Q1t.Spec.OQ2

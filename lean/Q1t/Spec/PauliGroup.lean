import Q1t.Base.Z8
import Q1t.Model.Tableau
/-!
Reference semantics for C03, part 1: the Pauli group, defined from the 2×2 matrices over the exact
ring ℤ[ζ₈] (import-free, executable).  Only the *datatype* `P` (I, Z, X, Y) is shared with the model;
products, phases and the action on state vectors are defined here from the matrices.

State vectors are `List Z8` of length `2^n`, **qubit 0 is the most significant bit of the index** (the
convention of q1tsim's `VectorState`), so a vector is `(qubit 0 = 0 half) ++ (qubit 0 = 1 half)`.
-/
namespace Q1t.Spec.Pauli
open Q1t Q1t.Tableau

/-- 2×2 matrix over ℤ[ζ₈] -/
structure Mat2 where
  m00 : Z8
  m01 : Z8
  m10 : Z8
  m11 : Z8
deriving DecidableEq, Repr, Inhabited

namespace Mat2
def mul (x y : Mat2) : Mat2 :=
  ⟨x.m00 * y.m00 + x.m01 * y.m10, x.m00 * y.m01 + x.m01 * y.m11,
   x.m10 * y.m00 + x.m11 * y.m10, x.m10 * y.m01 + x.m11 * y.m11⟩
instance : Mul Mat2 := ⟨mul⟩
/-- `i^k · m` -/
def smulIPow (k : Nat) (m : Mat2) : Mat2 :=
  ⟨Z8.mulIPow k m.m00, Z8.mulIPow k m.m01, Z8.mulIPow k m.m10, Z8.mulIPow k m.m11⟩
end Mat2

/-- The Pauli matrices: I, Z = diag(1,−1), X = [[0,1],[1,0]], Y = [[0,−i],[i,0]]. -/
def sigma : P → Mat2
  | .I => ⟨1, 0, 0, 1⟩
  | .Z => ⟨1, 0, 0, -1⟩
  | .X => ⟨0, 1, 1, 0⟩
  | .Y => ⟨0, -Z8.I, Z8.I, 0⟩

def allP : List P := [.I, .Z, .X, .Y]

/-- Product of two single-qubit Paulis read off the matrices: the `(k, c)` with
`σ_a σ_b = i^k σ_c` (searched among the 16 candidates; `(0, I)` if none — never the case). -/
def mulP (a b : P) : Nat × P :=
  let m := sigma a * sigma b
  let cands := (List.range 4).flatMap fun k => allP.map fun c => (k, c)
  (cands.find? fun kc => m == (sigma kc.2).smulIPow kc.1).getD (0, .I)

/-- A Pauli string with a phase `i^phase`, `phase` read mod 4. -/
structure PStr where
  phase : Nat
  ops : List P
deriving DecidableEq, Repr, Inhabited

/-- sum of the phase exponents of the column-wise products -/
def phaseSum : List P → List P → Nat
  | a :: r0, b :: r1 => (mulP a b).1 + phaseSum r0 r1
  | _, _ => 0

def opsMul : List P → List P → List P
  | a :: r0, b :: r1 => (mulP a b).2 :: opsMul r0 r1
  | _, _ => []

/-- product in the Pauli group (tensor product of the column-wise matrix products) -/
def PStr.mul (p q : PStr) : PStr :=
  ⟨(p.phase + q.phase + phaseSum p.ops q.ops) % 4, opsMul p.ops q.ops⟩

def PStr.one (n : Nat) : PStr := ⟨0, List.replicate n .I⟩

/-- A signed tableau row as a group element: `+` ↦ phase 0, `−` ↦ phase 2. -/
def rowStr (s : Bool) (r : List P) : PStr := ⟨if s then 2 else 0, r⟩

abbrev Vec := List Z8

namespace Vec
def neg (v : Vec) : Vec := v.map Z8.neg
def smulIPow (k : Nat) (v : Vec) : Vec := v.map (Z8.mulIPow k)
def add (v w : Vec) : Vec := List.zipWith (· + ·) v w
def isZero (v : Vec) : Bool := v.all Z8.isZero
/-- basis vector `|k⟩` of `n` qubits -/
def basis (n k : Nat) : Vec := (List.range (2 ^ n)).map fun i => if i = k then 1 else 0
end Vec

/-- Action of a tensor product of Pauli matrices on a vector (first operator acts on qubit 0 = the
most significant index bit, i.e. on the two halves). -/
def actOps : List P → Vec → Vec
  | [], v => v
  | p :: ps, v =>
    let h := v.length / 2
    let w0 := actOps ps (v.take h)
    let w1 := actOps ps (v.drop h)
    match p with
    | .I => w0 ++ w1
    | .Z => w0 ++ Vec.neg w1
    | .X => w1 ++ w0
    | .Y => Vec.smulIPow 3 w1 ++ Vec.smulIPow 1 w0

/-- Action of a phased Pauli string. -/
def PStr.act (p : PStr) (v : Vec) : Vec := Vec.smulIPow p.phase (actOps p.ops v)

end Q1t.Spec.Pauli

import Q1t.Model.Builders
/-!
C18: the decidable predicate `WellFormed` on a built circuit (and a shot count) — what the builders do
NOT check although execution and the exporters rely on it.  Each conjunct has a name (`Defect`), so
that a panic or a divergence between the two representations on the pinned code can be attributed to
the conjunct that fails (`opDefects`, `circDefects`); `Props/C18.lean` carries one kernel-checked
negative witness per conjunct.  Import-free, executable.
-/
namespace Q1t.WellFormed
open Q1t Q1t.Sim Q1t.Builders

inductive Defect where
  /-- operand list of a gate has not the gate's arity -/
  | arity
  /-- operand list of a gate repeats a qubit -/
  | dupQubits
  /-- a classical bit index ≥ 64 is read or written (register words are `u64`) -/
  | cbitGe64
  /-- more than 64 control bits (the gathered control word is a `u64`) -/
  | controlsGt64
  /-- `measure_all`/`peek_all` does not list exactly `nr_qbits` bits -/
  | measureAllLen
  /-- a controlled gate whose control lies between (or on) its targets: LaTeX cannot draw it -/
  | ctrlBetweenTargets
  /-- a conditional gate controlled by a classical bit with index ≥ `nr_qbits` (c-QASM names only
  `nr_qbits` classical bits) -/
  | condControlGeNq
  /-- a `Composite` / `Loop` body that is itself malformed: a sub-gate on a local index ≥ the composite's
  width, with the wrong number of operands or a repeated one (`Composite::add_gate` validates nothing), or a
  composite of width 0 -/
  | badComposite
  /-- a `Loop` of ≥ 3 iterations whose body holds another `Loop` of ≥ 3 iterations: LaTeX underflows while it
  computes the loop-header offsets -/
  | nestedLoop
deriving DecidableEq, Repr

def Defect.tag : Defect → String
  | .arity => "arity" | .dupQubits => "dup-qubits" | .cbitGe64 => "cbit-ge-64" | .controlsGt64 => "controls-gt-64"
  | .measureAllLen => "measure-all-len" | .ctrlBetweenTargets => "ctrl-between-targets"
  | .condControlGeNq => "cond-control-ge-nq"
  | .badComposite => "bad-composite"
  | .nestedLoop => "nested-loop"

variable {P : Type}

def hasDup : List Nat → Bool
  | [] => false
  | x :: xs => xs.contains x || hasDup xs

/-- `C g` is one of the NAMED controlled gates of the library (`CH CS CSdg CT CTdg CV CVdg CRX CRY CRZ CU1 CU2 CU3
CCX CCZ CCRX CCRY CCRZ`); the generic `C<G>` has no export traits and cannot be put into a `Circuit` -/
def isNamedC : GateTerm P → Bool
  | .H | .S | .Sdg | .T | .Tdg | .V | .Vdg | .CX | .CZ => true
  | .RX _ | .RY _ | .RZ _ | .U1 _ | .U2 _ _ | .U3 _ _ _ => true
  | .C (.RX _) | .C (.RY _) | .C (.RZ _) => true
  | _ => false

mutual
/-- no `Loop` of three or more iterations inside -/
def noBigLoop : GateTerm P → Bool
  | .Loop _ k _ _ body => decide (k < 3) && noBigLoopOps body
  | .Kron a b => noBigLoop a && noBigLoop b
  | .Composite _ _ ops => noBigLoopOps ops
  | .C g => noBigLoop g
  | _ => true
def noBigLoopOps : OpList P → Bool
  | .nil => true
  | .cons g _ rest => noBigLoop g && noBigLoopOps rest
end

mutual
/-- every `Loop` of ≥ 3 iterations has a body without such a loop -/
def loopsOK : GateTerm P → Bool
  | .Loop _ k _ _ body => loopsOKOps body && (decide (k < 3) || noBigLoopOps body)
  | .Kron a b => loopsOK a && loopsOK b
  | .Composite _ _ ops => loopsOKOps ops
  | .C g => loopsOK g
  | _ => true
def loopsOKOps : OpList P → Bool
  | .nil => true
  | .cons g _ rest => loopsOK g && loopsOKOps rest
end

mutual
/-- the gate terms a `Circuit` can hold, with well-formed bodies: library gates (the named controlled gates
are `C …`), `Kron`, and `Composite` / `Loop` of positive width whose sub-gates are placed on distinct local
indices below the width, each with its arity -/
def gateOK : GateTerm P → Bool
  | .C g => isNamedC g
  | .Kron g0 g1 => gateOK g0 && gateOK g1
  | .Composite _ n ops => decide (0 < n) && opsOK n ops
  | .Loop _ _ _ n body => decide (0 < n) && opsOK n body
  | _ => true
def opsOK (n : Nat) : OpList P → Bool
  | .nil => true
  | .cons g bits rest =>
    gateOK g && decide (Gate.nrBits g = bits.length) && !hasDup bits && bits.all (fun b => decide (b < n)) && opsOK n rest
end

theorem gateOK_of_isNamedC (g : GateTerm P) (h : isNamedC g = true) : gateOK g = true := by
  unfold isNamedC at h
  split at h <;> first | (simp [gateOK, isNamedC]; done) | (cases h)

mutual
/-- LaTeX: every `C g` inside the term, with the operands it receives, has its control strictly on one
side of all its targets -/
def ctrlOK : GateTerm P → List Nat → Bool
  | .C g, control :: t :: ts =>
    let mn := ts.foldl min t
    let mx := ts.foldl max t
    ((control < mn && control < mx) || (mn < control && mx < control)) && ctrlOK g (t :: ts)
  | .C _, _ => false
  | .CX, [c, t] | .CY, [c, t] | .CZ, [c, t] => c != t
  | .Kron g0 g1, bits => ctrlOK g0 (bits.take (Gate.nrBits g0)) && ctrlOK g1 (bits.drop (Gate.nrBits g0))
  | .Composite _ _ ops, bits => ctrlOKOps ops bits
  | .Loop _ _ _ _ body, bits => ctrlOKOps body bits
  | _, _ => true
def ctrlOKOps : OpList P → List Nat → Bool
  | .nil, _ => true
  | .cons g sb rest, bits => ctrlOK g (sb.map fun b => bits.getD b 0) && ctrlOKOps rest bits
end

def gateDefects (g : GateTerm P) (bits : List Nat) : List Defect :=
  (if gateOK g then [] else [.badComposite]) ++
  (if Gate.nrBits g ≠ bits.length then [.arity] else []) ++
  (if hasDup bits then [.dupQubits] else []) ++
  (if Gate.nrBits g = bits.length ∧ !hasDup bits ∧ !ctrlOK g bits then [.ctrlBetweenTargets] else []) ++
  (if loopsOK g then [] else [.nestedLoop])

def cbitsDefects (cbits : List Nat) : List Defect := if cbits.any (64 ≤ ·) then [.cbitGe64] else []

/-- the conjuncts of `WellFormed` an operation violates -/
def opDefects (nq : Nat) : COp P → List Defect
  | .gate g bits => gateDefects g bits
  | .cond control _ g bits =>
    -- in execution order: the control word is gathered (shifts) before the gate is looked at
    cbitsDefects control ++ (if 64 < control.length then [.controlsGt64] else []) ++ gateDefects g bits ++
      (if control.any (nq ≤ ·) then [.condControlGeNq] else [])
  | .measure _ c _ | .peek _ c _ => cbitsDefects [c]
  | .measureAll cbits _ | .peekAll cbits _ =>
    (if cbits.length ≠ nq then [.measureAllLen] else []) ++ cbitsDefects cbits
  -- `reset_all` on a circuit without qubits and `barrier(&[])` used to panic in LaTeX (findings
  -- C13-resetall-zero-qubits-panic, C18-latex-empty-barrier-panic: fixed); they are well-formed
  | .resetAll | .barrier _ | .reset _ => []

/-- which defects matter to which consumer -/
def Defect.exec : Defect → Bool
  | .ctrlBetweenTargets | .condControlGeNq | .nestedLoop => false
  | _ => true
def Defect.latex : Defect → Bool
  | .dupQubits | .controlsGt64 | .ctrlBetweenTargets | .badComposite | .nestedLoop => true
  | _ => false
def Defect.openQasm : Defect → Bool
  | .arity | .controlsGt64 | .measureAllLen | .badComposite => true
  | _ => false
def Defect.cQasm : Defect → Bool
  | .arity | .controlsGt64 | .condControlGeNq | .badComposite => true
  | _ => false

def circDefects (c : Circ P) : List Defect := c.ops.flatMap (opDefects c.nq)

/-- executable on both representations: every operation is free of the execution-relevant defects, at
least one shot, and the register size fits a machine word -/
def ExecWF (c : Circ P) (shots : Nat) : Bool :=
  decide (1 ≤ shots) && decide (c.nq < 64) && c.ops.all fun op => (opDefects c.nq op).all fun d => !d.exec

/-- **`WellFormed`**: arity matches, operands distinct, `measure_all` lists exactly `nr_qbits` bits,
classical bits < 64, at most 64 control bits, shots ≥ 1, drawable (controls outside their targets),
c-QASM-nameable control bits, well-formed composite bodies -/
def WellFormed (c : Circ P) (shots : Nat) : Bool :=
  decide (1 ≤ shots) && decide (c.nq < 64) && c.ops.all fun op => (opDefects c.nq op).isEmpty

theorem WellFormed.execWF {c : Circ P} {shots : Nat} (h : WellFormed c shots = true) : ExecWF c shots = true := by
  simp only [WellFormed, ExecWF, Bool.and_eq_true, List.all_eq_true] at *
  refine ⟨h.1, fun op hop => ?_⟩
  have := h.2 op hop
  rw [List.isEmpty_iff] at this
  simp [this]

end Q1t.WellFormed

import Q1t.Spec.PauliGroup
/-!
Reference semantics for C03, part 2 (import-free, executable):

* `Stabilizes t ψ` — every signed generator of the tableau fixes the exact vector `ψ`;
* the state-vector semantics of the library's stabilizer gates (their documented matrices, scaled to
  lie in ℤ[ζ₈]: `√2·H`, `2·V`, `2·V†`), embedded on chosen qubits; projectors; block norms;
* classification of a one-qubit measurement from the block norms;
* `stateOf` — a vector stabilized by a tableau (projector method), used by the spec mode of the driver;
* enumeration of stabilizer states by closure under {H, S, CX}.

Vectors are rays: everything is compared through `Z8.canonRay`.
-/
namespace Q1t.Spec.Stab
open Q1t Q1t.Tableau Q1t.Spec.Pauli

/-- all `n` signed rows fix `ψ` (Boolean form) -/
def stabilizesB (t : Tab) (ψ : Vec) : Bool :=
  ψ.length == 2 ^ t.n && t.rows.length == t.n && t.signs.length == t.n &&
  (List.zipWith (fun s r => r.length == t.n && (rowStr s r).act ψ == ψ) t.signs t.rows).all id

/-- `Stabilizes t ψ`: `ψ` has `2^n` entries and is fixed by each of the `n` signed rows. -/
def Stabilizes (t : Tab) (ψ : Vec) : Prop := stabilizesB t ψ = true
instance (t : Tab) (ψ : Vec) : Decidable (Stabilizes t ψ) := by unfold Stabilizes; exact inferInstance

/-! ### gates on state vectors -/

/-- value of qubit `q` in basis index `idx` (qubit 0 = most significant of `n` bits) -/
def bitOf (n q idx : Nat) : Bool := (idx / 2 ^ (n - 1 - q)) % 2 == 1
def flipBit (n q idx : Nat) : Nat :=
  if bitOf n q idx then idx - 2 ^ (n - 1 - q) else idx + 2 ^ (n - 1 - q)
def vget (v : Vec) (i : Nat) : Z8 := v.getD i 0

/-- 2×2 matrix `m` on qubit `q` of `n` -/
def apply1 (m : Mat2) (n q : Nat) (v : Vec) : Vec :=
  (List.range (2 ^ n)).map fun i =>
    if bitOf n q i then m.m10 * vget v (flipBit n q i) + m.m11 * vget v i
    else m.m00 * vget v i + m.m01 * vget v (flipBit n q i)

/-- 2×2 matrix `m` on qubit `q`, controlled by qubit `c` -/
def applyC1 (m : Mat2) (n c q : Nat) (v : Vec) : Vec :=
  (List.range (2 ^ n)).map fun i =>
    if bitOf n c i then
      (if bitOf n q i then m.m10 * vget v (flipBit n q i) + m.m11 * vget v i
       else m.m00 * vget v i + m.m01 * vget v (flipBit n q i))
    else vget v i

/-- exchange qubits `a` and `b` -/
def applySwap (n a b : Nat) (v : Vec) : Vec :=
  (List.range (2 ^ n)).map fun i =>
    if bitOf n a i == bitOf n b i then vget v i else vget v (flipBit n b (flipBit n a i))

def one_ : Z8 := 1
def i_ : Z8 := Z8.I

/-- The library's primitive stabilizer gates (the gates with `is_stabilizer() = true`). -/
inductive SGate where
  | I | X | Y | Z | H | S | Sdg | V | Vdg | CX | CY | CZ | Swap
deriving DecidableEq, Repr, Inhabited

namespace SGate
/-- the Rust struct name -/
def name : SGate → String
  | I => "I" | X => "X" | Y => "Y" | Z => "Z" | H => "H" | S => "S" | Sdg => "Sdg" | V => "V" | Vdg => "Vdg"
  | CX => "CX" | CY => "CY" | CZ => "CZ" | Swap => "Swap"
def all1 : List SGate := [I, X, Y, Z, H, S, Sdg, V, Vdg]
def all2 : List SGate := [CX, CY, CZ, Swap]
def all : List SGate := all1 ++ all2
def ofName? (s : String) : Option SGate := all.find? (fun g => g.name == s)
def arity (g : SGate) : Nat := if all1.contains g then 1 else 2
end SGate

/-- Documented matrices of the one-qubit stabilizer gates and of the controlled operation of the
controlled ones (scaled into the ring where needed); `none` for Swap. -/
def SGate.mat : SGate → Option Mat2
  | .I => some ⟨1, 0, 0, 1⟩
  | .X | .CX => some ⟨0, 1, 1, 0⟩
  | .Y | .CY => some ⟨0, -i_, i_, 0⟩
  | .Z | .CZ => some ⟨1, 0, 0, -1⟩
  | .H => some ⟨1, 1, 1, -1⟩                                   -- √2·H
  | .S => some ⟨1, 0, 0, i_⟩
  | .Sdg => some ⟨1, 0, 0, -i_⟩
  | .V => some ⟨one_ + i_, one_ - i_, one_ - i_, one_ + i_⟩    -- 2·V,  V = ½[[1+i,1−i],[1−i,1+i]]
  | .Vdg => some ⟨one_ - i_, one_ + i_, one_ + i_, one_ - i_⟩  -- 2·V†
  | .Swap => none

/-- State-vector semantics of library stabilizer gate `g` on qubits `bits` (distinct, in range);
`none` if the number of operands is not the gate's. -/
def applyGateG (g : SGate) (n : Nat) (bits : List Nat) (v : Vec) : Option Vec :=
  match g, bits with
  | .Swap, [a, b] => some (applySwap n a b v)
  | .CX, [c, q] | .CY, [c, q] | .CZ, [c, q] => g.mat.map fun m => applyC1 m n c q v
  | .I, [q] | .X, [q] | .Y, [q] | .Z, [q] | .H, [q] | .S, [q] | .Sdg, [q] | .V, [q] | .Vdg, [q] =>
    g.mat.map fun m => apply1 m n q v
  | _, _ => none

/-- the same by struct name (used by the driver) -/
def applyGate (name : String) (n : Nat) (bits : List Nat) (v : Vec) : Option Vec :=
  (SGate.ofName? name).bind fun g => applyGateG g n bits v

/-- projector on `qubit q = b` -/
def proj (n q : Nat) (b : Bool) (v : Vec) : Vec :=
  (List.range (2 ^ n)).map fun i => if bitOf n q i == b then vget v i else 0

/-- squared norm of the block `qubit q = b` (an element of ℤ[√2] ⊂ ℤ[ζ₈]) -/
def blockNormSq (n q : Nat) (b : Bool) (v : Vec) : Z8 :=
  Z8.sum ((proj n q b v).map Z8.normSq)

/-- What a measurement of qubit `q` does according to the state vector. -/
inductive MKind where
  /-- outcome certain: the opposite block has zero norm -/
  | certain (v : Bool)
  /-- both outcomes with equal, non-zero weight -/
  | fair
  /-- anything else (unequal non-zero weights, or the zero vector): not a stabilizer state -/
  | other
deriving DecidableEq, Repr, Inhabited

def measKind (n q : Nat) (v : Vec) : MKind :=
  let n0 := blockNormSq n q false v
  let n1 := blockNormSq n q true v
  if n0.isZero && n1.isZero then .other
  else if n1.isZero then .certain false
  else if n0.isZero then .certain true
  else if n0 == n1 then .fair else .other

/-- two vectors span the same ray (decided through the canonical representative; sound always,
complete on stabilizer states) -/
def sameRay (v w : Vec) : Bool := !Vec.isZero v && Z8.canonRay v == Z8.canonRay w

/-! ### canonical form -/

def increasing : List Nat → Bool
  | a :: b :: rest => a < b && increasing (b :: rest)
  | _ => true

/-- number of rows whose cell in column `c` satisfies `sel` -/
def colCount (sel : P → Bool) (rows : List (List P)) (c : Nat) : Nat :=
  (rows.filter fun r => match r[c]? with | some p => sel p | none => false).length

/-- Reduced row echelon form of the binary matrix `[X-bits | Z-bits]` of the rows: a prefix of rows with
X-pivots in strictly increasing columns, then rows without any X/Y whose Z-pivots are in strictly
increasing columns; every pivot column has its bit set in the pivot row only; no identity row. -/
def rrefB (t : Tab) : Bool :=
  let xrows := t.rows.takeWhile (fun r => r.any P.hasX)
  let zrows := t.rows.dropWhile (fun r => r.any P.hasX)
  let xp := xrows.filterMap (fun r => r.findIdx? P.hasX)
  let zp := zrows.filterMap (fun r => r.findIdx? P.hasZ)
  zrows.all (fun r => !r.any P.hasX) && zp.length == zrows.length &&
  increasing xp && increasing zp &&
  xp.all (fun c => colCount P.hasX t.rows c == 1) && zp.all (fun c => colCount P.hasZ t.rows c == 1)

/-- `Canonical t`: the rows are in reduced row echelon form. -/
def Canonical (t : Tab) : Prop := rrefB t = true
instance (t : Tab) : Decidable (Canonical t) := by unfold Canonical; exact inferInstance

/-! ### a vector stabilized by a tableau -/

/-- `(1 + g)ψ` for a signed row `g` -/
def projRow (s : Bool) (r : List P) (ψ : Vec) : Vec := Vec.add ψ ((rowStr s r).act ψ)

/-- `Π (1 + g_i)` applied to `ψ` -/
def projAll (t : Tab) (ψ : Vec) : Vec :=
  (List.zip t.signs t.rows).foldl (fun v sr => projRow sr.1 sr.2 v) ψ

/-- a row as a vector over GF(2): bit `2j` = Z-part, bit `2j+1` = X-part of cell `j` -/
def rowBits (r : List P) : Nat :=
  (r.zipIdx.map fun (p, j) => (if p.hasZ then 2 ^ (2 * j) else 0) + (if p.hasX then 2 ^ (2 * j + 1) else 0)).sum

/-- Gaussian elimination over GF(2) on rows given as bit masks; returns the rank -/
def gf2Rank : Nat → List Nat → Nat
  | 0, _ => 0
  | _, [] => 0
  | fuel + 1, r :: rs =>
    if r = 0 then gf2Rank fuel rs
    else
      let low := r ^^^ (r &&& (r - 1))          -- lowest set bit of `r`
      1 + gf2Rank fuel (rs.map fun x => if x &&& low != 0 then x ^^^ r else x)

/-- the `n` rows are linearly independent as elements of the Pauli group modulo phases -/
def independentB (t : Tab) : Bool :=
  let bits := t.rows.map rowBits
  gf2Rank (bits.length + 1) bits == t.n

/-- The state stabilized by `t`, if `t` describes one.  `Π(1+g_i)` is (a multiple of) the projector on
the stabilized subspace; the first non-zero image `Π(1+g_i)|k⟩` of a basis vector, canonicalised, is
a candidate `w`.  `some w` iff `w` is fixed by every signed row *and* the rows are independent modulo
phases (then the subspace fixed by the `n` commuting rows has dimension `2^(n-n) = 1`, so `w` is *the*
state).  `none` if every basis vector is annihilated (−1 is in the group), if rows are dependent (e.g.
an identity row), or if `w` is not actually stabilized (rows do not commute). -/
def stateOf (t : Tab) : Option Vec :=
  if !independentB t then none else
  match (List.range (2 ^ t.n)).findSome? (fun k =>
      let v := projAll t (Vec.basis t.n k)
      if Vec.isZero v then none else some v) with
  | none => none
  | some v =>
    let w := Z8.canonRay v
    if stabilizesB t w then some w else none

/-- the slow but definition-level version of `stateOf`: all non-zero images `Π(1+g_i)|k⟩` span one ray
(used to cross-check `stateOf` on small `n` in the driver) -/
def stateOfSlow (t : Tab) : Option Vec :=
  let cands := (List.range (2 ^ t.n)).map fun k => projAll t (Vec.basis t.n k)
  match (cands.filter (fun v => !Vec.isZero v)).map Z8.canonRay with
  | [] => none
  | w :: ws => if ws.all (· == w) && stabilizesB t w then some w else none

/-! ### enumeration of stabilizer states -/

/-- the generators used for the closure -/
inductive G where
  | h (q : Nat) | s (q : Nat) | cx (c t : Nat)
deriving DecidableEq, Repr, Inhabited

def gens (n : Nat) : List G :=
  (List.range n).map G.h ++ (List.range n).map G.s ++
  ((List.range n).flatMap fun c => ((List.range n).filter (· != c)).map fun t => G.cx c t)

def G.gate : G → SGate
  | .h _ => .H | .s _ => .S | .cx _ _ => .CX
def G.bits : G → List Nat
  | .h q => [q] | .s q => [q] | .cx c t => [c, t]

end Q1t.Spec.Stab

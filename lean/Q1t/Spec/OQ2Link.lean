import Q1t.Model.OpenQasmTable
import Q1t.Spec.OQ2
import Q1t.Spec.Unitaries
/-!
How the structured output of the exporter's model is *read* as OpenQASM — the bridge the C11 theorems are
stated through.  (The implementation's text itself is read by `Spec.OQ2.lex` / `parse` in the driver; that
the text lexes to the model's tokens is correspondence (A).)

* `Arg.eval` — value of an instantiated argument expression; a reference parameter's *name* has no value;
* `chunkApps` — an unconditional translation as a list of gate applications on local qubits;
* `libApps` — the translation of library gate `name` on qubits `0 … k-1` of a `k`-qubit register;
* `Arg.skeleton`, `toProgram` — the exported lines as a `Spec.OQ2.Program` in which every displayed number is
  replaced by `0` (well-formedness does not look at the values of numbers, only at identifiers).
-/
namespace Q1t.OpenQasm
open Q1t.Spec.OQ2

variable {P : Type}

def Arg.eval [Angle P] : Arg P → Option P
  | .lit n => some (Angle.ofDec n 0)
  | .pi => some Angle.pi
  | .val v => some v
  | .name _ _ => none
  | .neg e => e.eval.map Angle.neg
  | .div a b => do pure (Angle.div (← a.eval) (← b.eval))

def QRef.localBit : QRef → Option Nat
  | .bit "q" i => some i
  | _ => none

/-- an unconditional translation as gate applications `(name, parameter values, qubits)` -/
def chunkApps [Angle P] (cs : List (Chunk P)) : Option (List (String × List P × List Nat)) :=
  cs.mapM fun c =>
    match c.conds, c.app with
    | [], some a => do
      let vals ← a.args.mapM Arg.eval
      let qs ← a.qargs.mapM QRef.localBit
      pure (a.name, vals, qs)
    | _, _ => none

/-- the translation of library gate `name` with parameters `ps`, placed on qubits `0 … k-1` -/
def libApps [Angle P] (tbl : List GateTpl) (name : String) (ps : List (QParam P)) :
    Option (List (String × List P × List Nat)) :=
  match lookupTpl tbl name with
  | none => none
  | some t =>
    match exportGate tbl (qbitNames t.nbits) none (.lib name ps) (List.range t.nbits) with
    | .ok cs => chunkApps cs
    | _ => none

/-- the matrix the exported statements of a library gate denote (on its own qubits) -/
def libMeaning {α} [Zero α] [One α] [Add α] [Mul α] [Neg α] [Sub α] [Amp α P] [Angle P]
    (tbl : List GateTpl) (name : String) (ps : List (QParam P)) : Option (LMat α) :=
  match lookupTpl tbl name, libApps tbl name ps with
  | some t, some apps => seqMatrix (α := α) t.nbits apps
  | _, _ => none

/-! ### skeleton program (for well-formedness) -/

def Arg.skeleton : Arg P → Expr
  | .lit n => .int n
  | .pi => .pi
  | .val _ => .int 0
  | .name s _ => .ident s
  | .neg e => .neg e.skeleton
  | .div a b => .div a.skeleton b.skeleton

def QRef.toQArg : QRef → Option QArg
  | .reg r => some (.reg r)
  | .bit r i => some (.idx r i)
  | .raw _ => none

/-- a gate chunk as a statement: at most one `if`, an application -/
def Chunk.toStmt (c : Chunk P) : Option Stmt :=
  match c.app with
  | none => none
  | some a =>
    match a.qargs.mapM QRef.toQArg with
    | none => none
    | some qs =>
      let op := Op.app a.name (a.args.map Arg.skeleton) qs
      match c.conds with
      | [] => some (.op op)
      | [k] => some (.cond "b" k op)
      | _ => none

def Line.toStmt : Line P → Option (Option Stmt)
  | .version | .includeLib => some none
  | .qreg n => some (some (.qreg "q" n))
  | .creg n => some (some (.creg "b" n))
  | .gate c => c.toStmt.map some
  | .measure q c => do pure (some (.op (.measure (← q.toQArg) (← c.toQArg))))
  | .reset q => do pure (some (.op (.reset (← q.toQArg))))
  | .barrier qs => do pure (some (.op (.barrier (← qs.mapM QRef.toQArg))))

/-- the exported lines as a program (header lines required first); `none` if some line is not a statement of
the language (an empty chunk, a doubly conditioned one, a number in place of a qubit) -/
def toProgram : List (Line P) → Option Program
  | .version :: .includeLib :: rest => (rest.mapM Line.toStmt).map fun l => ⟨true, l.filterMap id⟩
  | _ => none

/-! ### running the exported lines

The same branching semantics as `Spec.OQ2.run` of the program the lines spell (`runApp`, `runOp`, `slice` are the
ones of `Spec/OQ2.lean`), except that the value of a displayed parameter is taken from the model (`Arg.eval`)
instead of being re-read from its decimal text — what lies between the two is Rust's `Display for f64` and
`str::parse`, checked on every generated case by (A) and (B). -/

section run
variable {α : Type} [Zero α] [One α] [Add α] [Mul α] [Neg α] [Sub α] [Amp α P] [Angle P]

/-- the registers an exported program declares -/
def exportRegs (nq nc : Nat) : Regs :=
  ⟨if nq > 0 then [("q", nq)] else [], if nc > 0 then [("b", nc)] else []⟩

def Chunk.run (n : Nat) (rg : Regs) (c : Chunk P) (br : Branch α) : Option (List (Branch α)) :=
  match c.app with
  | none => none
  | some a => do
    let vals ← a.args.mapM Arg.eval
    let qs ← a.qargs.mapM QRef.toQArg
    match c.conds with
    | [] => runApp (α := α) n rg a.name vals qs br
    | [k] =>
      match findReg rg.cregs "b" with
      | none => none
      | some (off, sz) => if slice br.2 off sz = k then runApp (α := α) n rg a.name vals qs br else some [br]
    | _ => none

def Line.run (n : Nat) (rg : Regs) (nonzero : List α → Bool) (l : Line P) (br : Branch α) :
    Option (List (Branch α)) :=
  match l with
  | .version | .includeLib | .qreg _ | .creg _ => some [br]
  | .gate c => c.run n rg br
  | .measure q c => do runOp (P := P) n rg nonzero (.measure (← q.toQArg) (← c.toQArg)) br
  | .reset q => do runOp (P := P) n rg nonzero (.reset (← q.toQArg)) br
  | .barrier qs => do runOp (P := P) n rg nonzero (.barrier (← qs.mapM QRef.toQArg)) br

def linesRun (n : Nat) (rg : Regs) (nonzero : List α → Bool) : List (Line P) → List (Branch α) →
    Option (List (Branch α))
  | [], brs => some brs
  | l :: ls, brs => (brs.mapM (Line.run n rg nonzero l)).bind fun r => linesRun n rg nonzero ls r.flatten

/-- all branches of one shot of the exported program, from `|0…0⟩` and the all-zero register -/
def exportedRun (nonzero : List α → Bool) (nq nc : Nat) (ls : List (Line P)) : Option (List (Branch α)) :=
  linesRun nq (exportRegs nq nc) nonzero ls [(zeroState nq, 0)]

end run

end Q1t.OpenQasm

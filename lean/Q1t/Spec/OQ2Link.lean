import Q1t.Model.OpenQasmTable
import Q1t.Spec.OQ2
import Q1t.Spec.Unitaries
/-!
How the structured output of the exporter's model is *read* as OpenQASM — the bridge the C11 theorems are
stated through.  (The implementation's text itself is read by `Spec.OQ2.lex` / `parse` in the driver; that
the text lexes to the model's tokens is correspondence (A).)

* `Arg.eval` — value of an instantiated argument expression; a reference parameter's *name* has no value;
* `chunkApps` — an unconditional translation as a list of gate applications on local qubits;
* `libApps` — the translation of library gate `name` on qubits `0 … k-1` of a `k`-qubit register;
* `Arg.skeleton`, `toProgram` — the exported lines as a `Spec.OQ2.Program` in which every displayed number is
  replaced by `0` (well-formedness does not look at the values of numbers, only at identifiers).
-/
namespace Q1t.OpenQasm
open Q1t.Spec.OQ2

variable {P : Type}

def Arg.eval [Angle P] : Arg P → Option P
  | .lit n => some (Angle.ofDec n 0)
  | .pi => some Angle.pi
  | .val v => some v
  | .name _ _ => none
  | .neg e => e.eval.map Angle.neg
  | .div a b => do pure (Angle.div (← a.eval) (← b.eval))

def QRef.localBit : QRef → Option Nat
  | .bit "q" i => some i
  | _ => none

/-- an unconditional translation as gate applications `(name, parameter values, qubits)` -/
def chunkApps [Angle P] (cs : List (Chunk P)) : Option (List (String × List P × List Nat)) :=
  cs.mapM fun c =>
    match c.conds, c.app with
    | [], some a => do
      let vals ← a.args.mapM Arg.eval
      let qs ← a.qargs.mapM QRef.localBit
      pure (a.name, vals, qs)
    | _, _ => none

/-- the translation of library gate `name` with parameters `ps`, placed on qubits `0 … k-1` -/
def libApps [Angle P] (tbl : List GateTpl) (name : String) (ps : List (QParam P)) :
    Option (List (String × List P × List Nat)) :=
  match lookupTpl tbl name with
  | none => none
  | some t =>
    match exportGate tbl (qbitNames t.nbits) none (.lib name ps) (List.range t.nbits) with
    | .ok cs => chunkApps cs
    | _ => none

/-- the matrix the exported statements of a library gate denote (on its own qubits) -/
def libMeaning {α} [Zero α] [One α] [Add α] [Mul α] [Neg α] [Sub α] [Amp α P] [Angle P]
    (tbl : List GateTpl) (name : String) (ps : List (QParam P)) : Option (LMat α) :=
  match lookupTpl tbl name, libApps tbl name ps with
  | some t, some apps => seqMatrix (α := α) t.nbits apps
  | _, _ => none

/-! ### skeleton program (for well-formedness) -/

def Arg.skeleton : Arg P → Expr
  | .lit n => .int n
  | .pi => .pi
  | .val _ => .int 0
  | .name s _ => .ident s
  | .neg e => .neg e.skeleton
  | .div a b => .div a.skeleton b.skeleton

def QRef.toQArg : QRef → Option QArg
  | .reg r => some (.reg r)
  | .bit r i => some (.idx r i)
  | .raw _ => none

/-- a gate chunk as a statement: at most one `if`, an application -/
def Chunk.toStmt (c : Chunk P) : Option Stmt :=
  match c.app with
  | none => none
  | some a =>
    match a.qargs.mapM QRef.toQArg with
    | none => none
    | some qs =>
      let op := Op.app a.name (a.args.map Arg.skeleton) qs
      match c.conds with
      | [] => some (.op op)
      | [k] => some (.cond "b" k op)
      | _ => none

def Line.toStmt : Line P → Option (Option Stmt)
  | .version | .includeLib => some none
  | .qreg n => some (some (.qreg "q" n))
  | .creg n => some (some (.creg "b" n))
  | .gate c => c.toStmt.map some
  | .measure q c => do pure (some (.op (.measure (← q.toQArg) (← c.toQArg))))
  | .reset q => do pure (some (.op (.reset (← q.toQArg))))
  | .barrier qs => do pure (some (.op (.barrier (← qs.mapM QRef.toQArg))))

/-- the exported lines as a program (header lines required first); `none` if some line is not a statement of
the language (an empty chunk, a doubly conditioned one, a number in place of a qubit) -/
def toProgram : List (Line P) → Option Program
  | .version :: .includeLib :: rest => (rest.mapM Line.toStmt).map fun l => ⟨true, l.filterMap id⟩
  | _ => none

end Q1t.OpenQasm

import Q1t.Base.Amp
import Q1t.Spec.Embed
/-!
Reference reading of a **cQASM 1.0 subset** (C12), written independently of the exporter (Mathlib-free, executable):
a parser from program text to an abstract syntax, well-formedness, each instruction's meaning as a matrix, and
the single-shot branching semantics in the carrier of `Spec/Born.lean` (a list of branches
`(unnormalised state, register word)`; the squared norm of a branch is its probability).

The subset (written from memory of the cQASM 1.0 paper, Khammassi et al. 2018, and of libqasm's grammar):

```
version 1.0                                  first non-blank line
qubits n                                     second non-blank line, n ≥ 1; declares q[0..n-1] and the bits b[0..n-1]
.name | .name(k)                             starts a sub-circuit that extends to the next header / end of text and is
                                             executed k times (default 1)
i h x y z s sdag t tdag x90 mx90 y90 my90 q[a]
rx ry rz q[a], θ                             exp(-iθP/2)
cnot cz swap q[a], q[b]       toffoli q[a], q[b], q[c]
cr q[a], q[b], θ                             diag(1,1,1,e^{iθ})
crk q[a], q[b], k                            diag(1,1,1,e^{iπ/2^k})    ("controlled phase shift (π/2^k)")
c-<gate> b[i], b[j], …, <operands of gate>   the gate is applied iff all listed bits are 1
not b[k]                                     negate a measurement bit
measure q[a] (= measure_z)                   projective Z measurement; the outcome is written to b[a]
measure_x / measure_y q[a]                   rotate to the X / Y basis, measure, rotate back
measure_all                                  measure every qubit in Z, qubit a into b[a]
prep_z q[a]                                  reset to |0⟩
{ instr | instr | … }                        a bundle, on ONE line, of plain or binary-controlled instructions on
                                             pairwise disjoint qubits; no bundle inside a bundle
```
One statement per line; `#` starts a comment; blank lines are ignored.  A numeric operand is an optionally signed
decimal literal (`-0.25`, `3`, `1e-3`): at most one sign.  Everything else is a syntax error.
-/
namespace Q1t.CQ1
open Q1t

/-! ## Abstract syntax -/

/-- a decimal literal with its sign, kept as text (its value is assigned by a `NumSem`) -/
structure NumLit where
  neg : Bool
  txt : List Char
  isInt : Bool
  deriving DecidableEq, Repr

inductive Arg where
  | q (i : Nat)
  | b (i : Nat)
  | num (x : NumLit)
  deriving DecidableEq, Repr

structure Instr where
  /-- the bits of a `c-` prefix (empty: unconditional) -/
  ctrl : List Nat
  name : String
  args : List Arg
  deriving DecidableEq, Repr

inductive Stmt where
  | one (i : Instr)
  | bundle (is : List Instr)
  deriving DecidableEq, Repr

structure SubCirc where
  name : String
  iters : Nat
  body : List Stmt
  deriving DecidableEq, Repr

structure Program where
  nq : Nat
  subs : List SubCirc
  deriving DecidableEq, Repr

inductive SynErr where
  | noVersion
  | noQubits
  | unknownInstr (name : String)
  | badOperand (text : String)
  | badArity (name : String)
  | badCondition (name : String)
  | unclosedBundle
  | bundleFragment
  | nestedBundle
  | emptyBundleSlot
  | badSubcircuit
  deriving DecidableEq, Repr

structure ParseFail where
  /-- index of the offending line among the non-blank lines -/
  line : Nat
  text : String
  err : SynErr
  deriving DecidableEq, Repr

/-! ## Lexical helpers -/

abbrev Text := List Char

def isBlank (c : Char) : Bool := c == ' ' || c == '\t' || c == '\r'
def isDigit (c : Char) : Bool := '0' ≤ c && c ≤ '9'
def isIdStart (c : Char) : Bool := ('a' ≤ c && c ≤ 'z') || ('A' ≤ c && c ≤ 'Z') || c == '_'
def isIdChar (c : Char) : Bool := isIdStart c || isDigit c

def trim (s : Text) : Text := ((s.dropWhile isBlank).reverse.dropWhile isBlank).reverse

def splitOnChar (c : Char) : Text → List Text
  | [] => [[]]
  | x :: xs =>
    match splitOnChar c xs with
    | [] => [[]]   -- unreachable
    | t :: ts => if x = c then [] :: t :: ts else (x :: t) :: ts

def stripComment (s : Text) : Text := s.takeWhile (· != '#')

def natOfDigits (ds : Text) : Nat := ds.foldl (fun acc c => acc * 10 + (c.toNat - 48)) 0

/-- `<p>[<digits>]` -/
def indexed (p : Char) (s : Text) : Option Nat :=
  match s with
  | c :: '[' :: rest =>
    if c ≠ p then none else
    let ds := rest.takeWhile isDigit
    if ds.isEmpty then none else
    if rest.drop ds.length = [']'] then some (natOfDigits ds) else none
  | _ => none

/-- unsigned decimal literal `D+ [. D*] [e [+-] D+]` or `. D+ [e …]`; returns whether it is an integer literal -/
def unsignedLit (s : Text) : Option Bool :=
  let ip := s.takeWhile isDigit
  let r1 := s.drop ip.length
  let (fp, hasDot, r2) := match r1 with
    | '.' :: t => (t.takeWhile isDigit, true, t.drop (t.takeWhile isDigit).length)
    | _ => ([], false, r1)
  if ip.isEmpty && fp.isEmpty then none else
  match r2 with
  | [] => some (!hasDot)
  | e :: r3 =>
    if e ≠ 'e' && e ≠ 'E' then none else
    let r4 := match r3 with
      | '+' :: t => t
      | '-' :: t => t
      | t => t
    if r4.isEmpty || !r4.all isDigit then none else some false

def parseArg (s : Text) : Option Arg :=
  match indexed 'q' s with
  | some i => some (.q i)
  | none =>
    match indexed 'b' s with
    | some i => some (.b i)
    | none =>
      match s with
      | '-' :: t => (unsignedLit t).map fun isInt => .num ⟨true, t, isInt⟩
      | _ => (unsignedLit s).map fun isInt => .num ⟨false, s, isInt⟩

/-! ## The instruction set -/

inductive Kind | Q | B | A | K
  deriving DecidableEq, Repr

/-- operand kinds of every instruction of the subset -/
def signature : String → Option (List Kind)
  | "i" | "h" | "x" | "y" | "z" | "s" | "sdag" | "t" | "tdag" | "x90" | "mx90" | "y90" | "my90" => some [.Q]
  | "rx" | "ry" | "rz" => some [.Q, .A]
  | "cnot" | "cz" | "swap" => some [.Q, .Q]
  | "toffoli" => some [.Q, .Q, .Q]
  | "cr" => some [.Q, .Q, .A]
  | "crk" => some [.Q, .Q, .K]
  | "measure" | "measure_x" | "measure_y" | "measure_z" | "prep_z" => some [.Q]
  | "measure_all" => some []
  | "not" => some [.B]
  | _ => none

/-- the instructions that are unitary gates (only these may carry a `c-` prefix) -/
def isGate (name : String) : Bool :=
  !["measure", "measure_x", "measure_y", "measure_z", "prep_z", "measure_all", "not"].contains name

def argKind : Arg → Kind → Bool
  | .q _, .Q => true
  | .b _, .B => true
  | .num _, .A => true
  | .num x, .K => x.isInt && !x.neg
  | _, _ => false

def argsMatch : List Arg → List Kind → Bool
  | [], [] => true
  | a :: as, k :: ks => argKind a k && argsMatch as ks
  | _, _ => false

/-! ## Parser -/

def isB : Arg → Bool
  | .b _ => true
  | _ => false
def bIndex : Arg → Option Nat
  | .b i => some i
  | _ => none
def qIndex : Arg → Option Nat
  | .q i => some i
  | _ => none

/-- one instruction: `name operand, operand, …` -/
def parseInstr (s : Text) : Except SynErr Instr :=
  let s := trim s
  let nameT := s.takeWhile (fun c => !isBlank c)
  let rest := trim (s.drop nameT.length)
  let name := String.ofList nameT
  let argTexts := if rest.isEmpty then [] else (splitOnChar ',' rest).map trim
  let (gname, conditional) := match nameT with
    | 'c' :: '-' :: g => (String.ofList g, true)
    | _ => (name, false)
  match signature gname with
  | none => .error (.unknownInstr name)
  | some sig =>
    match argTexts.find? (fun t => (parseArg t).isNone) with
    | some t => .error (.badOperand (String.ofList t))
    | none =>
      let args := argTexts.filterMap parseArg
      if conditional then
        let cbits := args.takeWhile isB
        let gargs := args.drop cbits.length
        if cbits.isEmpty || !isGate gname then .error (.badCondition name)
        else if !argsMatch gargs sig then .error (.badArity name)
        else .ok ⟨cbits.filterMap bIndex, gname, gargs⟩
      else if !argsMatch args sig then .error (.badArity name)
      else .ok ⟨[], gname, args⟩

def mapExcept {ε α β} (f : α → Except ε β) : List α → Except ε (List β)
  | [] => .ok []
  | a :: as => match f a with
    | .error e => .error e
    | .ok b => match mapExcept f as with
      | .error e => .error e
      | .ok bs => .ok (b :: bs)

def count (c : Char) (s : Text) : Nat := (s.filter (· == c)).length

/-- a statement line (not a header) -/
def parseStmt (s : Text) : Except SynErr Stmt :=
  let s := trim s
  match s with
  | '{' :: rest =>
    if rest.getLast? ≠ some '}' then .error .unclosedBundle else
    let inner := rest.dropLast
    if inner.contains '{' || inner.contains '}' then
      -- `{ a | b } | c` closes early; `{ { a | b } | c }` nests
      .error .nestedBundle
    else
      let slots := (splitOnChar '|' inner).map trim
      if slots.any List.isEmpty then .error .emptyBundleSlot else
      match mapExcept parseInstr slots with
      | .error e => .error e
      | .ok is => .ok (.bundle is)
  | _ =>
    if s.contains '|' || count '{' s ≠ count '}' s then .error .bundleFragment
    else match parseInstr s with
      | .error e => .error e
      | .ok i => .ok (.one i)

/-- `.name` or `.name(k)` -/
def parseHeader (s : Text) : Option (String × Nat) :=
  match trim s with
  | '.' :: rest =>
    let nm := rest.takeWhile isIdChar
    if nm.isEmpty || !(nm.head?.map isIdStart).getD false then none else
    match rest.drop nm.length with
    | [] => some (String.ofList nm, 1)
    | '(' :: r =>
      let ds := r.takeWhile isDigit
      if ds.isEmpty then none else
      if r.drop ds.length = [')'] then some (String.ofList nm, natOfDigits ds) else none
    | _ => none
  | _ => none

/-- the non-blank lines of a text, comments removed, trimmed -/
def codeLines (t : Text) : List Text :=
  ((splitOnChar '\n' t).map fun l => trim (stripComment l)).filter (fun l => !l.isEmpty)

/-- statements and headers after the two declaration lines; `cur` is the open sub-circuit (reversed body) -/
def parseBody : List Text → Nat → (String × Nat × List Stmt) → List SubCirc → Except ParseFail (List SubCirc)
  | [], _, (nm, k, body), acc => .ok (acc ++ [⟨nm, k, body.reverse⟩])
  | l :: ls, lineNo, (nm, k, body), acc =>
    match l with
    | '.' :: _ =>
      match parseHeader l with
      | none => .error ⟨lineNo, String.ofList l, .badSubcircuit⟩
      | some (nm', k') => parseBody ls (lineNo + 1) (nm', k', []) (acc ++ [⟨nm, k, body.reverse⟩])
    | _ =>
      match parseStmt l with
      | .error e => .error ⟨lineNo, String.ofList l, e⟩
      | .ok st => parseBody ls (lineNo + 1) (nm, k, st :: body) acc

/-- a list of statement lines without the declarations (used for the fragment of one circuit operation) -/
def parseFragment (t : Text) : Except ParseFail (List SubCirc) :=
  parseBody (codeLines t) 0 ("default", 1, []) []

def words (l : Text) : List Text := (splitOnChar ' ' (l.map fun c => if isBlank c then ' ' else c)).filter (!·.isEmpty)

def parseProgram (t : Text) : Except ParseFail Program :=
  match codeLines t with
  | [] => .error ⟨0, "", .noVersion⟩
  | v :: rest =>
    if words v ≠ ["version".toList, "1.0".toList] then .error ⟨0, String.ofList v, .noVersion⟩ else
    match rest with
    | [] => .error ⟨1, "", .noQubits⟩
    | q :: body =>
      match words q with
      | [kw, n] =>
        if kw ≠ "qubits".toList || n.isEmpty || !n.all isDigit then .error ⟨1, String.ofList q, .noQubits⟩ else
        match parseBody body 2 ("default", 1, []) [] with
        | .error e => .error e
        | .ok subs => .ok ⟨natOfDigits n, subs⟩
      | _ => .error ⟨1, String.ofList q, .noQubits⟩

/-! ## Well-formedness -/

inductive WfErr where
  | noQubits
  | qubitOutOfRange (name : String) (i : Nat)
  | bitOutOfRange (name : String) (i : Nat)
  | repeatedOperand (name : String)
  | bundleOverlap
  | zeroIterations (name : String)
  deriving DecidableEq, Repr

def Instr.qubits (n : Nat) (i : Instr) : List Nat :=
  if i.name = "measure_all" then List.range n else
  i.args.filterMap qIndex
def Instr.bits (i : Instr) : List Nat :=
  i.ctrl ++ i.args.filterMap bIndex

def hasDup : List Nat → Bool
  | [] => false
  | x :: xs => xs.contains x || hasDup xs

def instrWf (n : Nat) (i : Instr) : Option WfErr :=
  match (i.qubits n).find? (fun k => n ≤ k) with
  | some k => some (.qubitOutOfRange i.name k)
  | none =>
    match i.bits.find? (fun k => n ≤ k) with
    | some k => some (.bitOutOfRange i.name k)
    | none => if hasDup (i.qubits n) then some (.repeatedOperand i.name) else none

def firstSome {α β} (f : α → Option β) : List α → Option β
  | [] => none
  | a :: as => match f a with
    | some b => some b
    | none => firstSome f as

def stmtWf (n : Nat) : Stmt → Option WfErr
  | .one i => instrWf n i
  | .bundle is =>
    match firstSome (instrWf n) is with
    | some e => some e
    | none => if hasDup (is.flatMap (Instr.qubits n)) then some .bundleOverlap else none

def subsWf (n : Nat) (subs : List SubCirc) : Option WfErr :=
  firstSome (fun s => firstSome (stmtWf n) s.body) subs

def programWf (p : Program) : Option WfErr :=
  if p.nq = 0 then some .noQubits else subsWf p.nq p.subs

/-! ## Meaning of the gates -/

/-- value of numeric operands: an angle, and the phase `e^{iπ/2^k}` of `crk` -/
structure NumSem (α P : Type) where
  angle : NumLit → Option P
  rk : Nat → Option α

section meaning
variable {α P : Type} [Zero α] [One α] [Add α] [Mul α] [Neg α] [Sub α] [Amp α P]

def scale (a : α) (M : LMat α) : LMat α := M.map (·.map (a * ·))

def mI : LMat α := [[1, 0], [0, 1]]
def mX : LMat α := [[0, 1], [1, 0]]
def mY : LMat α := [[0, -(Amp.I P)], [Amp.I P, 0]]
def mZ : LMat α := [[1, 0], [0, -1]]
def mH : LMat α := scale (Amp.hsqrt2 P) [[1, 1], [1, -1]]
def mS : LMat α := [[1, 0], [0, Amp.I P]]
def mSdag : LMat α := [[1, 0], [0, -(Amp.I P)]]
def mT : LMat α := [[1, 0], [0, Amp.zeta8 P]]
def mTdag : LMat α := [[1, 0], [0, Amp.conj P (Amp.zeta8 P)]]
/-- `x90 = rx(π/2)` -/
def mX90 : LMat α := scale (Amp.hsqrt2 P) [[1, -(Amp.I P)], [-(Amp.I P), 1]]
def mMX90 : LMat α := scale (Amp.hsqrt2 P) [[1, Amp.I P], [Amp.I P, 1]]
/-- `y90 = ry(π/2)` -/
def mY90 : LMat α := scale (Amp.hsqrt2 P) [[1, -1], [1, 1]]
def mMY90 : LMat α := scale (Amp.hsqrt2 P) [[1, 1], [-1, 1]]
/-- `exp(-iθX/2)` -/
def mRx (θ : P) : LMat α :=
  let c : α := Amp.cos (Amp.phalf α θ); let s : α := Amp.sin (Amp.phalf α θ)
  [[c, -(Amp.I P * s)], [-(Amp.I P * s), c]]
def mRy (θ : P) : LMat α :=
  let c : α := Amp.cos (Amp.phalf α θ); let s : α := Amp.sin (Amp.phalf α θ)
  [[c, -s], [s, c]]
def mRz (θ : P) : LMat α :=
  let c : α := Amp.cos (Amp.phalf α θ); let s : α := Amp.sin (Amp.phalf α θ)
  [[c - Amp.I P * s, 0], [0, c + Amp.I P * s]]
def mCnot : LMat α := Spec.ctrl mX
def mCz : LMat α := Spec.ctrl mZ
def mSwap : LMat α := [[1, 0, 0, 0], [0, 0, 1, 0], [0, 1, 0, 0], [0, 0, 0, 1]]
def mToffoli : LMat α := Spec.ctrl (Spec.ctrl mX)
/-- controlled phase: `diag(1, 1, 1, ph)` -/
def mCPhase (ph : α) : LMat α := [[1, 0, 0, 0], [0, 1, 0, 0], [0, 0, 1, 0], [0, 0, 0, ph]]

def numArgs (args : List Arg) : List NumLit := args.filterMap fun | .num x => some x | _ => none

/-- the matrix of a gate instruction (`none`: not a gate, or a numeric operand without a value) -/
def gateMatrix (S : NumSem α P) (name : String) (nums : List NumLit) : Option (LMat α) :=
  match name, nums with
  | "i", [] => some mI | "h", [] => some (mH (P := P)) | "x", [] => some mX | "y", [] => some (mY (P := P))
  | "z", [] => some mZ | "s", [] => some (mS (P := P)) | "sdag", [] => some (mSdag (P := P))
  | "t", [] => some (mT (P := P)) | "tdag", [] => some (mTdag (P := P))
  | "x90", [] => some (mX90 (P := P)) | "mx90", [] => some (mMX90 (P := P))
  | "y90", [] => some (mY90 (P := P)) | "my90", [] => some (mMY90 (P := P))
  | "rx", [a] => (S.angle a).map mRx | "ry", [a] => (S.angle a).map mRy | "rz", [a] => (S.angle a).map mRz
  | "cnot", [] => some mCnot | "cz", [] => some mCz | "swap", [] => some mSwap | "toffoli", [] => some mToffoli
  | "cr", [a] => (S.angle a).map fun θ => mCPhase (Amp.cos θ + Amp.I P * Amp.sin θ)
  | "crk", [k] => (S.rk (natOfDigits k.txt)).map mCPhase
  | _, _ => none

/-! ## Single-shot branching semantics -/

abbrev Branch (α : Type) := List α × Nat

def applyOn (n : Nat) (M : LMat α) (qs : List Nat) (ψ : List α) : List α :=
  LMat.mulVec (Spec.embed n qs M) ψ

/-- projector `|o⟩⟨o|` on qubit `q` -/
def project (n q : Nat) (o : Bool) (ψ : List α) : List α :=
  ψ.zipIdx.map fun (a, idx) => if (Spec.qbit n q idx == 1) == o then a else 0

def bitSet (w k : Nat) : Bool := w.testBit k
def writeBit (w k : Nat) (o : Bool) : Nat := if w.testBit k == o then w else w ^^^ (1 <<< k)

/-- Z measurement of qubit `q` into bit `q` after the rotation `pre`, followed by the rotation `post` -/
def measureWith (n : Nat) (nonzero : List α → Bool) (pre post : List (LMat α)) (q : Nat) (br : Branch α) :
    List (Branch α) :=
  let ψ0 := pre.foldl (fun φ M => applyOn n M [q] φ) br.1
  ([false, true].map fun o =>
    ((post.foldl (fun φ M => applyOn n M [q] φ) (project n q o ψ0)), writeBit br.2 q o)).filter fun b => nonzero b.1

def instrSem (S : NumSem α P) (n : Nat) (nonzero : List α → Bool) (i : Instr) (br : Branch α) :
    Option (List (Branch α)) :=
  match i.name, i.args with
  | "not", [.b k] => some [(br.1, br.2 ^^^ (1 <<< k))]
  | "measure", [.q q] | "measure_z", [.q q] => some (measureWith n nonzero [] [] q br)
  | "measure_x", [.q q] => some (measureWith n nonzero [mH (P := P)] [mH (P := P)] q br)
  | "measure_y", [.q q] =>
      some (measureWith n nonzero [mSdag (P := P), mH (P := P)] [mH (P := P), mS (P := P)] q br)
  | "measure_all", [] =>
      some ((List.range n).foldl (fun brs q => brs.flatMap (measureWith n nonzero [] [] q)) [br])
  | "prep_z", [.q q] =>
      some ([(project n q false br.1, br.2), (applyOn n mX [q] (project n q true br.1), br.2)].filter
        fun b => nonzero b.1)
  | name, args =>
      match gateMatrix S name (numArgs args) with
      | none => none
      | some M =>
        if i.ctrl.all (bitSet br.2) then some [(applyOn n M (i.qubits n) br.1, br.2)] else some [br]

def seqSem {β} (f : β → Branch α → Option (List (Branch α))) : List β → List (Branch α) → Option (List (Branch α))
  | [], brs => some brs
  | x :: xs, brs =>
    match brs.mapM (f x) with
    | none => none
    | some l => seqSem f xs l.flatten

def stmtSem (S : NumSem α P) (n : Nat) (nonzero : List α → Bool) (st : Stmt) (br : Branch α) :
    Option (List (Branch α)) :=
  match st with
  | .one i => instrSem S n nonzero i br
  | .bundle is => seqSem (instrSem S n nonzero) is [br]

def iterate {β} (f : β → Option β) : Nat → β → Option β
  | 0, x => some x
  | k + 1, x => (f x).bind (iterate f k)

def subSem (S : NumSem α P) (n : Nat) (nonzero : List α → Bool) (s : SubCirc) (brs : List (Branch α)) :
    Option (List (Branch α)) :=
  iterate (seqSem (stmtSem S n nonzero) s.body) s.iters brs

def subsSem (S : NumSem α P) (n : Nat) (nonzero : List α → Bool) : List SubCirc → List (Branch α) →
    Option (List (Branch α))
  | [], brs => some brs
  | s :: ss, brs => (subSem S n nonzero s brs).bind (subsSem S n nonzero ss)

/-- `|0…0⟩` with the register word 0 -/
def initial (n : Nat) : List (Branch α) := [((List.range (2 ^ n)).map fun i => if i = 0 then 1 else 0, 0)]

def programSem (S : NumSem α P) (nonzero : List α → Bool) (p : Program) : Option (List (Branch α)) :=
  subsSem S p.nq nonzero p.subs (initial p.nq)

/-! ## Observable content of a branch list: per register word, the (unnormalised) mixed state
`Σ |ψ⟩⟨ψ|` over the branches with that word.  Its trace is the probability of the word; it does not depend on
global phases nor on how hidden outcomes (`prep_z`) are split into branches. -/

def outer (ψ : List α) : LMat α := ψ.map fun a => ψ.map fun b => a * Amp.conj P b

def matAdd (A B : LMat α) : LMat α := List.zipWith (List.zipWith (· + ·)) A B

def density (dim : Nat) (brs : List (Branch α)) (w : Nat) : LMat α :=
  (brs.filter (·.2 == w)).foldl (fun acc b => matAdd acc (outer (P := P) b.1))
    (List.replicate dim (List.replicate dim 0))

def wordsOf (brs : List (Branch α)) : List Nat := (brs.map (·.2)).eraseDups

end meaning
end Q1t.CQ1

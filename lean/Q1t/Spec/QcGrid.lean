/-!
# Reference reading of a qcircuit grid (C13)

Independent of the exporter: the vocabulary of qcircuit cell symbols, a reader from the exported
*text* to a grid of symbols, the syntax of circuits (gate terms), and the executable predicate
`WellDrawn doc circuit` — "the grid is rectangular, has one row per wire, every connector ends on a
partner symbol inside the grid with nothing of another operation in between, every operation of the
circuit appears exactly once, connected, and operations sharing a wire appear on it in program order".

Core Lean only (no Mathlib): linked into the driver.
-/
namespace Q1t.Spec.QcGrid

/-! ## Vocabulary -/

/-- A cell of a qcircuit grid, as far as the exporter's output uses the package. Offsets are rows
relative to the cell's own row (negative = upwards). -/
inductive Sym where
  | qw | cw                                   -- bare quantum / classical wire
  | gate (label : String) (qwx : Option Int)  -- `\gate{l}` with optional `\qwx[k]`
  | multigate (k : Nat) (label : String) (qwx : Option Int) -- `\multigate{k}{l}`: box over rows r..r+k
  | ghost (label : String)                    -- `\ghost{l}`: inner row of a multigate
  | ctrl (k : Int)                            -- `\ctrl{k}`: dot with a line to row r+k
  | targ                                      -- ⊕
  | control                                   -- `\control \qw`: bare dot
  | qswap (qwx : Option Int)                  -- ×
  | meter (basis : Option String)             -- `\meter` / `\meterB{b}`
  | cwx (k : Int)                             -- `\cw \cwx[k]`: classical wire with a line to row r+k
  | cctrl (k : Int) | cctrlo (k : Int)        -- classical control dot (filled / open) with line to r+k
  | reset                                     -- `\push{~\ket{0}~} \ar @{|-{}} [0,-1]`
  | barrier (k : Nat)                         -- `\qw \barrier{k}`: dashed line over rows r..r+k
  | cds (k : Nat) (label : String)            -- `\cds{k}{l}`: text centred over rows r..r+k
  | lstick (label : String)
  | empty                                     -- nothing at all (header rows)
  deriving DecidableEq, Repr, Inhabited

namespace Sym

/-- Bare wire (nothing drawn on it). -/
def isWire : Sym → Bool
  | qw | cw | empty | lstick _ => true
  | _ => false

/-- A symbol that is (part of) a quantum gate: something a control line may end on. -/
def isGatePart : Sym → Bool
  | gate .. | multigate .. | ghost _ | ctrl _ | targ | control | qswap _ => true
  | _ => false

/-- Single-line connectors leaving a cell: `(offset, kind)`. Kinds: 0 = quantum control/wire line
(must end on a gate part), 1 = measurement line (must end on a meter), 2 = classical control line
(must end on a gate part or on another classical control). -/
def lines : Sym → List (Int × Nat)
  | gate _ (some k) => [(k, 0)]
  | multigate _ _ (some k) => [(k, 0)]
  | qswap (some k) => [(k, 0)]
  | ctrl k => [(k, 0)]
  | cwx k => [(k, 1)]
  | cctrl k => [(k, 2)]
  | cctrlo k => [(k, 2)]
  | _ => []

/-- Downward extent of a cell that covers several rows (`\multigate`, `\barrier`, `\cds`). -/
def extent : Sym → Nat
  | multigate k _ _ => k
  | barrier k => k
  | cds k _ => k
  | _ => 0

def partnerOk (kind : Nat) (t : Sym) : Bool :=
  match kind with
  | 0 => t.isGatePart
  | 1 => match t with | meter _ => true | _ => false
  | _ => t.isGatePart || (match t with | cctrl _ => true | cctrlo _ => true | _ => false)

end Sym

/-! ## Reader: cell text → symbol -/

/-- One LaTeX command with its brace / bracket arguments. -/
structure TexItem where
  name : String
  args : List String
  deriving Repr, DecidableEq

/-- Read up to the brace matching an already opened `{`; returns (content, rest after `}`). -/
def readBraced : Nat → List Char → List Char → Option (List Char × List Char)
  | _, _, [] => none
  | d, acc, c :: cs =>
    if c = '{' then readBraced (d+1) (c :: acc) cs
    else if c = '}' then
      match d with
      | 0 => some (acc.reverse, cs)
      | d'+1 => readBraced d' (c :: acc) cs
    else readBraced d (c :: acc) cs

def readBracket : List Char → List Char → Option (List Char × List Char)
  | _, [] => none
  | acc, c :: cs => if c = ']' then some (acc.reverse, cs) else readBracket (c :: acc) cs

/-- Arguments directly following a command name. -/
def readArgs : Nat → List String → List Char → List String × List Char
  | 0, acc, cs => (acc.reverse, cs)
  | fuel+1, acc, '{' :: cs =>
    match readBraced 0 [] cs with
    | some (a, rest) => readArgs fuel (String.ofList a :: acc) rest
    | none => (acc.reverse, '{' :: cs)
  | fuel+1, acc, '[' :: cs =>
    match readBracket [] cs with
    | some (a, rest) => readArgs fuel (String.ofList a :: acc) rest
    | none => (acc.reverse, '[' :: cs)
  | _, acc, cs => (acc.reverse, cs)

def readItems : Nat → List TexItem → List Char → Option (List TexItem)
  | 0, _, _ => none
  | _, acc, [] => some acc.reverse
  | fuel+1, acc, c :: cs =>
    if c = ' ' then readItems fuel acc cs
    else if c = '\\' then
      let name := cs.takeWhile Char.isAlpha
      let rest := cs.dropWhile Char.isAlpha
      let (args, rest') := readArgs (rest.length + 1) [] rest
      readItems fuel (⟨String.ofList name, args⟩ :: acc) rest'
    else none

def natArg (s : String) : Option Nat := s.toNat?
def intArg (s : String) : Option Int := s.toInt?

def resetText : String := "\\push{~\\ket{0}~} \\ar @{|-{}} [0,-1]"

/-- The symbol denoted by the text of one cell; `none` = not in the vocabulary. -/
def readCell (raw : String) : Option Sym :=
  let s := raw.trimAscii.toString
  if s = "" then some .empty
  else if s = resetText then some .reset
  else
    match readItems (s.length + 1) [] s.toList with
    | none => none
    | some items =>
      match items with
      | [⟨"qw", []⟩] => some .qw
      | [⟨"cw", []⟩] => some .cw
      | [⟨"qw", []⟩, ⟨"barrier", [k]⟩] => (natArg k).map .barrier
      | [⟨"cw", []⟩, ⟨"cwx", [k]⟩] => (intArg k).map .cwx
      | [⟨"gate", [l]⟩] => some (.gate l none)
      | [⟨"gate", [l]⟩, ⟨"qwx", [k]⟩] => (intArg k).map fun k => .gate l (some k)
      | [⟨"multigate", [k, l]⟩] => (natArg k).map fun k => .multigate k l none
      | [⟨"multigate", [k, l]⟩, ⟨"qwx", [q]⟩] =>
        match natArg k, intArg q with
        | some k, some q => some (.multigate k l (some q))
        | _, _ => none
      | [⟨"ghost", [l]⟩] => some (.ghost l)
      | [⟨"ctrl", [k]⟩] => (intArg k).map .ctrl
      | [⟨"targ", []⟩] => some .targ
      | [⟨"control", []⟩, ⟨"qw", []⟩] => some .control
      | [⟨"qswap", []⟩] => some (.qswap none)
      | [⟨"qswap", []⟩, ⟨"qwx", [k]⟩] => (intArg k).map fun k => .qswap (some k)
      | [⟨"meter", []⟩] => some (.meter none)
      | [⟨"meterB", [b]⟩] => some (.meter (some b))
      | [⟨"cctrl", [k]⟩] => (intArg k).map .cctrl
      | [⟨"cctrlo", [k]⟩] => (intArg k).map .cctrlo
      | [⟨"cds", [k, l]⟩] => (natArg k).map fun k => .cds k l
      | [⟨"lstick", [l]⟩] => some (.lstick l)
      | _ => none

/-! ## Reader: exported text → document -/

/-- A loop brace of the header line: columns (0-based, in grid cells after the label column) and count. -/
structure Brace where
  first : Nat
  last : Nat
  count : Nat
  deriving Repr, DecidableEq, Inhabited

/-- What the text says: braces, the two header rows' cell counts (if present), and the wire rows.
Each wire row is `label :: cells`. -/
structure Doc where
  braces : List Brace
  headerCells : Option (Nat × Nat)
  rows : List (List Sym)
  deriving Repr, DecidableEq

def preamble : String := "\\Qcircuit @C=1em @R=.7em {"

/-- Cells of a row `a & b & c \\`. -/
def splitRow (line : String) : Option (List String) :=
  let t := line.trimAscii.toString
  if t.endsWith "\\\\" then
    some ((t.dropEnd 2).toString.splitOn "&" |>.map fun c => c.trimAscii.toString)
  else none

/-- `2,7` → 7 (row must be 2: the spacer row under the header). -/
def readPos (s : String) : Option Nat :=
  match s.splitOn "," with
  | ["2", c] => c.toNat?
  | _ => none

/-- One `\mbox{} \POS"2,a"."2,a"."2,b"."2,b"!C*+<.7em>\frm{^\}},+U*++!D{n\times}` fragment. -/
def readBrace (frag : String) : Option Brace :=
  match frag.splitOn "\"" with
  | [pre, p1, d1, p2, d2, p3, d3, p4, post] =>
    if pre.trimAscii.toString = "\\POS" && d1 = "." && d2 = "." && d3 = "." then
      match readPos p1, readPos p2, readPos p3, readPos p4 with
      | some a, some a', some b, some b' =>
        if a = a' && b = b' && a ≥ 2 && b ≥ 2 then
          match post.splitOn "!D{" with
          | [fr, cnt] =>
            if fr = "!C*+<.7em>\\frm{^\\}},+U*++" then
              match cnt.splitOn "\\times}" with
              | n :: _ => n.toNat?.map fun n => ⟨a - 2, b - 2, n⟩
              | _ => none
            else none
          | _ => none
        else none
      | _, _, _, _ => none
    else none
  | _ => none

/-- Header line: `& & \mbox{}…& \mbox{}… \\`. Returns the braces and the number of cells. -/
def readHeader (line : String) : Option (List Brace × Nat) :=
  let t := line.trimAscii.toString
  if !t.endsWith "\\\\" then none else
  let body := (t.dropEnd 2).toString
  match body.splitOn "\\mbox{}" with
  | [] => none
  | pre :: frags =>
    if !(pre.toList.all fun c => c = ' ' || c = '&') then none else
    -- each fragment: brace text, then trailing `& ` separators belonging to the next
    let rec go (acc : List Brace) : List String → Option (List Brace)
      | [] => some acc.reverse
      | f :: fs =>
        -- strip trailing separators
        let core := String.ofList (f.toList.reverse.dropWhile (fun c => c = ' ' || c = '&')).reverse
        match readBrace core with
        | some b => go (b :: acc) fs
        | none => none
    (go [] frags).map fun bs => (bs, (body.toList.filter (· = '&')).length + 1)

def readRow (line : String) : Option (List Sym) :=
  (splitRow line).bind fun cells => cells.mapM readCell

/-- Read the whole exported text. -/
def readDoc (text : String) : Option Doc :=
  let lines := (text.splitOn "\n").filter fun l => l.trimAscii.toString ≠ ""
  match lines with
  | first :: rest =>
    if first.trimAscii.toString ≠ preamble then none else
    match rest.reverse with
    | last :: midRev =>
      if last.trimAscii.toString ≠ "}" then none else
      let mid := midRev.reverse
      match mid with
      | h1 :: h2 :: rows =>
        if (h1.splitOn "\\POS").length > 1 then
          match readHeader h1, splitRow h2, rows.mapM readRow with
          | some (bs, n1), some sp, some rs =>
            if sp.all (· = "") then some ⟨bs, some (n1, sp.length), rs⟩ else none
          | _, _, _ => none
        else (mid.mapM readRow).map fun rs => ⟨[], none, rs⟩
      | _ => (mid.mapM readRow).map fun rs => ⟨[], none, rs⟩
    | [] => none
  | [] => none

/-! ## Circuits (the syntax the property quantifies over) -/

mutual
/-- Gate terms. Parameters only matter through the text displayed in the box, so a one-label gate
is `box label n`. -/
inductive Gate where
  | box (label : String) (n : Nat)   -- an `n`-qubit gate displayed as a box with this label
  | x | z | i | swap
  | c (g : Gate)                     -- controlled `g`; first operand is the control
  | kron (a b : Gate)
  | comp (name : String) (n : Nat) (ops : Subs)   -- composite: sub-gates on local bit indices
  | loop (iters : Nat) (body : Gate)
inductive Subs where
  | nil
  | cons (g : Gate) (bits : List Nat) (rest : Subs)
end

inductive Basis where
  | X | Y | Z
  deriving DecidableEq, Repr

inductive Op where
  | gate (g : Gate) (bits : List Nat)
  | cond (control : List Nat) (target : Nat) (g : Gate) (bits : List Nat)
  | reset (q : Nat)
  | resetAll
  | measure (q c : Nat) (b : Basis)
  | measureAll (cbits : List Nat) (b : Basis)
  | peek (q c : Nat) (b : Basis)
  | peekAll (cbits : List Nat) (b : Basis)
  | barrier (qbits : List Nat)

structure Circ where
  nq : Nat
  nc : Nat
  ops : List Op

mutual
def Gate.nbits : Gate → Nat
  | .box _ n => n
  | .x | .z | .i => 1
  | .swap => 2
  | .c g => 1 + g.nbits
  | .kron a b => a.nbits + b.nbits
  | .comp _ n _ => n
  | .loop _ b => b.nbits
end

/-! ## The predicate `WellDrawn` -/

/-- Wire rows without the label column. -/
abbrev Grid := List (List Sym)

def Grid.cell (g : Grid) (r c : Nat) : Sym := ((g[r]?).bind (·[c]?)).getD .empty
def Grid.width (g : Grid) : Nat := (g.head?.map List.length).getD 0
def Grid.col (g : Grid) (c : Nat) : List Sym := g.map fun row => row.getD c .empty

/-- All rows have the same number of cells. -/
def rectangular (g : Grid) : Bool :=
  match g with
  | [] => true
  | r :: rs => rs.all fun r' => r'.length = r.length

/-- Row `r + k`, if it is a row of a column of height `n`. -/
def target (n r : Nat) (k : Int) : Option Nat :=
  let t := (r : Int) + k
  if 0 ≤ t ∧ t < (n : Int) then some t.toNat else none

/-- Every line leaving `s` (at row `r` of column `col`) ends inside the column on a partner symbol. -/
def linesOk (col : List Sym) (r : Nat) (s : Sym) : Bool :=
  s.lines.all fun (k, kind) =>
    match target col.length r k with
    | some t => Sym.partnerOk kind (col.getD t .empty)
    | none => false

/-- As `linesOk`, but a control line may also end on one of the rows `idle` (bare wires that are
identity gates of the circuit: the identity's drawing IS the wire). -/
def linesOkIdle (idle : List Nat) (col : List Sym) (r : Nat) (s : Sym) : Bool :=
  s.lines.all fun (k, kind) =>
    match target col.length r k with
    | some t => Sym.partnerOk kind (col.getD t .empty) || (kind != 1 && idle.contains t)
    | none => false

/-- Multi-row symbols: a `\multigate{k}` sits on `k` ghosts with its label; `\barrier{k}`, `\cds{k}`
stay inside the quantum rows; a ghost lies under a multigate with its label. -/
def extentOk (nq : Nat) (col : List Sym) (r : Nat) (s : Sym) : Bool :=
  match s with
  | .multigate k l _ => (List.range k).all fun j => col[r + 1 + j]? = some (.ghost l)
  | .barrier k => r + k < nq
  | .cds k _ => r + k < nq
  | .ghost l => (List.range r).any fun r' =>
      match col.getD r' .empty with
      | .multigate k l' _ => l' = l && r ≤ r' + k
      | _ => false
  | _ => true

/-- Quantum symbols on quantum rows, classical ones on classical rows. -/
def kindOk (nq r : Nat) (s : Sym) : Bool :=
  match s with
  | .qw => r < nq
  | .cw | .cwx _ | .cctrl _ | .cctrlo _ => nq ≤ r
  | .lstick _ | .empty => false
  | _ => r < nq

def columnConnected (nq : Nat) (col : List Sym) : Bool :=
  col.zipIdx.all fun (s, r) => linesOk col r s && extentOk nq col r s

/-- Connectors of the whole grid end in the grid on their partner symbol. -/
def connectorsOk (nq : Nat) (g : Grid) : Bool :=
  (List.range g.width).all fun c => columnConnected nq (g.col c)

/-- Rows strictly between `r` and `r + k`. -/
def between (r : Nat) (k : Int) : List Nat :=
  if k ≥ 0 then (List.range (k.toNat - 1)).map (r + 1 + ·)
  else (List.range ((-k).toNat - 1)).map fun j => r - 1 - j

/-- Nothing but bare wire under a line; nothing but bare wire under a barrier or `\cds`. -/
def spanClearAt (col : List Sym) (r : Nat) (s : Sym) : Bool :=
  (s.lines.all fun (k, _) => (between r k).all fun t => (col.getD t .empty).isWire) &&
  (match s with
   | .barrier k | .cds k _ => (List.range k).all fun j => (col.getD (r + 1 + j) .empty).isWire
   | _ => true)

def spansClear (g : Grid) : Bool :=
  (List.range g.width).all fun c =>
    let col := g.col c
    col.zipIdx.all fun (s, r) => spanClearAt col r s

/-! ### What each operation must look like -/

inductive MarkKind where
  | block (label : String)    -- box / part of a multi-qubit box with this label
  | xgate | zgate | ctrlDot | swapX
  | meter (basis : Option String) | measEnd
  | cctl (bit : Bool)
  | reset
  | barrier (k : Nat)
  | cds (k : Nat)
  | idle                      -- identity gate: its drawing is the bare wire
  deriving DecidableEq, Repr

structure Mark where
  wire : Nat
  kind : MarkKind
  deriving DecidableEq, Repr

def accepts : MarkKind → Sym → Bool
  | .block l, .gate l' _ => l = l'
  | .block l, .multigate _ l' _ => l = l'
  | .block l, .ghost l' => l = l'
  | .xgate, .targ => true
  | .xgate, .gate "X" _ => true
  | .zgate, .control => true
  | .zgate, .gate "Z" _ => true
  | .ctrlDot, .ctrl _ => true
  | .swapX, .qswap _ => true
  | .meter b, .meter b' => b = b'
  | .measEnd, .cwx _ => true
  | .cctl true, .cctrl _ => true
  | .cctl false, .cctrlo _ => true
  | .reset, .reset => true
  | .barrier k, .barrier k' => k = k'
  | .cds k, .cds k' "\\cdots" => k = k'
  | .idle, .qw => true
  | _, _ => false

/-- A unit of drawing that must sit in ONE column: the marks, further wires it covers (barrier),
and whether its marks must be joined by lines. -/
inductive Item where
  | stage (marks : List Mark) (covers : List Nat) (connected : Bool)
  | loopBegin (count : Nat)
  | loopEnd
  deriving Repr

def Item.hasMark (m : Mark) : Item → Bool
  | .stage marks _ _ => marks.contains m
  | _ => false

/-- `bits[b]` for the sub-gate operands of a composite (0 if out of range: see `malformed`). -/
def mapBits (bits sub : List Nat) : List Nat := sub.map fun b => bits.getD b 0

/-- Marks of a gate that is drawn in a single column (`none`: composite / loop). -/
def single : Gate → List Nat → Option (List Mark)
  | .box l _, bits => some (bits.map fun b => ⟨b, .block l⟩)
  | .x, bits => some (bits.map fun b => ⟨b, .xgate⟩)
  | .z, bits => some (bits.map fun b => ⟨b, .zgate⟩)
  | .i, bits => some (bits.map fun b => ⟨b, .idle⟩)
  | .swap, bits => some (bits.map fun b => ⟨b, .swapX⟩)
  | .c g, bits =>
    match bits with
    | [] => none
    | b :: rest => (single g rest).map fun m => ⟨b, .ctrlDot⟩ :: m
  | .kron a b, bits =>
    match single a (bits.take a.nbits), single b (bits.drop a.nbits) with
    | some m1, some m2 => some (m1 ++ m2)
    | _, _ => none
  | .comp _ _ _, _ => none
  | .loop _ _, _ => none

mutual
/-- The stages of a gate on `bits` under the controls `ctx` (marks every stage must carry). -/
def items : Gate → List Nat → List Mark → List Item
  | .kron a b, bits, ctx =>
    if ctx.isEmpty then items a (bits.take a.nbits) [] ++ items b (bits.drop a.nbits) []
    else match single (.kron a b) bits with
      | some m => [.stage (m ++ ctx) [] true]
      | none => items a (bits.take a.nbits) ctx ++ items b (bits.drop a.nbits) ctx
  | .c g, bits, ctx =>
    match single (.c g) bits with
    | some m => [.stage (m ++ ctx) [] true]
    | none =>
      match bits with
      | [] => []
      | b :: rest =>
        let inner := items g rest (⟨b, .ctrlDot⟩ :: ctx)
        -- a control of something that draws nothing: the control alone
        if inner.any (Item.hasMark ⟨b, .ctrlDot⟩) then inner else .stage (⟨b, .ctrlDot⟩ :: ctx) [] true :: inner
  | .comp _ _ ops, bits, ctx => subItems ops bits ctx
  | .loop k body, bits, ctx =>
    match k with
    | 0 => []
    | 1 => items body bits ctx
    | 2 => items body bits ctx ++ items body bits ctx
    | _ =>
      match bits with
      | [] => []
      | b :: bs =>
        let mn := bs.foldl min b
        let mx := bs.foldl max b
        [.loopBegin k] ++ items body bits ctx ++ [.stage [⟨mn, .cds (mx - mn)⟩] [] false] ++
          items body bits ctx ++ [.loopEnd]
  | g, bits, ctx =>
    match single g bits with
    | some m => if (m.all fun x => x.kind = .idle) && ctx.isEmpty then [] else [.stage (m ++ ctx) [] true]
    | none => []
def subItems : Subs → List Nat → List Mark → List Item
  | .nil, _, _ => []
  | .cons g sb rest, bits, ctx => items g (mapBits bits sb) ctx ++ subItems rest bits ctx
end

/-- Maximal runs of consecutive numbers of a set, as (first, last). -/
def runs (qs : List Nat) (bound : Nat) : List (Nat × Nat) :=
  let rec go : Nat → Option Nat → List Nat → List (Nat × Nat)
    | r, cur, [] => match cur with | some f => [(f, r - 1)] | none => []
    | r, cur, b :: bs =>
      if b = r then
        if qs.contains r then go (r+1) (cur.or (some r)) bs
        else (match cur with | some f => [(f, r - 1)] | none => []) ++ go (r+1) none bs
      else go r cur bs
  go 0 none (List.range (bound + 1))

def basisText : Basis → Option String
  | .X => some "X"
  | .Y => some "Y"
  | .Z => none

def opItems (nq : Nat) : Op → List Item
  | .gate g bits => items g bits []
  | .cond control target g bits =>
    let ctx := control.zipIdx.map fun (idx, pos) => ⟨nq + idx, .cctl (target.testBit pos)⟩
    let inner := items g bits ctx
    match ctx with
    | [] => inner
    | m :: _ => if inner.any (Item.hasMark m) || bits.isEmpty then inner else .stage ctx [] true :: inner
  | .reset q => [.stage [⟨q, .reset⟩] [] false]
  | .resetAll => (List.range nq).map fun q => .stage [⟨q, .reset⟩] [] false
  | .measure q c b => [.stage [⟨q, .meter (basisText b)⟩, ⟨nq + c, .measEnd⟩] [] true]
  | .measureAll cbits b =>
    cbits.zipIdx.map fun (c, q) => .stage [⟨q, .meter (basisText b)⟩, ⟨nq + c, .measEnd⟩] [] true
  | .peek _ _ _ => []
  | .peekAll _ _ => []
  | .barrier qbits =>
    [.stage ((runs qbits nq).map fun (f, l) => ⟨f, .barrier (l - f)⟩) qbits false]

/-! ### Matching the operations against the grid, left to right -/

structure Fail where
  kind : String      -- which clause of the property
  op : Option Nat    -- index of the operation at fault, if known
  detail : String
  deriving Repr

structure MState where
  next : List Nat                     -- per wire: first column still free for a later operation
  claimed : Nat                       -- number of symbols accounted for
  loops : List (Nat × Nat × Option (Nat × Nat))  -- open loops: count, first stage number, (first, last) column so far
  braces : List Brace                 -- header braces not yet accounted for
  cells : List (Nat × Nat × Nat × Nat) -- (column, wire, operation, stage number) of every matched mark
  seq : Nat                           -- stage counter
  done : List (Brace × Nat × Nat)     -- matched braces with the stage numbers [from, to) of their loop
  failed : List (Nat × List Mark) := [] -- lenient mode only: stages that did not match
  idle : List (Nat × Nat) := []       -- (column, wire) of the bare wires that are identity gates

def findCol (g : Grid) (w : Nat) (from_ : Nat) : Option Nat :=
  ((List.range (g.width - from_)).map (from_ + ·)).find? fun c => !(g.cell w c).isWire

/-- Undirected reachability among the rows `rows` of a column through lines and multigate boxes. -/
def connectedRows (col : List Sym) (rows : List Nat) : Bool :=
  let edges : List (Nat × Nat) := rows.flatMap fun r =>
    let s := col.getD r .empty
    (s.lines.filterMap fun (k, _) => (target col.length r k).map fun t => (r, t)) ++
    (match s with | .multigate k _ _ => (List.range k).map fun j => (r, r + 1 + j) | _ => [])
  match rows with
  | [] => true
  | r0 :: _ =>
    let step (reach : List Nat) : List Nat :=
      reach ++ (edges.filterMap fun (a, b) =>
        if reach.contains a && !reach.contains b then some b
        else if reach.contains b && !reach.contains a then some a else none)
    let reach := (List.range rows.length).foldl (fun acc _ => step acc) [r0]
    rows.all reach.contains

def setNext (next : List Nat) (ws : List Nat) (v : Nat) : List Nat :=
  ws.foldl (fun acc w => acc.set w v) next

def matchItem (strict : Bool) (g : Grid) (opIdx : Nat) (st : MState) : Item → Except Fail MState
  | .loopBegin count => .ok { st with loops := (count, st.seq, none) :: st.loops }
  | .loopEnd =>
    match st.loops with
    | [] => .error ⟨"loop", some opIdx, "unbalanced"⟩
    | (count, seq0, span) :: rest =>
      match span with
      | none => .ok { st with loops := rest }
      | some (f, l) =>
        -- a brace with this count over the loop's columns; columns it covers beyond them must be empty
        let fits (b : Brace) : Bool :=
          b.count = count && b.first ≤ f && l ≤ b.last &&
          ((List.range (b.last + 1 - b.first)).map (b.first + ·)).all fun c =>
            (f ≤ c && c ≤ l) || (g.col c).all Sym.isWire
        match st.braces.find? fits with
        | some b => .ok { st with loops := rest, braces := st.braces.erase b, done := (b, seq0, st.seq) :: st.done }
        | none => .error ⟨"loop-brace", some opIdx, s!"no brace {count}x over columns {f}..{l}"⟩
  | .stage marks covers connected =>
    match marks.filter fun m => m.kind ≠ .idle with
    | [] => .ok st
    | m0 :: _ =>
      match findCol g m0.wire (st.next.getD m0.wire 0) with
      | none => .error ⟨"missing", some opIdx, s!"nothing drawn on wire {m0.wire} from column {st.next.getD m0.wire 0}"⟩
      | some c =>
        -- (the order clauses are skipped when the matching only serves to attribute a structural failure)
        let late := if strict then (marks.map (·.wire) ++ covers).find? fun w => st.next.getD w 0 > c else none
        let wrong := marks.find? fun m => !(accepts m.kind (g.cell m.wire c))
        let skipped := if !strict then none else (marks.filter fun m => m.kind ≠ .idle).find? fun m =>
          ((List.range (c - st.next.getD m.wire 0)).map (st.next.getD m.wire 0 + ·)).any fun c' => !(g.cell m.wire c').isWire
        match late, wrong, skipped with
        | some w, _, _ =>
          -- drawn into the column of an earlier barrier that covers the wire?
          match st.cells.find? fun (c', w', _, _) => c' = c && (match g.cell w' c with
              | .barrier kk => w' ≤ w && w ≤ w' + kk
              | _ => false) with
          | some (_, _, k, _) => .error ⟨"span", some k, s!"column {c}: operation {opIdx} is drawn into the column of a barrier covering wire {w}"⟩
          | none => .error ⟨"order", some opIdx, s!"column {c} on wire {w} is not after the previous operation on that wire"⟩
        | none, some m, _ => .error ⟨"symbol", some opIdx, s!"wire {m.wire} column {c}: unexpected {repr (g.cell m.wire c)}"⟩
        | none, none, some m => .error ⟨"order", some opIdx, s!"wire {m.wire}: a symbol before column {c} belongs to no earlier operation"⟩
        | none, none, none =>
          if connected && !(connectedRows (g.col c) (marks.map (·.wire))) then
            .error ⟨"unconnected", some opIdx, s!"column {c}: the parts of the operation are not joined"⟩
          else
            .ok { st with
              next := setNext st.next (marks.map (·.wire) ++ (if strict then covers else [])) (c + 1),
              claimed := st.claimed + (marks.filter fun m => m.kind ≠ .idle).length,
              idle := ((marks.filter fun m => m.kind = .idle).map fun m => (c, m.wire)) ++ st.idle,
              loops := st.loops.map fun (cnt, s0, span) =>
                (cnt, s0, some (match span with | none => (c, c) | some (f, _) => (f, c))),
              cells := marks.map (fun m => (c, m.wire, opIdx, st.seq)) ++ st.cells,
              seq := st.seq + 1 }

def matchItems (g : Grid) (opIdx : Nat) : List Item → MState → Except Fail MState
  | [], st => .ok st
  | it :: rest, st => (matchItem true g opIdx st it).bind (matchItems g opIdx rest)

def matchOps (nq : Nat) (g : Grid) : List Op → Nat → MState → Except Fail MState
  | [], _, st => .ok st
  | op :: rest, k, st => (matchItems g k (opItems nq op) st).bind (matchOps nq g rest (k + 1))

/-- As far as the matching gets (for attributing a structural failure to an operation). -/
def matchLenient (nq : Nat) (g : Grid) : List Op → Nat → MState → MState
  | [], _, st => st
  | op :: rest, k, st =>
    let st' := (opItems nq op).foldl (fun st it =>
      match matchItem false g k st it with
      | .ok st' => st'
      | .error _ => match it with
        | .stage marks _ _ => { st with failed := st.failed ++ [(k, marks)] }
        | _ => st) st
    matchLenient nq g rest (k + 1) st'

def symbolCount (g : Grid) : Nat := (g.map fun row => (row.filter fun s => !s.isWire).length).sum

/-- Every operation appears exactly once, as one connected column group, in program order on every
wire it touches; nothing else is drawn; loop braces match the loops. -/
def opsDepicted (c : Circ) (d : Doc) (g : Grid) : Except Fail MState :=
  (matchOps c.nq g c.ops 0 ⟨List.replicate (c.nq + c.nc) 0, 0, [], d.braces, [], 0, [], [], []⟩).bind fun st =>
    if st.claimed ≠ symbolCount g then
      .error ⟨"extra", none, s!"{symbolCount g} symbols drawn, {st.claimed} belong to operations"⟩
    else if !st.braces.isEmpty then .error ⟨"loop-brace", none, "brace without loop"⟩
    else
      -- nothing of another operation under a loop brace
      match st.done.find? fun (b, s0, s1) =>
          st.cells.any fun (col, _, _, sq) => b.first ≤ col && col ≤ b.last && !(s0 ≤ sq && sq < s1) with
      | some (b, _, _) => .error ⟨"loop-brace", none, s!"brace over columns {b.first}..{b.last} covers another operation"⟩
      | none => .ok st

/-- Label column and wire kinds: first `nq` rows quantum, the others classical. -/
def rowsOk (c : Circ) (d : Doc) : Bool :=
  d.rows.length = c.nq + c.nc &&
  d.rows.zipIdx.all fun (row, r) =>
    match row with
    | [] => false
    | lbl :: cells =>
      lbl = (if r < c.nq then Sym.lstick "\\ket{0}" else Sym.lstick "0") &&
      cells.all (kindOk c.nq r) &&
      cells.getLast? = some (if r < c.nq then Sym.qw else Sym.cw)

def Doc.grid (d : Doc) : Grid := d.rows.map List.tail

def headerOk (d : Doc) : Bool :=
  match d.headerCells with
  | none => d.braces.isEmpty
  | some (n1, n2) =>
    let w := d.grid.width + 1
    n1 ≤ w && n2 ≤ w && d.braces.all fun b => b.first ≤ b.last && b.last < d.grid.width

/-- Pairs (row of a control / condition mark, row of an identity mark) of one stage of the circuit:
the identity gate's drawing IS the bare wire, so a control line of the same stage may end on it.
Computed from the circuit alone (independent of any matching of the grid). -/
def idleLinks (nq : Nat) (ops : List Op) : List (Nat × Nat) :=
  ops.flatMap fun op => (opItems nq op).flatMap fun it =>
    match it with
    | .stage marks _ _ =>
      (marks.filter fun m => m.kind = .idle).flatMap fun mi =>
        (marks.filter fun m => m.kind ≠ .idle).map fun m => (m.wire, mi.wire)
    | _ => []

/-- The first clause of the property that fails, or the matching. `hint col row` may name the
operation that drew the symbol at a cell (the driver passes the model's ghost provenance); it is used
ONLY to attribute a connector / span failure to an operation (class tag), never for the verdict. -/
def check (c : Circ) (d : Doc) (hint : Nat → Nat → Option Nat := fun _ _ => none) : Except Fail MState :=
  let g := d.grid
  if !rectangular d.rows then .error ⟨"rectangular", none, "rows of different length"⟩
  else if !rowsOk c d then .error ⟨"rows", none, "not one labelled row per wire, quantum rows first"⟩
  else if !headerOk d then .error ⟨"header", none, "loop header outside the grid"⟩
  else
    -- the matching is run leniently first, only to attribute a structural failure to an operation
    let owner (col row : Nat) : Option Nat :=
      match hint col row with
      | some k => some k
      | none =>
      let ms := matchLenient c.nq g c.ops 0 ⟨List.replicate (c.nq + c.nc) 0, 0, [], d.braces, [], 0, [], [], []⟩
      match (ms.cells.find? fun (c', w, _, _) => c' = col && w = row).map fun (_, _, k, _) => k with
      | some k => some k
      | none =>
        -- a symbol of no matched operation: the first unmatched stage that wanted such a symbol there,
        -- else the first operation that does not match
        match ms.failed.find? fun (_, marks) => marks.any fun m => m.wire = row && accepts m.kind (g.cell row col) with
        | some (k, _) => some k
        | none => match opsDepicted c d g with
          | .error f => f.op
          | .ok _ => none
    let bad (p : Nat → List Sym → Nat → Sym → Bool) : Option (Nat × Nat) :=
      (List.range g.width).findSome? fun col =>
        ((g.col col).zipIdx.find? fun (s, r) => !(p col (g.col col) r s)).map fun (_, r) => (col, r)
    -- a line may also end on the bare wire that is the drawing of an identity gate of the same stage
    let idle := idleLinks c.nq c.ops
    match bad fun _ col r s => linesOkIdle ((idle.filter (·.1 = r)).map (·.2)) col r s && extentOk c.nq col r s with
    | some (col, r) => .error ⟨"connector", owner col r,
        s!"column {col} row {r}: {repr (g.cell r col)} leaves the grid or ends on no partner symbol"⟩
    | none =>
      match bad fun _ => spanClearAt with
      | some (col, r) => .error ⟨"span", owner col r,
          s!"column {col} row {r}: a symbol lies under {repr (g.cell r col)}"⟩
      | none => opsDepicted c d g

/-- **The property** on an exported document. -/
def WellDrawn (d : Doc) (c : Circ) : Prop := (check c d).isOk = true

instance (d : Doc) (c : Circ) : Decidable (WellDrawn d c) := inferInstanceAs (Decidable (_ = true))

/-! ### Which circuits must export, which must be refused -/

def hasDup : List Nat → Bool
  | [] => false
  | a :: as => as.contains a || hasDup as

mutual
/-- Operand lists that do not fit the gate (arity, composite-local index out of range). -/
def gateMalformed : Gate → List Nat → Bool
  | .c g, bits => bits.length ≠ 1 + g.nbits || gateMalformed g (bits.drop 1)
  | .kron a b, bits => bits.length ≠ a.nbits + b.nbits ||
      gateMalformed a (bits.take a.nbits) || gateMalformed b (bits.drop a.nbits)
  | .comp _ n ops, bits => bits.length ≠ n || subsMalformed ops bits
  | .loop _ body, bits => gateMalformed body bits
  | g, bits => bits.length ≠ g.nbits
def subsMalformed : Subs → List Nat → Bool
  | .nil, _ => false
  | .cons g sb rest, bits =>
    sb.any (· ≥ bits.length) || gateMalformed g (mapBits bits sb) || subsMalformed rest bits
end

mutual
/-- The same qubit twice in one operand list (not a circuit). -/
def gateDup : Gate → List Nat → Bool
  | .comp _ _ ops, bits => hasDup bits || subsDup ops bits
  | .loop _ body, bits => gateDup body bits
  | _, bits => hasDup bits
def subsDup : Subs → List Nat → Bool
  | .nil, _ => false
  | .cons g sb rest, bits => gateDup g (mapBits bits sb) || subsDup rest bits
end

def Op.malformed (nq : Nat) : Op → Bool
  | .gate g bits => gateMalformed g bits
  | .cond _ _ g bits => gateMalformed g bits
  | .measureAll cbits _ => cbits.length > nq
  | .peekAll cbits _ => cbits.length > nq
  | _ => false

def Op.dup : Op → Bool
  | .gate g bits => gateDup g bits
  | .cond control _ g bits => hasDup control || gateDup g bits
  | .barrier qbits => hasDup qbits
  | _ => false

def Op.isPeek : Op → Bool
  | .peek _ _ _ | .peekAll _ _ => true
  | _ => false

end Q1t.Spec.QcGrid

import Q1t.Base.Amp
/-!
Reference semantics shared by C04/C05/C06/C11/C12: a `k`-qubit matrix acting on an ordered list of
distinct qubits of an `n`-qubit register, identity elsewhere.  Qubit 0 is the most significant bit
of a basis-state index; the first listed qubit is the most significant bit of the gate's own index.
Written independently of the code (no permutations, no block routes). Import-free, executable.
-/
namespace Q1t.Spec
open Q1t

/-- the value (0/1) of qubit `q` in basis index `idx` of an `n`-qubit register -/
def qbit (n q idx : Nat) : Nat := (idx >>> (n - 1 - q)) % 2

/-- the gate-local index spelled by the listed qubits of `idx` (first listed = most significant) -/
def subIndex (n : Nat) (bits : List Nat) (idx : Nat) : Nat :=
  bits.foldl (fun acc q => 2 * acc + qbit n q idx) 0

/-- `r` and `c` agree on every qubit that is not listed -/
def agreeOff (n : Nat) (bits : List Nat) (r c : Nat) : Bool :=
  (List.range n).all fun q => bits.contains q || qbit n q r == qbit n q c

variable {α : Type} [Zero α] [One α] [Add α] [Mul α]

/-- the `2^n × 2^n` matrix of `M` acting on qubits `bits`, identity elsewhere -/
def embed (n : Nat) (bits : List Nat) (M : LMat α) : LMat α :=
  (List.range (2 ^ n)).map fun r => (List.range (2 ^ n)).map fun c =>
    if agreeOff n bits r c then LMat.get M (subIndex n bits r) (subIndex n bits c) else 0

/-- direct sum `1 ⊕ M` (controlled gate) -/
def ctrl (M : LMat α) : LMat α :=
  let g := M.length
  (List.range g).map (fun i => (List.range (2 * g)).map fun j => if i = j then (1 : α) else 0) ++
  M.map (fun row => List.replicate g (0 : α) ++ row)

/-- Kronecker product, entry ((i0,i1),(j0,j1)) = A[i0][j0] * B[i1][j1] -/
def kronecker (A B : LMat α) : LMat α :=
  let (ra, ca) := (A.length, (A.headD []).length)
  let (rb, cb) := (B.length, (B.headD []).length)
  (List.range (ra * rb)).map fun i => (List.range (ca * cb)).map fun j =>
    LMat.get A (i / rb) (j / cb) * LMat.get B (i % rb) (j % cb)

def mpow (M : LMat α) : Nat → LMat α
  | 0 => LMat.identity M.length
  | k + 1 => LMat.mul M (mpow M k)

end Q1t.Spec

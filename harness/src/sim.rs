//! Circuits in the line protocol (shared with lean/Driver/Sim.lean), their generation, building
//! real `q1tsim::circuit::Circuit`s from them, and execution with trace + draw logging.
//!
//! Op grammar (tokens, ops separated by `;`):
//!   gate <k> <bit>*k <gate term>
//!   cond <nc> <cbit>*nc <target> <k> <bit>*k <gate term>
//!   reset <q> | resetall | barrier <k> <bit>*k
//!   measure <q> <c> <X|Y|Z> | peek <q> <c> <X|Y|Z>
//!   measureall <k> <cbit>*k <X|Y|Z> | peekall <k> <cbit>*k <X|Y|Z>
use crate::{gate, join, fbits, SplitMix64};
use q1tsim::circuit::{Basis, Circuit, QuStateRepr};
use q1tsim::verif::{Draw, Snapshot, TraceEntry};
use rand_core::SeedableRng;

#[derive(Clone, Debug)]
pub struct CircuitText { pub nq: usize, pub nc: usize, pub ops: Vec<String> }

pub fn basis(s: &str) -> Basis { match s { "X" => Basis::X, "Y" => Basis::Y, _ => Basis::Z } }

/// Apply one op (text) to a real circuit through the public builder API.
pub fn add_op(c: &mut Circuit, op: &str) -> q1tsim::error::Result<()>
{
    let mut it = op.split_whitespace();
    let kind = it.next().expect("op kind");
    let mut nat = |it: &mut std::str::SplitWhitespace| -> usize { it.next().expect("nat").parse().expect("nat") };
    match kind
    {
        "gate" => {
            let k = nat(&mut it);
            let bits: Vec<usize> = (0..k).map(|_| nat(&mut it)).collect();
            let g = gate::parse(&mut it);
            c.add_gate(g, &bits)
        },
        "cond" => {
            let ncb = nat(&mut it);
            let control: Vec<usize> = (0..ncb).map(|_| nat(&mut it)).collect();
            let target = nat(&mut it) as u64;
            let k = nat(&mut it);
            let bits: Vec<usize> = (0..k).map(|_| nat(&mut it)).collect();
            let g = gate::parse(&mut it);
            c.add_conditional_gate(&control, target, g, &bits)
        },
        "reset" => { let q = nat(&mut it); c.reset(q) },
        "resetall" => { c.reset_all(); Ok(()) },
        "barrier" => { let k = nat(&mut it); let bits: Vec<usize> = (0..k).map(|_| nat(&mut it)).collect(); c.barrier(&bits) },
        "measure" => { let q = nat(&mut it); let cb = nat(&mut it); c.measure_basis(q, cb, basis(it.next().unwrap())) },
        "peek" => { let q = nat(&mut it); let cb = nat(&mut it); c.peek_basis(q, cb, basis(it.next().unwrap())) },
        "measureall" => { let k = nat(&mut it); let cbits: Vec<usize> = (0..k).map(|_| nat(&mut it)).collect(); c.measure_all_basis(&cbits, basis(it.next().unwrap())) },
        "peekall" => { let k = nat(&mut it); let cbits: Vec<usize> = (0..k).map(|_| nat(&mut it)).collect(); c.peek_all_basis(&cbits, basis(it.next().unwrap())) },
        other => panic!("unknown op {}", other)
    }
}

pub fn build(ct: &CircuitText) -> q1tsim::error::Result<Circuit>
{
    let mut c = Circuit::new(ct.nq, ct.nc);
    for op in ct.ops.iter() { add_op(&mut c, op)?; }
    Ok(c)
}

// ------------------------------------------------------------------------------------------------
// generation

#[derive(Clone, Copy)]
pub struct GenCfg
{
    pub max_q: usize, pub max_c: usize, pub max_ops: usize,
    /// only stabilizer gates (so both representations can run the circuit)
    pub clifford: bool,
    pub allow_peek: bool, pub allow_reset: bool, pub allow_reset_all: bool, pub allow_cond: bool,
    pub allow_measure_all: bool, pub allow_combinators: bool
}

const CLIFF1: [&str; 9] = ["H", "X", "Y", "Z", "S", "Sdg", "V", "Vdg", "I"];
const CLIFF2: [&str; 4] = ["CX", "CY", "CZ", "Swap"];

fn distinct(n: usize, k: usize, rng: &mut SplitMix64) -> Vec<usize>
{
    let mut all: Vec<usize> = (0..n).collect();
    rng.shuffle(&mut all);
    all.truncate(k);
    all
}

/// Operations of a Clifford composite on `nb` qubits: sub-gates on 1..3 of them with the operands in EVERY order (adjacent
/// descending `CX 1 0`, `CY 2 1`, rotated three-operand lists ...): `<k> { <term> <m> <bit>*m }*k`
fn gen_clifford_ops(nb: usize, depth: usize, rng: &mut SplitMix64) -> String
{
    let k = 1 + rng.below(4) as usize;
    let mut s = format!("{}", k);
    for _ in 0..k
    {
        let m = if nb >= 3 && rng.below(5) == 0 { 3 } else if nb >= 2 && rng.below(2) == 0 { 2 } else { 1 };
        let bits = distinct(nb, m, rng);
        s += &format!(" {} {} {}", gen_clifford_term(m, depth, rng), m, join(&bits));
    }
    s
}

/// A Clifford gate term on exactly `k` qubits (1..3): a primitive, or - nested up to `depth` - a Kron / Composite / Loop of
/// Clifford sub-gates on every operand order, so that the stabilizer backend conjugates through the combinators.
pub fn gen_clifford_term(k: usize, depth: usize, rng: &mut SplitMix64) -> String
{
    if depth == 0 || (k == 1 && rng.below(4) != 0) || (k == 2 && rng.below(3) == 0)
    {
        match k
        {
            1 => return rng.pick(&CLIFF1).to_string(),
            2 => return rng.pick(&["CX", "CX", "CY", "CY", "CZ", "Swap"]).to_string(),
            _ => {}
        }
    }
    let d = depth.saturating_sub(1);
    match rng.below(4)
    {
        0 | 1 if k >= 2 => { let k0 = 1 + rng.below(k as u64 - 1) as usize; format!("Kron {} {}", gen_clifford_term(k0, d, rng), gen_clifford_term(k - k0, d, rng)) },
        2 => format!("Loop l{} {} b{} {} {}", rng.below(100), rng.below(4), rng.below(100), k, gen_clifford_ops(k, d, rng)),
        _ => format!("Comp g{} {} {}", rng.below(100), k, gen_clifford_ops(k, d, rng)),
    }
}

pub fn gen_gate(nq: usize, cfg: &GenCfg, rng: &mut SplitMix64) -> (String, Vec<usize>)
{
    let k = if nq >= 3 && (!cfg.clifford || cfg.allow_combinators) && rng.below(6) == 0 { 3 } else if nq >= 2 && rng.below(3) == 0 { 2 } else { 1 };
    let bits = distinct(nq, k, rng);
    let term = if cfg.clifford
    {
        if cfg.allow_combinators && (k == 3 || rng.below(4) == 0) { gen_clifford_term(k, 2, rng) } else
        {
            match k
            {
                1 => rng.pick(&CLIFF1).to_string(),
                _ => rng.pick(&CLIFF2).to_string(),
            }
        }
    }
    else if cfg.allow_combinators && rng.below(5) == 0 { gate::gen_term(k, 2, rng) } else { gate::gen_prim(k, rng) };
    (term, bits)
}

pub fn gen_basis(rng: &mut SplitMix64) -> &'static str { match rng.below(4) { 0 => "X", 1 => "Y", _ => "Z" } }

pub fn gen_circuit(cfg: &GenCfg, rng: &mut SplitMix64) -> CircuitText
{
    let nq = 1 + rng.below(cfg.max_q as u64) as usize;
    let nc = 1 + rng.below(cfg.max_c as u64) as usize;
    let nops = 1 + rng.below(cfg.max_ops as u64) as usize;
    let mut ops = vec![];
    for _ in 0..nops
    {
        let r = rng.below(100);
        let op = if r < 45
        {
            let (g, bits) = gen_gate(nq, cfg, rng);
            format!("gate {} {} {}", bits.len(), join(&bits), g)
        }
        else if r < 62 { format!("measure {} {} {}", rng.below(nq as u64), rng.below(nc as u64), gen_basis(rng)) }
        else if r < 70 && cfg.allow_cond
        {
            let ncb = 1 + rng.below(nc as u64) as usize;
            let control = distinct(nc, ncb, rng);
            let target = rng.below(1 << ncb.min(3));
            let (g, bits) = gen_gate(nq, cfg, rng);
            format!("cond {} {} {} {} {} {}", ncb, join(&control), target, bits.len(), join(&bits), g)
        }
        else if r < 76 && cfg.allow_peek { format!("peek {} {} {}", rng.below(nq as u64), rng.below(nc as u64), gen_basis(rng)) }
        else if r < 82 && cfg.allow_reset { format!("reset {}", rng.below(nq as u64)) }
        else if r < 85 && cfg.allow_reset_all { "resetall".to_string() }
        else if r < 91 && cfg.allow_measure_all && nc >= nq
        {
            let cbits = distinct(nc, nq, rng);
            format!("measureall {} {} {}", nq, join(&cbits), gen_basis(rng))
        }
        else if r < 94 && cfg.allow_peek && cfg.allow_measure_all && nc >= nq
        {
            let cbits = distinct(nc, nq, rng);
            format!("peekall {} {} {}", nq, join(&cbits), gen_basis(rng))
        }
        else if r < 96 { let k = 1 + rng.below(nq as u64) as usize; let b = distinct(nq, k, rng); format!("barrier {} {}", k, join(&b)) }
        else
        {
            let (g, bits) = gen_gate(nq, cfg, rng);
            format!("gate {} {} {}", bits.len(), join(&bits), g)
        };
        ops.push(op);
    }
    CircuitText { nq, nc, ops }
}

// ------------------------------------------------------------------------------------------------
// execution with trace

pub struct Run
{
    pub result: Option<q1tsim::error::Result<()>>,   // None = panic
    pub trace: Vec<TraceEntry>,
    pub final_cstate: Option<Vec<u64>>,
    pub final_snapshot: Option<Snapshot>
}

/// `repr`: "vector", "stabilizer" or "auto"
pub fn execute_traced(circuit: &mut Circuit, nq: usize, shots: usize, seed: u64, repr: &str) -> Run
{
    let mut rng = rand_hc::Hc128Rng::seed_from_u64(seed);
    q1tsim::verif::trace_start();
    q1tsim::verif::draws_start();
    let result = {
        let c = std::panic::AssertUnwindSafe(&mut *circuit);
        let r = std::panic::AssertUnwindSafe(&mut rng);
        std::panic::catch_unwind(move || {
            let std::panic::AssertUnwindSafe(c) = c;
            let std::panic::AssertUnwindSafe(r) = r;
            match repr
            {
                "vector" => c.execute_with(shots, r, QuStateRepr::vector(nq, shots)),
                "stabilizer" => c.execute_with(shots, r, QuStateRepr::stabilizer(nq, shots)),
                _ => c.execute_with_rng(shots, r)
            }
        }).ok()
    };
    let trace = q1tsim::verif::trace_take();
    let _ = q1tsim::verif::draws_take();
    let (final_cstate, final_snapshot) = if result.is_some()
        { (circuit.cstate().map(|a| a.to_vec()), circuit.verif_snapshot()) } else { (None, None) };
    Run { result, trace, final_cstate, final_snapshot }
}

pub fn show_snapshot(s: &Snapshot) -> String
{
    match s
    {
        Snapshot::Opaque => "opaque".to_string(),
        Snapshot::Vector { nr_bits, counts, states } => {
            let mut out = format!("V {} {} {}", nr_bits, counts.len(), join(counts));
            for col in states.iter() { for (re, im) in col.iter() { out += &format!(" {} {}", fbits(*re), fbits(*im)); } }
            out
        },
        Snapshot::Stabilizer { nr_bits, counts, tableaus } => {
            let mut out = format!("S {} {} {}", nr_bits, counts.len(), join(counts));
            for t in tableaus.iter() { out += " "; out += &t.replace('\n', ","); if *nr_bits == 0 { out += "-"; } }
            out
        }
    }
}

pub fn show_draws(ds: &[Draw]) -> String
{
    let mut out = format!("{}", ds.len());
    for d in ds
    {
        match d
        {
            Draw::Binomial { count, p, n0 } => out += &format!(" B {} {} {}", count, fbits(*p), n0),
            Draw::Categorical { count, weights: _, result } => {
                out += &format!(" C {} {}", count, result.len());
                for (i, c) in result.iter() { out += &format!(" {} {}", i, c); }
            }
        }
    }
    out
}

pub fn show_err(e: &q1tsim::error::Error) -> String
{
    use q1tsim::error::Error::*;
    match e
    {
        InvalidQBit(q) => format!("err invalidQBit {}", q),
        InvalidCBit(c) => format!("err invalidCBit {}", c),
        NotEnoughSpace(a, b) => format!("err notEnoughSpace {} {}", a, b),
        InvalidNrMeasurementBits(a, b) => format!("err invalidNrMeasurementBits {} {}", a, b),
        InvalidNrBits(a, b, _) => format!("err invalidNrBits {} {}", a, b),
        InvalidNrControlBits(a, b, _) => format!("err invalidNrControlBits {} {}", a, b),
        NotAStabilizer(_) => "err notAStabilizer".to_string(),
        NotExecuted => "err notExecuted".to_string(),
        other => format!("err other {:?}", other).replace('\n', " ")
    }
}

pub fn initial_snapshot(repr: &str, nq: usize, shots: usize) -> String
{
    if repr == "stabilizer"
    {
        let t = format!("{}", q1tsim::stabilizer::StabilizerTableau::new(nq)).replace('\n', ",");
        format!("S {} 1 {} {}{}", nq, shots, t, if nq == 0 { "-" } else { "" })
    }
    else
    {
        let mut out = format!("V {} 1 {}", nq, shots);
        for r in 0..(1usize << nq) { out += &format!(" {} {}", fbits(if r == 0 { 1.0 } else { 0.0 }), fbits(0.0)); }
        out
    }
}


/// Structured Clifford circuit: a parity qubit entangled with several superposed qubits (so that it carries X or Y in two
/// or more generator rows of the normalised tableau), measured (or reset) and followed by measurements of its partners in
/// random bases.  Random circuits rarely reach such tableaux.
pub fn gen_parity_circuit(rng: &mut SplitMix64, allow_reset: bool, allow_peek: bool) -> CircuitText
{
    let nq = 3 + rng.below(3) as usize;
    let nc = nq;
    let mut qs: Vec<usize> = (0..nq).collect();
    rng.shuffle(&mut qs);
    let target = qs[0];
    let nsrc = 2 + rng.below((nq - 2) as u64) as usize;
    let mut ops = vec![];
    for &q in qs[1..=nsrc].iter() { ops.push(format!("gate 1 {} H", q)); if rng.below(4) == 0 { ops.push(format!("gate 1 {} S", q)); } }
    for &q in qs[1..=nsrc].iter()
    {
        let g = *rng.pick(&["CX", "CX", "CY", "CZ"]);
        if g == "CZ" { ops.push(format!("gate 1 {} H", target)); }
        ops.push(format!("gate 2 {} {} {}", q, target, g));
        if g == "CZ" { ops.push(format!("gate 1 {} H", target)); }
    }
    match rng.below(4)
    {
        1 if allow_reset => ops.push(format!("reset {}", target)),
        2 if allow_peek => { ops.push(format!("peek {} {} Z", target, target)); ops.push(format!("measure {} {} Z", target, target)); },
        3 if allow_reset => { ops.push(format!("measure {} {} Z", target, target)); ops.push(format!("reset {}", qs[1])); },
        _ => ops.push(format!("measure {} {} {}", target, target, gen_basis(rng))),
    }
    for &q in qs[1..].iter() { if rng.below(3) != 0 { ops.push(format!("measure {} {} {}", q, q, gen_basis(rng))); } }
    ops.push(format!("measure {} {} Z", target, target));
    CircuitText { nq, nc, ops }
}

/// Feedback circuits of fragment F: conditional gates that read classical bits BEFORE the measurement that writes them in
/// this run (as the correction step at the start of a repeated round does), then superposed / flipped qubits measured into
/// exactly those bits, then possibly a second conditional gate and more measurements.  On a cleared register the early
/// conditions read zeros.
pub fn gen_feedback_circuit(rng: &mut SplitMix64, clifford: bool) -> CircuitText
{
    let nq = 2 + rng.below(3) as usize;
    let nc = nq + rng.below(2) as usize;
    let mut ops: Vec<String> = vec![];
    let cond = |rng: &mut SplitMix64, ops: &mut Vec<String>| {
        let k = 1 + rng.below(2.min(nc) as u64) as usize;
        let mut cs: Vec<usize> = (0..nc).collect(); rng.shuffle(&mut cs); cs.truncate(k);
        // mostly a target that a zero register does not spell
        let target = if rng.below(4) == 0 { 0 } else { 1 + rng.below((1u64 << k) - 1) };
        let q = rng.below(nq as u64) as usize;
        let r = (q + 1 + rng.below(nq as u64 - 1) as usize) % nq;
        match rng.below(if clifford { 4 } else { 6 })
        {
            0 | 1 => ops.push(format!("cond {} {} {} 1 {} X", k, join(&cs), target, q)),
            2 => ops.push(format!("cond {} {} {} 1 {} H", k, join(&cs), target, q)),
            3 => ops.push(format!("cond {} {} {} 2 {} {} CX", k, join(&cs), target, q, r)),
            4 => ops.push(format!("cond {} {} {} 1 {} RY {}", k, join(&cs), target, q, fbits(1.0))),
            _ => ops.push(format!("cond {} {} {} 2 {} {} CH", k, join(&cs), target, q, r)),
        }
    };
    if !clifford { ops.push(format!("gate 1 {} T", rng.below(nq as u64))); }
    for _ in 0..(1 + rng.below(2)) { cond(rng, &mut ops); }
    for q in 0..nq { match rng.below(3) { 0 => ops.push(format!("gate 1 {} X", q)), 1 => ops.push(format!("gate 1 {} H", q)), _ => {} } }
    if nq >= 2 && rng.below(2) == 0 { let q = rng.below(nq as u64) as usize; ops.push(format!("gate 2 {} {} CX", q, (q + 1) % nq)); }
    let mut qs: Vec<usize> = (0..nq).collect();
    rng.shuffle(&mut qs);
    let mut cbits: Vec<usize> = (0..nc).collect();
    rng.shuffle(&mut cbits);
    for (i, &q) in qs.iter().enumerate()
    {
        ops.push(format!("measure {} {} Z", q, cbits[i]));
        if rng.below(4) == 0 { cond(rng, &mut ops); }
    }
    if rng.below(2) == 0
    {
        cond(rng, &mut ops);
        for &q in qs.iter() { if rng.below(2) == 0 { ops.push(format!("measure {} {} {}", q, rng.below(nc as u64), gen_basis(rng))); } }
    }
    CircuitText { nq, nc, ops }
}

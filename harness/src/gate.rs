//! Gate terms shared with the Lean drivers (see lean/Q1t/Base/GateParse.lean).
//!
//! Prefix token grammar (space separated):
//!   H X Y Z S Sdg T Tdg V Vdg I CX CY CZ Swap
//!   RX <hex> | RY <hex> | RZ <hex> | U1 <hex> | U2 <hex> <hex> | U3 <hex> <hex> <hex>     (f64 bit patterns)
//!   CH CRX <hex> CRY <hex> CRZ <hex> CS CSdg CT CTdg CU1 <hex> CU2 <hex> <hex> CU3 <hex> <hex> <hex>
//!   CV CVdg CCRX <hex> CCRY <hex> CCRZ <hex> CCX CCZ          (the named controlled gates)
//!   C <term> | Kron <term> <term>
//!   Comp <name> <nbits> <k> { <term> <m> <bit>*m }*k
//!   Loop <label> <iters> <name> <nbits> <k> { <term> <m> <bit>*m }*k
//!   Inc2 | Inc3 | Inc4 | Mix <hex>      USER-DEFINED gates (not library gates): structs that only provide
//!                                       description/nr_affected_bits/matrix, so that every apply route is the trait's default
use q1tsim::export::{CircuitGate, CQasm, Latex, LatexExportState, OpenQasm};
use q1tsim::gates::*;
use q1tsim::stabilizer::PauliOp;

/// Type-erased gate that forwards *every* trait method to the wrapped gate, so that generic
/// combinators (`C<G>`, `Kron<G0,G1>`) can be nested dynamically.
///
/// `Full` wraps a gate that has all export traits; `Plain` wraps a gate that only implements
/// `Gate` (e.g. `C<G>`, which has no QASM translation): its exports fall back to the traits'
/// defaults (NotImplemented / block gate).
#[derive(Clone)]
pub enum Dyn
{
    Full(Box<dyn CircuitGate>),
    Plain(std::rc::Rc<dyn Gate>)
}

impl Dyn
{
    pub fn g(&self) -> &dyn Gate
    {
        match self { Dyn::Full(b) => b.as_gate(), Dyn::Plain(r) => &**r }
    }
}

impl Gate for Dyn
{
    fn cost(&self) -> f64 { self.g().cost() }
    fn description(&self) -> &str { self.g().description() }
    fn nr_affected_bits(&self) -> usize { self.g().nr_affected_bits() }
    fn matrix(&self) -> q1tsim::cmatrix::CMatrix { self.g().matrix() }
    fn apply(&self, state: &mut q1tsim::cmatrix::CVector) { self.g().apply(state) }
    fn apply_mat(&self, state: &mut q1tsim::cmatrix::CMatrix) { self.g().apply_mat(state) }
    fn apply_slice(&self, state: q1tsim::cmatrix::CVecSliceMut) { self.g().apply_slice(state) }
    fn apply_mat_slice(&self, state: q1tsim::cmatrix::CMatSliceMut) { self.g().apply_mat_slice(state) }
    fn check_nr_bits(&self, n: usize) -> q1tsim::error::Result<()> { self.g().check_nr_bits(n) }
    fn is_stabilizer(&self) -> bool { self.g().is_stabilizer() }
    fn conjugate(&self, ops: &mut [PauliOp]) -> q1tsim::error::Result<bool> { self.g().conjugate(ops) }
}
impl OpenQasm for Dyn
{
    fn open_qasm(&self, bit_names: &[String], bits: &[usize]) -> q1tsim::error::Result<String>
    {
        match self { Dyn::Full(b) => b.open_qasm(bit_names, bits),
            Dyn::Plain(_) => Err(q1tsim::error::Error::from(q1tsim::error::ExportError::NotImplemented("OpenQasm", String::from(self.description())))) }
    }
    fn conditional_open_qasm(&self, condition: &str, bit_names: &[String], bits: &[usize]) -> q1tsim::error::Result<String>
    {
        match self { Dyn::Full(b) => b.conditional_open_qasm(condition, bit_names, bits),
            Dyn::Plain(_) => self.open_qasm(bit_names, bits) }
    }
}
impl CQasm for Dyn
{
    fn c_qasm(&self, bit_names: &[String], bits: &[usize]) -> q1tsim::error::Result<String>
    {
        match self { Dyn::Full(b) => b.c_qasm(bit_names, bits),
            Dyn::Plain(_) => Err(q1tsim::error::Error::from(q1tsim::error::ExportError::NotImplemented("c-Qasm", String::from(self.description())))) }
    }
    fn conditional_c_qasm(&self, condition: &str, bit_names: &[String], bits: &[usize]) -> q1tsim::error::Result<String>
    {
        match self { Dyn::Full(b) => b.conditional_c_qasm(condition, bit_names, bits),
            Dyn::Plain(_) => self.c_qasm(bit_names, bits) }
    }
}
impl Latex for Dyn
{
    fn latex(&self, bits: &[usize], state: &mut LatexExportState) -> q1tsim::error::Result<()>
    {
        match self { Dyn::Full(b) => b.latex(bits, state),
            Dyn::Plain(_) => { self.check_nr_bits(bits.len())?; state.add_block_gate(bits, self.description()) } }
    }
}

// ------------------------------------------------------------------------------------------------
// user-defined gates: only `description`, `nr_affected_bits` and `matrix` are provided (the documented minimum, see the
// "Custom gates" section of the crate documentation), every `apply*` method is the DEFAULT of the `Gate` trait; the export
// traits are the empty default impls.  Both matrices are NOT symmetric, so a kernel that applies the transpose shows.

/// Cyclic increment |k> -> |k+1 mod 2^n> on n qubits (the first qubit is the most significant bit of k).
#[derive(Clone)]
pub struct UInc { pub n: usize, pub desc: String }
impl UInc { pub fn new(n: usize) -> Self { UInc { n, desc: format!("Inc{}", n) } } }
impl Gate for UInc
{
    fn cost(&self) -> f64 { 1.0 }
    fn description(&self) -> &str { &self.desc }
    fn nr_affected_bits(&self) -> usize { self.n }
    fn matrix(&self) -> q1tsim::cmatrix::CMatrix
    {
        let dim = 1usize << self.n;
        let mut m = q1tsim::cmatrix::CMatrix::zeros((dim, dim));
        for k in 0..dim { m[[(k + 1) % dim, k]] = q1tsim::cmatrix::COMPLEX_ONE; }
        m
    }
}
impl OpenQasm for UInc {}
impl CQasm for UInc {}
impl Latex for UInc {}

/// The example gate of the crate documentation: rotates |01> and |10> into each other,
/// [[1,0,0,0],[0,cos a,-sin a,0],[0,sin a,cos a,0],[0,0,0,1]].
#[derive(Clone)]
pub struct UMix { pub alpha: f64 }
impl Gate for UMix
{
    fn cost(&self) -> f64 { 1.0 }
    fn description(&self) -> &str { "Mix" }
    fn nr_affected_bits(&self) -> usize { 2 }
    fn matrix(&self) -> q1tsim::cmatrix::CMatrix
    {
        let o = q1tsim::cmatrix::COMPLEX_ONE;
        let z = q1tsim::cmatrix::COMPLEX_ZERO;
        let c = self.alpha.cos() * o;
        let s = self.alpha.sin() * o;
        ndarray::array![[o, z, z, z], [z, c, -s, z], [z, s, c, z], [z, z, z, o]]
    }
}
impl OpenQasm for UMix {}
impl CQasm for UMix {}
impl Latex for UMix {}

pub fn hex_f64(s: &str) -> f64 { f64::from_bits(u64::from_str_radix(s, 16).expect("hex f64")) }

thread_local! {
    /// cells that parameter tokens `@k` (Rc<RefCell<f64>> reference) and `*k` (FFI pointer into the same cell) refer to
    static CELLS: std::cell::RefCell<Vec<std::rc::Rc<std::cell::RefCell<f64>>>> = std::cell::RefCell::new(vec![]);
}

/// Install the cells for reference-valued parameters: in the parameter position of RX RY RZ U1 U2 U3 CRX CRY CRZ CU1 CCRX
/// CCRY CCRZ (bare or anywhere inside C / Kron / Comp / Loop) the token `@k` makes the parameter a live reference to
/// `cells[k]` (`Parameter::from_refcell`), `*k` a raw pointer to the same f64 (`Parameter::FFIRef`).  The Lean side never
/// sees these tokens: requests carry the term with the CURRENT values substituted (`resolve_refs`).
pub fn set_cells(cells: &[std::rc::Rc<std::cell::RefCell<f64>>]) { CELLS.with(|c| *c.borrow_mut() = cells.to_vec()); }

/// the term / op text with every `@k` / `*k` token replaced by the bit pattern of the cell's current value
pub fn resolve_refs(text: &str) -> String
{
    CELLS.with(|c| text.split_whitespace().map(|t| if (t.starts_with('@') || t.starts_with('*')) && t.len() > 1 && t[1..].chars().all(|ch| ch.is_ascii_digit())
        { crate::fbits(*c.borrow()[t[1..].parse::<usize>().unwrap()].borrow()) } else { t.to_string() }).collect::<Vec<_>>().join(" "))
}

fn param_of(tok: &str) -> Parameter
{
    if tok.starts_with('@') { let k: usize = tok[1..].parse().expect("cell"); CELLS.with(|c| Parameter::from_refcell(&c.borrow()[k], &format!("p{}", k))) }
    else if tok.starts_with('*') { let k: usize = tok[1..].parse().expect("cell"); CELLS.with(|c| Parameter::FFIRef(c.borrow()[k].as_ptr() as *const f64)) }
    else { Parameter::Direct(hex_f64(tok)) }
}

/// a parameter that may be a reference
fn f<'a, It: Iterator<Item = &'a str>>(it: &mut It) -> Parameter { param_of(it.next().expect("param")) }
/// a parameter of a gate whose constructor only takes plain values (CU2, CU3, user gates)
fn fd<'a, It: Iterator<Item = &'a str>>(it: &mut It) -> f64 { hex_f64(it.next().expect("param")) }
fn n<'a, It: Iterator<Item = &'a str>>(it: &mut It) -> usize { it.next().expect("nat").parse().expect("nat") }

fn parse_ops<'a, It: Iterator<Item = &'a str>>(it: &mut It, comp: &mut Composite)
{
    let k = n(it);
    for _ in 0..k
    {
        let g = parse(it);
        let m = n(it);
        let bits: Vec<usize> = (0..m).map(|_| n(it)).collect();
        comp.add_gate(g, &bits);
    }
}

/// Parse one gate term from a token stream.
pub fn parse<'a, It: Iterator<Item = &'a str>>(it: &mut It) -> Dyn
{
    let head = it.next().expect("gate name");
    macro_rules! b { ($e:expr) => { Dyn::Full(Box::new($e)) } }
    macro_rules! p { ($e:expr) => { Dyn::Plain(std::rc::Rc::new($e)) } }
    match head
    {
        "H" => b!(H::new()), "X" => b!(X::new()), "Y" => b!(Y::new()), "Z" => b!(Z::new()),
        "S" => b!(S::new()), "Sdg" => b!(Sdg::new()), "T" => b!(T::new()), "Tdg" => b!(Tdg::new()),
        "V" => b!(V::new()), "Vdg" => b!(Vdg::new()), "I" => b!(I::new()),
        "CX" => b!(CX::new()), "CY" => b!(CY::new()), "CZ" => b!(CZ::new()), "Swap" => b!(Swap::new()),
        "RX" => b!(RX::new(f(it))), "RY" => b!(RY::new(f(it))), "RZ" => b!(RZ::new(f(it))),
        "U1" => b!(U1::new(f(it))),
        "U2" => { let (p, l) = (f(it), f(it)); b!(U2::new(p, l)) },
        "U3" => { let (t, p, l) = (f(it), f(it), f(it)); b!(U3::new(t, p, l)) },
        "CH" => b!(CH::new()), "CS" => b!(CS::new()), "CSdg" => b!(CSdg::new()),
        "CT" => b!(CT::new()), "CTdg" => b!(CTdg::new()), "CV" => b!(CV::new()), "CVdg" => b!(CVdg::new()),
        "CCX" => b!(CCX::new()), "CCZ" => b!(CCZ::new()),
        "CRX" => b!(CRX::new(f(it))), "CRY" => b!(CRY::new(f(it))), "CRZ" => b!(CRZ::new(f(it))),
        "CU1" => b!(CU1::new(f(it))),
        "CU2" => { let (p, l) = (fd(it), fd(it)); b!(CU2::new(p, l)) },
        "CU3" => { let (t, p, l) = (fd(it), fd(it), fd(it)); b!(CU3::new(t, p, l)) },
        "CCRX" => b!(CCRX::new(f(it))), "CCRY" => b!(CCRY::new(f(it))), "CCRZ" => b!(CCRZ::new(f(it))),
        "C" => { let g = parse(it); p!(C::new(g)) },
        "Kron" => { let g0 = parse(it); let g1 = parse(it); b!(Kron::new(g0, g1)) },
        "Comp" => {
            let name = it.next().expect("name").to_string();
            let nb = n(it);
            let mut comp = Composite::new(&name, nb);
            parse_ops(it, &mut comp);
            b!(comp)
        },
        "Loop" => {
            let label = it.next().expect("label").to_string();
            let iters = n(it);
            let name = it.next().expect("name").to_string();
            let nb = n(it);
            let mut comp = Composite::new(&name, nb);
            parse_ops(it, &mut comp);
            b!(Loop::new(&label, iters, comp))
        },
        "Inc2" => b!(UInc::new(2)), "Inc3" => b!(UInc::new(3)), "Inc4" => b!(UInc::new(4)),
        "Mix" => b!(UMix { alpha: fd(it) }),
        other => panic!("unknown gate token {}", other)
    }
}

pub fn parse_str(s: &str) -> Dyn { parse(&mut s.split_whitespace()) }

// ------------------------------------------------------------------------------------------------
// generation of random gate terms (as text)

const ANGLES: [f64; 12] = [0.0, std::f64::consts::FRAC_PI_2, -std::f64::consts::FRAC_PI_2, std::f64::consts::PI,
    -std::f64::consts::PI, 7.5, 1e-9, -0.3, 2.0 * std::f64::consts::PI + 0.25, std::f64::consts::FRAC_PI_4, 1.0, -12.75];

pub fn gen_angle(rng: &mut crate::SplitMix64) -> f64
{
    if rng.below(3) == 0 { (rng.unit() - 0.5) * 20.0 } else { *rng.pick(&ANGLES) }
}

pub const CONST1: [&str; 11] = ["H", "X", "Y", "Z", "S", "Sdg", "T", "Tdg", "V", "Vdg", "I"];
pub const PARAM1: [(&str, usize); 6] = [("RX", 1), ("RY", 1), ("RZ", 1), ("U1", 1), ("U2", 2), ("U3", 3)];
pub const CONST2: [&str; 11] = ["CX", "CY", "CZ", "Swap", "CH", "CS", "CSdg", "CT", "CTdg", "CV", "CVdg"];
pub const PARAM2: [(&str, usize); 6] = [("CRX", 1), ("CRY", 1), ("CRZ", 1), ("CU1", 1), ("CU2", 2), ("CU3", 3)];
pub const CONST3: [&str; 2] = ["CCX", "CCZ"];
pub const PARAM3: [(&str, usize); 3] = [("CCRX", 1), ("CCRY", 1), ("CCRZ", 1)];

fn with_params(name: &str, k: usize, rng: &mut crate::SplitMix64) -> String
{
    let mut s = name.to_string();
    for _ in 0..k { s += " "; s += &crate::fbits(gen_angle(rng)); }
    s
}

/// every registry gate once, with generated parameters: (term text, number of qubits)
pub fn registry(rng: &mut crate::SplitMix64) -> Vec<(String, usize)>
{
    let mut v = vec![];
    for g in CONST1.iter() { v.push((g.to_string(), 1)); }
    for (g, k) in PARAM1.iter() { v.push((with_params(g, *k, rng), 1)); }
    for g in CONST2.iter() { v.push((g.to_string(), 2)); }
    for (g, k) in PARAM2.iter() { v.push((with_params(g, *k, rng), 2)); }
    for g in CONST3.iter() { v.push((g.to_string(), 3)); }
    for (g, k) in PARAM3.iter() { v.push((with_params(g, *k, rng), 3)); }
    v
}

/// a random primitive on exactly `k` qubits (k = 1, 2 or 3)
pub fn gen_prim(k: usize, rng: &mut crate::SplitMix64) -> String
{
    match k
    {
        1 => if rng.below(3) == 0 { let (g, p) = *rng.pick(&PARAM1); with_params(g, p, rng) } else { rng.pick(&CONST1).to_string() },
        2 => if rng.below(3) == 0 { let (g, p) = *rng.pick(&PARAM2); with_params(g, p, rng) } else { rng.pick(&CONST2).to_string() },
        _ => if rng.below(2) == 0 { let (g, p) = *rng.pick(&PARAM3); with_params(g, p, rng) } else { rng.pick(&CONST3).to_string() },
    }
}

fn distinct_bits(n: usize, k: usize, rng: &mut crate::SplitMix64) -> Vec<usize>
{
    let mut all: Vec<usize> = (0..n).collect();
    rng.shuffle(&mut all);
    all.truncate(k);
    all
}

fn gen_ops(nb: usize, depth: usize, rng: &mut crate::SplitMix64) -> String
{
    let k = rng.below(5) as usize;
    let mut s = format!("{}", k);
    for _ in 0..k
    {
        let m = 1 + rng.below(nb.min(3) as u64) as usize;
        let g = gen_term(m, depth, rng);
        let bits = distinct_bits(nb, m, rng);
        s += &format!(" {} {} {}", g, m, crate::join(&bits));
    }
    s
}

/// a random gate term on exactly `k` qubits (k >= 1), combinators nested up to `depth`
pub fn gen_term(k: usize, depth: usize, rng: &mut crate::SplitMix64) -> String
{
    if depth == 0 || rng.below(3) == 0
    {
        if k <= 3 { return gen_prim(k, rng); }
    }
    loop
    {
        match rng.below(4)
        {
            0 if k >= 2 => return format!("C {}", gen_term(k - 1, depth.saturating_sub(1), rng)),
            1 if k >= 2 => {
                let k0 = 1 + rng.below(k as u64 - 1) as usize;
                return format!("Kron {} {}", gen_term(k0, depth.saturating_sub(1), rng), gen_term(k - k0, depth.saturating_sub(1), rng));
            },
            2 => return format!("Comp g{} {} {}", rng.below(100), k, gen_ops(k, depth.saturating_sub(1), rng)),
            3 => return format!("Loop l{} {} b{} {} {}", rng.below(100), rng.below(4), rng.below(100), k, gen_ops(k, depth.saturating_sub(1), rng)),
            _ => {}
        }
    }
}

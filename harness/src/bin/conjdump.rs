//! Dynamic extraction of conjugation tables for tools/gen/conj.py (fallback when the static reading of a
//! primitive's `conjugate` fails): `conjdump NAME..` prints, for each named parameterless gate,
//!   gate NAME <arity> <is_stabilizer> <checks arity>
//!   row  NAME <in> <out> <flip>          for ALL 4^arity Pauli strings (operator names, e.g. `row CX XZ YY 1`)
//! so the table is exhaustive over its domain.  `bad ...` = the gate cannot be dumped.
use q1t_harness::gate;
use q1tsim::gates::Gate;
use q1tsim::stabilizer::PauliOp;

const OPS: [PauliOp; 4] = [PauliOp::I, PauliOp::Z, PauliOp::X, PauliOp::Y];

fn name(op: PauliOp) -> char
{
    match op { PauliOp::I => 'I', PauliOp::Z => 'Z', PauliOp::X => 'X', PauliOp::Y => 'Y' }
}

fn main()
{
    std::panic::set_hook(Box::new(|_| {}));
    for nm in std::env::args().skip(1)
    {
        let n2 = nm.clone();
        let g = match std::panic::catch_unwind(move || gate::parse_str(&n2)) { Ok(g) => g, Err(_) => { println!("bad unknown gate {}", nm); continue; } };
        let k = g.nr_affected_bits();
        if k > 3 { println!("bad arity {} of {}", k, nm); continue; }
        let flag = g.is_stabilizer();
        // arity check: a slice that is one too long / empty must be refused with InvalidNrBits
        let mut long = vec![PauliOp::I; k + 1];
        let mut none: Vec<PauliOp> = vec![];
        let checks = match (std::panic::catch_unwind(std::panic::AssertUnwindSafe(|| g.conjugate(&mut long))),
                            std::panic::catch_unwind(std::panic::AssertUnwindSafe(|| g.conjugate(&mut none))))
        {
            (Ok(Err(q1tsim::error::Error::InvalidNrBits(..))), Ok(Err(q1tsim::error::Error::InvalidNrBits(..)))) => true,
            (Ok(Ok(_)), Ok(Ok(_))) => false,
            _ => { if flag { println!("bad inconsistent arity check of {}", nm); continue; } else { true } }
        };
        println!("gate {} {} {} {}", nm, k, flag, checks);
        if !flag { continue; }
        for code in 0..4usize.pow(k as u32)
        {
            let digits: Vec<usize> = (0..k).map(|p| (code / 4usize.pow((k - 1 - p) as u32)) % 4).collect();
            let mut v: Vec<PauliOp> = digits.iter().map(|&d| OPS[d]).collect();
            let inp: String = v.iter().map(|&o| name(o)).collect();
            match std::panic::catch_unwind(std::panic::AssertUnwindSafe(|| g.conjugate(&mut v)))
            {
                Ok(Ok(flip)) => println!("row {} {} {} {}", nm, inp, v.iter().map(|&o| name(o)).collect::<String>(), flip as u8),
                Ok(Err(e)) => println!("bad {} refuses {}: {:?}", nm, inp, e),
                Err(_) => println!("bad {} panics on {}", nm, inp)
            }
        }
    }
}

//! C14: arithmetic expressions.  Requests in the line protocol of lean/Driver/C14.lean.
//!
//!   g <text> | <restlen> | <cst>      grammar-generated: concrete syntax tree (with layout), followed by a remainder
//!   m <text> | <kind> <err> <paylen>  malformed by construction: expected error constructor and payload length
//!   x <text>                          mutated / garbage / unicode text, no expectation beyond "no panic"
//!
//!   @after <n> <text>,<text>,... @ <request>
//!                                     history: <request> was answered on a thread on which, before it, <n> parses FAILED
//!                                     (the listed texts, cyclically); model and reference are stateless, so the answer
//!                                     must be the one of <request> alone
//!
//! <text> is the input as '.'-separated hexadecimal code points ('-' for the empty string).
//! Answer: `ok <sexpr> | <rest> | val <bits>`  /  `err invalid <payload>`  /  `err unclosed <payload>`  /  `panic`.
use q1t_harness::*;
use q1tsim::expression::Expression;
use q1tsim::error::ParseError;

fn hex(s: &str) -> String
{
    if s.is_empty() { return "-".to_string(); }
    s.chars().map(|c| format!("{:x}", c as u32)).collect::<Vec<_>>().join(".")
}

fn sexpr(e: &Expression) -> String
{
    match e
    {
        Expression::Value(p) => format!("(v {})", fbits(p.value())),
        Expression::Sum(a, b) => format!("(+ {} {})", sexpr(a), sexpr(b)),
        Expression::Difference(a, b) => format!("(- {} {})", sexpr(a), sexpr(b)),
        Expression::Product(a, b) => format!("(* {} {})", sexpr(a), sexpr(b)),
        Expression::Quotient(a, b) => format!("(/ {} {})", sexpr(a), sexpr(b)),
        Expression::Negative(a) => format!("(neg {})", sexpr(a)),
        Expression::Power(a, b) => format!("(^ {} {})", sexpr(a), sexpr(b)),
        Expression::Function(n, a) => format!("(fn:{} {})", n, sexpr(a)),
        Expression::Variable(n) => format!("(var:{})", n),
    }
}

fn answer(text: &str) -> String
{
    let t = text.to_string();
    let r = catch(move || {
        match Expression::parse(&t)
        {
            Ok((e, rest)) => {
                let v = match e.eval()
                {
                    Ok(x) => format!("val {}", fbits(x)),
                    Err(q1tsim::error::Error::UnknownFunction(_)) => "everr unknownfn".to_string(),
                    Err(q1tsim::error::Error::UnknownVariable(_)) => "everr unknownvar".to_string(),
                    Err(_) => "everr other".to_string()
                };
                // the remainder must be a suffix of the input (it is a slice of it)
                let suffix = if t.ends_with(rest) { "" } else { " NOT-A-SUFFIX" };
                format!("ok {} | {}{} | {}", sexpr(&e), hex(rest), suffix, v)
            },
            Err(ParseError::InvalidArgument(s)) => format!("err invalid {}", hex(&s)),
            Err(ParseError::UnclosedParentheses(s)) => format!("err unclosed {}", hex(&s)),
            Err(e) => format!("err other {:?}", e).replace('\n', " ")
        }
    });
    r.unwrap_or_else(|| "panic".to_string())
}

// ---------------------------------------------------------------------------------------------
// abstract and concrete syntax

#[derive(Clone)]
enum Ast { Lit(String), Bin(char, Box<Ast>, Box<Ast>), Neg(Box<Ast>), App(&'static str, Box<Ast>) }

enum Cst
{
    L(String, String),
    B(char, Box<Cst>, String, Box<Cst>),
    N(String, Box<Cst>),
    F(String, &'static str, String, Box<Cst>, String),
    P(String, Box<Cst>, String)
}

const WS: [char; 19] = [' ', ' ', ' ', ' ', '\t', '\n', '\r', '\u{b}', '\u{c}', '\u{85}', '\u{a0}', '\u{1680}',
    '\u{2000}', '\u{200a}', '\u{2028}', '\u{2029}', '\u{202f}', '\u{205f}', '\u{3000}'];
const FUNS: [&str; 6] = ["sin", "cos", "tan", "exp", "ln", "sqrt"];

fn ws(rng: &mut SplitMix64) -> String
{
    match rng.below(8)
    {
        0..=3 => String::new(),
        4..=5 => " ".to_string(),
        _ => { let n = 1 + rng.below(3); (0..n).map(|_| *rng.pick(&WS)).collect() }
    }
}

fn digits(rng: &mut SplitMix64, n: u64) -> String
{
    (0..n).map(|_| (b'0' + rng.below(10) as u8) as char).collect()
}

const HARD: [&str; 24] = ["0.1", "0.5", "1.", ".5", "00.5", "007.250", "9007199254740993.", "9007199254740992.5",
    "9007199254740993.0000000000000000000001", "2.2250738585072011e-308", "2.2250738585072014e-308",
    "1.7976931348623157e308", "1.7976931348623158e308", "1.7976931348623159e308", "1.e309", "4.9e-324",
    "2.4703282292062327e-324", "2.4703282292062328e-324", "1.e-400", "0.e999999", "0.000", "123456789012345678901234567890.",
    "1.0E+2", ".1e-1"];

fn literal(rng: &mut SplitMix64, allow_overflow: bool) -> String
{
    match rng.below(20)
    {
        0 => "pi".to_string(),
        1 => "0".to_string(),
        2..=5 => format!("{}", rng.below(100)),
        6 => format!("{}", rng.next() >> (rng.below(64))),
        7 => (*rng.pick(&["18446744073709551615", "9007199254740993", "9007199254740992", "18446744073709551614",
                          "4611686018427387905", "1000000000000000000"])).to_string(),
        8 => if allow_overflow && rng.below(4) == 0
             { (*rng.pick(&["18446744073709551616", "99999999999999999999", "340282366920938463463374607431768211456"])).to_string() }
             else { format!("{}", 1 + rng.below(9)) },
        9..=10 => (*rng.pick(&HARD)).to_string(),
        11..=13 => { let a = 1 + rng.below(3); let b = rng.below(4); format!("{}.{}", digits(rng, a), digits(rng, b)) },
        14 => { let b = 1 + rng.below(4); format!(".{}", digits(rng, b)) },
        15 => { let a = 1 + rng.below(18); let b = rng.below(18); format!("{}.{}", digits(rng, a), digits(rng, b)) },
        _ => {
            let a = rng.below(3); let b = if a == 0 { 1 + rng.below(3) } else { rng.below(4) };
            let e = *rng.pick(&["e", "E"]);
            let s = *rng.pick(&["", "+", "-"]);
            let x = match rng.below(4) { 0 => format!("{}", rng.below(400)), 1 => format!("0{}", rng.below(30)), _ => format!("{}", rng.below(20)) };
            format!("{}.{}{}{}{}", digits(rng, a), digits(rng, b), e, s, x)
        }
    }
}

fn gen_ast(rng: &mut SplitMix64, depth: u32, ovf: bool) -> Ast
{
    if depth == 0 || rng.below(5) == 0 { return Ast::Lit(literal(rng, ovf)); }
    match rng.below(12)
    {
        0..=1 => Ast::Bin('+', Box::new(gen_ast(rng, depth - 1, ovf)), Box::new(gen_ast(rng, depth - 1, ovf))),
        2..=3 => Ast::Bin('-', Box::new(gen_ast(rng, depth - 1, ovf)), Box::new(gen_ast(rng, depth - 1, ovf))),
        4..=5 => Ast::Bin('*', Box::new(gen_ast(rng, depth - 1, ovf)), Box::new(gen_ast(rng, depth - 1, ovf))),
        6..=7 => Ast::Bin('/', Box::new(gen_ast(rng, depth - 1, ovf)), Box::new(gen_ast(rng, depth - 1, ovf))),
        8 => Ast::Bin('^', Box::new(gen_ast(rng, depth - 1, ovf)), Box::new(gen_ast(rng, depth - 1, ovf))),
        9..=10 => Ast::Neg(Box::new(gen_ast(rng, depth - 1, ovf))),
        _ => Ast::App(*rng.pick(&FUNS), Box::new(gen_ast(rng, depth - 1, ovf)))
    }
}

/// conventional binding level: 0 sum, 1 product, 2 unary minus, 3 power, 4 atom
fn level(a: &Ast) -> u32
{
    match a
    {
        Ast::Bin('+', _, _) | Ast::Bin('-', _, _) => 0,
        Ast::Bin('^', _, _) => 3,
        Ast::Bin(_, _, _) => 1,
        Ast::Neg(_) => 2,
        _ => 4
    }
}

/// Lay out `a` in a position that needs binding level >= `need`: minimal parentheses, random blanks,
/// now and then a redundant pair of parentheses.  `bare_neg_exp`: the conventional renderer writes
/// `2^-1`; with false the exponent is parenthesised in that case.
fn lay(a: &Ast, need: u32, rng: &mut SplitMix64, bare_neg_exp: bool) -> Cst
{
    let inner = |rng: &mut SplitMix64| -> Cst {
        match a
        {
            Ast::Lit(t) => Cst::L(ws(rng), t.clone()),
            Ast::Bin(op, x, y) => {
                let (l, r) = match op { '+' | '-' => (0, 1), '*' | '/' => (1, 2),
                                        _ => (4, if bare_neg_exp { 2 } else { 3 }) };
                let cx = lay(x, l, rng, bare_neg_exp);
                let w = ws(rng);
                let cy = lay(y, r, rng, bare_neg_exp);
                Cst::B(*op, Box::new(cx), w, Box::new(cy))
            },
            Ast::Neg(x) => { let w = ws(rng); Cst::N(w, Box::new(lay(x, 2, rng, bare_neg_exp))) },
            Ast::App(f, x) => {
                let w1 = ws(rng); let w2 = ws(rng);
                let c = lay(x, 0, rng, bare_neg_exp);
                Cst::F(w1, f, w2, Box::new(c), ws(rng))
            }
        }
    };
    if level(a) < need || rng.below(12) == 0
    {
        let w1 = ws(rng);
        let c = lay(a, 0, rng, bare_neg_exp);
        Cst::P(w1, Box::new(c), ws(rng))
    }
    else { inner(rng) }
}

fn flatten(c: &Cst, out: &mut String)
{
    match c
    {
        Cst::L(w, t) => { out.push_str(w); out.push_str(t); },
        Cst::B(op, x, w, y) => { flatten(x, out); out.push_str(w); out.push(*op); flatten(y, out); },
        Cst::N(w, x) => { out.push_str(w); out.push('-'); flatten(x, out); },
        Cst::F(w1, f, w2, x, w3) => { out.push_str(w1); out.push_str(f); out.push_str(w2); out.push('('); flatten(x, out); out.push_str(w3); out.push(')'); },
        Cst::P(w1, x, w2) => { out.push_str(w1); out.push('('); flatten(x, out); out.push_str(w2); out.push(')'); }
    }
}

fn wtok(w: &str) -> String { if w.is_empty() { "w".to_string() } else { format!("w{}", hex(w)) } }

fn ser(c: &Cst) -> String
{
    match c
    {
        Cst::L(w, t) => format!("( L {} {} )", wtok(w), t),
        Cst::B(op, x, w, y) => format!("( B {} {} {} {} )", op, ser(x), wtok(w), ser(y)),
        Cst::N(w, x) => format!("( N {} {} )", wtok(w), ser(x)),
        Cst::F(w1, f, w2, x, w3) => format!("( F {} {} {} {} {} )", wtok(w1), f, wtok(w2), ser(x), wtok(w3)),
        Cst::P(w1, x, w2) => format!("( P {} {} {} )", wtok(w1), ser(x), wtok(w2))
    }
}

/// A remainder that cannot continue the expression: empty, or it does not start with a digit, '.', 'e', 'E'
/// and its first non-blank character is none of + - * / ^.
fn remainder(rng: &mut SplitMix64) -> String
{
    if rng.coin() { return String::new(); }
    let w = ws(rng);
    let t = *rng.pick(&[")", ",", "]", ";", "0", "1.5", "pi", "x", "q[0]", ") 1", "(", "sin", "=", "\u{e9}", "\u{1d7d9}", "#", ", 2) 0 1"]);
    let mut r = format!("{}{}", w, t);
    if w.is_empty() && (t.starts_with(|c: char| c.is_ascii_digit()) || t.starts_with('.') || t.starts_with('e')) { r.insert(0, ' '); }
    r
}

const NOSTART: [&str; 16] = ["", ")", "*", "/", "+", "^", ",", "x", "a", "P", "e5", "\u{e9}", "\u{661}", "]", "=", "\u{1d7d9}"];
const GARBAGE: [&str; 40] = ["0", "1", "2", "9", ".", "e", "E", "+", "-", "*", "/", "^", "(", ")", " ", "  ", "\t", "\n", "pi", "p", "i",
    "sin", "cos", "tan", "exp", "ln", "sqrt", "sq", "s", "x", ",", "\u{a0}", "\u{2003}", "\u{661}", "\u{e9}", "\u{200b}", "\u{feff}", "1.5", "e+", "0x"];


// ---------------------------------------------------------------------------------------------
// histories: failed parses first, then normal use, on ONE thread

fn unhex(txt: &str) -> String
{
    if txt == "-" { String::new() } else {
        txt.split('.').map(|h| std::char::from_u32(u32::from_str_radix(h, 16).unwrap()).unwrap()).collect() }
}

/// Run `f` on a fresh thread (8 MiB stack, like the main thread) after `n` failing parses cycling through `fails`.
fn after_failures<R: Send, F: FnOnce() -> R + Send>(n: usize, fails: &[String], f: F) -> R
{
    std::thread::scope(|s| {
        std::thread::Builder::new().stack_size(8 << 20).spawn_scoped(s, || {
            for i in 0..n { let _ = answer(&fails[i % fails.len()]); }
            f()
        }).unwrap().join().unwrap()
    })
}

/// texts whose parse fails, by kind; most of them fail INSIDE an open parenthesis
fn failing_texts(rng: &mut SplitMix64, mix: u64) -> Vec<String>
{
    let mut v: Vec<String> = Vec::new();
    let body = |rng: &mut SplitMix64| -> String {
        let d = rng.below(2) as u32;
        let a = gen_ast(rng, d, false);
        let c = lay(&a, 0, rng, false);
        let mut b = String::new(); flatten(&c, &mut b); b
    };
    let op = |rng: &mut SplitMix64| -> &'static str { *rng.pick(&["+", "-", "*", "/", "^"]) };
    let all = mix == 0;
    // the short ones of every kind (for the long batches)
    if mix == 5 { return ["(", "()", "(x)", "(1 +", "((2*", "sin(", "((((", "(2 * )", "1 + (2 ^ )", "(1+2"].iter().map(|t| t.to_string()).collect(); }
    if all || mix == 1
    {
        // `(1 +`: open parenthesis, operand, dangling operator
        v.push("(1 +".to_string());
        for _ in 0..3 { v.push(format!("{}({}{}{}{}", ws(rng), body(rng), ws(rng), op(rng), ws(rng))); }
        v.push(format!("1 + (2 ^ )"));
        v.push(format!("{}{}{}({}{}{})", body(rng), op(rng), ws(rng), body(rng), op(rng), ws(rng)));
    }
    if all || mix == 2
    {
        // `(x)`, `()`: text that cannot start an expression inside the parenthesis
        v.push("(x)".to_string()); v.push("()".to_string()); v.push("( )".to_string()); v.push("(".to_string());
        for _ in 0..2 { v.push(format!("{}({}{})", ws(rng), ws(rng), rng.pick(&NOSTART))); }
        v.push("(2 * )".to_string());
    }
    if all || mix == 3
    {
        // several parentheses open at the failure: `((2*`, `((((`
        v.push("((2*".to_string()); v.push("((3".to_string()); v.push("((((".to_string());
        for _ in 0..3
        {
            let k = 2 + rng.below(6);
            let mut t = String::new();
            for _ in 0..k { t.push_str(&ws(rng)); t.push('('); if rng.below(3) == 0 { t.push_str(&body(rng)); t.push_str(op(rng)); } }
            if rng.coin() { t.push_str(&body(rng)); t.push_str(op(rng)); }
            v.push(t);
        }
    }
    if all || mix == 4
    {
        // the parenthesis of a function call; a parenthesis whose content parses but is not closed
        v.push("sin(".to_string()); v.push("sqrt((".to_string()); v.push("(1+2".to_string()); v.push("cos(1 +".to_string());
        v.push(format!("{}({}", rng.pick(&FUNS), ws(rng)));
        v.push(format!("{}(({}{}", rng.pick(&FUNS), body(rng), op(rng)));
        v.push(format!("({}", body(rng)));
    }
    v
}

/// valid texts that contain parentheses (not only those of a function call), as Cst
fn parenthesised(rng: &mut SplitMix64, i: usize) -> Cst
{
    let lit = |rng: &mut SplitMix64| Box::new(Ast::Lit(format!("{}", 1 + rng.below(9))));
    let a = Box::new(gen_ast(rng, 1 + (i % 4) as u32, false));
    match i % 5
    {
        0 => { let w = ws(rng); let c = lay(&a, 0, rng, false); Cst::P(w, Box::new(c), ws(rng)) },
        1 => lay(&Ast::Bin('*', Box::new(Ast::Bin('+', lit(rng), lit(rng))), lit(rng)), 0, rng, false),               // (1+2)*3
        2 => lay(&Ast::Bin('/', lit(rng), Box::new(Ast::Bin('-', a, lit(rng)))), 0, rng, false),                      // 1/(a - 2)
        3 => lay(&Ast::App("sqrt", Box::new(Ast::Bin('+', Box::new(Ast::Bin('*', lit(rng), lit(rng))),
                 Box::new(Ast::Bin('^', Box::new(Ast::Bin('-', a, lit(rng))), lit(rng)))))), 0, rng, false),            // sqrt(3*3+(a-4)^2)
        _ => { let w1 = ws(rng); let w2 = ws(rng); let w3 = ws(rng);                                                      // -((a))
               let c = lay(&a, 0, rng, false);
               Cst::N(w1, Box::new(Cst::P(w2, Box::new(Cst::P(String::new(), Box::new(c), String::new())), w3))) }
    }
}

fn history_stream(out: &mut Out, rng: &mut SplitMix64)
{
    let sizes: &[usize] = if thorough() { &[50, 199, 200, 250, 1000, 5000] } else { &[50, 250, 1000] };
    for (bi, &n) in sizes.iter().enumerate()
    {
        // (a failing parse costs 4-9 ms: every level of the parser compiles its regular expressions anew)
        let mixes: &[u64] = if n < 250 || (thorough() && n <= 250) { &[0, 1, 2, 3, 4] } else if n <= 250 { &[0, 1, 3] }
            else if thorough() && n == 1000 { &[0, 5] } else { &[5] };
        for &mix in mixes
        {
            let fails = failing_texts(rng, mix);
            // the failing texts themselves, once each (their own thread; fewer than 50 of them)
            let answers = after_failures(0, &fails, || fails.iter().map(|t| answer(t)).collect::<Vec<_>>());
            for (t, a) in fails.iter().zip(answers.iter()) { out.case(&format!("x {}", hex(t)), a); }
            // valid parenthesised texts after n failures on the same thread
            let prefix = format!("@after {} {} @ ", n, fails.iter().map(|t| hex(t)).collect::<Vec<_>>().join(","));
            let nvalid = 10;
            let mut reqs: Vec<String> = Vec::new();
            let mut texts: Vec<String> = Vec::new();
            for i in 0..nvalid
            {
                let c = parenthesised(rng, i + bi + mix as usize);
                let mut s = String::new();
                flatten(&c, &mut s);
                let rest = if i % 2 == 0 { String::new() } else { remainder(rng) };
                let rl = rest.chars().count();
                s.push_str(&rest);
                reqs.push(format!("{}g {} | {} | {}", prefix, hex(&s), rl, ser(&c)));
                texts.push(s);
            }
            // one thread per batch: the n failing parses, then the valid texts one after another (so the first one has exactly
            // the history its line states, the j-th one additionally the j-1 successful parses of the lines before it)
            let answers = after_failures(n, &fails, || texts.iter().map(|t| answer(t)).collect::<Vec<_>>());
            for (r, a) in reqs.iter().zip(answers.iter()) { out.case(r, a); }
        }
    }
}

fn main()
{
    let dir = std::env::args().nth(1).expect("usage: c14 <outdir> [replay <request line>]");
    silence_panics();
    let mut rng = SplitMix64::from_env();
    let mut out = Out::new(&dir);
    if std::env::args().nth(2).as_deref() == Some("replay")
    {
        // re-answer one recorded request line
        let req = std::env::args().nth(3).expect("replay needs the request line");
        if req.starts_with("@after ")
        {
            // `@after <n> <texts> @ <request>`: n failed parses, then the request, on one fresh thread
            let mut it = req.splitn(2, " @ ");
            let head: Vec<&str> = it.next().unwrap().split_whitespace().collect();
            let inner = it.next().expect("@after needs ` @ <request>`");
            let n: usize = head[1].parse().expect("count");
            let fails: Vec<String> = head[2].split(',').map(unhex).collect();
            let s = unhex(inner.split_whitespace().nth(1).unwrap_or("-"));
            let a = after_failures(n, &fails, || answer(&s));
            out.case(&req, &a);
            out.finish();
            return;
        }
        let s = unhex(req.split_whitespace().nth(1).unwrap_or("-"));
        out.case(&req, &answer(&s));
        out.finish();
        return;
    }
    let scale: u64 = if thorough() { 8 } else { 1 };

    // fixed corpus: the strings of the test-suite and the edge cases discussed in the design
    for s in ["1 + 2 * 3", "1/2 - (1+4)", "sin(1/2)", "2^-1", "2^(-1)", "--1", "- - 1", "---1", "-2^2", "2^3^2", "(2^3)^2",
              "1-2-3", "8/4/2", "2*-3", "2--3", "2+-3", "-2*3", "-(2*3)", "1e5", "1.e5", "007", "0.5.5", "pixel", "pi2", "+1",
              "sin 1", "sin", "sinh(1)", "ln(0)", "sqrt(-1)", "1/0", "0/0", "(1+2", "(1+2))", "((1)", "sin(1", "1+", "1 + ", "1*",
              "2^", "-", "", " ", "()", "(", ")", "18446744073709551615", "18446744073709551616", "18446744073709551616.",
              "1 2", "1.5e", "1.5e+", "1.5e+x", ".", "..", ".e5", "1..2", "exp(ln(2))", "sqrt (4)", "cos\t(\n0 )", "2 ^ - 1",
              "\u{a0}1\u{2003}+\u{3000}2", "\u{200b}1", "1\u{200b}", "\u{661}", "tan(pi/4)", "pi^pi^pi", "1.7976931348623159e308",
              "-pi", "3-2", "3 -2", "3- -2", "3 - - - 2", "2*/3", "2**3", "2//3", "(-1)^.5", "0^0", "0.0^-1."]
    {
        out.case(&format!("x {}", hex(s)), &answer(s));
    }

    // grammar-generated (conventional rendering; a negative exponent is parenthesised: 2^(-1))
    let ngen = 1500 * scale;
    for i in 0..ngen
    {
        let depth = 1 + (i % 6) as u32;
        let ovf = rng.below(10) == 0;
        let a = gen_ast(&mut rng, depth, ovf);
        let c = lay(&a, 0, &mut rng, false);
        let mut s = String::new();
        flatten(&c, &mut s);
        let rest = remainder(&mut rng);
        let rl = rest.chars().count();
        s.push_str(&rest);
        out.case(&format!("g {} | {} | {}", hex(&s), rl, ser(&c)), &answer(&s));
    }
    // literal stress: single literals, to exercise decimal -> double rounding (ties, subnormals, overflow)
    let nlit = 500 * scale;
    for i in 0..nlit
    {
        let t: String = match i % 5
        {
            0 => {
                // integers at and around rounding ties: odd multiples of half an ulp in [2^53, 2^64)
                let k = 53 + rng.below(11);
                let j = rng.next() & ((1u64 << 52) - 1);
                let n = ((1u64 << 53) | (2 * j + 1)) << (k - 53);
                match rng.below(4) { 0 => format!("{}", n), 1 => format!("{}.", n), 2 => format!("{}.0000000000000000000000001", n),
                                     _ => format!("{}.99999999999999999999999", n - 1) }
            },
            1 | 2 => {
                // shortest / 17-digit representation of a random double (all exponents, subnormals included)
                let x = f64::from_bits(rng.next() & 0x7fffffffffffffff);
                let x = if x.is_finite() { x } else { 1.5 };
                let r = if i % 5 == 1 { format!("{:e}", x) } else { format!("{:.17e}", x) };
                let (m, e) = r.split_at(r.find('e').unwrap());
                if m.contains('.') { format!("{}{}", m, e) } else { format!("{}.{}", m, e) }
            },
            3 => {
                let a = 1 + rng.below(25); let b = rng.below(25);
                let x = rng.range(-350, 350);
                format!("{}.{}e{}", digits(&mut rng, a), digits(&mut rng, b), x)
            },
            _ => literal(&mut rng, false)
        };
        let c = Cst::L(ws(&mut rng), t);
        let mut s = String::new();
        flatten(&c, &mut s);
        out.case(&format!("g {} | 0 | {}", hex(&s), ser(&c)), &answer(&s));
    }
    // deep parenthesis nesting
    for d in [20usize, 60]
    {
        let mut c = Cst::L(String::new(), "1".to_string());
        for k in 0..d
        {
            c = if k % 3 == 0 { Cst::P(ws(&mut rng), Box::new(c), ws(&mut rng)) }
                else if k % 3 == 1 { Cst::F(ws(&mut rng), "cos", String::new(), Box::new(c), String::new()) }
                else { Cst::B('-', Box::new(Cst::L(String::new(), "2".to_string())), String::new(), Box::new(Cst::P(String::new(), Box::new(c), String::new()))) };
        }
        let mut s = String::new();
        flatten(&c, &mut s);
        out.case(&format!("g {} | 0 | {}", hex(&s), ser(&c)), &answer(&s));
    }

    // large WHOLE exponents (beyond the i32 range, where an integer-power routine would have to saturate or wrap), positive
    // and negative, on bases for which the size and the parity of the exponent matter
    {
        let lit = |t: &str| Box::new(Ast::Lit(t.to_string()));
        let bases: Vec<Ast> = vec![
            Ast::Bin('-', lit("0"), lit("1")), Ast::Neg(lit("1")), Ast::Bin('+', lit("1"), lit("1.0e-10")), Ast::Bin('-', lit("1"), lit("1.0e-10")),
            Ast::Lit("0.999999".to_string()), Ast::Lit("1.0000001".to_string()), Ast::Lit("2".to_string()), Ast::Lit("0.5".to_string()),
            Ast::Neg(lit("1.0000000001")), Ast::Lit("1".to_string()), Ast::Neg(lit("2"))];
        let exps = ["3", "31", "1023", "1024", "65536", "2147483646", "2147483647", "2147483648", "2147483649", "4294967295", "4294967296",
                    "4294967297", "10000000000", "1.0e10", "1.0e11", "99999999999.", "9007199254740993", "18446744073709551615", "1.e300"];
        for b in bases.iter()
        {
            for (j, e) in exps.iter().enumerate()
            {
                for neg in [false, true]
                {
                    if neg && j % 2 == 1 && j < 5 { continue; }
                    let ex = if neg { Ast::Neg(lit(e)) } else { Ast::Lit(e.to_string()) };
                    let a = Ast::Bin('^', Box::new(b.clone()), Box::new(ex));
                    let a = match (j + neg as usize) % 4 { 0 => Ast::Bin('*', lit("2"), Box::new(a)), 1 => Ast::Neg(Box::new(a)), _ => a };
                    let c = lay(&a, 0, &mut rng, false);
                    let mut s = String::new();
                    flatten(&c, &mut s);
                    out.case(&format!("g {} | 0 | {}", hex(&s), ser(&c)), &answer(&s));
                }
            }
        }
    }

    // malformed by construction
    let nmal = 300 * scale;
    for _ in 0..nmal
    {
        let d = 1 + rng.below(3) as u32;
        let a = gen_ast(&mut rng, d, false);
        let c = lay(&a, 0, &mut rng, false);
        let mut body = String::new();
        flatten(&c, &mut body);
        // what may follow a dangling operator / an open parenthesis' content: nothing that can start an expression
        let junk = { let w = ws(&mut rng); let t = *rng.pick(&NOSTART); format!("{}{}", w, t) };
        match rng.below(7)
        {
            6 => {
                // a signed exponent without parentheses: `^` is not followed by an operand of the power level,
                // i.e. a dangling binary operator; the payload is the text after `^`
                let a2 = gen_ast(&mut rng, 1, false);
                let c2 = Cst::N(ws(&mut rng), Box::new(lay(&a2, 2, &mut rng, false)));
                let mut exp = String::new();
                flatten(&c2, &mut exp);
                let s = format!("{}{}^{}", body, ws(&mut rng), exp);
                out.case(&format!("m {} | negexp invalid {}", hex(&s), exp.chars().count()), &answer(&s));
            },
            0 | 3 => {
                // text that cannot start an expression
                let tail: String = (0..rng.below(4)).map(|_| *rng.pick(&GARBAGE)).collect();
                let s = format!("{}{}", junk, if junk.trim_matches(|c: char| c.is_whitespace()).is_empty() { String::new() } else { tail });
                out.case(&format!("m {} | nostart invalid {}", hex(&s), s.chars().count()), &answer(&s));
            },
            1 | 4 => {
                // dangling binary operator
                let op = *rng.pick(&["+", "-", "*", "/", "^"]);
                let w = ws(&mut rng);
                let s = format!("{}{}{}{}", body, w, op, junk);
                out.case(&format!("m {} | dangling invalid {}", hex(&s), junk.chars().count()), &answer(&s));
            },
            _ => {
                // unclosed parenthesis: the content parses, then no ')' (and no operator) follows
                let prefix = *rng.pick(&["", "", "1+", "2 *", "-", "3^", "4/ -"]);
                let w = ws(&mut rng);
                let open = if rng.coin() { "(".to_string() } else { format!("{}{}(", rng.pick(&FUNS), ws(&mut rng)) };
                let tail = if junk.trim_start_matches(|c: char| c.is_whitespace()).starts_with(|c: char| ")*/+^".contains(c) || c == 'e')
                           { String::new() } else { junk.clone() };
                let inner = format!("{}{}{}{}", w, open, body, tail);
                let s = format!("{}{}", prefix, inner);
                out.case(&format!("m {} | unclosed unclosed {}", hex(&s), inner.chars().count()), &answer(&s));
            }
        }
    }

    // mutated renderings and garbage
    let nmut = 700 * scale;
    for _ in 0..nmut
    {
        let s: String = if rng.below(3) == 0
        {
            (0..1 + rng.below(10)).map(|_| *rng.pick(&GARBAGE)).collect()
        }
        else
        {
            let d = 1 + rng.below(4) as u32;
            let a = gen_ast(&mut rng, d, true);
            let c = lay(&a, 0, &mut rng, true);
            let mut body = String::new();
            flatten(&c, &mut body);
            let mut cs: Vec<char> = body.chars().collect();
            for _ in 0..1 + rng.below(2)
            {
                let i = rng.below(cs.len() as u64 + 1) as usize;
                match rng.below(3)
                {
                    0 => if i < cs.len() { cs.remove(i); },
                    1 => { let g = *rng.pick(&GARBAGE); for (k, ch) in g.chars().enumerate() { cs.insert((i + k).min(cs.len()), ch); } },
                    _ => if i < cs.len() { cs[i] = rng.pick(&GARBAGE).chars().next().unwrap(); }
                }
            }
            cs.into_iter().collect()
        };
        out.case(&format!("x {}", hex(&s)), &answer(&s));
    }
    history_stream(&mut out, &mut rng);
    let n = out.finish();
    eprintln!("c14: {} cases", n);
}

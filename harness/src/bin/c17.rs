//! C17: permutation utilities. Requests in the line protocol of lean/Driver/C17.lean.
use q1t_harness::*;
use q1tsim::permutation::Permutation;
use q1tsim::error::Error;
use ndarray::s;

fn show_new(r: &Result<Permutation, Error>) -> String
{
    match r
    {
        Ok(p) => format!("ok {}", join(p.indices())),
        Err(Error::EmptyPermutation) => "err empty".to_string(),
        Err(Error::InvalidPermutationElement(m, n)) => format!("err invalid {} {}", m, n),
        Err(Error::DoublePermutationElement(e)) => format!("err double {}", e),
        Err(e) => format!("err other {:?}", e)
    }
}

fn opt(v: Option<Vec<i64>>) -> String
{
    match v { Some(v) => format!("ok {}", join(&v)), None => "panic".to_string() }
}

/// A mis-sized call (the property says nothing about its result; the model does): executed under catch_unwind.
#[derive(Clone)]
struct Fault { kind: &'static str, idxs: Vec<usize>, rows: usize, cols: usize, data: Vec<i64>, lists: Vec<Vec<usize>> }

impl Fault
{
    /// request text: `xinplace p | v`, `xinto p | dstlen | v`, `xinvinto p | dstlen | v`, `xtransform p | rows cols | a`
    fn req(&self) -> String
    {
        match self.kind
        {
            "xinplace" => format!("xinplace {} | {}", join(&self.idxs), join(&self.data)),
            // `newhist a | c | l1 , l2 , ...`: Permutation::new(a), then c calls of Permutation::new cycling through l1, l2, ...
            "newhist" => format!("newhist {} | {} | {}", join(&self.idxs), self.rows,
                                 self.lists.iter().map(|l| join(l)).collect::<Vec<_>>().join(" , ")),
            "xtransform" => format!("xtransform {} | {} {} | {}", join(&self.idxs), self.rows, self.cols, join(&self.data)),
            k => format!("{} {} | {} | {}", k, join(&self.idxs), self.cols, join(&self.data))
        }
    }
    /// perform the call on the current thread; answer `ok <result>` or `panic`
    fn run(&self) -> String
    {
        if self.kind == "newhist"
        {
            let _ = catch(|| Permutation::new(self.idxs.clone()).is_ok());
            for i in 0..self.rows { let l = self.lists[i % self.lists.len()].clone(); let _ = catch(move || Permutation::new(l).is_ok()); }
            return "-".to_string();
        }
        let f = self.clone();
        opt(catch(move || {
            let p = Permutation::new(f.idxs.clone()).unwrap();
            match f.kind
            {
                "xinplace" => { let mut w = ndarray::Array1::from_vec(f.data.clone()); p.apply_vec_in_place(&mut w); w.to_vec() },
                "xinto" => {
                    let src = ndarray::Array1::from_vec(f.data.clone());
                    let mut dst = ndarray::Array1::<i64>::zeros(f.cols);
                    p.apply_vec_into(src.view(), dst.view_mut());
                    dst.to_vec() },
                "xinvinto" => {
                    let src = ndarray::Array1::from_vec(f.data.clone());
                    let mut dst = ndarray::Array1::<i64>::zeros(f.cols);
                    p.apply_inverse_vec_into(src.view(), dst.view_mut());
                    dst.to_vec() },
                _ => {
                    let m = ndarray::Array2::from_shape_vec((f.rows, f.cols), f.data.clone()).unwrap();
                    p.transform(&m).iter().cloned().collect() }
            }
        }))
    }
}

thread_local! { static SESSION: std::cell::Cell<Option<(usize, usize)>> = std::cell::Cell::new(None); }

/// Inside a same-thread session every request is tagged `@seq <session> <k> @`: it is the k-th request answered on the
/// session's thread, its history are the requests `@seq <session> 0..k-1` on the lines before it.
fn seq_prefix() -> String
{
    SESSION.with(|c| match c.get() { None => String::new(), Some((sid, k)) => { c.set(Some((sid, k + 1))); format!("@seq {} {} @ ", sid, k) } })
}

/// Run one operation: directly (no history), or - with a history - on a FRESH thread on which the mis-sized call is made
/// first and the operation immediately afterwards (so the request line `@after <fault> @ <op>` is the whole history of
/// the thread and replays on its own).
fn exec<T: Send, F: FnOnce() -> T + Send + std::panic::UnwindSafe>(pre: Option<&Fault>, f: F) -> Option<T>
{
    match pre
    {
        None => catch(f),
        Some(fl) => std::thread::scope(|s| s.spawn(|| { let _ = fl.run(); catch(f) }).join().unwrap_or(None))
    }
}

/// which operations: everything, or everything but the O(n^2)-payload ones (matrix, transform in all variants)
#[derive(Clone, Copy, PartialEq)]
enum Level { Full, Vec }

fn ops_on(out: &mut Out, idxs: &[usize], rng: &mut SplitMix64) { ops_on_ctx(out, idxs, rng, None, Level::Full, false) }

fn ops_on_ctx(out0: &mut Out, idxs: &[usize], rng: &mut SplitMix64, pre: Option<&Fault>, level: Level, marked: bool)
{
    let n = idxs.len();
    let mk = || Permutation::new(idxs.to_vec()).unwrap();
    // `marked`: pairwise distinct non-zero payload, so that an element that was not written (0) or written twice shows
    let sign = if rng.coin() { 1 } else { -1 };
    let v: Vec<i64> = if marked { (0..n).map(|i| sign * ((i as i64 + 1) * 10 + rng.range(0, 9))).collect() }
                      else { (0..n).map(|_| rng.range(-99, 99)).collect() };
    let a: Vec<i64> = if level == Level::Full { (0..n*n).map(|_| rng.range(-99, 99)).collect() } else { vec![] };
    let is = join(idxs);
    let vs = join(&v);
    let prefix = match pre { None => String::new(), Some(f) => format!("@after {} @ ", f.req()) };
    struct Pfx<'a> { out: &'a mut Out, prefix: String }
    impl<'a> Pfx<'a> { fn case(&mut self, req: &str, ans: &str) { let r = format!("{}{}{}", seq_prefix(), self.prefix, req); self.out.case(&r, ans); } }
    let mut out = Pfx { out: out0, prefix };
    let out = &mut out;
    let full = level == Level::Full;

    out.case(&format!("inverse {}", is),
        &match exec(pre, || mk().inverse().indices().to_vec()) { Some(l) => format!("ok {}", join(&l)), None => "panic".into() });
    {
        let v = v.clone();
        out.case(&format!("into {} | {}", is, vs), &opt(exec(pre, || {
            let src = ndarray::Array1::from_vec(v);
            let mut dst = ndarray::Array1::<i64>::zeros(n);
            mk().apply_vec_into(src.view(), dst.view_mut());
            dst.to_vec()
        })));
    }
    {
        let v = v.clone();
        out.case(&format!("invinto {} | {}", is, vs), &opt(exec(pre, || {
            let src = ndarray::Array1::from_vec(v);
            let mut dst = ndarray::Array1::<i64>::zeros(n);
            mk().apply_inverse_vec_into(src.view(), dst.view_mut());
            dst.to_vec()
        })));
    }
    {
        let v = v.clone();
        out.case(&format!("inplace {} | {}", is, vs), &opt(exec(pre, || {
            let mut w = ndarray::Array1::from_vec(v);
            mk().apply_vec_in_place(&mut w);
            w.to_vec()
        })));
    }
    if full { out.case(&format!("matrix {} |", is), &opt(exec(pre, || {
        let m: ndarray::Array2<i64> = mk().matrix();
        m.iter().cloned().collect()
    }))); }
    {
        let v = v.clone();
        out.case(&format!("matvec {} | {}", is, vs), &opt(exec(pre, || {
            let m: ndarray::Array2<i64> = mk().matrix();
            m.dot(&ndarray::Array1::from_vec(v)).to_vec()
        })));
    }
    if full
    {
        let a2 = a.clone();
        out.case(&format!("transform {} | {}", is, join(&a)), &opt(exec(pre, || {
            let m = ndarray::Array2::from_shape_vec((n, n), a2).unwrap();
            mk().transform(&m).iter().cloned().collect()
        })));
    }

    // ---- histories of derived objects: the property is about permutation OBJECTS, so every operation is also
    // exercised on objects that came out of inverse() (once, twice, three times) and not only out of new()
    for k in 1..=3usize
    {
        // (without the O(n^2) operations: one depth per permutation, varying with the permutation)
        // one ODD depth, 1 or 3 (so the inverse of every structured permutation goes through every operation as well)
        if !full && k != 1 + 2 * ((idxs.iter().enumerate().map(|(i, &x)| i * x).sum::<usize>() + n) % 2) { continue; }
        out.case(&format!("invk {} | {}", is, k), &match exec(pre, || {
            let mut q = mk(); for _ in 0..k { q = q.inverse(); } q.indices().to_vec() })
            { Some(l) => format!("ok {}", join(&l)), None => "panic".into() });
        for op in ["into", "invinto", "inplace", "matvec"].iter()
        {
            let v = v.clone();
            out.case(&format!("d{} {} | {} | {}", op, is, k, vs), &opt(exec(pre, || {
                let mut q = mk(); for _ in 0..k { q = q.inverse(); }
                let src = ndarray::Array1::from_vec(v);
                let mut dst = ndarray::Array1::<i64>::zeros(n);
                match *op
                {
                    "into" => q.apply_vec_into(src.view(), dst.view_mut()),
                    "invinto" => q.apply_inverse_vec_into(src.view(), dst.view_mut()),
                    "inplace" => { let mut w = src.clone(); q.apply_vec_in_place(&mut w); dst.assign(&w); },
                    _ => { let m: ndarray::Array2<i64> = q.matrix(); dst.assign(&m.dot(&src)); }
                }
                dst.to_vec()
            })));
        }
        if !full { continue; }
        let a3 = a.clone();
        out.case(&format!("dtransform {} | {} | {}", is, k, join(&a)), &opt(exec(pre, || {
            let mut q = mk(); for _ in 0..k { q = q.inverse(); }
            let m = ndarray::Array2::from_shape_vec((n, n), a3).unwrap();
            q.transform(&m).iter().cloned().collect()
        })));
    }
    // ---- memory layouts: the same logical matrix / vector in column-major order, as a transposed view's owned copy,
    // and vectors as strided / reversed views.  The answer must not depend on the layout.
    {
        use ndarray::ShapeBuilder;
        let a4 = a.clone();
        if full { out.case(&format!("transform_f {} | {}", is, join(&a)), &opt(exec(pre, || {
            let rm = ndarray::Array2::from_shape_vec((n, n), a4).unwrap();
            let mut cm = ndarray::Array2::<i64>::zeros((n, n).f());
            cm.assign(&rm);
            assert!(n < 2 || !cm.is_standard_layout());
            mk().transform(&cm).iter().cloned().collect()
        }))); }
        let a5 = a.clone();
        if full { out.case(&format!("transform_t {} | {}", is, join(&a)), &opt(exec(pre, || {
            let rm = ndarray::Array2::from_shape_vec((n, n), a5).unwrap();
            let t = rm.t().to_owned().reversed_axes();   // logically rm again, memory order transposed
            mk().transform(&t).iter().cloned().collect()
        }))); }
        let v6 = v.clone();
        out.case(&format!("into_strided {} | {}", is, vs), &opt(exec(pre, || {
            // source = every second element of a longer array, destination = reversed view of a buffer
            let mut long = ndarray::Array1::<i64>::zeros(2 * n);
            for i in 0..n { long[2 * i] = v6[i]; long[2 * i + 1] = -7777; }
            let src = long.slice(s![..;2]);
            let mut buf = ndarray::Array1::<i64>::zeros(n);
            {
                let mut dst = buf.slice_mut(s![..;-1]);
                mk().apply_vec_into(src, dst.view_mut());
            }
            let mut r = buf.to_vec(); r.reverse(); r
        })));
        // apply_vec_in_place takes an OWNED Array1: owned arrays with stride 2, stride 3 after slice_collapse, reversed axis
        for (lay, k) in [("inplace_strided", 0usize), ("inplace_collapsed", 0), ("inplace_reversed", 0),
                         ("dinplace_strided", 1), ("dinplace_reversed", 1), ("dinplace_collapsed", 2), ("dinplace_reversed", 3)].iter()
        {
            let v8 = v.clone();
            let lay = *lay; let k = *k;
            let rq = if k == 0 { format!("{} {} | {}", lay, is, vs) } else { format!("{} {} | {} | {}", lay, is, k, vs) };
            out.case(&rq, &opt(exec(pre, || {
                let mut q = mk(); for _ in 0..k { q = q.inverse(); }
                let mut w: ndarray::Array1<i64> = if lay.ends_with("strided") {
                    let mut long = ndarray::Array1::<i64>::zeros(2 * n);
                    for i in 0..n { long[2 * i] = v8[i]; long[2 * i + 1] = -7777; }
                    long.slice_move(s![..;2])
                } else if lay.ends_with("collapsed") {
                    let mut long = ndarray::Array1::<i64>::zeros(3 * n);
                    for i in 0..n { long[3 * i + 1] = v8[i]; }
                    long.slice_collapse(s![1..;3]);
                    long
                } else {
                    let mut r = ndarray::Array1::from_vec(v8.iter().rev().cloned().collect());
                    r.invert_axis(ndarray::Axis(0));
                    r
                };
                assert!(w.len() == n && (0..n).all(|i| w[i] == v8[i]));
                assert!(n < 2 || w.as_slice().is_none());
                q.apply_vec_in_place(&mut w);
                w.iter().cloned().collect()
            })));
        }
        let v7 = v.clone();
        out.case(&format!("invinto_strided {} | {}", is, vs), &opt(exec(pre, || {
            let mut long = ndarray::Array1::<i64>::zeros(3 * n);
            for i in 0..n { long[3 * i] = v7[i]; }
            let src = long.slice(s![..;3]);
            let mut buf = ndarray::Array2::<i64>::zeros((n, 2));
            mk().apply_inverse_vec_into(src, buf.column_mut(1));
            buf.column(1).to_vec()
        })));
    }
}


// ------------------------------------------------------------------------------------------------------------------
// structured permutations (random shuffles practically never have runs of consecutive indices, aligned blocks, long
// fixed prefixes or a prescribed cycle type)

fn inverse_of(p: &[usize]) -> Vec<usize> { let mut q = vec![0; p.len()]; for (i, &pi) in p.iter().enumerate() { q[pi] = i; } q }

/// product of disjoint cycles of the given lengths laid over `labels` (rest fixed)
fn from_cycles(n: usize, lens: &[usize], labels: &[usize]) -> Vec<usize>
{
    let mut p: Vec<usize> = (0..n).collect();
    let mut s = 0;
    for &l in lens
    {
        if l == 0 || s + l > n { break; }
        for i in 0..l { p[labels[s + i]] = labels[s + (i + 1) % l]; }
        s += l;
    }
    p
}

fn structured(n: usize, rng: &mut SplitMix64, dense: bool) -> Vec<Vec<usize>>
{
    let id: Vec<usize> = (0..n).collect();
    let mut ps: Vec<Vec<usize>> = vec![id.clone(), (0..n).rev().collect()];
    // rotations: by every k (dense), so by divisors and non-divisors of n alike
    let interesting: Vec<usize> = [1, 2, 3, 4, 5, 7, 8, 9, 12, 15, 16, 17, 24, 31, 32, 33, 63, 64, 65, n / 2, n / 3, (2 * n) / 3,
        n.saturating_sub(1), n.saturating_sub(2), n.saturating_sub(4), n.saturating_sub(8), n.saturating_sub(9), n.saturating_sub(16)]
        .iter().cloned().filter(|&k| k > 0 && k < n).collect();
    let ks: Vec<usize> = if dense { (1..n).collect() } else { interesting.clone() };
    for &k in ks.iter() { ps.push((0..n).map(|i| (i + k) % n).collect()); }
    // block moves, block sizes 2..16 (whether or not the block size divides n: the remainder is a tail)
    for b in 2..=16usize
    {
        if 2 * b > n { break; }
        if !dense && ![3, 8, 16].contains(&b) { continue; }
        let nb = n / b;
        // adjacent blocks swapped pairwise, rest fixed
        let mut p = id.clone();
        let mut s = 0; while s + 2 * b <= n { for i in 0..b { p[s + i] = s + b + i; p[s + b + i] = s + i; } s += 2 * b; }
        ps.push(p);
        // the first two blocks swapped, tail shuffled
        let mut p = id.clone(); for i in 0..b { p[i] = b + i; p[b + i] = i; }
        rng.shuffle(&mut p[2 * b..]); ps.push(p);
        // whole blocks in random order, remainder shuffled within itself
        let mut order: Vec<usize> = (0..nb).collect(); rng.shuffle(&mut order);
        let mut p = id.clone(); for j in 0..nb { for i in 0..b { p[j * b + i] = order[j] * b + i; } }
        rng.shuffle(&mut p[nb * b..]); ps.push(p);
        // first and last block swapped (the last one is at an unaligned offset when b does not divide n)
        let mut p = id.clone(); for i in 0..b { p[i] = n - b + i; p[n - b + i] = i; }
        ps.push(p);
        // remainder moved to the front, whole blocks behind it (= rotation by nb*b) is among the rotations
    }
    // fixed prefix + shuffled tail, shuffled prefix + fixed tail
    let cuts: Vec<usize> = if dense && n <= 16 { (1..n).collect() }
        else { [1, 2, 7, 8, 9, 16, 17, n / 2, n - 1, n - 8].iter().cloned().filter(|&k| k > 0 && k < n).collect() };
    for &c in cuts.iter()
    {
        let mut p = id.clone(); rng.shuffle(&mut p[c..]); ps.push(p);
        let mut p = id.clone(); rng.shuffle(&mut p[..c]); ps.push(p);
    }
    // products of disjoint cycles of chosen lengths, on consecutive labels and on shuffled labels
    let mut types: Vec<Vec<usize>> = Vec::new();
    for l in 2..=7usize { if l <= n { types.push(vec![l; n / l]); types.push(vec![l]); } }
    types.push(vec![n]);
    if n > 1 { types.push(vec![n - 1, 1]); types.push(vec![1, n - 1]); }
    for &k in interesting.iter().take(4) { types.push(vec![k, n - k]); }
    { let mut t = Vec::new(); let mut s = 0; let mut l = 1; while s + l <= n { t.push(l); s += l; l += 1; } types.push(t.clone()); t.reverse(); types.push(t); }
    { let mut t = Vec::new(); let mut s = 0; while s < n { let l = 1 + rng.below(((n - s).min(9)) as u64) as usize; t.push(l); s += l; } types.push(t); }
    for t in types.iter()
    {
        ps.push(from_cycles(n, t, &id));
        let mut labels = id.clone(); rng.shuffle(&mut labels);
        ps.push(from_cycles(n, t, &labels));
    }
    // perfect shuffles (any even n), bit reversal and bit rotations (powers of two)
    if n % 2 == 0
    {
        ps.push((0..n).map(|i| if i % 2 == 0 { i / 2 } else { n / 2 + i / 2 }).collect());
        ps.push((0..n).map(|i| if i % 2 == 1 { i / 2 } else { n / 2 + i / 2 }).collect());
    }
    if n.is_power_of_two() && n > 1
    {
        let m = n.trailing_zeros();
        ps.push((0..n).map(|i| i.reverse_bits() >> (usize::BITS - m)).collect());
        for r in 1..m { ps.push((0..n).map(|i| ((i << r) | (i >> (m - r))) & (n - 1)).collect()); }
        for bit in 0..m { ps.push((0..n).map(|i| i ^ (1 << bit)).collect()); }       // X on one bit: aligned block swaps
        if m >= 2 { for c in 0..m { for t in 0..m { if c != t { ps.push((0..n).map(|i| if i >> c & 1 == 1 { i ^ (1 << t) } else { i }).collect()); } } } }
    }
    // and their inverses: explicitly for small n; for every n through the derived-object requests (`dinto p | k` with odd
    // k is apply_vec_into of the object p.inverse()), which ops_on_ctx emits for each of them
    if n <= 12 { let invs: Vec<Vec<usize>> = ps.iter().map(|p| inverse_of(p)).collect(); ps.extend(invs); }
    let mut seen = std::collections::HashSet::new();
    ps.retain(|p| seen.insert(p.clone()));
    for p in ps.iter() { debug_assert!(Permutation::new(p.clone()).is_ok()); }
    ps
}

fn structured_stream(out: &mut Out, rng: &mut SplitMix64)
{
    let dense_to = if thorough() { 64 } else { 40 };
    let extra: &[usize] = if thorough() { &[65, 72, 96, 100, 127, 128, 129, 130, 255, 256, 257] } else { &[48, 64, 65, 100, 129] };
    let sizes: Vec<usize> = (1..=dense_to).chain(extra.iter().cloned()).collect();
    for &n in sizes.iter()
    {
        for (j, p) in structured(n, rng, n <= dense_to).iter().enumerate()
        {
            out.case(&format!("new {}", join(p)), &show_new(&Permutation::new(p.clone())));
            // the O(n^2)-payload operations for every small one and for a sample of the larger ones
            let full = n <= 6 || (n <= 40 && j % 40 == 3) || (n <= 65 && j % 256 == 5);
            ops_on_ctx(out, p, rng, None, if full { Level::Full } else { Level::Vec }, true);
        }
    }
}

// ------------------------------------------------------------------------------------------------------------------
// fault injection: a mis-sized call (which may panic half way), then normal use of ANOTHER object on the same thread

fn fault_stream(out: &mut Out, rng: &mut SplitMix64)
{
    let nfault = if thorough() { 300 } else { 60 };
    for it in 0..nfault
    {
        // the permutation of the failing call
        let n = if it % 7 == 6 { rng.range(13, 40) as usize } else { rng.range(1, 12) as usize };
        let mut fidx: Vec<usize> = (0..n).collect();
        match it % 5
        {
            0 => { let k = 1 + rng.below(n as u64) as usize; fidx = (0..n).map(|i| (i + k) % n).collect(); },   // rotation (one long cycle)
            1 => { fidx.reverse(); },
            2 => { let c = rng.below(n as u64) as usize; rng.shuffle(&mut fidx[c..]); },
            _ => rng.shuffle(&mut fidx)
        }
        // the object used afterwards: small, with non-trivial cycles at low and high indices
        let m = rng.range(2, 10) as usize;
        let mut tidx: Vec<usize> = (0..m).collect();
        match rng.below(4)
        {
            0 => { for i in (0..m - 1).step_by(2) { tidx.swap(i, i + 1); } },
            1 => { let k = 1 + rng.below(m as u64 - 1) as usize; tidx = (0..m).map(|i| (i + k) % m).collect(); },
            _ => { rng.shuffle(&mut tidx); if tidx.iter().enumerate().all(|(i, &x)| i == x) { tidx.swap(0, m - 1); } }
        }
        // every kind of mis-sizing of every operation that takes a vector / matrix
        let lens: Vec<usize> = { let mut l = vec![0, 1, n / 2, n.saturating_sub(1), n.saturating_sub(2), n + 1, n + 3, 2 * n + 1];
                                 l.retain(|&x| x != n); l.sort(); l.dedup(); l };
        let mut faults: Vec<Fault> = Vec::new();
        for &l in lens.iter()
        {
            let d = |rng: &mut SplitMix64, k: usize| -> Vec<i64> { (0..k).map(|_| rng.range(-99, 99)).collect() };
            faults.push(Fault { kind: "xinplace", idxs: fidx.clone(), rows: 0, cols: 0, data: d(rng, l), lists: vec![] });
            for &(src, dst) in [(l, n), (n, l), (l, l), (l, n + 2)].iter()
            {
                faults.push(Fault { kind: "xinto", idxs: fidx.clone(), rows: 0, cols: dst, data: d(rng, src), lists: vec![] });
                faults.push(Fault { kind: "xinvinto", idxs: fidx.clone(), rows: 0, cols: dst, data: d(rng, src), lists: vec![] });
            }
            for &(r, c) in [(l, l), (n, l), (l, n)].iter()
            {
                if r * c <= 400 { faults.push(Fault { kind: "xtransform", idxs: fidx.clone(), rows: r, cols: c, data: d(rng, r * c), lists: vec![] }); }
            }
        }
        // all in-place faults (the only operation with a multi-step loop over caller data) and a sample of the others
        let chosen: Vec<&Fault> = faults.iter().filter(|f| f.kind == "xinplace" || rng.below(6) == 0).collect();
        for f in chosen
        {
            // the mis-sized call itself, predicted by the model (on a fresh thread like everything in this stream)
            let a = std::thread::scope(|s| s.spawn(|| f.run()).join().unwrap_or("abort".to_string()));
            out.case(&f.req(), &a);
            // ... and, immediately after it on one thread, each normal operation on the other object
            ops_on_ctx(out, &tidx, rng, Some(f), Level::Full, true);
        }
    }
}

// ------------------------------------------------------------------------------------------------------------------
// long histories of Permutation::new on ONE thread (rejected calls included), then normal use of late objects

fn new_case(out: &mut Out, pre: Option<&Fault>, idxs: &[usize])
{
    let l = idxs.to_vec();
    let a = match exec(pre, move || Permutation::new(l)) { None => "panic".to_string(), Some(r) => show_new(&r) };
    let prefix = match pre { None => String::new(), Some(f) => format!("@after {} @ ", f.req()) };
    out.case(&format!("{}{}new {}", seq_prefix(), prefix, join(idxs)), &a);
}

/// a small list: valid, with a repeated element, with an out-of-range element, or empty
fn small_list(rng: &mut SplitMix64, n: usize) -> Vec<usize>
{
    let mut l: Vec<usize> = (0..n).collect();
    rng.shuffle(&mut l);
    match rng.below(6)
    {
        0 | 1 if n >= 2 => { let i = rng.below(n as u64) as usize; let j = (i + 1 + rng.below(n as u64 - 1) as usize) % n; l[i] = l[j]; },   // repeated
        2 if n >= 2 => { let x = l[0]; for y in l.iter_mut() { *y = x; } },                                                   // all equal
        3 => { if rng.below(3) == 0 { l.clear(); } else if n >= 1 { let i = rng.below(n as u64) as usize; l[i] = n + rng.below(3) as usize; } },
        _ => {}
    }
    l
}

fn history_stream(out: &mut Out, rng: &mut SplitMix64)
{
    // (1) self-contained: new(big), then c calls cycling through a few small lists, then a request - on a fresh thread each
    let counts: &[usize] = if thorough() { &[1, 100, 253, 254, 255, 256, 257, 508, 509, 510, 511, 512, 763, 764, 765, 1019, 1020, 1274, 1275] }
                           else { &[253, 254, 255, 256, 509, 510, 764] };
    for (ci, &c) in counts.iter().enumerate()
    {
        for rep in 0..(if thorough() { 4 } else { 2 })
        {
            let b = rng.range(5, 14) as usize;
            let mut big: Vec<usize> = (0..b).collect(); rng.shuffle(&mut big);
            let s = 1 + rng.below(b as u64 - 2) as usize;
            // small lists: all of one size s (rep even) or of mixed sizes < b; valid and rejected ones
            let lists: Vec<Vec<usize>> = (0..1 + rng.below(4)).map(|_| { let n = if rep % 2 == 0 { s } else { 1 + rng.below(b as u64 - 1) as usize };
                                                                         let l = small_list(rng, n); if l.is_empty() { vec![0] } else { l } }).collect();
            let h = Fault { kind: "newhist", idxs: big, rows: c, cols: 0, data: vec![], lists };
            // afterwards: a valid permutation reaching beyond the small ones
            let m = rng.range(s as i64 + 1, b as i64 + 2) as usize;
            let mut t: Vec<usize> = (0..m).collect(); rng.shuffle(&mut t);
            if (ci + rep) % 3 == 0 { t = (0..m).map(|i| (i + 1) % m).collect(); }
            new_case(out, Some(&h), &t);
            ops_on_ctx(out, &t, rng, Some(&h), Level::Vec, true);
        }
    }
    // (2) sessions: one thread, several hundred consecutive requests; every answer is compared
    let lens: Vec<usize> = if thorough() { vec![254, 255, 256, 510, 511, 253, 509, 764, 765, 1019, 1020, 200, 333, 700, 1200, 2000] }
                           else { vec![254, 255, 256, 510, 511, 200 + rng.below(400) as usize, 600 + rng.below(600) as usize] };
    for (sid, &len) in lens.iter().enumerate()
    {
        let same_size = sid < 5 || sid % 2 == 0;
        std::thread::scope(|sc| { sc.spawn(|| {
            SESSION.with(|c| c.set(Some((sid, 0))));
            let b = if same_size { rng.range(3, 9) as usize } else { rng.range(12, 40) as usize };
            // a few big valid ones first
            let p = 1 + rng.below(3) as usize;
            for _ in 0..p { let mut big: Vec<usize> = (0..b).collect(); rng.shuffle(&mut big); new_case(out, None, &big); }
            // `len` calls from a small pool (same size as the big ones, mostly rejected early / or smaller sizes), so that
            // most positions are not touched for a long time
            let pool: Vec<Vec<usize>> = (0..2 + rng.below(5)).map(|_| {
                if same_size { let mut l = small_list(rng, b); if rng.below(3) != 0 && l.len() >= 2 { let x = l[0]; l[1] = x; } l }
                else { let n = 1 + rng.below(8) as usize; small_list(rng, n) } }).collect();
            let already = p;
            for i in 0..len.saturating_sub(already + 0)
            {
                // now and then a valid one of intermediate size
                if !same_size && i % 97 == 96 { let n = rng.range(2, b as i64) as usize; let mut l: Vec<usize> = (0..n).collect(); rng.shuffle(&mut l); new_case(out, None, &l); }
                else { let l: &Vec<usize> = rng.pick(&pool[..]); new_case(out, None, l); }
            }
            // late big valid ones: new, then every vector operation (each of which builds its object anew on this thread)
            for j in 0..4
            {
                let n = if j % 2 == 0 { b } else { rng.range(2, b as i64 + 3) as usize };
                let mut t: Vec<usize> = (0..n).collect(); rng.shuffle(&mut t);
                new_case(out, None, &t);
                if j < 2 { ops_on_ctx(out, &t, rng, None, Level::Vec, true); }
            }
            SESSION.with(|c| c.set(None));
        }).join().unwrap(); });
    }
}

fn main()
{
    let dir = std::env::args().nth(1).expect("usage: c17 <outdir>");
    silence_panics();
    let mut rng = SplitMix64::from_env();
    let mut out = Out::new(&dir);
    let max_n = if thorough() { 6 } else { 5 };

    // all n^n index vectors for n <= max_n (n = 0: the empty vector)
    for n in 0..=max_n
    {
        let total = (n as u64).pow(n as u32).max(1);
        for code in 0..total
        {
            let mut c = code;
            let idxs: Vec<usize> = (0..n).map(|_| { let d = (c % n as u64) as usize; c /= n as u64; d }).collect();
            let r = catch(|| Permutation::new(idxs.clone()));
            match r
            {
                None => out.case(&format!("new {}", join(&idxs)), "panic"),
                Some(r) => {
                    out.case(&format!("new {}", join(&idxs)), &show_new(&r));
                    if r.is_ok() { ops_on(&mut out, &idxs, &mut rng); }
                }
            }
        }
    }
    // ALL lists of length <= 4 over 0..=len+1 (so also several out-of-range elements, in every order relative to
    // each other and to repeated elements): the specific error VALUE must be the documented one
    for n in 1..=4usize
    {
        let base = (n + 2) as u64;
        for code in 0..base.pow(n as u32)
        {
            let mut c = code;
            let idxs: Vec<usize> = (0..n).map(|_| { let d = (c % base) as usize; c /= base; d }).collect();
            if idxs.iter().all(|&x| x < n) { continue; }   // covered above
            let r = catch(|| Permutation::new(idxs.clone()));
            match r { None => out.case(&format!("new {}", join(&idxs)), "panic"), Some(r) => out.case(&format!("new {}", join(&idxs)), &show_new(&r)) }
        }
    }
    // boundary VALUES (decimal text in the protocol; the model works over Nat): usize::MAX, usize::MAX - 1, 2^63, 2^32, n, n + 1
    // at every position of every list of length <= 4 over 0..len, then at two positions
    for n in 1..=4usize
    {
        let big = [usize::MAX, usize::MAX - 1, 1usize << 63, (1usize << 63) - 1, 1usize << 32, (1usize << 32) - 1, n, n + 1];
        let mut emit = |out: &mut Out, idxs: Vec<usize>| {
            let r = catch(|| Permutation::new(idxs.clone()));
            match r { None => out.case(&format!("new {}", join(&idxs)), "panic"), Some(r) => out.case(&format!("new {}", join(&idxs)), &show_new(&r)) }
        };
        for code in 0..(n as u64).pow(n as u32)
        {
            let mut c = code;
            let base: Vec<usize> = (0..n).map(|_| { let d = (c % n as u64) as usize; c /= n as u64; d }).collect();
            for pos in 0..n { for &b in big.iter() { let mut l = base.clone(); l[pos] = b; emit(&mut out, l); } }
            if n >= 2 && code % 5 == 0
            {
                for p1 in 0..n { for p2 in 0..n { if p1 != p2 {
                    let mut l = base.clone(); l[p1] = *rng.pick(&big); l[p2] = *rng.pick(&big); emit(&mut out, l); } } }
            }
        }
    }
    // out-of-range elements, larger sizes
    let nrand = if thorough() { 4000 } else { 600 };
    for _ in 0..nrand
    {
        let n = rng.range(1, 64) as usize;
        let mut idxs: Vec<usize> = (0..n).collect();
        rng.shuffle(&mut idxs);
        match rng.below(4)
        {
            0 => { let i = rng.below(n as u64) as usize; idxs[i] = rng.below(n as u64 + 3) as usize; },
            1 => { let i = rng.below(n as u64) as usize; idxs[i] = n + rng.below(5) as usize;
                   if rng.coin() { let j = rng.below(n as u64) as usize; idxs[j] = n + rng.below(9) as usize; }
                   if rng.coin() && n > 2 { let j = rng.below(n as u64) as usize; let k = rng.below(n as u64) as usize; idxs[j] = idxs[k]; } },
            2 => { if rng.coin() { let i = rng.below(n as u64) as usize;
                                   idxs[i] = *rng.pick(&[usize::MAX, usize::MAX - 1, 1usize << 63, 1usize << 32, n, n + 1]); } },
            _ => {}
        }
        match catch(|| Permutation::new(idxs.clone()))
        {
            None => out.case(&format!("new {}", join(&idxs)), "panic"),
            Some(r) => {
                out.case(&format!("new {}", join(&idxs)), &show_new(&r));
                if r.is_ok() { ops_on(&mut out, &idxs, &mut rng); }
            }
        }
    }
    structured_stream(&mut out, &mut rng);
    fault_stream(&mut out, &mut rng);
    history_stream(&mut out, &mut rng);
    let n = out.finish();
    eprintln!("c17: {} cases", n);
}

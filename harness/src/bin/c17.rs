//! C17: permutation utilities. Requests in the line protocol of lean/Driver/C17.lean.
use q1t_harness::*;
use q1tsim::permutation::Permutation;
use q1tsim::error::Error;
use ndarray::s;

fn show_new(r: &Result<Permutation, Error>) -> String
{
    match r
    {
        Ok(p) => format!("ok {}", join(p.indices())),
        Err(Error::EmptyPermutation) => "err empty".to_string(),
        Err(Error::InvalidPermutationElement(m, n)) => format!("err invalid {} {}", m, n),
        Err(Error::DoublePermutationElement(e)) => format!("err double {}", e),
        Err(e) => format!("err other {:?}", e)
    }
}

fn opt(v: Option<Vec<i64>>) -> String
{
    match v { Some(v) => format!("ok {}", join(&v)), None => "panic".to_string() }
}

fn ops_on(out: &mut Out, idxs: &[usize], rng: &mut SplitMix64)
{
    let n = idxs.len();
    let mk = || Permutation::new(idxs.to_vec()).unwrap();
    let v: Vec<i64> = (0..n).map(|_| rng.range(-99, 99)).collect();
    let a: Vec<i64> = (0..n*n).map(|_| rng.range(-99, 99)).collect();
    let is = join(idxs);
    let vs = join(&v);

    out.case(&format!("inverse {}", is),
        &match catch(|| mk().inverse().indices().to_vec()) { Some(l) => format!("ok {}", join(&l)), None => "panic".into() });
    {
        let v = v.clone();
        out.case(&format!("into {} | {}", is, vs), &opt(catch(|| {
            let src = ndarray::Array1::from_vec(v);
            let mut dst = ndarray::Array1::<i64>::zeros(n);
            mk().apply_vec_into(src.view(), dst.view_mut());
            dst.to_vec()
        })));
    }
    {
        let v = v.clone();
        out.case(&format!("invinto {} | {}", is, vs), &opt(catch(|| {
            let src = ndarray::Array1::from_vec(v);
            let mut dst = ndarray::Array1::<i64>::zeros(n);
            mk().apply_inverse_vec_into(src.view(), dst.view_mut());
            dst.to_vec()
        })));
    }
    {
        let v = v.clone();
        out.case(&format!("inplace {} | {}", is, vs), &opt(catch(|| {
            let mut w = ndarray::Array1::from_vec(v);
            mk().apply_vec_in_place(&mut w);
            w.to_vec()
        })));
    }
    out.case(&format!("matrix {} |", is), &opt(catch(|| {
        let m: ndarray::Array2<i64> = mk().matrix();
        m.iter().cloned().collect()
    })));
    {
        let v = v.clone();
        out.case(&format!("matvec {} | {}", is, vs), &opt(catch(|| {
            let m: ndarray::Array2<i64> = mk().matrix();
            m.dot(&ndarray::Array1::from_vec(v)).to_vec()
        })));
    }
    {
        let a2 = a.clone();
        out.case(&format!("transform {} | {}", is, join(&a)), &opt(catch(|| {
            let m = ndarray::Array2::from_shape_vec((n, n), a2).unwrap();
            mk().transform(&m).iter().cloned().collect()
        })));
    }

    // ---- histories of derived objects: the property is about permutation OBJECTS, so every operation is also
    // exercised on objects that came out of inverse() (once, twice, three times) and not only out of new()
    for k in 1..=3usize
    {
        out.case(&format!("invk {} | {}", is, k), &match catch(|| {
            let mut q = mk(); for _ in 0..k { q = q.inverse(); } q.indices().to_vec() })
            { Some(l) => format!("ok {}", join(&l)), None => "panic".into() });
        for op in ["into", "invinto", "inplace", "matvec"].iter()
        {
            let v = v.clone();
            out.case(&format!("d{} {} | {} | {}", op, is, k, vs), &opt(catch(|| {
                let mut q = mk(); for _ in 0..k { q = q.inverse(); }
                let src = ndarray::Array1::from_vec(v);
                let mut dst = ndarray::Array1::<i64>::zeros(n);
                match *op
                {
                    "into" => q.apply_vec_into(src.view(), dst.view_mut()),
                    "invinto" => q.apply_inverse_vec_into(src.view(), dst.view_mut()),
                    "inplace" => { let mut w = src.clone(); q.apply_vec_in_place(&mut w); dst.assign(&w); },
                    _ => { let m: ndarray::Array2<i64> = q.matrix(); dst.assign(&m.dot(&src)); }
                }
                dst.to_vec()
            })));
        }
        let a3 = a.clone();
        out.case(&format!("dtransform {} | {} | {}", is, k, join(&a)), &opt(catch(|| {
            let mut q = mk(); for _ in 0..k { q = q.inverse(); }
            let m = ndarray::Array2::from_shape_vec((n, n), a3).unwrap();
            q.transform(&m).iter().cloned().collect()
        })));
    }
    // ---- memory layouts: the same logical matrix / vector in column-major order, as a transposed view's owned copy,
    // and vectors as strided / reversed views.  The answer must not depend on the layout.
    {
        use ndarray::ShapeBuilder;
        let a4 = a.clone();
        out.case(&format!("transform_f {} | {}", is, join(&a)), &opt(catch(|| {
            let rm = ndarray::Array2::from_shape_vec((n, n), a4).unwrap();
            let mut cm = ndarray::Array2::<i64>::zeros((n, n).f());
            cm.assign(&rm);
            assert!(n < 2 || !cm.is_standard_layout());
            mk().transform(&cm).iter().cloned().collect()
        })));
        let a5 = a.clone();
        out.case(&format!("transform_t {} | {}", is, join(&a)), &opt(catch(|| {
            let rm = ndarray::Array2::from_shape_vec((n, n), a5).unwrap();
            let t = rm.t().to_owned().reversed_axes();   // logically rm again, memory order transposed
            mk().transform(&t).iter().cloned().collect()
        })));
        let v6 = v.clone();
        out.case(&format!("into_strided {} | {}", is, vs), &opt(catch(|| {
            // source = every second element of a longer array, destination = reversed view of a buffer
            let mut long = ndarray::Array1::<i64>::zeros(2 * n);
            for i in 0..n { long[2 * i] = v6[i]; long[2 * i + 1] = -7777; }
            let src = long.slice(s![..;2]);
            let mut buf = ndarray::Array1::<i64>::zeros(n);
            {
                let mut dst = buf.slice_mut(s![..;-1]);
                mk().apply_vec_into(src, dst.view_mut());
            }
            let mut r = buf.to_vec(); r.reverse(); r
        })));
        let v7 = v.clone();
        out.case(&format!("invinto_strided {} | {}", is, vs), &opt(catch(|| {
            let mut long = ndarray::Array1::<i64>::zeros(3 * n);
            for i in 0..n { long[3 * i] = v7[i]; }
            let src = long.slice(s![..;3]);
            let mut buf = ndarray::Array2::<i64>::zeros((n, 2));
            mk().apply_inverse_vec_into(src, buf.column_mut(1));
            buf.column(1).to_vec()
        })));
    }
}

fn main()
{
    let dir = std::env::args().nth(1).expect("usage: c17 <outdir>");
    silence_panics();
    let mut rng = SplitMix64::from_env();
    let mut out = Out::new(&dir);
    let max_n = if thorough() { 6 } else { 5 };

    // all n^n index vectors for n <= max_n (n = 0: the empty vector)
    for n in 0..=max_n
    {
        let total = (n as u64).pow(n as u32).max(1);
        for code in 0..total
        {
            let mut c = code;
            let idxs: Vec<usize> = (0..n).map(|_| { let d = (c % n as u64) as usize; c /= n as u64; d }).collect();
            let r = catch(|| Permutation::new(idxs.clone()));
            match r
            {
                None => out.case(&format!("new {}", join(&idxs)), "panic"),
                Some(r) => {
                    out.case(&format!("new {}", join(&idxs)), &show_new(&r));
                    if r.is_ok() { ops_on(&mut out, &idxs, &mut rng); }
                }
            }
        }
    }
    // ALL lists of length <= 4 over 0..=len+1 (so also several out-of-range elements, in every order relative to
    // each other and to repeated elements): the specific error VALUE must be the documented one
    for n in 1..=4usize
    {
        let base = (n + 2) as u64;
        for code in 0..base.pow(n as u32)
        {
            let mut c = code;
            let idxs: Vec<usize> = (0..n).map(|_| { let d = (c % base) as usize; c /= base; d }).collect();
            if idxs.iter().all(|&x| x < n) { continue; }   // covered above
            let r = catch(|| Permutation::new(idxs.clone()));
            match r { None => out.case(&format!("new {}", join(&idxs)), "panic"), Some(r) => out.case(&format!("new {}", join(&idxs)), &show_new(&r)) }
        }
    }
    // out-of-range elements, larger sizes
    let nrand = if thorough() { 4000 } else { 600 };
    for _ in 0..nrand
    {
        let n = rng.range(1, 64) as usize;
        let mut idxs: Vec<usize> = (0..n).collect();
        rng.shuffle(&mut idxs);
        match rng.below(4)
        {
            0 => { let i = rng.below(n as u64) as usize; idxs[i] = rng.below(n as u64 + 3) as usize; },
            1 => { let i = rng.below(n as u64) as usize; idxs[i] = n + rng.below(5) as usize;
                   if rng.coin() { let j = rng.below(n as u64) as usize; idxs[j] = n + rng.below(9) as usize; }
                   if rng.coin() && n > 2 { let j = rng.below(n as u64) as usize; let k = rng.below(n as u64) as usize; idxs[j] = idxs[k]; } },
            _ => {}
        }
        let r = Permutation::new(idxs.clone());
        out.case(&format!("new {}", join(&idxs)), &show_new(&r));
        if r.is_ok() { ops_on(&mut out, &idxs, &mut rng); }
    }
    let n = out.finish();
    eprintln!("c17: {} cases", n);
}

//! C04: every application route of every gate on chosen qubits. Requests in the line protocol of
//! lean/Driver/C04.lean:
//!   matrix | <term> |                                  -> ok <dim> <entries>
//!   apply|applyslice <rows> 1 | <term> | <vec>         -> ok <vec>            (leading-qubit route)
//!   applymat|applymatslice <rows> <cols> | <term> | <row-major data>   -> ok <data>
//!   gslice <n> 1 <bits> | <term> | <vec>               -> ok <vec>            (gates::apply_gate_slice)
//!   gmatslice <n> <cols> <bits> | <term> | <data>      -> ok <data>           (gates::apply_gate_mat_slice)
//!   vsapply <n> 1 <bits> | <term> | <vec>              -> ok <vec> | err nrbits (VectorState::apply_gate)
//!   vscond <n> <shots> <bits> | <counts> | <mask> | <term> | <column-major states>
//!                                                      -> ok <counts> | <column-major states> | err ...
//!   bitperm <n> <bits>                                 -> ok <perm>
//! a panic of the real code is answered `panic`.
use q1t_harness::*;
use q1t_harness::gate;
use q1tsim::gates::Gate;
use q1tsim::qustate::QuState;
use q1tsim::vectorstate::VectorState;
use num_complex::Complex64;

type V = Vec<Complex64>;

thread_local! {
    /// when set, the routes are exercised on (clones of) this gate object instead of a freshly parsed one: the
    /// gate was built from reference / FFI-pointer parameters whose cells have been overwritten since (the
    /// request line carries the term at the CURRENT values, so model and reference are evaluated there)
    static LIVE: std::cell::RefCell<Option<gate::Dyn>> = std::cell::RefCell::new(None);
}

fn mk(term: &str) -> gate::Dyn
{
    LIVE.with(|l| match &*l.borrow() { Some(g) => g.clone(), None => gate::parse_str(term) })
}

/// the cells behind the reference parameters of a live gate, with the values they will finally hold
struct Cells
{
    rcs: Vec<(std::rc::Rc<std::cell::RefCell<f64>>, f64)>,
    ptrs: Vec<(*mut f64, f64)>,
    /// kinds to use for the successive parameters (0 direct, 1 Rc<RefCell>, 2 FFI pointer), then random
    kinds: Vec<u32>,
    used: usize
}

impl Cells
{
    fn param(&mut self, fin: f64, rng: &mut SplitMix64) -> q1tsim::gates::Parameter
    {
        let kind = if self.used < self.kinds.len() { self.kinds[self.used] } else { rng.below(3) as u32 };
        self.used += 1;
        match kind
        {
            0 => q1tsim::gates::Parameter::Direct(fin),
            1 => { let c = std::rc::Rc::new(std::cell::RefCell::new(0.123)); self.rcs.push((c.clone(), fin)); q1tsim::gates::Parameter::from_refcell(&c, "p") },
            _ => { let q = Box::into_raw(Box::new(-0.456f64)); self.ptrs.push((q, fin)); q1tsim::gates::Parameter::FFIRef(q as *const f64) }
        }
    }
    fn overwrite(&self)
    {
        for (c, v) in self.rcs.iter() { *c.borrow_mut() = *v; }
        for (q, v) in self.ptrs.iter() { unsafe { **q = *v; } }
    }
    fn free(self) { for (q, _) in self.ptrs { unsafe { drop(Box::from_raw(q)); } } }
}

/// `gate::parse` with every parameter built by `Cells::param` (decoy values in the cells at construction)
fn live_parse<'a, It: Iterator<Item = &'a str>>(it: &mut It, cs: &mut Cells, rng: &mut SplitMix64) -> gate::Dyn
{
    use q1tsim::gates::*;
    use gate::Dyn;
    let head = it.next().expect("gate name");
    macro_rules! b { ($e:expr) => { Dyn::Full(Box::new($e)) } }
    let f = |it: &mut It, cs: &mut Cells, rng: &mut SplitMix64| cs.param(gate::hex_f64(it.next().expect("param")), rng);
    fn nat<'a, It: Iterator<Item = &'a str>>(it: &mut It) -> usize { it.next().expect("nat").parse().expect("nat") }
    fn ops<'a, It: Iterator<Item = &'a str>>(it: &mut It, comp: &mut Composite, cs: &mut Cells, rng: &mut SplitMix64)
    {
        let k = nat(it);
        for _ in 0..k
        {
            let g = live_parse(it, cs, rng);
            let m = nat(it);
            let bits: Vec<usize> = (0..m).map(|_| nat(it)).collect();
            comp.add_gate(g, &bits);
        }
    }
    match head
    {
        "RX" => b!(RX::new(f(it, cs, rng))), "RY" => b!(RY::new(f(it, cs, rng))), "RZ" => b!(RZ::new(f(it, cs, rng))),
        "U1" => b!(U1::new(f(it, cs, rng))),
        "U2" => { let (p, l) = (f(it, cs, rng), f(it, cs, rng)); b!(U2::new(p, l)) },
        "U3" => { let (t, p, l) = (f(it, cs, rng), f(it, cs, rng), f(it, cs, rng)); b!(U3::new(t, p, l)) },
        "CRX" => b!(CRX::new(f(it, cs, rng))), "CRY" => b!(CRY::new(f(it, cs, rng))), "CRZ" => b!(CRZ::new(f(it, cs, rng))),
        "CU1" => b!(CU1::new(f(it, cs, rng))),
        // CU2 and CU3 only take plain numbers
        "CU2" => { let (p, l) = (gate::hex_f64(it.next().unwrap()), gate::hex_f64(it.next().unwrap())); b!(CU2::new(p, l)) },
        "CU3" => { let (t, p, l) = (gate::hex_f64(it.next().unwrap()), gate::hex_f64(it.next().unwrap()), gate::hex_f64(it.next().unwrap())); b!(CU3::new(t, p, l)) },
        "CCRX" => b!(CCRX::new(f(it, cs, rng))), "CCRY" => b!(CCRY::new(f(it, cs, rng))), "CCRZ" => b!(CCRZ::new(f(it, cs, rng))),
        "C" => { let g = live_parse(it, cs, rng); Dyn::Plain(std::rc::Rc::new(C::new(g))) },
        "Kron" => { let g0 = live_parse(it, cs, rng); let g1 = live_parse(it, cs, rng); b!(Kron::new(g0, g1)) },
        "Comp" => {
            let name = it.next().expect("name").to_string();
            let nb = nat(it);
            let mut comp = Composite::new(&name, nb);
            ops(it, &mut comp, cs, rng);
            b!(comp)
        },
        "Loop" => {
            let label = it.next().expect("label").to_string();
            let iters = nat(it);
            let name = it.next().expect("name").to_string();
            let nb = nat(it);
            let mut comp = Composite::new(&name, nb);
            ops(it, &mut comp, cs, rng);
            b!(Loop::new(&label, iters, comp))
        },
        other => gate::parse_str(other)     // constant gates
    }
}

/// one call of EVERY route while the cells still hold the decoys (so that anything cached is cached)
fn prime(g: &gate::Dyn)
{
    let g = g.clone();
    let _ = catch(std::panic::AssertUnwindSafe(move || {
        let k = g.nr_affected_bits();
        let dim = 1usize << k;
        let bits: Vec<usize> = (0..k).collect();
        let _ = g.matrix();
        let mut a = ndarray::Array1::from_vec(basis(dim, dim - 1));
        g.apply(&mut a);
        g.apply_slice(a.view_mut());
        q1tsim::gates::apply_gate_slice(a.view_mut(), &g, &bits, k);
        let mut m = ndarray::Array2::from_shape_vec((dim, dim), identity(dim)).unwrap();
        g.apply_mat(&mut m);
        g.apply_mat_slice(m.view_mut());
        q1tsim::gates::apply_gate_mat_slice(m.view_mut(), &g, &bits, k);
        let mut st = VectorState::new(k, 3);
        let _ = st.apply_gate(&g, &bits);
        let _ = st.apply_conditional_gate(&[true, false, true], &g, &bits);
    }));
}

/// number of parameters of a term (hex tokens of 16 digits)
fn nr_params(term: &str) -> usize
{
    term.split_whitespace().filter(|t| t.len() == 16 && t.chars().all(|c| c.is_ascii_hexdigit())).count()
}

/// the live stream for one term (text at the FINAL values) and one pattern of parameter kinds
fn live(out: &mut Out, term: &str, k: usize, kinds: Vec<u32>, nmax: usize, rng: &mut SplitMix64)
{
    let mut cs = Cells { rcs: vec![], ptrs: vec![], kinds, used: 0 };
    let g = live_parse(&mut term.split_whitespace(), &mut cs, rng);
    prime(&g);
    cs.overwrite();
    LIVE.with(|l| *l.borrow_mut() = Some(g));
    r_matrix(out, term);
    leading(out, term, k, false, rng);
    for n in k..=nmax.min(k + 1)
    {
        for bits in sample(tuples(n, k), 2, rng) { placed(out, term, n, &bits, 2, rng); }
    }
    LIVE.with(|l| *l.borrow_mut() = None);
    cs.free();
}

fn show(v: &[Complex64]) -> String
{
    let mut s = String::with_capacity(v.len() * 34);
    for (i, c) in v.iter().enumerate()
    {
        if i > 0 { s.push(' '); }
        s += &fbits(c.re); s.push(' '); s += &fbits(c.im);
    }
    s
}

fn okv(r: Option<V>) -> String
{
    match r { Some(v) => format!("ok {}", show(&v)), None => "panic".into() }
}

fn basis(dim: usize, i: usize) -> V
{
    let mut v = vec![Complex64::new(0.0, 0.0); dim];
    v[i] = Complex64::new(1.0, 0.0);
    v
}

fn rand_unit(dim: usize, rng: &mut SplitMix64) -> V
{
    let mut v: V = (0..dim).map(|_| Complex64::new(rng.unit() - 0.5, rng.unit() - 0.5)).collect();
    let nrm = v.iter().map(|c| c.norm_sqr()).sum::<f64>().sqrt();
    for c in v.iter_mut() { *c = *c / nrm; }
    v
}

fn rand_mat(rows: usize, cols: usize, rng: &mut SplitMix64) -> V
{
    (0..rows * cols).map(|_| Complex64::new(rng.unit() - 0.5, rng.unit() - 0.5)).collect()
}

fn identity(dim: usize) -> V
{
    let mut v = vec![Complex64::new(0.0, 0.0); dim * dim];
    for i in 0..dim { v[i * dim + i] = Complex64::new(1.0, 0.0); }
    v
}

// ---------------------------------------------------------------------------------------------
// the routes of the real code

fn r_matrix(out: &mut Out, term: &str)
{
    let t = term.to_string();
    let r = catch(move || { let m = mk(&t).matrix(); (m.rows(), m.iter().cloned().collect::<V>()) });
    out.case(&format!("matrix | {} |", term), &match r { Some((n, v)) => format!("ok {} {}", n, show(&v)), None => "panic".into() });
}

/// `Gate::apply` (kind "apply") or `Gate::apply_slice` (kind "applyslice") on a vector
fn r_vec(out: &mut Out, kind: &'static str, term: &str, v: &V)
{
    let (t, v2) = (term.to_string(), v.clone());
    let r = catch(move || {
        let g = mk(&t);
        let mut a = ndarray::Array1::from_vec(v2);
        if kind == "apply" { g.apply(&mut a); } else { g.apply_slice(a.view_mut()); }
        a.to_vec()
    });
    out.case(&format!("{} {} 1 | {} | {}", kind, v.len(), term, show(v)), &okv(r));
}

/// `Gate::apply_mat` / `Gate::apply_mat_slice` on a rows x cols matrix (row-major data)
fn r_mat(out: &mut Out, kind: &'static str, term: &str, rows: usize, cols: usize, data: &V)
{
    let (t, d2) = (term.to_string(), data.clone());
    let r = catch(move || {
        let g = mk(&t);
        let mut a = ndarray::Array2::from_shape_vec((rows, cols), d2).unwrap();
        if kind == "applymat" { g.apply_mat(&mut a); } else { g.apply_mat_slice(a.view_mut()); }
        a.iter().cloned().collect::<V>()
    });
    out.case(&format!("{} {} {} | {} | {}", kind, rows, cols, term, show(data)), &okv(r));
}

/// the memory layouts a logical rows x cols matrix is stored in before a matrix route is applied to it
const LAYOUTS: [&str; 9] = ["cm", "tt", "rev", "cmz", "sc", "sr", "scf", "neg", "rm"];

/// build the matrix `data` (row-major text order) in the given memory layout
fn in_layout(layout: &str, rows: usize, cols: usize, data: &[Complex64]) -> ndarray::Array2<Complex64>
{
    use ndarray::{Array2, ShapeBuilder, s};
    let at = |i: usize, j: usize| data[i * cols + j];
    let junk = Complex64::new(0.8125, -0.4375);
    let colmajor = || -> V { (0..cols).flat_map(|j| (0..rows).map(move |i| (i, j))).map(|(i, j)| at(i, j)).collect() };
    let a: Array2<Complex64> = match layout
    {
        "rm" => Array2::from_shape_vec((rows, cols), data.to_vec()).unwrap(),
        // column-major owned
        "cm" => Array2::from_shape_vec((rows, cols).f(), colmajor()).unwrap(),
        // the owned copy of the transpose of the (row-major) transposed matrix
        "tt" => Array2::from_shape_vec((cols, rows), colmajor()).unwrap().t().to_owned(),
        // reversed axes of the transposed matrix
        "rev" => Array2::from_shape_vec((cols, rows), colmajor()).unwrap().reversed_axes(),
        // column-major zeros, assigned
        "cmz" => { let mut a = Array2::<Complex64>::zeros((rows, cols).f()); for i in 0..rows { for j in 0..cols { a[[i, j]] = at(i, j); } } a },
        // every second column of a wider row-major array (not contiguous)
        "sc" => {
            let mut d = vec![junk; rows * cols * 2];
            for i in 0..rows { for j in 0..cols { d[i * 2 * cols + 2 * j] = at(i, j); } }
            Array2::from_shape_vec((rows, 2 * cols), d).unwrap().slice_move(s![.., ..;2])
        },
        // every second row of a taller row-major array
        "sr" => {
            let mut d = vec![junk; rows * cols * 2];
            for i in 0..rows { for j in 0..cols { d[2 * i * cols + j] = at(i, j); } }
            Array2::from_shape_vec((2 * rows, cols), d).unwrap().slice_move(s![..;2, ..])
        },
        // every second column of a wider column-major array
        "scf" => {
            let mut big = Array2::from_elem((rows, 2 * cols).f(), junk);
            for i in 0..rows { for j in 0..cols { big[[i, 2 * j]] = at(i, j); } }
            big.slice_move(s![.., ..;2])
        },
        // rows stored in reverse (negative stride)
        "neg" => {
            let d: V = (0..rows).rev().flat_map(|i| (0..cols).map(move |j| (i, j))).map(|(i, j)| at(i, j)).collect();
            let mut a = Array2::from_shape_vec((rows, cols), d).unwrap();
            a.invert_axis(ndarray::Axis(0));
            a
        },
        other => panic!("unknown layout {}", other)
    };
    assert_eq!((a.rows(), a.cols()), (rows, cols));
    for i in 0..rows { for j in 0..cols { assert!(a[[i, j]] == at(i, j), "layout {} does not hold the matrix", layout); } }
    a
}

fn logical(a: &ndarray::Array2<Complex64>) -> V
{
    let mut v = Vec::with_capacity(a.len());
    for i in 0..a.rows() { for j in 0..a.cols() { v.push(a[[i, j]]); } }
    v
}

/// `Gate::apply_mat` / `apply_mat_slice` on a matrix stored in `layout`; the answer must not depend on it
fn r_mat_layout(out: &mut Out, kind: &'static str, layout: &'static str, term: &str, rows: usize, cols: usize, data: &V)
{
    let (t, d2) = (term.to_string(), data.clone());
    let r = catch(move || {
        let g = mk(&t);
        let mut a = in_layout(layout, rows, cols, &d2);
        if kind == "applymat" { g.apply_mat(&mut a); } else { g.apply_mat_slice(a.view_mut()); }
        logical(&a)
    });
    out.case(&format!("{}@{} {} {} | {} | {}", kind, layout, rows, cols, term, show(data)), &okv(r));
}

/// `gates::apply_gate_mat_slice` on a matrix stored in `layout`
fn r_gmatslice_layout(out: &mut Out, layout: &'static str, term: &str, n: usize, bits: &[usize], rows: usize, cols: usize, data: &V)
{
    let (t, d2, b2) = (term.to_string(), data.clone(), bits.to_vec());
    let r = catch(move || {
        let g = mk(&t);
        let mut a = in_layout(layout, rows, cols, &d2);
        q1tsim::gates::apply_gate_mat_slice(a.view_mut(), &g, &b2, n);
        logical(&a)
    });
    out.case(&format!("gmatslice@{} {} {} {} | {} | {}", layout, n, cols, join(bits), term, show(data)), &okv(r));
}

fn r_gslice(out: &mut Out, term: &str, n: usize, bits: &[usize], v: &V)
{
    let (t, v2, b2) = (term.to_string(), v.clone(), bits.to_vec());
    let r = catch(move || {
        let g = mk(&t);
        let mut a = ndarray::Array1::from_vec(v2);
        q1tsim::gates::apply_gate_slice(a.view_mut(), &g, &b2, n);
        a.to_vec()
    });
    out.case(&format!("gslice {} 1 {} | {} | {}", n, join(bits), term, show(v)), &okv(r));
}

fn r_gmatslice(out: &mut Out, term: &str, n: usize, bits: &[usize], rows: usize, cols: usize, data: &V)
{
    let (t, d2, b2) = (term.to_string(), data.clone(), bits.to_vec());
    let r = catch(move || {
        let g = mk(&t);
        let mut a = ndarray::Array2::from_shape_vec((rows, cols), d2).unwrap();
        q1tsim::gates::apply_gate_mat_slice(a.view_mut(), &g, &b2, n);
        a.iter().cloned().collect::<V>()
    });
    out.case(&format!("gmatslice {} {} {} | {} | {}", n, cols, join(bits), term, show(data)), &okv(r));
}

fn snapshot(st: &VectorState) -> (Vec<usize>, Vec<V>)
{
    match st.verif_snapshot()
    {
        q1tsim::verif::Snapshot::Vector { counts, states, .. } =>
            (counts, states.into_iter().map(|col| col.into_iter().map(|(re, im)| Complex64::new(re, im)).collect()).collect()),
        _ => panic!("not a vector state")
    }
}

/// an entangled n-qubit `VectorState`, prepared through the public API only
fn prepare(n: usize, shots: usize, rng: &mut SplitMix64) -> VectorState
{
    let coefs: V = (0..2 * n).map(|_| Complex64::new(rng.unit() - 0.5, rng.unit() - 0.5)).collect();
    let mut st = VectorState::from_qubit_coefs(&coefs, shots);
    for i in 0..n.saturating_sub(1)
    {
        st.apply_gate(&q1tsim::gates::CX::new(), &[i, i + 1]).unwrap();
        st.apply_gate(&q1tsim::gates::RY::new((rng.unit() - 0.5) * 6.0), &[i]).unwrap();
    }
    if n >= 2 { st.apply_gate(&q1tsim::gates::CX::new(), &[n - 1, 0]).unwrap(); }
    st
}

fn r_vsapply(out: &mut Out, term: &str, n: usize, bits: &[usize], rng: &mut SplitMix64)
{
    let mut st = prepare(n, 5, rng);
    let (_, s0) = snapshot(&st);
    let (t, b2) = (term.to_string(), bits.to_vec());
    let r = catch(std::panic::AssertUnwindSafe(move || {
        let g = mk(&t);
        match st.apply_gate(&g, &b2)
        {
            Ok(()) => { let (_, s1) = snapshot(&st); format!("ok {}", show(&s1[0])) },
            Err(q1tsim::error::Error::InvalidNrBits(a, b, _)) => format!("err nrbits {} {}", a, b),
            Err(e) => format!("err other {:?}", e)
        }
    }));
    out.case(&format!("vsapply {} 1 {} | {} | {}", n, join(bits), term, show(&s0[0])), &r.unwrap_or("panic".into()));
}

fn mask_str(m: &[bool]) -> String { m.iter().map(|b| if *b { "1" } else { "0" }).collect::<Vec<_>>().join(" ") }

/// `apply_conditional_gate` on a state that an earlier conditional X has split into several ranges
fn r_vscond(out: &mut Out, term: &str, n: usize, bits: &[usize], shots: usize, mask: &[bool], premask: Option<&[bool]>, rng: &mut SplitMix64)
{
    let mut st = prepare(n, shots, rng);
    if let Some(pm) = premask { st.apply_conditional_gate(pm, &q1tsim::gates::H::new(), &[n - 1]).unwrap(); }
    let (c0, s0) = snapshot(&st);
    let (t, b2, m2) = (term.to_string(), bits.to_vec(), mask.to_vec());
    let r = catch(std::panic::AssertUnwindSafe(move || {
        let g = mk(&t);
        match st.apply_conditional_gate(&m2, &g, &b2)
        {
            Ok(()) => { let (c1, s1) = snapshot(&st); format!("ok {} | {}", join(&c1), show(&s1.concat())) },
            Err(q1tsim::error::Error::InvalidNrBits(a, b, _)) => format!("err nrbits {} {}", a, b),
            Err(q1tsim::error::Error::InvalidNrControlBits(a, b, _)) => format!("err nrcontrol {} {}", a, b),
            Err(e) => format!("err other {:?}", e)
        }
    }));
    out.case(&format!("vscond {} {} {} | {} | {} | {} | {}", n, shots, join(bits), join(&c0), mask_str(mask), term, show(&s0.concat())),
        &r.unwrap_or("panic".into()));
}

/// an n-qubit `VectorState` of `ncols` shots split into `ncols` ranges (one shot each), built through the
/// public API: an alternating mask makes every shot its own run, a second random mask diversifies the columns
fn split_state(n: usize, ncols: usize, rng: &mut SplitMix64) -> VectorState
{
    let mut st = prepare(n, ncols, rng);
    let alt: Vec<bool> = (0..ncols).map(|i| i % 2 == 0).collect();
    st.apply_conditional_gate(&alt, &q1tsim::gates::H::new(), &[n - 1]).unwrap();
    let m2: Vec<bool> = (0..ncols).map(|_| rng.coin()).collect();
    st.apply_conditional_gate(&m2, &q1tsim::gates::RY::new((rng.unit() - 0.5) * 5.0), &[0]).unwrap();
    let m3: Vec<bool> = (0..ncols).map(|i| i % 3 == 0).collect();
    st.apply_conditional_gate(&m3, &q1tsim::gates::RZ::new((rng.unit() - 0.5) * 5.0), &[n - 1]).unwrap();
    st
}

/// `VectorState::apply_gate` (kind "vsapplym") / `apply_unary_gate_all` (kind "vsunarym") on a state of many columns
fn r_vsmulti(out: &mut Out, unary: bool, term: &str, n: usize, bits: &[usize], ncols: usize, rng: &mut SplitMix64)
{
    let mut st = split_state(n, ncols, rng);
    let (c0, s0) = snapshot(&st);
    let (t, b2) = (term.to_string(), bits.to_vec());
    let r = catch(std::panic::AssertUnwindSafe(move || {
        let g = mk(&t);
        let res = if unary { st.apply_unary_gate_all(&g) } else { st.apply_gate(&g, &b2) };
        match res
        {
            Ok(()) => { let (_, s1) = snapshot(&st); format!("ok {}", show(&s1.concat())) },
            Err(q1tsim::error::Error::InvalidNrBits(a, b, _)) => format!("err nrbits {} {}", a, b),
            Err(e) => format!("err other {:?}", e)
        }
    }));
    let req = if unary { format!("vsunarym {} {} | {} | {}", n, c0.len(), term, show(&s0.concat())) }
        else { format!("vsapplym {} {} {} | {} | {}", n, c0.len(), join(bits), term, show(&s0.concat())) };
    out.case(&req, &r.unwrap_or("panic".into()));
}

/// states holding many distinct columns (more than one panel of 64, not a multiple of 64)
fn many_columns(out: &mut Out, rng: &mut SplitMix64)
{
    let th = thorough();
    let a = |rng: &mut SplitMix64| fbits(gate::gen_angle(rng));
    for &ncols in if th { &[63usize, 64, 65, 100, 128, 129, 200, 257][..] } else { &[65usize, 100, 129, 200][..] }
    {
        for n in 1..=3usize
        {
            let mut terms: Vec<(String, usize)> = vec![("H".into(), 1), ("Y".into(), 1), (format!("RX {}", a(rng)), 1),
                (format!("U3 {} {} {}", a(rng), a(rng), a(rng)), 1), (format!("U1 {}", a(rng)), 1),
                (format!("Loop l 3 b 1 2 T 1 0 RY {} 1 0", a(rng)), 1), (format!("Comp g 1 2 H 1 0 S 1 0"), 1)];
            if n >= 2
            {
                terms.extend(vec![("CX".into(), 2), ("Swap".into(), 2), (format!("CRZ {}", a(rng)), 2), (format!("C RY {}", a(rng)), 2),
                    (format!("Kron H RX {}", a(rng)), 2), (format!("Comp g 2 2 H 1 1 CX 2 1 0"), 2)]);
            }
            if n >= 3 { terms.extend(vec![("CCX".into(), 3), (format!("CCRY {}", a(rng)), 3), (format!("Kron CX U1 {}", a(rng)), 3)]); }
            if th { for k in 1..=n { terms.push((gate::gen_term(k, 2, rng), k)); } }
            let terms = if th { terms } else { sample(terms, 6, rng) };
            for (term, k) in terms
            {
                for bits in sample(tuples(n, k), if th { 3 } else { 1 }, rng)
                {
                    r_vsmulti(out, false, &term, n, &bits, ncols, rng);
                    let pre: Vec<bool> = (0..ncols).map(|i| i % 2 == 1).collect();
                    let mixed: Vec<bool> = (0..ncols).map(|_| rng.coin()).collect();
                    r_vscond(out, &term, n, &bits, ncols, &mixed, Some(&pre), rng);
                    if th { let all_true = vec![true; ncols]; r_vscond(out, &term, n, &bits, ncols, &all_true, Some(&pre), rng); }
                }
                if k == 1 { r_vsmulti(out, true, &term, n, &[], ncols, rng); }
            }
            // arity mismatch on a wide state is still the error
            r_vsmulti(out, false, "CX", n, &[0], ncols, rng);
            if n >= 2 { r_vsmulti(out, true, "CX", n, &[], ncols, rng); }
        }
    }
}

/// loops with many iterations (more than any small-power shortcut), alone and under every combinator
fn long_loops(out: &mut Out, nmax: usize, rng: &mut SplitMix64)
{
    let th = thorough();
    let a = |rng: &mut SplitMix64| fbits(gate::gen_angle(rng));
    for &it in if th { &[15usize, 16, 17, 20, 33, 64, 100][..] } else { &[17usize, 20, 33, 64][..] }
    {
        let l1 = format!("Loop l {} b 1 2 RX {} 1 0 T 1 0", it, a(rng));
        let l2 = format!("Loop l {} b 2 2 CX 2 0 1 RY {} 1 1", it, a(rng));
        let terms: Vec<(String, usize)> = vec![
            (l1.clone(), 1), (l2.clone(), 2),
            (format!("C {}", l1), 2),
            (format!("Comp g 2 2 {} 1 1 H 1 0", l1), 2),
            (format!("Comp g 3 2 {} 2 2 0 S 1 1", l2), 3),
            (format!("Kron {} X", l1), 2),
            (format!("Kron H {}", l1), 2),
            (format!("Loop o 2 c 2 1 {} 1 1", l1), 2)];
        for (term, k) in terms
        {
            r_matrix(out, &term);
            leading(out, &term, k, false, rng);
            for n in k..=nmax.min(k + 2)
            {
                for bits in sample(tuples(n, k), if th { 4 } else { 2 }, rng) { placed(out, &term, n, &bits, 2, rng); }
            }
        }
    }
}

/// every matrix route on matrices in every memory layout: 1- to 4-qubit gates (primitives with hand-written
/// routes, the generic default route, C, Kron, Composite, Loop), 2-4 state columns, operand orders sampled
fn layouts(out: &mut Out, rng: &mut SplitMix64)
{
    let th = thorough();
    let a = |rng: &mut SplitMix64| fbits(gate::gen_angle(rng));
    let mut terms: Vec<(String, usize)> = vec![
        ("H".into(), 1), (format!("U3 {} {} {}", a(rng), a(rng), a(rng)), 1), (format!("RY {}", a(rng)), 1),
        ("CX".into(), 2), ("CY".into(), 2), ("CZ".into(), 2), ("Swap".into(), 2), ("CH".into(), 2), ("CV".into(), 2),
        (format!("CRX {}", a(rng)), 2), (format!("CU3 {} {} {}", a(rng), a(rng), a(rng)), 2), (format!("C U2 {} {}", a(rng), a(rng)), 2),
        (format!("Kron H RZ {}", a(rng)), 2), (format!("Kron T X"), 2), (format!("Comp g 2 2 H 1 1 CX 2 1 0"), 2),
        (format!("Loop l 3 b 2 2 CX 2 0 1 RY {} 1 1", a(rng)), 2),
        ("CCX".into(), 3), ("CCZ".into(), 3), (format!("CCRY {}", a(rng)), 3), (format!("Kron CX RX {}", a(rng)), 3), ("Kron S Swap".into(), 3),
        ("C Swap".into(), 3), (format!("Comp g 3 3 CX 2 2 0 T 1 1 CRZ {} 2 0 1", a(rng)), 3),
        ("Kron CX Kron H T".into(), 4), ("C C CX".into(), 4), ("Kron Swap CY".into(), 4), (format!("Comp g 4 3 CCX 3 3 1 0 H 1 2 CRX {} 2 2 3", a(rng)), 4)];
    for k in 2..=(if th { 4 } else { 3 }) { for _ in 0..(if th { 6 } else { 2 }) { terms.push((gate::gen_term(k, 2, rng), k)); } }
    for (term, k) in terms
    {
        // leading routes, states of 2^k * t rows
        for &t in &[1usize, 2]
        {
            let rows = (1usize << k) * t;
            for (i, &lay) in LAYOUTS.iter().enumerate()
            {
                let cols = 2 + (i + t) % 3;
                r_mat_layout(out, "applymatslice", lay, &term, rows, cols, &rand_mat(rows, cols, rng));
                if t == 1 || th { r_mat_layout(out, "applymat", lay, &term, rows, cols, &rand_mat(rows, cols, rng)); }
            }
        }
        // placements: every operand order for n <= 3 (and n = 4 in thorough), sampled otherwise
        for n in k..=4usize.min(k + 2)
        {
            let all = tuples(n, k);
            let tups = if n <= 3 || th { all } else { sample(all, 4, rng) };
            for (j, bits) in tups.iter().enumerate()
            {
                let dim = 1usize << n;
                let lays: Vec<&'static str> = if th || n <= 3 { LAYOUTS.to_vec() } else { (0..4).map(|i| LAYOUTS[(i * 2 + j) % LAYOUTS.len()]).collect() };
                for (i, lay) in lays.into_iter().enumerate()
                {
                    let cols = 2 + (i + j) % 3;
                    r_gmatslice_layout(out, lay, &term, n, bits, dim, cols, &rand_mat(dim, cols, rng));
                }
            }
        }
    }
}

/// angles at which a shortcut is tempting: exact multiples of pi/2 (whole and half turns, as k * FRAC_PI_2 and as
/// the literal products), signed zeros, tiny and subnormal angles, angles next to a whole number of turns
fn special_angles() -> Vec<f64>
{
    use std::f64::consts::{PI, FRAC_PI_2};
    let mut v: Vec<f64> = (-16..=16).map(|k| k as f64 * FRAC_PI_2).collect();
    v.extend_from_slice(&[2.0 * PI, -2.0 * PI, 4.0 * PI, -4.0 * PI, 6.0 * PI, -6.0 * PI, 8.0 * PI, 3.0 * PI, 5.0 * PI, 10.0 * PI, 100.0 * PI,
        0.0, -0.0, 1e-8, -1e-8, 2e-8, 1e-16, -1e-16, 5e-324, -5e-324, 1e-300, f64::MIN_POSITIVE]);
    for k in [-3i32, -2, -1, 1, 2, 3, 5].iter()
    {
        let c = *k as f64 * 2.0 * PI;
        v.extend_from_slice(&[c + 1e-8, c - 1e-8, c * (1.0 + f64::EPSILON), c * (1.0 - f64::EPSILON), c + 3e-9]);
    }
    v.extend_from_slice(&[PI + 1e-8, PI - 1e-8, FRAC_PI_2 + 1e-8, 1e-8 - PI]);
    v
}

/// a light pass over every kind of route for one term
fn routes_lite(out: &mut Out, term: &str, k: usize, rng: &mut SplitMix64)
{
    r_matrix(out, term);
    let dim = 1usize << k;
    r_vec(out, "apply", term, &rand_unit(dim, rng));
    r_vec(out, "applyslice", term, &rand_unit(2 * dim, rng));
    r_mat(out, "applymat", term, dim, 2, &rand_mat(dim, 2, rng));
    r_mat(out, "applymatslice", term, 2 * dim, 3, &rand_mat(2 * dim, 3, rng));
    let n = k + 1;
    let all = tuples(n, k);
    let bits = all[rng.below(all.len() as u64) as usize].clone();
    let d = 1usize << n;
    r_gslice(out, term, n, &bits, &rand_unit(d, rng));
    r_gmatslice(out, term, n, &bits, d, 2, &rand_mat(d, 2, rng));
    r_vsapply(out, term, n, &bits, rng);
    let shots = 5;
    let pre: Vec<bool> = (0..shots).map(|_| rng.coin()).collect();
    let mixed: Vec<bool> = (0..shots).map(|i| i != 1).collect();
    r_vscond(out, term, n, &bits, shots, &mixed, Some(&pre), rng);
}

/// every parametrised gate at every special angle, plain and inside C / CC / Kron / Composite / Loop, on every
/// route, applied to superposed states (so that a relative phase on the control is visible)
fn special(out: &mut Out, rng: &mut SplitMix64)
{
    let th = thorough();
    let angles = special_angles();
    let pick = |rng: &mut SplitMix64| -> f64 { if rng.below(2) == 0 { angles[rng.below(angles.len() as u64) as usize] } else { gate::gen_angle(rng) } };
    for (ia, &x) in angles.iter().enumerate()
    {
        let h = fbits(x);
        let mut terms: Vec<(String, usize)> = vec![];
        for g in ["RX", "RY", "RZ", "U1"].iter()
        {
            terms.push((format!("{} {}", g, h), 1));
            terms.push((format!("C{} {}", g, h), 2));
            terms.push((format!("C {} {}", g, h), 2));
            if *g != "U1" { terms.push((format!("CC{} {}", g, h), 3)); }
            // combinators: cycle through them so that every (gate, combinator, angle class) shows up
            let combos: Vec<(String, usize)> = vec![
                (format!("Kron {} {} H", g, h), 2), (format!("Kron H {} {}", g, h), 2), (format!("C C {} {}", g, h), 3),
                (format!("Comp g 2 3 H 1 0 C{} {} 2 0 1 H 1 0", g, h), 2), (format!("Comp g 2 2 {} {} 1 1 CX 2 1 0", g, h), 2),
                (format!("Loop l 3 b 1 1 {} {} 1 0", g, h), 1), (format!("Loop l 2 b 2 2 H 1 0 C{} {} 2 0 1", g, h), 2),
                (format!("Kron C{} {} X", g, h), 3)];
            if th { terms.extend(combos); }
            else { let n = combos.len(); terms.push(combos[ia % n].clone()); terms.push(combos[(ia + 3) % n].clone()); }
        }
        // several parameters: the special angle in one slot
        let slot = ia % 3;
        let p3 = |rng: &mut SplitMix64, s: usize| -> String { (0..3).map(|j| fbits(if j == s { x } else { pick(rng) })).collect::<Vec<_>>().join(" ") };
        let p2 = |rng: &mut SplitMix64, s: usize| -> String { (0..2).map(|j| fbits(if j == s % 2 { x } else { pick(rng) })).collect::<Vec<_>>().join(" ") };
        terms.push((format!("U3 {}", p3(rng, slot)), 1));
        terms.push((format!("U2 {}", p2(rng, slot)), 1));
        terms.push((format!("CU3 {}", p3(rng, (slot + 1) % 3)), 2));
        terms.push((format!("CU2 {}", p2(rng, slot + 1)), 2));
        terms.push((format!("C U3 {}", p3(rng, (slot + 2) % 3)), 2));
        if th { for s in 0..3 { terms.push((format!("U3 {}", p3(rng, s)), 1)); terms.push((format!("CU3 {}", p3(rng, s)), 2)); } }
        for (term, k) in terms { routes_lite(out, &term, k, rng); }
    }
    // tiny angles accumulated in long loops
    for &x in &[1e-8f64, 2e-8, 1e-16, 5e-324]
    {
        for &it in if th { &[1000usize, 10000, 100000][..] } else { &[1000usize][..] }
        {
            for g in ["RX", "RY", "RZ", "U1"].iter()
            {
                let l = format!("Loop l {} b 1 1 {} {} 1 0", it, g, fbits(x));
                r_matrix(out, &l);
                r_vec(out, "applyslice", &l, &rand_unit(4, rng));
                r_mat(out, "applymatslice", &l, 2, 2, &rand_mat(2, 2, rng));
                if it <= 1000
                {
                    let c = format!("C {}", l);
                    r_vec(out, "apply", &c, &rand_unit(4, rng));
                    r_gslice(out, &c, 3, &[2, 0], &rand_unit(8, rng));
                }
            }
        }
    }
}

fn r_bitperm(out: &mut Out, n: usize, bits: &[usize])
{
    let b2 = bits.to_vec();
    let r = catch(move || q1tsim::gates::bit_permutation(n, &b2).indices().to_vec());
    out.case(&format!("bitperm {} {}", n, join(bits)), &match r { Some(p) => format!("ok {}", join(&p)), None => "panic".into() });
}

// ---------------------------------------------------------------------------------------------
// enumeration

/// all ordered k-tuples of distinct elements of 0..n
fn tuples(n: usize, k: usize) -> Vec<Vec<usize>>
{
    fn go(n: usize, k: usize, cur: &mut Vec<usize>, out: &mut Vec<Vec<usize>>)
    {
        if cur.len() == k { out.push(cur.clone()); return; }
        for q in 0..n { if !cur.contains(&q) { cur.push(q); go(n, k, cur, out); cur.pop(); } }
    }
    let mut out = vec![];
    go(n, k, &mut vec![], &mut out);
    out
}

fn sample<T: Clone>(xs: Vec<T>, max: usize, rng: &mut SplitMix64) -> Vec<T>
{
    if xs.len() <= max { return xs; }
    let mut idx: Vec<usize> = (0..xs.len()).collect();
    rng.shuffle(&mut idx);
    idx.truncate(max);
    idx.sort();
    idx.into_iter().map(|i| xs[i].clone()).collect()
}

/// the leading-qubit routes of one gate on states of 2^k * t rows
fn leading(out: &mut Out, term: &str, k: usize, full: bool, rng: &mut SplitMix64)
{
    for &t in &[1usize, 2, 4]
    {
        let rows = (1usize << k) * t;
        let bas: Vec<usize> = if full { (0..rows).collect() } else { sample((0..rows).collect(), 3, rng) };
        for (j, i) in bas.into_iter().enumerate()
        {
            r_vec(out, if j % 2 == 0 { "applyslice" } else { "apply" }, term, &basis(rows, i));
        }
        for j in 0..(if full { 3 } else { 2 })
        {
            r_vec(out, if j % 2 == 0 { "apply" } else { "applyslice" }, term, &rand_unit(rows, rng));
        }
        r_mat(out, "applymatslice", term, rows, 3, &rand_mat(rows, 3, rng));
        r_mat(out, "applymat", term, rows, 3, &rand_mat(rows, 3, rng));
        if full || t == 1 { r_mat(out, "applymatslice", term, rows, rows, &identity(rows)); }
        if full { r_mat(out, "applymat", term, rows, 1, &rand_unit(rows, rng)); }
    }
}

/// every placement route of one gate on qubits `bits` of an n-qubit register
fn placed(out: &mut Out, term: &str, n: usize, bits: &[usize], nbasis: usize, rng: &mut SplitMix64)
{
    let dim = 1usize << n;
    for i in sample((0..dim).collect(), nbasis, rng) { r_gslice(out, term, n, bits, &basis(dim, i)); }
    let nrand = if nbasis >= dim { 3 } else { 2 };
    for _ in 0..nrand { r_gslice(out, term, n, bits, &rand_unit(dim, rng)); }
    r_gmatslice(out, term, n, bits, dim, 3, &rand_mat(dim, 3, rng));
    if nbasis >= dim { r_gmatslice(out, term, n, bits, dim, dim, &identity(dim)); }
    r_vsapply(out, term, n, bits, rng);
    let shots = 6;
    let all_true = vec![true; shots];
    r_vscond(out, term, n, bits, shots, &all_true, None, rng);
    let pre: Vec<bool> = (0..shots).map(|_| rng.coin()).collect();
    let mixed: Vec<bool> = (0..shots).map(|_| rng.coin()).collect();
    r_vscond(out, term, n, bits, shots, &mixed, Some(&pre), rng);
}

fn malformed(out: &mut Out, rng: &mut SplitMix64)
{
    let reg = gate::registry(rng);
    let rounds = if thorough() { 6 } else { 2 };
    for _ in 0..rounds
    {
        for (term, k) in reg.iter()
        {
            let k = *k;
            // leading routes on states whose number of rows is not a multiple of 2^k (matrices get an
            // odd number of columns: several routes assert on the number of *elements*, not of rows)
            for &rows in &[1usize, 3, (1 << k) + 1, (1 << k) * 3, (1 << k) + (1 << (k - 1)), 6, 0]
            {
                r_vec(out, "applyslice", term, &rand_unit(rows.max(1), rng)[..rows].to_vec());
                r_mat(out, "applymatslice", term, rows, 3, &rand_mat(rows, 3, rng));
            }
            // placement: wrong arity, out-of-range and repeated qubits, wrong state size
            let n = k + 1 + rng.below(2) as usize;
            let dim = 1usize << n;
            let mut bits = tuples(n, k).swap_remove(rng.below(tuples(n, k).len() as u64) as usize);
            let v = rand_unit(dim, rng);
            let m = rand_mat(dim, 3, rng);
            let mut wide = bits.clone(); wide.push((0..n).find(|q| !bits.contains(q)).unwrap());
            r_gslice(out, term, n, &wide, &v);
            r_gmatslice(out, term, n, &wide, dim, 3, &m);
            r_vsapply(out, term, n, &wide, rng);
            r_vscond(out, term, n, &wide, 4, &[true, false, true, true], None, rng);
            r_vscond(out, term, n, &bits, 4, &[true, false, true], None, rng);
            if k >= 2
            {
                r_gslice(out, term, n, &bits[1..], &v);
                r_vsapply(out, term, n, &bits[1..], rng);
                let mut dup = bits.clone(); dup[1] = dup[0];
                r_gslice(out, term, n, &dup, &v);
                r_gmatslice(out, term, n, &dup, dim, 3, &m);
                r_bitperm(out, n, &dup);
            }
            let j = rng.below(k as u64) as usize;
            bits[j] = n + rng.below(2) as usize;
            r_gslice(out, term, n, &bits, &v);
            r_gmatslice(out, term, n, &bits, dim, 3, &m);
            r_bitperm(out, n, &bits);
            bits[j] = 0; let bits = tuples(n, k).swap_remove(0);
            r_gslice(out, term, n, &bits, &rand_unit(dim * 2, rng));
            r_gslice(out, term, n, &bits, &rand_unit(dim / 2, rng));
            r_gmatslice(out, term, n, &bits, dim / 2, 3, &rand_mat(dim / 2, 3, rng));
        }
    }
    // bit_permutation on arbitrary short lists (repeats, out-of-range)
    for n in 0..=3usize
    {
        for len in 0..=3usize
        {
            for code in 0..(n + 2).pow(len as u32)
            {
                let bits: Vec<usize> = (0..len).map(|i| (code / (n + 2).pow(i as u32)) % (n + 2)).collect();
                r_bitperm(out, n, &bits);
            }
        }
    }
}

fn main()
{
    let dir = std::env::args().nth(1).expect("usage: c04 <outdir>");
    silence_panics();
    let mut rng = SplitMix64::from_env();
    let mut out = Out::new(&dir);
    let th = thorough();
    let nmax_all = 4;                       // every tuple, every basis vector up to here
    let nmax = if th { 6 } else { 4 };

    // bit_permutation: every ordered tuple of distinct qubits
    for n in 0..=(if th { 6 } else { 5 })
    {
        for k in 0..=n.min(if n <= 5 { 5 } else { 3 })
        {
            for bits in tuples(n, k) { r_bitperm(&mut out, n, &bits); }
        }
    }

    // registry gates: leading routes and every placement
    for round in 0..(if th { 3 } else { 1 })
    {
        for (term, k) in gate::registry(&mut rng)
        {
            if round > 0 && !term.contains(' ') { continue; }   // later rounds: new parameters only
            r_matrix(&mut out, &term);
            leading(&mut out, &term, k, true, &mut rng);
            for n in k..=nmax
            {
                let all = tuples(n, k);
                let (tups, nb) = if n <= nmax_all { (all, if round == 0 { 1 << n } else { 4 }) }
                    else { (sample(all, 10, &mut rng), 5) };
                for bits in tups { placed(&mut out, &term, n, &bits, nb, &mut rng); }
            }
        }
    }

    // generated nested combinators
    let nterms = if th { 900 } else { 150 };
    let maxk = if th { 4 } else { 3 };
    for i in 0..nterms
    {
        let k = 1 + (i % maxk);
        let term = gate::gen_term(k, 3, &mut rng);
        r_matrix(&mut out, &term);
        leading(&mut out, &term, k, false, &mut rng);
        for n in k..=nmax.min(k + 2)
        {
            for bits in sample(tuples(n, k), 2, &mut rng) { placed(&mut out, &term, n, &bits, 3, &mut rng); }
        }
    }

    // wide gates (4 and 5 qubits: tensor products, controlled, composites, loops) with every operand
    // order (sampled in quick), always including the tuples whose endpoints look like a run of
    // consecutive increasing qubits while the interior operands are out of order (e.g. [1,3,2,4])
    for k in 4..=5usize
    {
        let mut terms: Vec<String> = if k == 4
            { vec!["Kron CX Kron H T".into(), "C C CX".into(), "Kron Kron S CY X".into()] }
            else { vec!["Kron Swap Kron CX S".into(), "C Kron CX Kron H T".into()] };
        for _ in 0..(if th { 6 } else { 2 }) { terms.push(gate::gen_term(k, 2, &mut rng)); }
        for term in terms
        {
            r_matrix(&mut out, &term);
            leading(&mut out, &term, k, false, &mut rng);
            for n in k..=(if th { 6 } else { 5 })
            {
                let all = tuples(n, k);
                let tricky: Vec<Vec<usize>> = all.iter().filter(|b| {
                    let (f, l) = (b[0], b[k - 1]);
                    l > f && l - f + 1 == k && b.windows(2).any(|w| w[1] != w[0] + 1)
                }).cloned().collect();
                let mut tups = if th && n <= 5 { all } else { sample(all, 10, &mut rng) };
                for t in sample(tricky, if th { 24 } else { 4 }, &mut rng) { if !tups.contains(&t) { tups.push(t); } }
                for bits in tups { placed(&mut out, &term, n, &bits, 3, &mut rng); }
            }
        }
    }

    // reference-valued parameters are live on EVERY route: each parametrised gate (and combinators containing
    // them) is built with every pattern of direct / Rc<RefCell> / FFI-pointer parameters while the cells hold
    // decoys, every route is called once, the cells are overwritten, and every route is exercised again; the
    // request carries the term at the new values
    {
        let mut terms: Vec<(String, usize)> = vec![];
        for round in 0..(if th { 3 } else { 1 })
        {
            for (t, k) in gate::registry(&mut rng) { if t.contains(' ') && !t.starts_with("CU2") && !t.starts_with("CU3") { terms.push((t, k)); } }
            let a = |rng: &mut SplitMix64| fbits(gate::gen_angle(rng));
            terms.push((format!("C U3 {} {} {}", a(&mut rng), a(&mut rng), a(&mut rng)), 2));
            terms.push((format!("C C U2 {} {}", a(&mut rng), a(&mut rng)), 3));
            terms.push((format!("C U1 {}", a(&mut rng)), 2));
            terms.push((format!("Kron U3 {} {} {} H", a(&mut rng), a(&mut rng), a(&mut rng)), 2));
            terms.push((format!("Kron CU1 {} RX {}", a(&mut rng), a(&mut rng)), 3));
            terms.push((format!("Kron U1 {} U1 {}", a(&mut rng), a(&mut rng)), 2));
            terms.push((format!("Comp g 2 3 U1 {} 1 0 CRZ {} 2 1 0 RX {} 1 1", a(&mut rng), a(&mut rng), a(&mut rng)), 2));
            terms.push((format!("Comp g 3 3 CU1 {} 2 2 0 H 1 1 C U1 {} 2 1 2", a(&mut rng), a(&mut rng)), 3));
            terms.push((format!("Loop l 2 b 2 2 CU1 {} 2 0 1 U1 {} 1 1", a(&mut rng), a(&mut rng)), 2));
            terms.push((format!("Loop l 3 b 1 2 U1 {} 1 0 RY {} 1 0", a(&mut rng), a(&mut rng)), 1));
            terms.push((format!("Comp o 2 2 Comp i 1 1 U1 {} 1 0 1 1 Kron RZ {} U1 {} 2 1 0", a(&mut rng), a(&mut rng), a(&mut rng)), 2));
            let _ = round;
        }
        for i in 0..(if th { 60 } else { 12 })
        {
            let k = 1 + (i % 3);
            let t = gate::gen_term(k, 2, &mut rng);
            if nr_params(&t) > 0 { terms.push((t, k)); }
        }
        for (term, k) in terms
        {
            let np = nr_params(&term);
            let all: Vec<u32> = (1..3u32.pow(np.min(3) as u32)).collect();
            let masks = if th { all } else { sample(all, 4, &mut rng) };
            for mask in masks
            {
                let kinds: Vec<u32> = (0..np.min(3)).map(|j| (mask / 3u32.pow(j as u32)) % 3).collect();
                live(&mut out, &term, k, kinds, nmax_all, &mut rng);
            }
        }
    }

    many_columns(&mut out, &mut rng);
    long_loops(&mut out, nmax_all, &mut rng);
    layouts(&mut out, &mut rng);
    special(&mut out, &mut rng);

    malformed(&mut out, &mut rng);
    let n = out.finish();
    eprintln!("c04: {} cases", n);
}

//! C02 (and the shared simulator correspondence): per-operation trace validation and per-shot replay.
use q1t_harness::*;
use q1t_harness::sim::*;
use q1tsim::verif::Snapshot;

fn emit_run(out: &mut Out, ct: &CircuitText, shots: usize, seed: u64, repr: &str, max_shot_lines: usize, rng: &mut SplitMix64)
{
    emit_run_h(out, ct, shots, seed, repr, max_shot_lines, rng, None)
}

/// Writes the request under a tag: lines of a run that was NOT the first execution of its `Circuit` object start with
/// `again ` (the drivers strip the tag: the requirement is the same as for a first run).
struct Tagged<'a> { out: &'a mut Out, tag: &'static str }
impl<'a> Tagged<'a> { fn case(&mut self, req: &str, ans: &str) { self.out.case(&format!("{}{}", self.tag, req), ans); } }

/// `first = Some((seed1, repr1))`: "executed again on the same object" - the circuit is first executed with `seed1` on
/// `repr1` (same shot count), then AGAIN on the same `Circuit` object with `seed`/`repr`; the trace, the steps and the shot
/// replays are those of the SECOND run.  `execute*` clears quantum and classical state, so the pre-state of its first
/// operation is the fresh state with a ZERO register, exactly as in a first run.
fn emit_run_h(out: &mut Out, ct: &CircuitText, shots: usize, seed: u64, repr: &str, max_shot_lines: usize, rng: &mut SplitMix64, first: Option<(u64, &str)>)
{
    let mut circuit = match build(ct) { Ok(c) => c, Err(_) => return };
    if let Some((seed1, repr1)) = first
    {
        let r1 = execute_traced(&mut circuit, ct.nq, shots, seed1, repr1);
        if !matches!(r1.result, Some(Ok(()))) { return; }
    }
    let out = &mut Tagged { out, tag: if first.is_some() { "again " } else { "" } };
    let run = execute_traced(&mut circuit, ct.nq, shots, seed, repr);
    // per-operation steps ("auto": the representation the library chose)
    let init_repr = if repr == "auto" { if circuit.is_stabilizer_circuit() { "stabilizer" } else { "vector" } } else { repr };
    let mut pre_snap = initial_snapshot(init_repr, ct.nq, shots);
    let mut pre_reg: Vec<u64> = vec![0; shots];
    for (j, e) in run.trace.iter().enumerate()
    {
        let req = format!("step | {} | {} | {} | {}", ct.ops[j], pre_snap, join(&pre_reg), show_draws(&e.draws));
        let post = show_snapshot(&e.snapshot);
        out.case(&req, &format!("ok | {} | {}", post, join(&e.cstate)));
        pre_snap = post;
        pre_reg = e.cstate.clone();
    }
    if run.trace.len() < ct.ops.len()
    {
        // the operation at which execution stopped (error or panic); its draws are not recorded
        let j = run.trace.len();
        let ans = match &run.result { None => "panic".to_string(), Some(Err(e)) => show_err(e), Some(Ok(())) => "ok-but-trace-short".to_string() };
        // draws made by the failing op before it failed are unknown: mark with `?`
        out.case(&format!("step | {} | {} | {} | 0", ct.ops[j], pre_snap, join(&pre_reg)), &ans);
        return;
    }
    // per-shot replay lines (B)
    if let (Some(Ok(())), Some(Snapshot::Stabilizer { nr_bits, counts, tableaus })) = (&run.result, &run.final_snapshot)
    {
        let mut shot_range = vec![];
        for (k, &c) in counts.iter().enumerate() { for _ in 0..c { shot_range.push(k); } }
        let total: usize = counts.iter().sum();
        if total != shots { out.case(&format!("shot | {} | counts-do-not-sum {} {}", ct.nq, total, shots), "bad"); return; }
        let picks: Vec<usize> = if shots <= max_shot_lines { (0..shots).collect() } else { (0..max_shot_lines).map(|_| rng.below(shots as u64) as usize).collect() };
        for i in picks
        {
            let words: Vec<u64> = run.trace.iter().map(|e| e.cstate[i]).collect();
            let t = tableaus[shot_range[i]].replace('\n', ",");
            out.case(&format!("shot | {} | {} | {} | T {}", ct.nq, ct.ops.join(" ; "), join(&words), if *nr_bits == 0 { "-".to_string() } else { t }), "ok");
        }
    }
    if let (Some(Ok(())), Some(Snapshot::Vector { nr_bits: _, counts, states })) = (&run.result, &run.final_snapshot)
    {
        let mut shot_range = vec![];
        for (k, &c) in counts.iter().enumerate() { for _ in 0..c { shot_range.push(k); } }
        let total: usize = counts.iter().sum();
        if total != shots { out.case(&format!("shot | {} | counts-do-not-sum {} {}", ct.nq, total, shots), "bad"); return; }
        let picks: Vec<usize> = if shots <= max_shot_lines { (0..shots).collect() } else { (0..max_shot_lines).map(|_| rng.below(shots as u64) as usize).collect() };
        for i in picks
        {
            let words: Vec<u64> = run.trace.iter().map(|e| e.cstate[i]).collect();
            let col = &states[shot_range[i]];
            let mut st = String::new();
            for (re, im) in col.iter() { st += &format!(" {} {}", fbits(*re), fbits(*im)); }
            out.case(&format!("shot | {} | {} | {} |{}", ct.nq, ct.ops.join(" ; "), join(&words), st), "ok");
        }
    }
}

fn main()
{
    let dir = std::env::args().nth(1).expect("usage: c02 <outdir>");
    silence_panics();
    let mut rng = SplitMix64::from_env();
    let mut out = Out::new(&dir);
    let ncirc = if thorough() { 3000 } else { 400 };
    let cfg = GenCfg { max_q: if thorough() { 4 } else { 3 }, max_c: 4, max_ops: 12, clifford: false,
        allow_peek: true, allow_reset: true, allow_reset_all: true, allow_cond: true, allow_measure_all: true, allow_combinators: true };
    for i in 0..ncirc
    {
        let ct = gen_circuit(&cfg, &mut rng);
        let shots = [1usize, 2, 3, 7, 20, 40][i % 6];
        let seed = rng.next();
        emit_run(&mut out, &ct, shots, seed, "vector", 6, &mut rng);
    }
    // Clifford circuits on the stabilizer, automatically chosen and vector representations
    let cfg_s = GenCfg { max_q: if thorough() { 5 } else { 4 }, clifford: true, ..cfg };
    for i in 0..ncirc
    {
        let ct = gen_circuit(&cfg_s, &mut rng);
        let shots = [1usize, 2, 3, 7, 20, 40][i % 6];
        let seed = rng.next();
        emit_run(&mut out, &ct, shots, seed, ["stabilizer", "auto", "stabilizer", "vector"][i % 4], 6, &mut rng);
    }
    // Structured Clifford circuits: a parity qubit entangled with SEVERAL superposed qubits, so that the measured / reset
    // qubit carries X or Y in two or more generator rows of the normalised tableau (random circuits rarely get there),
    // followed by measurements in another basis that expose a wrong collapse.
    let nstruct = if thorough() { 600 } else { 120 };
    for i in 0..nstruct
    {
        let nq = 3 + rng.below(3) as usize;
        let nc = nq;
        let mut qs: Vec<usize> = (0..nq).collect();
        rng.shuffle(&mut qs);
        let target = qs[0];
        let nsrc = 2 + rng.below((nq - 2) as u64) as usize;
        let mut ops = vec![];
        for &q in qs[1..=nsrc].iter() { ops.push(format!("gate 1 {} H", q)); if rng.below(4) == 0 { ops.push(format!("gate 1 {} S", q)); } }
        for &q in qs[1..=nsrc].iter()
        {
            let g = *rng.pick(&["CX", "CX", "CY", "CZ"]);
            if g == "CZ" { ops.push(format!("gate 1 {} H", target)); }
            ops.push(format!("gate 2 {} {} {}", q, target, g));
            if g == "CZ" { ops.push(format!("gate 1 {} H", target)); }
        }
        match rng.below(4)
        {
            0 => ops.push(format!("measure {} {} {}", target, target, gen_basis(&mut rng))),
            1 => ops.push(format!("reset {}", target)),
            2 => { ops.push(format!("peek {} {} Z", target, target)); ops.push(format!("measure {} {} Z", target, target)); },
            _ => { ops.push(format!("measure {} {} Z", target, target)); ops.push(format!("reset {}", qs[1])); }
        }
        for &q in qs[1..].iter() { if rng.below(3) != 0 { ops.push(format!("measure {} {} {}", q, q, gen_basis(&mut rng))); } }
        ops.push(format!("measure {} {} Z", target, target));
        let ct = CircuitText { nq, nc, ops };
        let seed = rng.next();
        emit_run(&mut out, &ct, [3usize, 8, 24][i % 3], seed, ["stabilizer", "auto", "vector"][i % 3], 8, &mut rng);
    }
    // Executed AGAIN on the same object with the same shot count (the requirement on the second run is that of a first run):
    // feedback circuits, whose conditional gates read classical bits BEFORE the measurement that writes them in this run,
    // and circuits of the random streams above.
    let nagain = if thorough() { 1500 } else { 300 };
    for i in 0..nagain
    {
        let clifford = i % 3 != 2;
        let ct = if i % 4 == 3 { gen_circuit(if clifford { &cfg_s } else { &cfg }, &mut rng) } else { gen_feedback_circuit(&mut rng, clifford) };
        let shots = [1usize, 2, 3, 7, 20, 40][i % 6];
        let (seed1, seed) = (rng.next(), rng.next());
        let repr = if clifford { ["stabilizer", "vector", "auto"][(i / 3) % 3] } else { "vector" };
        // now and then the first run used the other representation
        let repr1 = if clifford && i % 5 == 0 { if repr == "vector" { "stabilizer" } else { "vector" } } else { repr };
        emit_run_h(&mut out, &ct, shots, seed, repr, 6, &mut rng, Some((seed1, repr1)));
    }
    // Wide stabilizer registers: exactly 32 and 64 qubits (a tableau row fills whole 64-bit words) and their neighbours.
    // X/Y/Z on low qubits (negative signs on low-indexed generators), H (+S, CX) on higher ones, measurements / peeks / resets
    // in between so that `normalize` displaces rows while signs matter.  A 2^32 vector cannot be built, so these runs are
    // compared (A) with the tableau model only (lists, any width) - the model is tied to the reference semantics by
    // C03 + `stab_shot_refinement_generated`; no shot-replay lines (B) for them.
    let nwide = if thorough() { 240 } else { 48 };
    for i in 0..nwide
    {
        let nq = [32usize, 64, 31, 33, 63, 65, 32, 64][i % 8];
        let nc = nq.min(64);
        let mut ops: Vec<String> = vec![];
        let nlow = 1 + rng.below(3) as usize;
        let mut low: Vec<usize> = (0..6).collect();
        rng.shuffle(&mut low);
        for &q in low[..nlow].iter() { ops.push(format!("gate 1 {} {}", q, *rng.pick(&["X", "X", "Y", "X"]))); }
        let nhigh = 1 + rng.below(3) as usize;
        let mut high: Vec<usize> = vec![];
        for _ in 0..nhigh { let q = 6 + rng.below((nq - 6) as u64) as usize; if !high.contains(&q) { high.push(q); } }
        if rng.below(3) == 0 { high.push(nq - 1); high.dedup(); }
        let mut seen = vec![]; high.retain(|q| if seen.contains(q) { false } else { seen.push(*q); true });
        for &q in high.iter() { ops.push(format!("gate 1 {} H", q)); if rng.below(4) == 0 { ops.push(format!("gate 1 {} S", q)); } }
        if high.len() >= 2 && rng.below(2) == 0 { ops.push(format!("gate 2 {} {} CX", high[0], high[1])); }
        if rng.below(3) == 0 { ops.push(format!("gate 2 {} {} CX", high[0], low[0])); }
        let nmid = 2 + rng.below(4) as usize;
        for _ in 0..nmid
        {
            let q = if rng.below(2) == 0 { *rng.pick(&high) } else { *rng.pick(&low[..nlow.max(2)]) };
            let c = q % nc;
            match rng.below(6)
            {
                0 | 1 => ops.push(format!("measure {} {} {}", q, c, gen_basis(&mut rng))),
                2 => ops.push(format!("peek {} {} {}", q, c, gen_basis(&mut rng))),
                3 => ops.push(format!("reset {}", q)),
                4 => ops.push(format!("gate 1 {} {}", q, *rng.pick(&["H", "X", "S", "Z"]))),
                _ => ops.push(format!("measure {} {} Z", q, c)),
            }
        }
        for &q in low[..nlow].iter() { ops.push(format!("measure {} {} Z", q, q % nc)); }
        for &q in high.iter() { ops.push(format!("measure {} {} {}", q, q % nc, gen_basis(&mut rng))); }
        let ct = CircuitText { nq, nc, ops };
        let seed = rng.next();
        emit_run(&mut out, &ct, [1usize, 2, 5, 8][i % 4], seed, ["stabilizer", "auto"][i % 2], 0, &mut rng);
    }
    // High classical bits: a 64-bit register, single-qubit measurements / peeks into bits 30, 31, 32, 33, 62, 63 on both
    // backends; upper bits are pre-set by earlier measurements of |1> qubits so that a write that clobbers bits it does not
    // own is visible.  Compared per step with the model (A) and per shot with the reference semantics (B).
    let nhi = if thorough() { 360 } else { 90 };
    for i in 0..nhi
    {
        let nq = 2 + rng.below(2) as usize;
        let nc = 64;
        let hibits = [30usize, 31, 32, 33, 62, 63];
        let mut ops: Vec<String> = vec![];
        ops.push("gate 1 0 X".to_string());
        let npre = 1 + rng.below(3) as usize;
        for _ in 0..npre { ops.push(format!("measure 0 {} Z", *rng.pick(&[33usize, 40, 47, 62, 63, 32, 31]))); }
        ops.push("gate 1 1 H".to_string());
        if nq > 2 && rng.below(2) == 0 { ops.push("gate 2 1 2 CX".to_string()); }
        let nmid = 2 + rng.below(5) as usize;
        for _ in 0..nmid
        {
            let q = rng.below(nq as u64) as usize;
            let c = *rng.pick(&hibits);
            match rng.below(7)
            {
                0 | 1 | 2 => ops.push(format!("measure {} {} {}", q, c, gen_basis(&mut rng))),
                3 => ops.push(format!("peek {} {} {}", q, c, gen_basis(&mut rng))),
                4 => ops.push(format!("reset {}", q)),
                5 => ops.push(format!("gate 1 {} {}", q, *rng.pick(&["H", "X", "S"]))),
                _ => ops.push(format!("measure {} {} Z", q, c)),
            }
        }
        ops.push(format!("measure 0 {} Z", *rng.pick(&hibits)));
        let ct = CircuitText { nq, nc, ops };
        let seed = rng.next();
        emit_run(&mut out, &ct, [1usize, 3, 6, 16][i % 4], seed, ["vector", "stabilizer", "vector", "auto"][i % 4], 4, &mut rng);
    }
    let n = out.finish();
    eprintln!("c02: {} cases", n);
}

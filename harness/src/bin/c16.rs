//! C16: `Square::square()` of every implementor and of statically written nestings of the
//! generic wrappers, at generated parameters.  `Square` has an associated type, so every
//! instantiation is spelled out; the term text (shared grammar, see gate.rs) is built alongside.
//!
//! Request  `square <term>`            all parameters Direct
//!          `squarep <mask> <term>`    i-th parameter Direct/Reference/FFIRef by the i-th letter d/r/f;
//!                                     square() is called while the cells hold a decoy value (0.125),
//!                                     then the cells are overwritten with the values on the line and
//!                                     the matrices are taken.
//! Answer   `ok <n> <square().matrix()> | <n> <matrix()>`   or   `err <Constructor>`   or `panic`
//!
//! Request  `sqact <mask> <term> | <psi1> | <psi2> | <Psi>`   the same case again (mask all `d` when every parameter is
//!                                     Direct), now with what the returned gate DOES: psi1, psi2 are state vectors of
//!                                     2^n amplitudes, Psi a 2^n x 3 matrix (row-major), all with fixed non-symmetric entries
//! Answer   `ok <n> <square().matrix()> | <n> <matrix()> | <square().apply(psi1)> | <square().apply_slice(psi2)> |
//!           <square().apply_mat(Psi)>`   or   `err <Constructor>`   or `panic`
//!
//! Request  `sq2 <term>`               (all parameters Direct) the returned gate squared again
//! Answer   `first err ..` | `ok <n> <square().square().matrix()> | <n> <square().matrix()>` | `err ..`
//!
//! Request  `sqconj <term>`            (gates with is_stabilizer(), at most 3 qubits) Pauli conjugation by the returned gate
//! Answer   `ok <n> <square().matrix()> | <k> ; r ; r ; .. | r ; r ; ..`   first list: square().conjugate(P) for all 4^k
//!           strings P (lexicographic in I Z X Y, digits 0..3); second list: the original's conjugate applied twice (signs
//!           xor-ed); r = `ok <flip> <digit>*k` or `err`
//!
//! Errors are answered with their payload: `err OpNotImplemented <op> <gate>` (blanks as `_`, parameter lists of
//! RX RY RZ U1 U2 U3 removed from the gate description), `err ReferenceArithmetic`.
use q1t_harness::*;
use q1t_harness::gate;
use q1tsim::arithmetic::Square;
use q1tsim::stabilizer::PauliOp;
use q1tsim::gates::*;
use std::cell::{Cell, RefCell};
use std::rc::Rc;

fn show_mat(m: &q1tsim::cmatrix::CMatrix) -> String
{
    let mut s = format!("{}", m.rows());
    for c in m.iter() { s += &format!(" {} {}", fbits(c.re), fbits(c.im)); }
    s
}

/// parameters of one case: their kinds, and the cells to overwrite after `square()`
struct Cx
{
    mask: String,
    refs: Vec<(Rc<RefCell<f64>>, f64)>,
    ffis: Vec<(Box<Cell<f64>>, f64)>,
    kinds: Vec<char>,
    rng: SplitMix64
}

impl Cx
{
    fn new(rng: &mut SplitMix64, kinds: &str) -> Self
    {
        Cx { mask: String::new(), refs: vec![], ffis: vec![], kinds: kinds.chars().collect(), rng: SplitMix64(rng.next()) }
    }
    /// next parameter: (hex of the final value, Parameter)
    fn p(&mut self) -> (String, Parameter)
    {
        let v = gate::gen_angle(&mut self.rng);
        let kind = if self.kinds.is_empty() { 'd' } else { self.kinds[self.mask.len() % self.kinds.len()] };
        self.mask.push(kind);
        let par = match kind
        {
            'r' => { let c = Rc::new(RefCell::new(0.125)); self.refs.push((c.clone(), v)); Parameter::from_refcell(&c, "x") },
            'f' => { let b = Box::new(Cell::new(0.125)); let ptr = b.as_ptr() as *const f64; self.ffis.push((b, v)); Parameter::FFIRef(ptr) },
            _ => Parameter::Direct(v)
        };
        (fbits(v), par)
    }
    /// a Direct parameter as a plain f64 (for constructors that only take f64)
    fn f(&mut self) -> (String, f64)
    {
        let v = gate::gen_angle(&mut self.rng);
        self.mask.push('d');
        (fbits(v), v)
    }
    fn overwrite(&self)
    {
        for (c, v) in self.refs.iter() { *c.borrow_mut() = *v; }
        for (b, v) in self.ffis.iter() { b.set(*v); }
    }
}

type TG<G> = (String, G);

fn k0<G>(name: &str, g: G) -> TG<G> { (name.to_string(), g) }
fn rx(cx: &mut Cx) -> TG<RX> { let (s, p) = cx.p(); (format!("RX {}", s), RX::new(p)) }
fn ry(cx: &mut Cx) -> TG<RY> { let (s, p) = cx.p(); (format!("RY {}", s), RY::new(p)) }
fn rz(cx: &mut Cx) -> TG<RZ> { let (s, p) = cx.p(); (format!("RZ {}", s), RZ::new(p)) }
fn u1(cx: &mut Cx) -> TG<U1> { let (s, p) = cx.p(); (format!("U1 {}", s), U1::new(p)) }
fn u2(cx: &mut Cx) -> TG<U2> { let (s0, p0) = cx.p(); let (s1, p1) = cx.p(); (format!("U2 {} {}", s0, s1), U2::new(p0, p1)) }
fn u3(cx: &mut Cx) -> TG<U3>
{
    let (s0, p0) = cx.p(); let (s1, p1) = cx.p(); let (s2, p2) = cx.p();
    (format!("U3 {} {} {}", s0, s1, s2), U3::new(p0, p1, p2))
}
fn crx(cx: &mut Cx) -> TG<CRX> { let (s, p) = cx.p(); (format!("CRX {}", s), CRX::new(p)) }
fn cry(cx: &mut Cx) -> TG<CRY> { let (s, p) = cx.p(); (format!("CRY {}", s), CRY::new(p)) }
fn crz(cx: &mut Cx) -> TG<CRZ> { let (s, p) = cx.p(); (format!("CRZ {}", s), CRZ::new(p)) }
fn cu1(cx: &mut Cx) -> TG<CU1> { let (s, p) = cx.p(); (format!("CU1 {}", s), CU1::new(p)) }
fn cu2(cx: &mut Cx) -> TG<CU2> { let (s0, a) = cx.f(); let (s1, b) = cx.f(); (format!("CU2 {} {}", s0, s1), CU2::new(a, b)) }
fn cu3(cx: &mut Cx) -> TG<CU3>
{
    let (s0, a) = cx.f(); let (s1, b) = cx.f(); let (s2, c) = cx.f();
    (format!("CU3 {} {} {}", s0, s1, s2), CU3::new(a, b, c))
}
fn ccrx(cx: &mut Cx) -> TG<CCRX> { let (s, p) = cx.p(); (format!("CCRX {}", s), CCRX::new(p)) }
fn ccry(cx: &mut Cx) -> TG<CCRY> { let (s, p) = cx.p(); (format!("CCRY {}", s), CCRY::new(p)) }
fn ccrz(cx: &mut Cx) -> TG<CCRZ> { let (s, p) = cx.p(); (format!("CCRZ {}", s), CCRZ::new(p)) }
fn c<G: Gate + Clone>(tg: TG<G>) -> TG<C<G>> { (format!("C {}", tg.0), C::new(tg.1)) }
fn kron<G0: Gate + Clone, G1: Gate + Clone>(a: TG<G0>, b: TG<G1>) -> TG<Kron<G0, G1>> { (format!("Kron {} {}", a.0, b.0), Kron::new(a.1, b.1)) }

/// `Loop { label, iters, Composite{ "b", 2, [H@0; CX@0,1; RX(p)@1; U2(p,p)@0] } }`
fn lp(cx: &mut Cx, iters: usize) -> TG<Loop>
{
    let mut body = Composite::new("b", 2);
    body.add_gate(H::new(), &[0]);
    body.add_gate(CX::new(), &[1, 0]);
    let (s, g) = rx(cx);
    body.add_gate(g, &[1]);
    let (s2, g2) = u2(cx);
    body.add_gate(g2, &[0]);
    (format!("Loop l {} b 2 4 H 1 0 CX 2 1 0 {} 1 1 {} 1 0", iters, s, s2), Loop::new("l", iters, body))
}
/// a one-qubit loop `Loop{ l, iters, Composite{"b1", 1, [T@0; RY(p)@0]} }`
fn lp1(cx: &mut Cx, iters: usize) -> TG<Loop>
{
    let mut body = Composite::new("b1", 1);
    body.add_gate(T::new(), &[0]);
    let (s, g) = ry(cx);
    body.add_gate(g, &[0]);
    (format!("Loop l {} b1 1 2 T 1 0 {} 1 0", iters, s), Loop::new("l", iters, body))
}

/// a description without the parameter lists of RX RY RZ U1 U2 U3, blanks as `_`
fn skeleton(desc: &str) -> String
{
    let cs: Vec<char> = desc.chars().collect();
    let mut out = String::new();
    let mut i = 0;
    while i < cs.len()
    {
        if cs[i] == '(' && i >= 2
        {
            let name: String = cs[i - 2..i].iter().collect();
            if ["RX", "RY", "RZ", "U1", "U2", "U3"].contains(&name.as_str())
            {
                while i < cs.len() && cs[i] != ')' { i += 1; }
                i += 1;
                continue;
            }
        }
        out.push(if cs[i].is_whitespace() { '_' } else { cs[i] });
        i += 1;
    }
    if out.is_empty() { "-".to_string() } else { out }
}

/// Clifford loops (bodies that flip signs): one, two and three qubits
fn lpc1(iters: usize) -> TG<Loop>
{
    let mut body = Composite::new("c1", 1);
    body.add_gate(X::new(), &[0]);
    body.add_gate(S::new(), &[0]);
    (format!("Loop l {} c1 1 2 X 1 0 S 1 0", iters), Loop::new("l", iters, body))
}
fn lpc2(iters: usize) -> TG<Loop>
{
    let mut body = Composite::new("c2", 2);
    body.add_gate(H::new(), &[0]);
    body.add_gate(CX::new(), &[1, 0]);
    body.add_gate(Y::new(), &[1]);
    body.add_gate(Sdg::new(), &[0]);
    (format!("Loop l {} c2 2 4 H 1 0 CX 2 1 0 Y 1 1 Sdg 1 0", iters), Loop::new("l", iters, body))
}
fn lpc3(iters: usize) -> TG<Loop>
{
    let mut body = Composite::new("c3", 3);
    body.add_gate(CX::new(), &[0, 2]);
    body.add_gate(V::new(), &[1]);
    body.add_gate(CZ::new(), &[2, 1]);
    body.add_gate(X::new(), &[0]);
    body.add_gate(Swap::new(), &[1, 0]);
    body.add_gate(Z::new(), &[2]);
    (format!("Loop l {} c3 3 6 CX 2 0 2 V 1 1 CZ 2 2 1 X 1 0 Swap 2 1 0 Z 1 2", iters), Loop::new("l", iters, body))
}

fn err_name(e: &q1tsim::error::Error) -> String
{
    match e
    {
        q1tsim::error::Error::ReferenceArithmetic => "err ReferenceArithmetic".to_string(),
        q1tsim::error::Error::OpNotImplemented(op, gate) => format!("err OpNotImplemented {} {}", skeleton(op), skeleton(gate)),
        other => format!("err Other {:?}", other).replace('\n', " ")
    }
}

fn show_vec<'a, It: Iterator<Item = &'a num_complex::Complex64>>(it: It) -> String
{
    it.map(|c| format!("{} {}", fbits(c.re), fbits(c.im))).collect::<Vec<_>>().join(" ")
}

/// dyadic entries in (-2, 2), never symmetric under an exchange of qubits
fn gen_amps(rng: &mut SplitMix64, n: usize) -> Vec<num_complex::Complex64>
{
    (0..n).map(|i| num_complex::Complex64::new((rng.range(-63, 63) as f64 + 0.5) / 32.0, (rng.range(-63, 63) as f64 + (i % 2) as f64 * 0.25) / 32.0)).collect()
}

thread_local! { static SEEN: RefCell<std::collections::HashSet<String>> = RefCell::new(std::collections::HashSet::new()); }
/// the parameter-free cases come back in every pass: their sq2 / sqconj requests are emitted once
fn first_time(req: &str) -> bool { SEEN.with(|s| s.borrow_mut().insert(req.to_string())) }

const OPS: [PauliOp; 4] = [PauliOp::I, PauliOp::Z, PauliOp::X, PauliOp::Y];

/// `g.conjugate` applied `times` times to the string with the given digits: `ok <flip> <digits>` or `err`
fn conj_times(g: &dyn Gate, digits: &[usize], times: usize) -> String
{
    let mut v: Vec<PauliOp> = digits.iter().map(|&d| OPS[d]).collect();
    let mut flip = false;
    for _ in 0..times
    {
        match g.conjugate(&mut v) { Ok(f) => { flip ^= f; }, Err(_) => return "err".to_string() }
    }
    format!("ok {} {}", flip as u8, join(&v.iter().map(|o| o.to_bits()).collect::<Vec<_>>()))
}

fn emit<G>(out: &mut Out, mut cx: Cx, tg: TG<G>)
where G: Square + Gate, G::SqType: Square + Gate, <G::SqType as Square>::SqType: Gate
{
    let (term, g) = tg;
    let req = if cx.mask.chars().all(|k| k == 'd') { format!("square {}", term) } else { format!("squarep {} {}", cx.mask, term) };
    let ans = catch(std::panic::AssertUnwindSafe(|| {
        let sq = g.square();
        cx.overwrite();
        match sq
        {
            Ok(sq) => format!("ok {} | {}", show_mat(&sq.matrix()), show_mat(&g.matrix())),
            Err(e) => err_name(&e)
        }
    }));
    out.case(&req, &ans.unwrap_or_else(|| "panic".to_string()));
    // the action of the returned gate (a gate may have a correct matrix() and still ACT differently)
    {
        // the cells hold the decoy again while square() is called
        for (c, _) in cx.refs.iter() { *c.borrow_mut() = 0.125; }
        for (b, _) in cx.ffis.iter() { b.set(0.125); }
        let dim = 1usize << g.nr_affected_bits();
        let (psi1, psi2, psi3) = (gen_amps(&mut cx.rng, dim), gen_amps(&mut cx.rng, dim), gen_amps(&mut cx.rng, 3 * dim));
        let req = format!("sqact {} {} | {} | {} | {}", if cx.mask.is_empty() { "d" } else { &cx.mask }, term,
            show_vec(psi1.iter()), show_vec(psi2.iter()), show_vec(psi3.iter()));
        let ans = catch(std::panic::AssertUnwindSafe(|| {
            let sq = g.square();
            cx.overwrite();
            match sq
            {
                Ok(sq) => {
                    let mut v1 = ndarray::Array1::from_vec(psi1.clone());
                    sq.apply(&mut v1);
                    let mut v2 = ndarray::Array1::from_vec(psi2.clone());
                    sq.apply_slice(v2.view_mut());
                    let mut m3 = ndarray::Array2::from_shape_vec((dim, 3), psi3.clone()).unwrap();
                    sq.apply_mat(&mut m3);
                    format!("ok {} | {} | {} | {} | {}", show_mat(&sq.matrix()), show_mat(&g.matrix()), show_vec(v1.iter()), show_vec(v2.iter()), show_vec(m3.iter()))
                },
                Err(e) => err_name(&e)
            }
        }));
        out.case(&req, &ans.unwrap_or_else(|| "panic".to_string()));
    }
    if !cx.mask.chars().all(|k| k == 'd') { return; }
    // the returned gate squared again
    if first_time(&format!("sq2 {}", term))
    {
        let ans = catch(std::panic::AssertUnwindSafe(|| {
            match g.square()
            {
                Err(e) => format!("first {}", err_name(&e)),
                Ok(sq) => match sq.square()
                {
                    Ok(sq2) => format!("ok {} | {}", show_mat(&sq2.matrix()), show_mat(&sq.matrix())),
                    Err(e) => err_name(&e)
                }
            }
        }));
        out.case(&format!("sq2 {}", term), &ans.unwrap_or_else(|| "panic".to_string()));
    }
    // stabilizer view of the returned gate
    let k = g.nr_affected_bits();
    if g.is_stabilizer() && k <= 3 && first_time(&format!("sqconj {}", term))
    {
        let ans = catch(std::panic::AssertUnwindSafe(|| {
            match g.square()
            {
                Err(e) => err_name(&e),
                Ok(sq) => {
                    let strings: Vec<Vec<usize>> = (0..4usize.pow(k as u32)).map(|code| (0..k).map(|p| (code / 4usize.pow((k - 1 - p) as u32)) % 4).collect()).collect();
                    let a: Vec<String> = strings.iter().map(|d| conj_times(&sq, d, 1)).collect();
                    let b: Vec<String> = strings.iter().map(|d| conj_times(&g, d, 2)).collect();
                    format!("ok {} | {} ; {} | {}", show_mat(&sq.matrix()), k, a.join(" ; "), b.join(" ; "))
                }
            }
        }));
        out.case(&format!("sqconj {}", term), &ans.unwrap_or_else(|| "panic".to_string()));
    }
}

/// one pass over the static list; `kinds` cycles over the parameters of each case
fn pass(out: &mut Out, rng: &mut SplitMix64, kinds: &str)
{
    macro_rules! case { ($cx:ident, $e:expr) => {{ let mut $cx = Cx::new(rng, kinds); let tg = $e; emit(out, $cx, tg); }} }
    // every implementor
    case!(cx, k0("H", H::new())); case!(cx, k0("X", X::new())); case!(cx, k0("Y", Y::new())); case!(cx, k0("Z", Z::new()));
    case!(cx, k0("S", S::new())); case!(cx, k0("Sdg", Sdg::new())); case!(cx, k0("T", T::new())); case!(cx, k0("Tdg", Tdg::new()));
    case!(cx, k0("V", V::new())); case!(cx, k0("Vdg", Vdg::new())); case!(cx, k0("I", I::new()));
    case!(cx, k0("CX", CX::new())); case!(cx, k0("CY", CY::new())); case!(cx, k0("CZ", CZ::new())); case!(cx, k0("Swap", Swap::new()));
    case!(cx, rx(&mut cx)); case!(cx, ry(&mut cx)); case!(cx, rz(&mut cx)); case!(cx, u1(&mut cx)); case!(cx, u2(&mut cx)); case!(cx, u3(&mut cx));
    case!(cx, k0("CH", CH::new())); case!(cx, k0("CS", CS::new())); case!(cx, k0("CSdg", CSdg::new()));
    case!(cx, k0("CT", CT::new())); case!(cx, k0("CTdg", CTdg::new())); case!(cx, k0("CV", CV::new())); case!(cx, k0("CVdg", CVdg::new()));
    case!(cx, k0("CCX", CCX::new())); case!(cx, k0("CCZ", CCZ::new()));
    case!(cx, crx(&mut cx)); case!(cx, cry(&mut cx)); case!(cx, crz(&mut cx)); case!(cx, cu1(&mut cx)); case!(cx, cu2(&mut cx)); case!(cx, cu3(&mut cx));
    case!(cx, ccrx(&mut cx)); case!(cx, ccry(&mut cx)); case!(cx, ccrz(&mut cx));
    case!(cx, lp(&mut cx, 0)); case!(cx, lp(&mut cx, 1)); case!(cx, lp(&mut cx, 3)); case!(cx, lp1(&mut cx, 2));
    // nestings of the generic wrappers
    case!(cx, c(ry(&mut cx)));
    case!(cx, c(c(ry(&mut cx))));
    case!(cx, c(c(c(rz(&mut cx)))));
    case!(cx, c(k0("H", H::new())));
    case!(cx, c(k0("T", T::new())));
    case!(cx, c(c(k0("V", V::new()))));
    case!(cx, c(k0("CX", CX::new())));
    case!(cx, c(k0("Swap", Swap::new())));
    case!(cx, c(k0("CH", CH::new())));
    case!(cx, c(crx(&mut cx)));
    case!(cx, c(u1(&mut cx)));
    case!(cx, c(u2(&mut cx)));
    case!(cx, c(c(u2(&mut cx))));
    case!(cx, c(cu2(&mut cx)));
    case!(cx, c(u3(&mut cx)));
    case!(cx, kron(k0("S", S::new()), k0("T", T::new())));
    case!(cx, c(kron(k0("S", S::new()), k0("T", T::new()))));
    case!(cx, kron(u2(&mut cx), k0("CX", CX::new())));
    case!(cx, kron(u2(&mut cx), u2(&mut cx)));
    case!(cx, c(kron(u2(&mut cx), k0("X", X::new()))));
    case!(cx, c(kron(k0("Tdg", Tdg::new()), u2(&mut cx))));
    case!(cx, kron(c(u2(&mut cx)), k0("H", H::new())));
    case!(cx, kron(cu2(&mut cx), rz(&mut cx)));
    case!(cx, kron(kron(k0("H", H::new()), k0("X", X::new())), rz(&mut cx)));
    case!(cx, kron(rx(&mut cx), kron(ry(&mut cx), u1(&mut cx))));
    case!(cx, kron(k0("CX", CX::new()), k0("CZ", CZ::new())));
    case!(cx, kron(k0("Swap", Swap::new()), k0("Vdg", Vdg::new())));
    case!(cx, kron(u3(&mut cx), k0("X", X::new())));
    case!(cx, kron(k0("Y", Y::new()), u3(&mut cx)));
    case!(cx, c(kron(rx(&mut cx), u3(&mut cx))));
    case!(cx, kron(crx(&mut cx), k0("T", T::new())));
    case!(cx, kron(c(c(ry(&mut cx))), k0("Sdg", Sdg::new())));
    case!(cx, c(kron(c(rz(&mut cx)), ry(&mut cx))));
    case!(cx, kron(ccrz(&mut cx), cu1(&mut cx)));
    case!(cx, c(lp1(&mut cx, 2)));
    case!(cx, c(lp(&mut cx, 1)));
    case!(cx, kron(lp1(&mut cx, 3), k0("H", H::new())));
    case!(cx, kron(u2(&mut cx), lp1(&mut cx, 1)));
    case!(cx, c(kron(lp1(&mut cx, 2), u1(&mut cx))));
    case!(cx, c(k0("CCX", CCX::new())));
    case!(cx, kron(k0("CCZ", CCZ::new()), ry(&mut cx)));
    case!(cx, c(c(kron(k0("Z", Z::new()), k0("S", S::new())))));
    // Kronecker products whose factors have different widths (their squares ACT through Kron::apply_slice)
    case!(cx, kron(crx(&mut cx), ry(&mut cx)));
    case!(cx, kron(ry(&mut cx), crz(&mut cx)));
    case!(cx, kron(ry(&mut cx), ccrx(&mut cx)));
    case!(cx, kron(ccry(&mut cx), rx(&mut cx)));
    case!(cx, kron(kron(crx(&mut cx), k0("H", H::new())), ry(&mut cx)));
    case!(cx, kron(rz(&mut cx), kron(k0("T", T::new()), cry(&mut cx))));
    case!(cx, kron(lp(&mut cx, 1), ry(&mut cx)));
    case!(cx, kron(ry(&mut cx), lp(&mut cx, 2)));
    case!(cx, kron(lp1(&mut cx, 1), lp(&mut cx, 1)));
    case!(cx, c(kron(crx(&mut cx), ry(&mut cx))));
    case!(cx, c(kron(ry(&mut cx), crz(&mut cx))));
    case!(cx, c(c(kron(k0("T", T::new()), cry(&mut cx)))));
    case!(cx, c(kron(lp(&mut cx, 1), rx(&mut cx))));
    case!(cx, kron(c(kron(ry(&mut cx), crz(&mut cx))), k0("V", V::new())));
    case!(cx, kron(k0("T", T::new()), k0("CV", CV::new())));
    case!(cx, kron(k0("CS", CS::new()), k0("V", V::new())));
    // Clifford-only gates (their squares are also compared in the stabilizer view: request sqconj)
    case!(cx, lpc1(1)); case!(cx, lpc1(2)); case!(cx, lpc1(3)); case!(cx, lpc1(4));
    case!(cx, lpc2(1)); case!(cx, lpc2(2)); case!(cx, lpc2(3));
    case!(cx, lpc3(1)); case!(cx, lpc3(2)); case!(cx, lpc3(5));
    case!(cx, kron(lpc1(1), k0("H", H::new())));
    case!(cx, kron(k0("S", S::new()), lpc1(3)));
    case!(cx, kron(lpc2(1), k0("V", V::new())));
    case!(cx, kron(k0("Y", Y::new()), lpc2(2)));
    case!(cx, kron(lpc1(1), lpc2(1)));
    case!(cx, kron(kron(lpc1(2), k0("Sdg", Sdg::new())), lpc1(1)));
    case!(cx, kron(k0("H", H::new()), k0("S", S::new())));
    case!(cx, kron(k0("CX", CX::new()), k0("Vdg", Vdg::new())));
    case!(cx, kron(k0("Sdg", Sdg::new()), k0("CY", CY::new())));
    case!(cx, kron(kron(k0("V", V::new()), k0("S", S::new())), k0("H", H::new())));
    case!(cx, kron(k0("Swap", Swap::new()), k0("Y", Y::new())));
    case!(cx, c(lpc1(2)));
    case!(cx, c(lpc2(1)));
    // the trait's default square (an error with a payload) at every depth
    case!(cx, c(c(u3(&mut cx))));
    case!(cx, cu3(&mut cx));
    case!(cx, c(cu3(&mut cx)));
    case!(cx, kron(k0("H", H::new()), u3(&mut cx)));
    case!(cx, kron(c(u3(&mut cx)), lp1(&mut cx, 1)));
    case!(cx, c(kron(kron(rx(&mut cx), u3(&mut cx)), k0("T", T::new()))));
}

fn main()
{
    let dir = std::env::args().nth(1).expect("usage: c16 <outdir>");
    silence_panics();
    let mut rng = SplitMix64::from_env();
    let mut out = Out::new(&dir);
    let rounds = if thorough() { 60 } else { 10 };
    for _ in 0..rounds { pass(&mut out, &mut rng, "d"); }
    // reference-valued parameters: all Reference, all FFIRef, and mixtures
    let rrounds = if thorough() { 12 } else { 3 };
    for _ in 0..rrounds
    {
        for kinds in ["r", "f", "dr", "rd", "fd", "drf", "ddr"].iter() { pass(&mut out, &mut rng, kinds); }
    }
    let n = out.finish();
    eprintln!("c16: {} cases", n);
}

//! C01: histograms of the real simulator for circuits in the provable fragment F and for the
//! known-defect witnesses; judged statistically by tools/props/c01.py against the exact Born
//! distribution computed by the Lean driver.
use q1t_harness::*;
use q1t_harness::sim::*;
use std::collections::BTreeMap;

fn hist_line(ct: &CircuitText, shots: usize, seed: u64, repr: &str) -> Option<(String, String)>
{
    let mut circuit = build(ct).ok()?;
    let run = execute_traced(&mut circuit, ct.nq, shots, seed, repr);
    let req = format!("hist | {} | {} | {} | {} | {}", repr, ct.nq, shots, seed, ct.ops.join(" ; "));
    let ans = match (&run.result, &run.final_cstate)
    {
        (Some(Ok(())), Some(cs)) => {
            let mut h: BTreeMap<u64, usize> = BTreeMap::new();
            for &w in cs.iter() { *h.entry(w).or_insert(0) += 1; }
            // also the library's own histogram view must agree
            let lib = circuit.histogram().ok();
            let mut s = format!("ok {}", h.len());
            for (w, c) in h.iter() { s += &format!(" {} {}", w, c); }
            if let Some(lib) = lib
            {
                let mut l: Vec<(u64, usize)> = lib.iter().map(|(k, v)| (*k, *v)).collect();
                l.sort();
                let hv: Vec<(u64, usize)> = h.iter().map(|(k, v)| (*k, *v)).collect();
                if l != hv { s += " HISTOGRAM-VIEW-DIFFERS"; }
            }
            s
        },
        (Some(Err(e)), _) => show_err(e),
        _ => "panic".to_string()
    };
    Some((req, ans))
}

/// `reps` independent executions with `n` shots each: distribution of the sorted register
fn tuples_line(ct: &CircuitText, n: usize, reps: usize, seed0: u64, repr: &str) -> Option<(String, String)>
{
    let mut h: BTreeMap<String, usize> = BTreeMap::new();
    for r in 0..reps
    {
        let mut circuit = build(ct).ok()?;
        let run = execute_traced(&mut circuit, ct.nq, n, seed0.wrapping_add(r as u64), repr);
        let key = match (&run.result, &run.final_cstate)
        {
            (Some(Ok(())), Some(cs)) => { let mut v = cs.clone(); v.sort(); v.iter().map(|w| w.to_string()).collect::<Vec<_>>().join(",") },
            (Some(Err(e)), _) => show_err(e).replace(' ', "_"),
            _ => "panic".to_string()
        };
        *h.entry(key).or_insert(0) += 1;
    }
    let req = format!("tuples | {} | {} | {} | {} | {} | {}", repr, ct.nq, n, reps, seed0, ct.ops.join(" ; "));
    let mut s = format!("ok {}", h.len());
    for (k, c) in h.iter() { s += &format!(" {} {}", k, c); }
    Some((req, s))
}

fn lit(nq: usize, nc: usize, ops: &[&str]) -> CircuitText
{
    CircuitText { nq, nc, ops: ops.iter().map(|s| s.to_string()).collect() }
}

fn main()
{
    let dir = std::env::args().nth(1).expect("usage: c01 <outdir> [one <repr> <nq> <nc> <ops>]...");
    silence_panics();
    let mut rng = SplitMix64::from_env();
    let mut out = Out::new(&dir);
    // failing-input search: `one <repr> <nq> <nc> <ops joined by " ; ">` (repeatable) - statistics for exactly these circuits
    let extra: Vec<String> = std::env::args().skip(2).collect();
    if !extra.is_empty()
    {
        let shots = if thorough() { 200_000 } else { 20_000 };
        for ch in extra.chunks(5)
        {
            if ch.len() < 5 || ch[0] != "one" { continue; }
            let ct = CircuitText { nq: ch[2].parse().unwrap(), nc: ch[3].parse().unwrap(), ops: ch[4].split(" ; ").map(|s| s.to_string()).collect() };
            let seed = rng.next();
            if let Some((r, a)) = hist_line(&ct, shots, seed, &ch[1]) { out.case(&r, &a); }
            if let Some((r, a)) = tuples_line(&ct, 2, shots / 4, seed, &ch[1]) { out.case(&r, &a); }
        }
        out.finish();
        return;
    }
    let shots = if thorough() { 200_000 } else { 20_000 };
    let ncirc = if thorough() { 150 } else { 30 };
    // fragment F, vector backend, arbitrary gates
    let cfg_v = GenCfg { max_q: 3, max_c: 3, max_ops: 10, clifford: false, allow_peek: false, allow_reset: true,
        allow_reset_all: false, allow_cond: true, allow_measure_all: true, allow_combinators: true };
    // fragment F, Clifford circuits on both backends (stabilizer: no reset)
    let cfg_s = GenCfg { max_q: 4, max_c: 4, max_ops: 12, clifford: true, allow_peek: false, allow_reset: false,
        allow_reset_all: false, allow_cond: true, allow_measure_all: true, allow_combinators: true };
    for i in 0..ncirc
    {
        let ct = gen_circuit(&cfg_v, &mut rng);
        let seed = rng.next();
        if let Some((r, a)) = hist_line(&ct, shots, seed, "vector") { out.case(&r, &a); }
        if i % 3 == 0 { if let Some((r, a)) = tuples_line(&ct, 2, shots / 4, seed, "vector") { out.case(&r, &a); } }
        let cs = gen_circuit(&cfg_s, &mut rng);
        let seed = rng.next();
        for repr in ["vector", "stabilizer", "auto"].iter()
        {
            if let Some((r, a)) = hist_line(&cs, shots, seed, repr) { out.case(&r, &a); }
        }
        if i % 3 == 0 { if let Some((r, a)) = tuples_line(&cs, 2, shots / 4, seed, "stabilizer") { out.case(&r, &a); } }
    }
    // structured Clifford circuits of fragment F (several X-carrying generator rows on the measured qubit)
    for _ in 0..(ncirc / 2).max(8)
    {
        let ct = gen_parity_circuit(&mut rng, false, false);
        let seed = rng.next();
        for repr in ["stabilizer", "vector"].iter() { if let Some((r, a)) = hist_line(&ct, shots, seed, repr) { out.case(&r, &a); } }
    }
    // witnesses of the known defects (request kind prefixed with `w:<finding>`)
    let wit: Vec<(&str, &str, CircuitText)> = vec![
        ("D2-peek-correlated", "vector", lit(1, 2, &["gate 1 0 H", "peek 0 0 Z", "peek 0 1 Z"])),
        ("D3-resetall-correlated", "vector", lit(1, 2, &["gate 1 0 H", "measure 0 0 Z", "resetall", "gate 1 0 H", "measure 0 1 Z"])),
        ("D2-peek-correlated", "stabilizer", lit(1, 2, &["gate 1 0 H", "peek 0 0 Z", "peek 0 1 Z"])),
        ("D3-resetall-correlated", "stabilizer", lit(1, 2, &["gate 1 0 H", "measure 0 0 Z", "resetall", "gate 1 0 H", "measure 0 1 Z"])),
        ("D4-stab-reset-forced", "stabilizer", lit(2, 2, &["gate 1 0 H", "gate 2 0 1 CX", "reset 0", "measure 0 0 Z", "measure 1 1 Z"])),
        ("D5-stab-peek-all-independent", "stabilizer", lit(2, 2, &["gate 1 0 H", "gate 2 0 1 CX", "peekall 2 0 1 Z"])),
    ];
    for (tag, repr, ct) in wit.iter()
    {
        let seed = rng.next();
        if let Some((r, a)) = hist_line(ct, shots, seed, repr) { out.case(&format!("w:{} {}", tag, r), &a); }
        if let Some((r, a)) = tuples_line(ct, 2, shots / 4, seed, repr) { out.case(&format!("w:{} {}", tag, r), &a); }
    }
    let n = out.finish();
    eprintln!("c01: {} cases", n);
}

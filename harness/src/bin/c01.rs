//! C01: histograms of the real simulator for circuits in the provable fragment F and for the
//! known-defect witnesses; judged statistically by tools/props/c01.py against the exact Born
//! distribution computed by the Lean driver.
use q1t_harness::*;
use q1t_harness::sim::*;
use std::collections::BTreeMap;

fn hist_line(ct: &CircuitText, shots: usize, seed: u64, repr: &str) -> Option<(String, String)>
{
    let mut circuit = build(ct).ok()?;
    let run = execute_traced(&mut circuit, ct.nq, shots, seed, repr);
    let req = format!("hist | {} | {} | {} | {} | {}", repr, ct.nq, shots, seed, ct.ops.join(" ; "));
    let ans = match (&run.result, &run.final_cstate)
    {
        (Some(Ok(())), Some(cs)) => {
            let mut h: BTreeMap<u64, usize> = BTreeMap::new();
            for &w in cs.iter() { *h.entry(w).or_insert(0) += 1; }
            // also the library's own histogram view must agree
            let lib = circuit.histogram().ok();
            let mut s = format!("ok {}", h.len());
            for (w, c) in h.iter() { s += &format!(" {} {}", w, c); }
            if let Some(lib) = lib
            {
                let mut l: Vec<(u64, usize)> = lib.iter().map(|(k, v)| (*k, *v)).collect();
                l.sort();
                let hv: Vec<(u64, usize)> = h.iter().map(|(k, v)| (*k, *v)).collect();
                if l != hv { s += " HISTOGRAM-VIEW-DIFFERS"; }
            }
            s
        },
        (Some(Err(e)), _) => show_err(e),
        _ => "panic".to_string()
    };
    Some((req, ans))
}

fn hist_text(circuit: &q1tsim::circuit::Circuit, run: &Run) -> String
{
    match (&run.result, &run.final_cstate)
    {
        (Some(Ok(())), Some(cs)) => {
            let mut h: BTreeMap<u64, usize> = BTreeMap::new();
            for &w in cs.iter() { *h.entry(w).or_insert(0) += 1; }
            let mut s = format!("ok {}", h.len());
            for (w, c) in h.iter() { s += &format!(" {} {}", w, c); }
            if let Ok(lib) = circuit.histogram()
            {
                let mut l: Vec<(u64, usize)> = lib.iter().map(|(k, v)| (*k, *v)).collect();
                l.sort();
                let hv: Vec<(u64, usize)> = h.iter().map(|(k, v)| (*k, *v)).collect();
                if l != hv { s += " HISTOGRAM-VIEW-DIFFERS"; }
            }
            s
        },
        (Some(Err(e)), _) => show_err(e),
        _ => "panic".to_string()
    }
}

/// "Executed again on the same object": the circuit is executed once (other seed, representation `first_repr`, the SAME
/// number of shots), then executed again with `seed` on the SAME `Circuit` object; the histogram of the SECOND run must be
/// a Born sample of the circuit just like that of a first run (`execute*` clears quantum and classical state).
fn again_line(ct: &CircuitText, shots: usize, seed: u64, repr: &str, first_repr: &str) -> Option<(String, String)>
{
    let mut circuit = build(ct).ok()?;
    let first_seed = seed ^ 0x5DEECE66D;
    let first = execute_traced(&mut circuit, ct.nq, shots, first_seed, first_repr);
    if !matches!(first.result, Some(Ok(()))) { return None; }
    let run = execute_traced(&mut circuit, ct.nq, shots, seed, repr);
    let req = format!("again | {} | {} | {} | {} | first {} {} | {}", repr, ct.nq, shots, seed, first_repr, first_seed, ct.ops.join(" ; "));
    Some((req, hist_text(&circuit, &run)))
}

/// ONE object executed `reps` times with `n` shots each (so every execution after the first finds the register of the
/// previous one, of the same length): distribution of the sorted register over the executions
fn tuples_again_line(ct: &CircuitText, n: usize, reps: usize, seed0: u64, repr: &str) -> Option<(String, String)>
{
    let mut h: BTreeMap<String, usize> = BTreeMap::new();
    let mut circuit = build(ct).ok()?;
    for r in 0..reps
    {
        let run = execute_traced(&mut circuit, ct.nq, n, seed0.wrapping_add(r as u64), repr);
        let key = match (&run.result, &run.final_cstate)
        {
            (Some(Ok(())), Some(cs)) => { let mut v = cs.clone(); v.sort(); v.iter().map(|w| w.to_string()).collect::<Vec<_>>().join(",") },
            (Some(Err(e)), _) => show_err(e).replace(' ', "_"),
            _ => "panic".to_string()
        };
        *h.entry(key).or_insert(0) += 1;
    }
    let req = format!("tuples-again | {} | {} | {} | {} | {} | {}", repr, ct.nq, n, reps, seed0, ct.ops.join(" ; "));
    let mut s = format!("ok {}", h.len());
    for (k, c) in h.iter() { s += &format!(" {} {}", k, c); }
    Some((req, s))
}

/// a user-defined gate term (see harness/src/gate.rs) on `k` qubits, bare or inside the library's combinators
fn gen_user_term(k: usize, rng: &mut SplitMix64) -> String
{
    let mix = |rng: &mut SplitMix64| format!("Mix {}", fbits(*rng.pick(&[std::f64::consts::FRAC_PI_4, std::f64::consts::FRAC_PI_6, 1.0, -0.7, 2.5])));
    match k
    {
        2 => match rng.below(6)
        {
            0 | 1 => "Inc2".to_string(),
            2 | 3 => mix(rng),
            4 => format!("Comp u{} 2 2 {} 2 {} H 1 {}", rng.below(10), if rng.coin() { "Inc2".to_string() } else { mix(rng) }, if rng.coin() { "0 1" } else { "1 0" }, rng.below(2)),
            _ => format!("Loop l{} {} u{} 2 1 {} 2 {}", rng.below(10), 1 + rng.below(3), rng.below(10), if rng.coin() { "Inc2".to_string() } else { mix(rng) }, if rng.coin() { "0 1" } else { "1 0" }),
        },
        3 => match rng.below(6)
        {
            0 | 1 => "Inc3".to_string(),
            2 => format!("C {}", if rng.coin() { "Inc2".to_string() } else { mix(rng) }),
            3 => format!("Kron {} {}", if rng.coin() { "Inc2".to_string() } else { mix(rng) }, rng.pick(&["X", "H", "T"])),
            4 => format!("Kron {} {}", rng.pick(&["X", "H", "S"]), if rng.coin() { "Inc2".to_string() } else { mix(rng) }),
            _ => { let mut b = vec![0usize, 1, 2]; rng.shuffle(&mut b); format!("Comp u{} 3 2 Inc3 3 {} {} 2 {} {}", rng.below(10), join(&b), mix(rng), b[2], b[0]) },
        },
        _ => match rng.below(4)
        {
            0 => "Inc4".to_string(),
            1 => "C Inc3".to_string(),
            2 => "Kron Inc3 H".to_string(),
            _ => { let mut b = vec![0usize, 1, 2, 3]; rng.shuffle(&mut b); format!("Comp u{} 4 2 X 1 {} Inc3 3 {} {} {}", rng.below(10), b[3], b[1], b[2], b[0]) },
        }
    }
}

/// Circuits with USER-DEFINED gates (non-symmetric matrices, default kernels of the `Gate` trait), applied under a classical
/// condition (single-vector route) and unconditionally (matrix route) to superposed / entangled qubits.
fn gen_user_circuit(rng: &mut SplitMix64) -> CircuitText
{
    let nq = 3 + rng.below(3) as usize;           // one qubit feeds the condition, the gate acts on 2..4 of the others
    let nc = nq;
    let cq = rng.below(nq as u64) as usize;
    let others: Vec<usize> = (0..nq).filter(|q| *q != cq).collect();
    let mut ops: Vec<String> = vec![];
    // condition bit: always 1 (X; measure) or a coin (H; measure)
    ops.push(format!("gate 1 {} {}", cq, if rng.below(3) == 0 { "H" } else { "X" }));
    ops.push(format!("measure {} {} Z", cq, cq));
    // superpose / entangle the others (among them (|01> + |10>)/sqrt 2, on which Mix and its transpose differ)
    for &q in others.iter() { match rng.below(4) { 0 => ops.push(format!("gate 1 {} X", q)), 1 | 2 => ops.push(format!("gate 1 {} H", q)),
        _ => ops.push(format!("gate 1 {} RY {}", q, fbits(0.3 + rng.unit() * 2.0))) } }
    if rng.below(2) == 0
    {
        let (a, b) = (others[0], others[1]);
        ops.push(format!("gate 2 {} {} CX", a, b));
        if rng.coin() { ops.push(format!("gate 1 {} X", b)); }
    }
    for _ in 0..(1 + rng.below(2))
    {
        let k = 2 + rng.below((others.len() - 1).min(3) as u64) as usize;
        let mut bits = others.clone(); rng.shuffle(&mut bits); bits.truncate(k);
        let term = gen_user_term(k, rng);
        if rng.below(5) == 0 { ops.push(format!("gate {} {} {}", k, join(&bits), term)); }
        else { ops.push(format!("cond 1 {} 1 {} {} {}", cq, k, join(&bits), term)); }
    }
    for &q in others.iter() { ops.push(format!("measure {} {} {}", q, q, if rng.below(3) == 0 { gen_basis(rng) } else { "Z" })); }
    CircuitText { nq, nc, ops }
}

/// User-defined cyclic increments on basis states, under a fulfilled classical condition: the only register value of non-zero
/// probability is computed here with integer arithmetic (independent of the library AND of the Lean reference).
fn perm_line(rng: &mut SplitMix64) -> (String, String)
{
    let k = 2 + rng.below(3) as usize;
    let nq = k + 1 + rng.below(2) as usize;
    let cq = rng.below(nq as u64) as usize;
    let mut others: Vec<usize> = (0..nq).filter(|q| *q != cq).collect();
    rng.shuffle(&mut others);
    let bits: Vec<usize> = others[..k].to_vec();
    let mut val = vec![false; nq];
    let mut ops: Vec<String> = vec![format!("gate 1 {} X", cq), format!("measure {} {} Z", cq, cq)];
    val[cq] = true;
    for &q in others.iter() { if rng.coin() { ops.push(format!("gate 1 {} X", q)); val[q] = true; } }
    for _ in 0..(1 + rng.below(3))
    {
        let times = 1 + rng.below(2) as usize;
        let wrapped = rng.below(3) == 0;
        let term = if wrapped { format!("Loop l {} u {} 1 Inc{} {} {}", times, k, k, k, join(&(0..k).collect::<Vec<_>>())) } else { format!("Inc{}", k) };
        ops.push(format!("cond 1 {} 1 {} {} {}", cq, k, join(&bits), term));
        for _ in 0..(if wrapped { times } else { 1 })
        {
            let mut v = 0usize;
            for &b in bits.iter() { v = (v << 1) | (val[b] as usize); }
            v = (v + 1) % (1 << k);
            for (j, &b) in bits.iter().enumerate() { val[b] = (v >> (k - 1 - j)) & 1 == 1; }
        }
    }
    let mut expect = 0u64;
    for q in 0..nq { ops.push(format!("measure {} {} Z", q, q)); if val[q] { expect |= 1 << q; } }
    let ct = CircuitText { nq, nc: nq, ops };
    let (shots, seed) = (5, rng.next());
    let repr = if rng.coin() { "vector" } else { "auto" };
    let req = format!("perm | {} | {} | {} | {} | {}", repr, nq, shots, seed, ct.ops.join(" ; "));
    let ans = match build(&ct)
    {
        Err(e) => format!("build-{}", show_err(&e)),
        Ok(mut circuit) => {
            let run = execute_traced(&mut circuit, nq, shots, seed, repr);
            match (&run.result, &run.final_cstate)
            {
                (Some(Ok(())), Some(cs)) => if cs.iter().all(|w| *w == expect) { "same".to_string() }
                    else { format!("differs only-possible-value={} register={}", expect, join(cs)) },
                (Some(Err(e)), _) => show_err(e),
                _ => "panic".to_string()
            }
        }
    };
    (req, ans)
}

/// Clifford COMBINATORS on basis states, stabilizer representation: Composite / Loop gates (bare, or under a fulfilled
/// classical condition) whose sub-gates X, Y, CX, CY, CZ, Swap sit on their qubits in EVERY operand order (adjacent
/// descending `CX 1 0`, `CY 2 1`, ...).  Every qubit stays in a basis state, so the only register value of non-zero
/// probability is computed here with boolean arithmetic, independently of the library and of the Lean reference.
fn cperm_line(rng: &mut SplitMix64) -> (String, String)
{
    let nq = 2 + rng.below(4) as usize;
    let mut val = vec![false; nq];
    let mut ops: Vec<String> = vec![];
    for q in 0..nq { if rng.coin() { ops.push(format!("gate 1 {} X", q)); val[q] = true; } }
    // classical bit nq: always 1 (for the conditional variants)
    let cq = rng.below(nq as u64) as usize;
    let flip_back = !val[cq];
    if flip_back { ops.push(format!("gate 1 {} X", cq)); }
    ops.push(format!("measure {} {} Z", cq, nq));
    if flip_back { ops.push(format!("gate 1 {} X", cq)); }
    for _ in 0..(1 + rng.below(3))
    {
        let nb = 2 + rng.below((nq - 1).min(3) as u64) as usize;
        let mut bits: Vec<usize> = (0..nq).collect(); rng.shuffle(&mut bits); bits.truncate(nb);
        let k = 1 + rng.below(4) as usize;
        let mut body = format!("{}", k);
        let mut subs: Vec<(&str, Vec<usize>)> = vec![];
        for _ in 0..k
        {
            let g = *rng.pick(&["X", "Y", "CX", "CX", "CY", "CY", "CZ", "Swap"]);
            let m = if g == "X" || g == "Y" { 1 } else { 2 };
            let mut lb: Vec<usize> = (0..nb).collect(); rng.shuffle(&mut lb); lb.truncate(m);
            // mostly ADJACENT operands (ascending and descending)
            if m == 2 && rng.below(3) != 0 { let a = rng.below(nb as u64 - 1) as usize; lb = if rng.coin() { vec![a + 1, a] } else { vec![a, a + 1] }; }
            body += &format!(" {} {} {}", g, m, join(&lb));
            subs.push((g, lb));
        }
        let iters = if rng.below(3) == 0 { Some(rng.below(4) as usize) } else { None };
        let term = match iters { Some(it) => format!("Loop l{} {} b{} {} {}", rng.below(10), it, rng.below(10), nb, body), None => format!("Comp g{} {} {}", rng.below(10), nb, body) };
        if rng.below(3) == 0 { ops.push(format!("cond 1 {} 1 {} {} {}", nq, nb, join(&bits), term)); } else { ops.push(format!("gate {} {} {}", nb, join(&bits), term)); }
        for _ in 0..iters.unwrap_or(1)
        {
            for (g, lb) in subs.iter()
            {
                let q0 = bits[lb[0]];
                match *g
                {
                    "X" | "Y" => val[q0] = !val[q0],
                    "CX" | "CY" => { let q1 = bits[lb[1]]; if val[q0] { val[q1] = !val[q1]; } },
                    "Swap" => { let q1 = bits[lb[1]]; val.swap(q0, q1); },
                    _ => {}
                }
            }
        }
    }
    let mut expect = 1u64 << nq;
    for q in 0..nq { ops.push(format!("measure {} {} Z", q, q)); if val[q] { expect |= 1 << q; } }
    let ct = CircuitText { nq, nc: nq + 1, ops };
    let (shots, seed) = (4, rng.next());
    let repr = *rng.pick(&["stabilizer", "stabilizer", "auto", "vector"]);
    let req = format!("cperm | {} | {} | {} | {} | {}", repr, nq, shots, seed, ct.ops.join(" ; "));
    let ans = match build(&ct)
    {
        Err(e) => format!("build-{}", show_err(&e)),
        Ok(mut circuit) => {
            let run = execute_traced(&mut circuit, nq, shots, seed, repr);
            match (&run.result, &run.final_cstate)
            {
                (Some(Ok(())), Some(cs)) => if cs.iter().all(|w| *w == expect) { "same".to_string() }
                    else { format!("differs only-possible-value={} register={}", expect, join(cs)) },
                (Some(Err(e)), _) => show_err(e),
                _ => "panic".to_string()
            }
        }
    };
    (req, ans)
}

/// `reps` independent executions with `n` shots each: distribution of the sorted register
fn tuples_line(ct: &CircuitText, n: usize, reps: usize, seed0: u64, repr: &str) -> Option<(String, String)>
{
    let mut h: BTreeMap<String, usize> = BTreeMap::new();
    for r in 0..reps
    {
        let mut circuit = build(ct).ok()?;
        let run = execute_traced(&mut circuit, ct.nq, n, seed0.wrapping_add(r as u64), repr);
        let key = match (&run.result, &run.final_cstate)
        {
            (Some(Ok(())), Some(cs)) => { let mut v = cs.clone(); v.sort(); v.iter().map(|w| w.to_string()).collect::<Vec<_>>().join(",") },
            (Some(Err(e)), _) => show_err(e).replace(' ', "_"),
            _ => "panic".to_string()
        };
        *h.entry(key).or_insert(0) += 1;
    }
    let req = format!("tuples | {} | {} | {} | {} | {} | {}", repr, ct.nq, n, reps, seed0, ct.ops.join(" ; "));
    let mut s = format!("ok {}", h.len());
    for (k, c) in h.iter() { s += &format!(" {} {}", k, c); }
    Some((req, s))
}

/// Wide registers (word boundaries of the tableau's bit packing): Clifford circuits that keep every qubit in a basis state
/// at the end (X/Y/Z, CX, Swap on basis qubits; H ... H windows around operations that avoid the qubit; H S S H = X), so
/// the ONLY register value of non-zero probability is known classically - computed here, independently of the library.
fn wide_line(rng: &mut SplitMix64) -> (String, String)
{
    let nq = *rng.pick(&[31usize, 32, 33, 63, 64, 65, 66, 67, 95, 96, 97, 128, 130]);
    let mut bits = vec![false; nq];
    let mut open: Vec<bool> = vec![false; nq];      // inside an H ... H window
    let mut ops: Vec<String> = vec![];
    let hot = |rng: &mut SplitMix64| -> usize {
        // qubits near the word boundaries are what matters
        let cands = [0usize, 1, 30, 31, 32, 33, 62, 63, 64, 65, 66, 94, 95, 96, 97, 127, 128, 129];
        loop { let q = if rng.below(4) == 0 { rng.below(nq as u64) as usize } else { *rng.pick(&cands) }; if q < nq { return q; } }
    };
    for _ in 0..(6 + rng.below(30))
    {
        let q = hot(rng);
        match rng.below(9)
        {
            0 | 1 if !open[q] => { ops.push(format!("gate 1 {} X", q)); bits[q] = !bits[q]; },
            2 if !open[q] => { ops.push(format!("gate 1 {} Y", q)); bits[q] = !bits[q]; },
            3 if !open[q] => { ops.push(format!("gate 1 {} Z", q)); },
            4 => { ops.push(format!("gate 1 {} H", q)); open[q] = !open[q]; },
            5 if !open[q] => { for g in ["H", "S", "S", "H"].iter() { ops.push(format!("gate 1 {} {}", q, g)); } bits[q] = !bits[q]; },
            6 | 7 => { let r = hot(rng); if r != q && !open[q] && !open[r] { ops.push(format!("gate 2 {} {} CX", q, r)); if bits[q] { bits[r] = !bits[r]; } } },
            _ => { let r = hot(rng); if r != q && !open[q] && !open[r] { ops.push(format!("gate 2 {} {} Swap", q, r)); bits.swap(q, r); } }
        }
    }
    for q in 0..nq { if open[q] { ops.push(format!("gate 1 {} H", q)); } }
    // measure up to 64 qubits (the hot ones first) into distinct classical bits
    let mut qs: Vec<usize> = [0usize, 31, 32, 33, 63, 64, 65, 66, 95, 96, 97, 128, 129].iter().cloned().filter(|q| *q < nq).collect();
    while qs.len() < 20.min(nq) { let q = rng.below(nq as u64) as usize; if !qs.contains(&q) { qs.push(q); } }
    let mut expect = 0u64;
    for (c, q) in qs.iter().enumerate() { ops.push(format!("measure {} {} Z", q, c)); if bits[*q] { expect |= 1 << c; } }
    let ct = CircuitText { nq, nc: qs.len(), ops };
    let shots = 4;
    let seed = rng.next();
    let req = format!("wide | auto | {} | {} | {} | {}", nq, shots, seed, ct.ops.join(" ; "));
    let ans = match build(&ct)
    {
        Err(e) => format!("build-{}", show_err(&e)),
        Ok(mut circuit) => {
            let run = execute_traced(&mut circuit, nq, shots, seed, "auto");
            match (&run.result, &run.final_cstate)
            {
                (Some(Ok(())), Some(cs)) => if cs.iter().all(|w| *w == expect) { "same".to_string() }
                    else { format!("differs only-possible-value={} register={}", expect, join(cs)) },
                (Some(Err(e)), _) => show_err(e),
                _ => "panic".to_string()
            }
        }
    };
    (req, ans)
}

fn lit(nq: usize, nc: usize, ops: &[&str]) -> CircuitText
{
    CircuitText { nq, nc, ops: ops.iter().map(|s| s.to_string()).collect() }
}

fn main()
{
    let dir = std::env::args().nth(1).expect("usage: c01 <outdir> [one <repr> <nq> <nc> <ops>]...");
    silence_panics();
    let mut rng = SplitMix64::from_env();
    let mut out = Out::new(&dir);
    // failing-input search: `one <repr> <nq> <nc> <ops joined by " ; ">` (repeatable) - statistics for exactly these circuits
    let extra: Vec<String> = std::env::args().skip(2).collect();
    if !extra.is_empty()
    {
        let shots = if thorough() { 200_000 } else { 20_000 };
        for ch in extra.chunks(5)
        {
            if ch.len() < 5 || ch[0] != "one" { continue; }
            let ct = CircuitText { nq: ch[2].parse().unwrap(), nc: ch[3].parse().unwrap(), ops: ch[4].split(" ; ").map(|s| s.to_string()).collect() };
            let seed = rng.next();
            if let Some((r, a)) = hist_line(&ct, shots, seed, &ch[1]) { out.case(&r, &a); }
            if let Some((r, a)) = tuples_line(&ct, 2, shots / 4, seed, &ch[1]) { out.case(&r, &a); }
        }
        out.finish();
        return;
    }
    let shots = if thorough() { 200_000 } else { 20_000 };
    let ncirc = if thorough() { 150 } else { 30 };
    // fragment F, vector backend, arbitrary gates
    let cfg_v = GenCfg { max_q: 3, max_c: 3, max_ops: 10, clifford: false, allow_peek: false, allow_reset: true,
        allow_reset_all: false, allow_cond: true, allow_measure_all: true, allow_combinators: true };
    // fragment F, Clifford circuits on both backends (stabilizer: no reset)
    let cfg_s = GenCfg { max_q: 4, max_c: 4, max_ops: 12, clifford: true, allow_peek: false, allow_reset: false,
        allow_reset_all: false, allow_cond: true, allow_measure_all: true, allow_combinators: true };
    for i in 0..ncirc
    {
        let ct = gen_circuit(&cfg_v, &mut rng);
        let seed = rng.next();
        if let Some((r, a)) = hist_line(&ct, shots, seed, "vector") { out.case(&r, &a); }
        if i % 3 == 0 { if let Some((r, a)) = tuples_line(&ct, 2, shots / 4, seed, "vector") { out.case(&r, &a); } }
        let cs = gen_circuit(&cfg_s, &mut rng);
        let seed = rng.next();
        for repr in ["vector", "stabilizer", "auto"].iter()
        {
            if let Some((r, a)) = hist_line(&cs, shots, seed, repr) { out.case(&r, &a); }
        }
        if i % 3 == 0 { if let Some((r, a)) = tuples_line(&cs, 2, shots / 4, seed, "stabilizer") { out.case(&r, &a); } }
    }
    // structured Clifford circuits of fragment F (several X-carrying generator rows on the measured qubit)
    // (fixed: the parity qubit of 2 / 3 superposed controls measured, then every control measured in the X basis: the X-type
    // correlations are exactly what a wrong collapse loses)
    for ct in [lit(3, 3, &["gate 1 0 H", "gate 1 1 H", "gate 2 0 2 CX", "gate 2 1 2 CX", "measure 2 2 Z", "measure 0 0 X", "measure 1 1 X"]),
        lit(4, 4, &["gate 1 0 H", "gate 1 1 H", "gate 1 2 H", "gate 2 0 3 CX", "gate 2 1 3 CX", "gate 2 2 3 CX", "measure 3 3 Z", "measure 0 0 X", "measure 1 1 X", "measure 2 2 X"]),
        lit(3, 3, &["gate 1 1 H", "gate 1 2 H", "gate 2 2 0 CX", "gate 2 1 0 CY", "measure 0 0 Z", "measure 1 1 X", "measure 2 2 Y"])].iter()
    {
        let seed = rng.next();
        for repr in ["stabilizer", "auto", "vector"].iter() { if let Some((r, a)) = hist_line(ct, shots, seed, repr) { out.case(&r, &a); } }
    }
    // (fixed: a qubit measured in one basis and measured AGAIN in every basis, bare and after S / H - what the basis change
    // around a measurement leaves behind must be the collapsed state)
    for b1 in ["X", "Y", "Z"].iter()
    {
        for b2 in ["X", "Y", "Z"].iter()
        {
            let m1 = format!("measure 0 0 {}", b1);
            let m2 = format!("measure 0 1 {}", b2);
            let m3 = format!("measure 1 2 {}", b1);
            for ct in [lit(1, 2, &[&m1, &m2]), lit(1, 2, &["gate 1 0 V", &m1, "gate 1 0 S", &m2]), lit(2, 3, &["gate 1 0 H", "gate 2 0 1 CX", &m1, &m2, &m3])].iter()
            {
                let seed = rng.next();
                for repr in ["stabilizer", "vector"].iter() { if let Some((r, a)) = hist_line(ct, shots, seed, repr) { out.case(&r, &a); } }
            }
        }
    }
    for _ in 0..(2 * ncirc).max(8)
    {
        let ct = gen_parity_circuit(&mut rng, false, false);
        let seed = rng.next();
        for repr in ["stabilizer", "vector"].iter() { if let Some((r, a)) = hist_line(&ct, shots, seed, repr) { out.case(&r, &a); } }
    }
    // executed AGAIN on the same object (same shot count): the second run must be a fresh Born sample as well
    for i in 0..ncirc
    {
        let ct = gen_feedback_circuit(&mut rng, i % 3 != 2);
        let seed = rng.next();
        if i % 3 == 2
        {
            if let Some((r, a)) = again_line(&ct, shots, seed, ["vector", "auto"][i % 2], "vector") { out.case(&r, &a); }
        }
        else
        {
            let repr = ["stabilizer", "vector", "auto"][(i / 3) % 3];
            let first = if i % 4 == 0 { ["vector", "stabilizer"][(i / 4) % 2] } else { repr };
            if let Some((r, a)) = again_line(&ct, shots, seed, repr, first) { out.case(&r, &a); }
        }
        if i % 3 == 0 { if let Some((r, a)) = tuples_again_line(&ct, 2, shots / 4, seed, ["stabilizer", "vector"][(i / 3) % 2]) { out.case(&r, &a); } }
        // ... and the randomly generated circuits of fragment F
        let (cfg, repr) = if i % 2 == 0 { (&cfg_v, "vector") } else { (&cfg_s, ["stabilizer", "auto"][(i / 2) % 2]) };
        let ct = gen_circuit(cfg, &mut rng);
        let seed = rng.next();
        if let Some((r, a)) = again_line(&ct, shots, seed, repr, repr) { out.case(&r, &a); }
    }
    // user-defined gates (only matrix() provided, non-symmetric matrices) under classical conditions, vector backend
    for i in 0..(if thorough() { 150 } else { 40 })
    {
        let ct = gen_user_circuit(&mut rng);
        let seed = rng.next();
        if let Some((r, a)) = hist_line(&ct, shots, seed, ["vector", "auto"][i % 2]) { out.case(&r, &a); }
    }
    for _ in 0..(if thorough() { 400 } else { 80 }) { let (r, a) = perm_line(&mut rng); out.case(&r, &a); }
    // Clifford combinators (Composite / Loop with sub-gates in every operand order) on basis states, stabilizer representation
    for _ in 0..(if thorough() { 1500 } else { 300 }) { let (r, a) = cperm_line(&mut rng); out.case(&r, &a); }
    // ... and on superposed / entangled states: statistics on all three representation choices
    for i in 0..(if thorough() { 250 } else { 70 })
    {
        let nq = 2 + rng.below(3) as usize;
        let mut ops: Vec<String> = vec![];
        if i % 2 == 0
        {
            // entangled start (Bell / GHZ chain in a random qubit order, now and then rotated): rows of the tableau then carry
            // non-identity Paulis on the qubits of BOTH factors of a Kron
            let mut qs: Vec<usize> = (0..nq).collect(); rng.shuffle(&mut qs);
            ops.push(format!("gate 1 {} H", qs[0]));
            for w in qs.windows(2) { ops.push(format!("gate 2 {} {} CX", w[0], w[1])); }
            for q in 0..nq { match rng.below(5) { 0 => ops.push(format!("gate 1 {} H", q)), 1 => ops.push(format!("gate 1 {} S", q)), _ => {} } }
        }
        else { for q in 0..nq { match rng.below(3) { 0 => ops.push(format!("gate 1 {} H", q)), 1 => ops.push(format!("gate 1 {} X", q)), _ => {} } } }
        for _ in 0..(1 + rng.below(3))
        {
            let k = 2 + rng.below((nq - 1).min(2) as u64) as usize;
            let mut bits: Vec<usize> = (0..nq).collect(); rng.shuffle(&mut bits); bits.truncate(k);
            // a third: a product of one-qubit Cliffords (both factors may flip the sign of a row)
            let mut term = if rng.below(3) == 0 { let mut t = rng.pick(&["X", "Y", "Z", "H", "S", "Sdg", "V"]).to_string(); for _ in 1..k { t = format!("Kron {} {}", t, rng.pick(&["X", "Y", "Z", "H", "S", "Sdg", "V"])); } t }
                else { gen_clifford_term(k, 2, &mut rng) };
            while !(term.starts_with("Comp") || term.starts_with("Loop") || term.starts_with("Kron")) { term = gen_clifford_term(k, 2, &mut rng); }
            ops.push(format!("gate {} {} {}", k, join(&bits), term));
            if rng.below(3) == 0 { let q = rng.below(nq as u64) as usize; ops.push(format!("measure {} {} {}", q, q, gen_basis(&mut rng))); }
        }
        for q in 0..nq { ops.push(format!("measure {} {} {}", q, q, if rng.below(3) == 0 { gen_basis(&mut rng) } else { "Z" })); }
        let ct = CircuitText { nq, nc: nq, ops };
        let seed = rng.next();
        for repr in ["stabilizer", "auto", "vector"].iter() { if i % 2 == 0 || *repr != "vector" { if let Some((r, a)) = hist_line(&ct, shots, seed, repr) { out.case(&r, &a); } } }
    }
    // wide registers: the only possible register value is known classically
    for _ in 0..(if thorough() { 400 } else { 80 }) { let (r, a) = wide_line(&mut rng); out.case(&r, &a); }
    // witnesses of the known defects (request kind prefixed with `w:<finding>`)
    let wit: Vec<(&str, &str, CircuitText)> = vec![
        ("D2-peek-correlated", "vector", lit(1, 2, &["gate 1 0 H", "peek 0 0 Z", "peek 0 1 Z"])),
        ("D3-resetall-correlated", "vector", lit(1, 2, &["gate 1 0 H", "measure 0 0 Z", "resetall", "gate 1 0 H", "measure 0 1 Z"])),
        ("D2-peek-correlated", "stabilizer", lit(1, 2, &["gate 1 0 H", "peek 0 0 Z", "peek 0 1 Z"])),
        ("D3-resetall-correlated", "stabilizer", lit(1, 2, &["gate 1 0 H", "measure 0 0 Z", "resetall", "gate 1 0 H", "measure 0 1 Z"])),
        ("D4-stab-reset-forced", "stabilizer", lit(2, 2, &["gate 1 0 H", "gate 2 0 1 CX", "reset 0", "measure 0 0 Z", "measure 1 1 Z"])),
        ("D5-stab-peek-all-independent", "stabilizer", lit(2, 2, &["gate 1 0 H", "gate 2 0 1 CX", "peekall 2 0 1 Z"])),
    ];
    for (tag, repr, ct) in wit.iter()
    {
        let seed = rng.next();
        if let Some((r, a)) = hist_line(ct, shots, seed, repr) { out.case(&format!("w:{} {}", tag, r), &a); }
        if let Some((r, a)) = tuples_line(ct, 2, shots / 4, seed, repr) { out.case(&format!("w:{} {}", tag, r), &a); }
    }
    let n = out.finish();
    eprintln!("c01: {} cases", n);
}

//! C01: histograms of the real simulator for circuits in the provable fragment F and for the
//! known-defect witnesses; judged statistically by tools/props/c01.py against the exact Born
//! distribution computed by the Lean driver.
use q1t_harness::*;
use q1t_harness::sim::*;
use std::collections::BTreeMap;

fn hist_line(ct: &CircuitText, shots: usize, seed: u64, repr: &str) -> Option<(String, String)>
{
    let mut circuit = build(ct).ok()?;
    let run = execute_traced(&mut circuit, ct.nq, shots, seed, repr);
    let req = format!("hist | {} | {} | {} | {} | {}", repr, ct.nq, shots, seed, ct.ops.join(" ; "));
    let ans = match (&run.result, &run.final_cstate)
    {
        (Some(Ok(())), Some(cs)) => {
            let mut h: BTreeMap<u64, usize> = BTreeMap::new();
            for &w in cs.iter() { *h.entry(w).or_insert(0) += 1; }
            // also the library's own histogram view must agree
            let lib = circuit.histogram().ok();
            let mut s = format!("ok {}", h.len());
            for (w, c) in h.iter() { s += &format!(" {} {}", w, c); }
            if let Some(lib) = lib
            {
                let mut l: Vec<(u64, usize)> = lib.iter().map(|(k, v)| (*k, *v)).collect();
                l.sort();
                let hv: Vec<(u64, usize)> = h.iter().map(|(k, v)| (*k, *v)).collect();
                if l != hv { s += " HISTOGRAM-VIEW-DIFFERS"; }
            }
            s
        },
        (Some(Err(e)), _) => show_err(e),
        _ => "panic".to_string()
    };
    Some((req, ans))
}

/// `reps` independent executions with `n` shots each: distribution of the sorted register
fn tuples_line(ct: &CircuitText, n: usize, reps: usize, seed0: u64, repr: &str) -> Option<(String, String)>
{
    let mut h: BTreeMap<String, usize> = BTreeMap::new();
    for r in 0..reps
    {
        let mut circuit = build(ct).ok()?;
        let run = execute_traced(&mut circuit, ct.nq, n, seed0.wrapping_add(r as u64), repr);
        let key = match (&run.result, &run.final_cstate)
        {
            (Some(Ok(())), Some(cs)) => { let mut v = cs.clone(); v.sort(); v.iter().map(|w| w.to_string()).collect::<Vec<_>>().join(",") },
            (Some(Err(e)), _) => show_err(e).replace(' ', "_"),
            _ => "panic".to_string()
        };
        *h.entry(key).or_insert(0) += 1;
    }
    let req = format!("tuples | {} | {} | {} | {} | {} | {}", repr, ct.nq, n, reps, seed0, ct.ops.join(" ; "));
    let mut s = format!("ok {}", h.len());
    for (k, c) in h.iter() { s += &format!(" {} {}", k, c); }
    Some((req, s))
}

/// Wide registers (word boundaries of the tableau's bit packing): Clifford circuits that keep every qubit in a basis state
/// at the end (X/Y/Z, CX, Swap on basis qubits; H ... H windows around operations that avoid the qubit; H S S H = X), so
/// the ONLY register value of non-zero probability is known classically - computed here, independently of the library.
fn wide_line(rng: &mut SplitMix64) -> (String, String)
{
    let nq = *rng.pick(&[31usize, 32, 33, 63, 64, 65, 66, 67, 95, 96, 97, 128, 130]);
    let mut bits = vec![false; nq];
    let mut open: Vec<bool> = vec![false; nq];      // inside an H ... H window
    let mut ops: Vec<String> = vec![];
    let hot = |rng: &mut SplitMix64| -> usize {
        // qubits near the word boundaries are what matters
        let cands = [0usize, 1, 30, 31, 32, 33, 62, 63, 64, 65, 66, 94, 95, 96, 97, 127, 128, 129];
        loop { let q = if rng.below(4) == 0 { rng.below(nq as u64) as usize } else { *rng.pick(&cands) }; if q < nq { return q; } }
    };
    for _ in 0..(6 + rng.below(30))
    {
        let q = hot(rng);
        match rng.below(9)
        {
            0 | 1 if !open[q] => { ops.push(format!("gate 1 {} X", q)); bits[q] = !bits[q]; },
            2 if !open[q] => { ops.push(format!("gate 1 {} Y", q)); bits[q] = !bits[q]; },
            3 if !open[q] => { ops.push(format!("gate 1 {} Z", q)); },
            4 => { ops.push(format!("gate 1 {} H", q)); open[q] = !open[q]; },
            5 if !open[q] => { for g in ["H", "S", "S", "H"].iter() { ops.push(format!("gate 1 {} {}", q, g)); } bits[q] = !bits[q]; },
            6 | 7 => { let r = hot(rng); if r != q && !open[q] && !open[r] { ops.push(format!("gate 2 {} {} CX", q, r)); if bits[q] { bits[r] = !bits[r]; } } },
            _ => { let r = hot(rng); if r != q && !open[q] && !open[r] { ops.push(format!("gate 2 {} {} Swap", q, r)); bits.swap(q, r); } }
        }
    }
    for q in 0..nq { if open[q] { ops.push(format!("gate 1 {} H", q)); } }
    // measure up to 64 qubits (the hot ones first) into distinct classical bits
    let mut qs: Vec<usize> = [0usize, 31, 32, 33, 63, 64, 65, 66, 95, 96, 97, 128, 129].iter().cloned().filter(|q| *q < nq).collect();
    while qs.len() < 20.min(nq) { let q = rng.below(nq as u64) as usize; if !qs.contains(&q) { qs.push(q); } }
    let mut expect = 0u64;
    for (c, q) in qs.iter().enumerate() { ops.push(format!("measure {} {} Z", q, c)); if bits[*q] { expect |= 1 << c; } }
    let ct = CircuitText { nq, nc: qs.len(), ops };
    let shots = 4;
    let seed = rng.next();
    let req = format!("wide | auto | {} | {} | {} | {}", nq, shots, seed, ct.ops.join(" ; "));
    let ans = match build(&ct)
    {
        Err(e) => format!("build-{}", show_err(&e)),
        Ok(mut circuit) => {
            let run = execute_traced(&mut circuit, nq, shots, seed, "auto");
            match (&run.result, &run.final_cstate)
            {
                (Some(Ok(())), Some(cs)) => if cs.iter().all(|w| *w == expect) { "same".to_string() }
                    else { format!("differs only-possible-value={} register={}", expect, join(cs)) },
                (Some(Err(e)), _) => show_err(e),
                _ => "panic".to_string()
            }
        }
    };
    (req, ans)
}

fn lit(nq: usize, nc: usize, ops: &[&str]) -> CircuitText
{
    CircuitText { nq, nc, ops: ops.iter().map(|s| s.to_string()).collect() }
}

fn main()
{
    let dir = std::env::args().nth(1).expect("usage: c01 <outdir> [one <repr> <nq> <nc> <ops>]...");
    silence_panics();
    let mut rng = SplitMix64::from_env();
    let mut out = Out::new(&dir);
    // failing-input search: `one <repr> <nq> <nc> <ops joined by " ; ">` (repeatable) - statistics for exactly these circuits
    let extra: Vec<String> = std::env::args().skip(2).collect();
    if !extra.is_empty()
    {
        let shots = if thorough() { 200_000 } else { 20_000 };
        for ch in extra.chunks(5)
        {
            if ch.len() < 5 || ch[0] != "one" { continue; }
            let ct = CircuitText { nq: ch[2].parse().unwrap(), nc: ch[3].parse().unwrap(), ops: ch[4].split(" ; ").map(|s| s.to_string()).collect() };
            let seed = rng.next();
            if let Some((r, a)) = hist_line(&ct, shots, seed, &ch[1]) { out.case(&r, &a); }
            if let Some((r, a)) = tuples_line(&ct, 2, shots / 4, seed, &ch[1]) { out.case(&r, &a); }
        }
        out.finish();
        return;
    }
    let shots = if thorough() { 200_000 } else { 20_000 };
    let ncirc = if thorough() { 150 } else { 30 };
    // fragment F, vector backend, arbitrary gates
    let cfg_v = GenCfg { max_q: 3, max_c: 3, max_ops: 10, clifford: false, allow_peek: false, allow_reset: true,
        allow_reset_all: false, allow_cond: true, allow_measure_all: true, allow_combinators: true };
    // fragment F, Clifford circuits on both backends (stabilizer: no reset)
    let cfg_s = GenCfg { max_q: 4, max_c: 4, max_ops: 12, clifford: true, allow_peek: false, allow_reset: false,
        allow_reset_all: false, allow_cond: true, allow_measure_all: true, allow_combinators: true };
    for i in 0..ncirc
    {
        let ct = gen_circuit(&cfg_v, &mut rng);
        let seed = rng.next();
        if let Some((r, a)) = hist_line(&ct, shots, seed, "vector") { out.case(&r, &a); }
        if i % 3 == 0 { if let Some((r, a)) = tuples_line(&ct, 2, shots / 4, seed, "vector") { out.case(&r, &a); } }
        let cs = gen_circuit(&cfg_s, &mut rng);
        let seed = rng.next();
        for repr in ["vector", "stabilizer", "auto"].iter()
        {
            if let Some((r, a)) = hist_line(&cs, shots, seed, repr) { out.case(&r, &a); }
        }
        if i % 3 == 0 { if let Some((r, a)) = tuples_line(&cs, 2, shots / 4, seed, "stabilizer") { out.case(&r, &a); } }
    }
    // structured Clifford circuits of fragment F (several X-carrying generator rows on the measured qubit)
    for _ in 0..(ncirc / 2).max(8)
    {
        let ct = gen_parity_circuit(&mut rng, false, false);
        let seed = rng.next();
        for repr in ["stabilizer", "vector"].iter() { if let Some((r, a)) = hist_line(&ct, shots, seed, repr) { out.case(&r, &a); } }
    }
    // wide registers: the only possible register value is known classically
    for _ in 0..(if thorough() { 400 } else { 80 }) { let (r, a) = wide_line(&mut rng); out.case(&r, &a); }
    // witnesses of the known defects (request kind prefixed with `w:<finding>`)
    let wit: Vec<(&str, &str, CircuitText)> = vec![
        ("D2-peek-correlated", "vector", lit(1, 2, &["gate 1 0 H", "peek 0 0 Z", "peek 0 1 Z"])),
        ("D3-resetall-correlated", "vector", lit(1, 2, &["gate 1 0 H", "measure 0 0 Z", "resetall", "gate 1 0 H", "measure 0 1 Z"])),
        ("D2-peek-correlated", "stabilizer", lit(1, 2, &["gate 1 0 H", "peek 0 0 Z", "peek 0 1 Z"])),
        ("D3-resetall-correlated", "stabilizer", lit(1, 2, &["gate 1 0 H", "measure 0 0 Z", "resetall", "gate 1 0 H", "measure 0 1 Z"])),
        ("D4-stab-reset-forced", "stabilizer", lit(2, 2, &["gate 1 0 H", "gate 2 0 1 CX", "reset 0", "measure 0 0 Z", "measure 1 1 Z"])),
        ("D5-stab-peek-all-independent", "stabilizer", lit(2, 2, &["gate 1 0 H", "gate 2 0 1 CX", "peekall 2 0 1 Z"])),
    ];
    for (tag, repr, ct) in wit.iter()
    {
        let seed = rng.next();
        if let Some((r, a)) = hist_line(ct, shots, seed, repr) { out.case(&format!("w:{} {}", tag, r), &a); }
        if let Some((r, a)) = tuples_line(ct, 2, shots / 4, seed, repr) { out.case(&format!("w:{} {}", tag, r), &a); }
    }
    let n = out.finish();
    eprintln!("c01: {} cases", n);
}

//! C10: seeded runs are reproducible and use only the supplied generator.
//! For every generated circuit: run with an identically seeded Hc128Rng (a) twice in this process with
//! the thread-local generator consumed in between, (b) on 16 threads concurrently, (c) in a separate
//! process (this binary re-invoked with `--child`), and require bit-identical per-shot registers and an
//! identical number of words drawn from the supplied generator.
use q1t_harness::*;
use q1t_harness::sim::*;
use rand_core::{RngCore, SeedableRng};
use rand::Rng;

struct Counting<R: RngCore> { inner: R, words32: u64, words64: u64, bytes: u64 }
impl<R: RngCore> RngCore for Counting<R>
{
    fn next_u32(&mut self) -> u32 { self.words32 += 1; self.inner.next_u32() }
    fn next_u64(&mut self) -> u64 { self.words64 += 1; self.inner.next_u64() }
    fn fill_bytes(&mut self, dest: &mut [u8]) { self.bytes += dest.len() as u64; self.inner.fill_bytes(dest) }
    fn try_fill_bytes(&mut self, dest: &mut [u8]) -> Result<(), rand_core::Error> { self.bytes += dest.len() as u64; self.inner.try_fill_bytes(dest) }
}

fn run_once(ct: &CircuitText, shots: usize, seed: u64, repr: &str) -> String
{
    let ctc = ct.clone();
    let repr = repr.to_string();
    let r = std::panic::catch_unwind(move || {
        let mut c = match build(&ctc) { Ok(c) => c, Err(e) => return format!("build-{}", show_err(&e).replace(' ', "_")) };
        let mut rng = Counting { inner: rand_hc::Hc128Rng::seed_from_u64(seed), words32: 0, words64: 0, bytes: 0 };
        let res = match repr.as_str()
        {
            "vector" => c.execute_with(shots, &mut rng, q1tsim::circuit::QuStateRepr::vector(ctc.nq, shots)),
            "stabilizer" => c.execute_with(shots, &mut rng, q1tsim::circuit::QuStateRepr::stabilizer(ctc.nq, shots)),
            _ => c.execute_with_rng(shots, &mut rng)
        };
        match res
        {
            Ok(()) => format!("reg:{} rng:{}/{}/{}", join(&c.cstate().unwrap().to_vec()).replace(' ', ","), rng.words32, rng.words64, rng.bytes),
            Err(e) => show_err(&e).replace(' ', "_")
        }
    });
    r.unwrap_or_else(|_| "panic".to_string())
}

fn parse_ct(nq: usize, nc: usize, ops: &str) -> CircuitText
{
    CircuitText { nq, nc, ops: ops.split(" ; ").map(|s| s.to_string()).collect() }
}

fn main()
{
    let args: Vec<String> = std::env::args().collect();
    if args.len() >= 2 && args[1] == "--child"
    {
        // --child <nq> <nc> <shots> <seed> <repr> <ops…>
        let ct = parse_ct(args[2].parse().unwrap(), args[3].parse().unwrap(), &args[7]);
        println!("{}", run_once(&ct, args[4].parse().unwrap(), args[5].parse().unwrap(), &args[6]));
        return;
    }
    let dir = args.get(1).expect("usage: c10 <outdir>").clone();
    silence_panics();
    let mut rng = SplitMix64::from_env();
    let mut out = Out::new(&dir);
    let ncirc = if thorough() { 600 } else { 80 };
    let cfg_v = GenCfg { max_q: 4, max_c: 4, max_ops: 12, clifford: false, allow_peek: true, allow_reset: true,
        allow_reset_all: true, allow_cond: true, allow_measure_all: true, allow_combinators: true };
    let cfg_s = GenCfg { clifford: true, ..cfg_v };
    let me = std::env::current_exe().unwrap();
    for i in 0..ncirc
    {
        let (ct, repr) = if i % 2 == 0 { (gen_circuit(&cfg_v, &mut rng), "vector") } else { (gen_circuit(&cfg_s, &mut rng), ["stabilizer", "auto", "vector"][(i / 2) % 3]) };
        let shots = [1usize, 5, 64, 300][i % 4];
        let seed = rng.next();
        let first = run_once(&ct, shots, seed, repr);
        // consume the ambient generator, then run again
        let _: u64 = rand::thread_rng().gen();
        let _: [u8; 13] = rand::thread_rng().gen();
        let second = run_once(&ct, shots, seed, repr);
        let mut verdict = if first == second { String::new() } else { format!(" rerun-differs[{}|{}]", first, second) };
        // 16 threads
        let handles: Vec<_> = (0..16).map(|t| { let ct = ct.clone(); let repr = repr.to_string();
            std::thread::spawn(move || { for _ in 0..t { let _: u32 = rand::thread_rng().gen(); } run_once(&ct, shots, seed, &repr) }) }).collect();
        for (t, h) in handles.into_iter().enumerate()
        {
            let r = h.join().unwrap_or_else(|_| "thread-panic".to_string());
            if r != first { verdict += &format!(" thread{}-differs[{}]", t, r); break; }
        }
        // separate process (every 4th circuit in quick mode)
        if thorough() || i % 4 == 0
        {
            let o = std::process::Command::new(&me).arg("--child").arg(ct.nq.to_string()).arg(ct.nc.to_string())
                .arg(shots.to_string()).arg(seed.to_string()).arg(repr).arg(ct.ops.join(" ; ")).output().expect("child");
            let r = String::from_utf8_lossy(&o.stdout).trim().to_string();
            if r != first { verdict += &format!(" process-differs[{}]", r); }
        }
        let kind = if first.starts_with("reg:") { "ran" } else { "failed" };
        out.case(&format!("repro | {} | {} {} | {} | {} | {}", repr, ct.nq, ct.nc, shots, seed, ct.ops.join(" ; ")),
            &if verdict.is_empty() { format!("same {}", kind) } else { format!("differs{}", verdict) });
    }
    let n = out.finish();
    eprintln!("c10: {} cases", n);
}

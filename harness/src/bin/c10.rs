//! C10: seeded runs are reproducible and use only the supplied generator.
//! For every generated circuit: run with an identically seeded Hc128Rng (a) twice in this process with
//! the thread-local generator consumed in between, (b) on 16 threads concurrently, (c) in a separate
//! process (this binary re-invoked with `--child`), and require bit-identical per-shot registers and an
//! identical number of words drawn from the supplied generator.
use q1t_harness::*;
use q1t_harness::sim::*;
use rand_core::{RngCore, SeedableRng};
use rand::Rng;

struct Counting<R: RngCore> { inner: R, words32: u64, words64: u64, bytes: u64 }
impl<R: RngCore> RngCore for Counting<R>
{
    fn next_u32(&mut self) -> u32 { self.words32 += 1; self.inner.next_u32() }
    fn next_u64(&mut self) -> u64 { self.words64 += 1; self.inner.next_u64() }
    fn fill_bytes(&mut self, dest: &mut [u8]) { self.bytes += dest.len() as u64; self.inner.fill_bytes(dest) }
    fn try_fill_bytes(&mut self, dest: &mut [u8]) -> Result<(), rand_core::Error> { self.bytes += dest.len() as u64; self.inner.try_fill_bytes(dest) }
}

fn run_once(ct: &CircuitText, shots: usize, seed: u64, repr: &str) -> String
{
    let ctc = ct.clone();
    let repr = repr.to_string();
    let r = std::panic::catch_unwind(move || {
        let mut c = match build(&ctc) { Ok(c) => c, Err(e) => return format!("build-{}", show_err(&e).replace(' ', "_")) };
        let mut rng = Counting { inner: rand_hc::Hc128Rng::seed_from_u64(seed), words32: 0, words64: 0, bytes: 0 };
        let res = match repr.as_str()
        {
            "vector" => c.execute_with(shots, &mut rng, q1tsim::circuit::QuStateRepr::vector(ctc.nq, shots)),
            "stabilizer" => c.execute_with(shots, &mut rng, q1tsim::circuit::QuStateRepr::stabilizer(ctc.nq, shots)),
            _ => c.execute_with_rng(shots, &mut rng)
        };
        match res
        {
            Ok(()) => format!("reg:{} rng:{}/{}/{}", join(&c.cstate().unwrap().to_vec()).replace(' ', ","), rng.words32, rng.words64, rng.bytes),
            Err(e) => show_err(&e).replace(' ', "_")
        }
    });
    r.unwrap_or_else(|_| "panic".to_string())
}

/// "Run after run": the SAME circuit object is first taken through a different history (another seed, and for
/// `same_shots` the same shot count, so that any buffer the object keeps has the right size to be reused), then executed
/// with the seed under test.  The result must be the one a fresh object gives.
fn run_on_used_object(ct: &CircuitText, shots: usize, seed: u64, repr: &str, same_shots: bool, reexecute_first: bool) -> String
{
    run_on_used_object_ext(ct, shots, seed, repr, same_shots, reexecute_first, None, None)
}

/// `other_repr`: the representation the EARLIER run of the same object used (None = the same as the run under test);
/// `split`: build only the first `k` operations, execute, then add the rest and execute the run under test (the object's
/// answer must be that of a circuit built in one go).
fn run_on_used_object_ext(ct: &CircuitText, shots: usize, seed: u64, repr: &str, same_shots: bool, reexecute_first: bool,
    other_repr: Option<&str>, split: Option<usize>) -> String
{
    let ctc = ct.clone();
    let repr = repr.to_string();
    let other_repr = other_repr.map(|s| s.to_string());
    let r = std::panic::catch_unwind(move || {
        let k = split.unwrap_or(ctc.ops.len()).min(ctc.ops.len());
        let prefix = CircuitText { nq: ctc.nq, nc: ctc.nc, ops: ctc.ops[..k].to_vec() };
        let mut c = match build(&prefix) { Ok(c) => c, Err(e) => return format!("build-{}", show_err(&e).replace(' ', "_")) };
        let exec_as = |c: &mut q1tsim::circuit::Circuit, shots: usize, rng: &mut Counting<rand_hc::Hc128Rng>, repr: &str| match repr
        {
            "vector" => c.execute_with(shots, rng, q1tsim::circuit::QuStateRepr::vector(ctc.nq, shots)),
            "stabilizer" => c.execute_with(shots, rng, q1tsim::circuit::QuStateRepr::stabilizer(ctc.nq, shots)),
            _ => c.execute_with_rng(shots, rng)
        };
        if split.is_some() || other_repr.is_some()
        {
            let mut other = Counting { inner: rand_hc::Hc128Rng::seed_from_u64(seed ^ 0x9e3779b97f4a7c15), words32: 0, words64: 0, bytes: 0 };
            let orep = other_repr.clone().unwrap_or_else(|| repr.clone());
            let _ = c.is_stabilizer_circuit();
            let _ = exec_as(&mut c, if same_shots { shots } else { shots + 3 }, &mut other, &orep);
            for op in ctc.ops[k..].iter() { if let Err(e) = add_op(&mut c, op) { return format!("build-{}", show_err(&e).replace(' ', "_")); } }
            let mut rng = Counting { inner: rand_hc::Hc128Rng::seed_from_u64(seed), words32: 0, words64: 0, bytes: 0 };
            return match exec_as(&mut c, shots, &mut rng, &repr)
            {
                Ok(()) => format!("reg:{} rng:{}/{}/{}", join(&c.cstate().unwrap().to_vec()).replace(' ', ","), rng.words32, rng.words64, rng.bytes),
                Err(e) => show_err(&e).replace(' ', "_")
            };
        }
        let exec = |c: &mut q1tsim::circuit::Circuit, shots: usize, rng: &mut Counting<rand_hc::Hc128Rng>| match repr.as_str()
        {
            "vector" => c.execute_with(shots, rng, q1tsim::circuit::QuStateRepr::vector(ctc.nq, shots)),
            "stabilizer" => c.execute_with(shots, rng, q1tsim::circuit::QuStateRepr::stabilizer(ctc.nq, shots)),
            _ => c.execute_with_rng(shots, rng)
        };
        let mut other = Counting { inner: rand_hc::Hc128Rng::seed_from_u64(seed ^ 0x9e3779b97f4a7c15), words32: 0, words64: 0, bytes: 0 };
        let _ = exec(&mut c, if same_shots { shots } else { shots + 3 }, &mut other);
        if reexecute_first { let _ = c.reexecute_with_rng(&mut other); }
        let mut rng = Counting { inner: rand_hc::Hc128Rng::seed_from_u64(seed), words32: 0, words64: 0, bytes: 0 };
        match exec(&mut c, shots, &mut rng)
        {
            Ok(()) => format!("reg:{} rng:{}/{}/{}", join(&c.cstate().unwrap().to_vec()).replace(' ', ","), rng.words32, rng.words64, rng.bytes),
            Err(e) => show_err(&e).replace(' ', "_")
        }
    });
    r.unwrap_or_else(|_| "panic".to_string())
}

/// Wide registers on the state-vector representation: Hadamards on a few qubits (so that measure_all / peek_all see
/// several distinct outcomes), some entanglers, then measure_all / peek_all, optionally a conditional gate reading the
/// register and a second measure_all.  Above 8 qubits the state has more than 256 amplitudes.
fn gen_wide(rng: &mut SplitMix64) -> CircuitText
{
    let nq = 7 + rng.below(5) as usize;
    let nc = nq;
    let mut ops = vec![];
    let nh = 1 + rng.below(4) as usize;
    let mut qs: Vec<usize> = (0..nq).collect();
    rng.shuffle(&mut qs);
    for &q in qs.iter().take(nh) { ops.push(format!("gate 1 {} H", q)); }
    for _ in 0..rng.below(3) { let a = qs[rng.below(nh as u64) as usize]; let b = qs[nh + rng.below((nq - nh) as u64) as usize]; ops.push(format!("gate 2 {} {} CX", a, b)); }
    if rng.coin() { ops.push(format!("gate 1 {} T", qs[0])); }
    let mut cb: Vec<usize> = (0..nc).collect();
    if rng.coin() { rng.shuffle(&mut cb); }
    let all = |cb: &[usize]| format!("{} {}", cb.len(), join(cb));
    match rng.below(3)
    {
        0 => ops.push(format!("measureall {} Z", all(&cb))),
        1 => { ops.push(format!("peekall {} Z", all(&cb))); ops.push(format!("measureall {} Z", all(&cb))); },
        _ => { ops.push(format!("measureall {} {}", all(&cb), ["X", "Z"][rng.below(2) as usize]));
               ops.push(format!("cond 1 {} 1 1 {} X", cb[0], qs[nq - 1]));
               ops.push(format!("measureall {} Z", all(&cb))); }
    }
    CircuitText { nq, nc, ops }
}

/// A reset (or measurement) of a qubit in superposition that is entangled with others, measured afterwards: the hidden
/// outcome of the reset decides what the partners read, so it must come from the supplied generator.
fn gen_entangled_reset(rng: &mut SplitMix64) -> CircuitText
{
    let nq = 2 + rng.below(3) as usize;
    let mut qs: Vec<usize> = (0..nq).collect();
    rng.shuffle(&mut qs);
    let mut ops = vec![format!("gate 1 {} H", qs[0])];
    for &q in qs[1..].iter() { ops.push(format!("gate 2 {} {} CX", qs[0], q)); }
    if rng.coin() { ops.push(format!("gate 1 {} T", qs[1])); }
    match rng.below(3) { 0 => ops.push(format!("reset {}", qs[0])), 1 => ops.push(format!("reset {}", qs[1])), _ => { ops.push(format!("reset {}", qs[0])); ops.push(format!("gate 1 {} H", qs[0])); ops.push(format!("reset {}", qs[0])); } }
    let cb: Vec<usize> = (0..nq).collect();
    ops.push(format!("measureall {} {} Z", cb.len(), join(&cb)));
    CircuitText { nq, nc: nq, ops }
}

/// The run under test preceded, on the same thread, by the FAILING execution of another circuit: the failure happens
/// inside a conditional operation (or a measurement) after 1-bits were written.  Nothing of it may leak into the next run.
fn run_after_failed_run(ct: &CircuitText, shots: usize, seed: u64, repr: &str) -> String
{
    let bad: Vec<CircuitText> = vec![
        // conditional gate with the wrong number of qubits: InvalidNrBits at run time, after the register holds ones
        CircuitText { nq: 2, nc: 3, ops: vec!["gate 1 0 X".into(), "gate 1 1 X".into(), "measureall 2 0 1 Z".into(), "cond 2 0 1 3 1 0 CX".into()] },
        // non-Clifford conditional gate forced onto the stabilizer representation
        CircuitText { nq: 2, nc: 3, ops: vec!["gate 1 0 X".into(), "measure 0 2 Z".into(), "measure 0 0 Z".into(), "cond 2 0 2 3 1 1 T".into()] },
        // unconditional gate with the wrong arity after measurements
        CircuitText { nq: 3, nc: 3, ops: vec!["gate 1 2 X".into(), "measureall 3 2 1 0 Z".into(), "gate 1 0 CX".into()] },
    ];
    for (i, b) in bad.iter().enumerate()
    {
        let _ = run_once(b, shots.max(4), seed ^ 0x5555, if i == 1 { "stabilizer" } else { "vector" });
    }
    run_once(ct, shots, seed, repr)
}

fn parse_ct(nq: usize, nc: usize, ops: &str) -> CircuitText
{
    CircuitText { nq, nc, ops: ops.split(" ; ").map(|s| s.to_string()).collect() }
}

fn main()
{
    let args: Vec<String> = std::env::args().collect();
    if args.len() >= 2 && args[1] == "--child"
    {
        // --child <nq> <nc> <shots> <seed> <repr> <ops…>
        let ct = parse_ct(args[2].parse().unwrap(), args[3].parse().unwrap(), &args[7]);
        println!("{}", run_once(&ct, args[4].parse().unwrap(), args[5].parse().unwrap(), &args[6]));
        return;
    }
    let dir = args.get(1).expect("usage: c10 <outdir>").clone();
    silence_panics();
    let mut rng = SplitMix64::from_env();
    let mut out = Out::new(&dir);
    let ncirc = if thorough() { 600 } else { 80 };
    let cfg_v = GenCfg { max_q: 4, max_c: 4, max_ops: 12, clifford: false, allow_peek: true, allow_reset: true,
        allow_reset_all: true, allow_cond: true, allow_measure_all: true, allow_combinators: true };
    let cfg_s = GenCfg { clifford: true, ..cfg_v };
    let me = std::env::current_exe().unwrap();
    // a Clifford circuit executed on the automatically chosen representation, then EXTENDED by conditional non-Clifford
    // gates and measurements only (no unconditional gate afterwards), then executed again: must equal the circuit built in
    // one go (the choice of representation may not be remembered from the first run)
    for i in 0..(if thorough() { 200 } else { 40 })
    {
        let mut ct = gen_circuit(&cfg_s, &mut rng);
        let k = ct.ops.len();
        let q = rng.below(ct.nq as u64) as usize;
        let cb = rng.below(ct.nc as u64) as usize;
        ct.ops.push(format!("measure {} {} Z", q, cb));
        let g = *rng.pick(&["T", "Tdg", "RX 3fe0000000000000", "RZ 3ff0000000000000"]);
        ct.ops.push(format!("cond 1 {} {} 1 {} {}", cb, rng.below(2), rng.below(ct.nq as u64), g));
        if rng.coin() { ct.ops.push(format!("cond 1 {} {} 1 {} {}", cb, rng.below(2), rng.below(ct.nq as u64), g)); }
        let all: Vec<usize> = (0..ct.nq).collect();
        if ct.nc >= ct.nq { ct.ops.push(format!("measureall {} {} Z", ct.nq, join(&all))); } else { ct.ops.push(format!("measure {} {} Z", q, cb)); }
        let shots = [3usize, 17, 64][i % 3];
        let seed = rng.next();
        let first = run_once(&ct, shots, seed, "auto");
        let r = run_on_used_object_ext(&ct, shots, seed, "auto", i % 2 == 0, false, None, Some(k));
        let kind = if first.starts_with("reg:") { "ran" } else { "failed" };
        out.case(&format!("repro | auto-extended | {} {} | {} | {} | {}", ct.nq, ct.nc, shots, seed, ct.ops.join(" ; ")),
            &if r == first { format!("same {}", kind) } else { format!("differs used-object-differs(executed-after-{}-ops-then-extended-by-conditional-gates)[{}|{}]", k, first, r) });
    }
    let nwide = if thorough() { 120 } else { 24 };
    let nreset = if thorough() { 120 } else { 24 };
    for i in 0..ncirc + nwide + nreset
    {
        let wide = i >= ncirc && i < ncirc + nwide;
        let (ct, repr) = if i >= ncirc + nwide { (gen_entangled_reset(&mut rng), ["vector", "auto", "stabilizer"][i % 3]) }
            else if wide { (gen_wide(&mut rng), ["vector", "auto"][i % 2]) }
            else if i % 2 == 0 { (gen_circuit(&cfg_v, &mut rng), "vector") } else { (gen_circuit(&cfg_s, &mut rng), ["stabilizer", "auto", "vector"][(i / 2) % 3]) };
        let shots = if wide { [2usize, 7, 40][i % 3] } else { [1usize, 5, 64, 300][i % 4] };
        let seed = rng.next();
        let first = run_once(&ct, shots, seed, repr);
        // consume the ambient generator, then run again
        let _: u64 = rand::thread_rng().gen();
        let _: [u8; 13] = rand::thread_rng().gen();
        let second = run_once(&ct, shots, seed, repr);
        let mut verdict = if first == second { String::new() } else { format!(" rerun-differs[{}|{}]", first, second) };
        // the same object after another history (same / different shot count, with / without a reexecute in between)
        if first.starts_with("reg:")
        {
            for (same_shots, reex) in [(true, false), (false, false), (true, true)].iter()
            {
                let r = run_on_used_object(&ct, shots, seed, repr, *same_shots, *reex);
                if r != first { verdict += &format!(" used-object-differs(same_shots={},reexecute={})[{}|{}]", same_shots, reex, first, r); break; }
            }
            // the earlier run used ANOTHER representation (a caller-chosen state vector before an automatic run, ...)
            for orep in ["vector", "auto", "stabilizer"].iter()
            {
                if *orep == repr { continue; }
                let r = run_on_used_object_ext(&ct, shots, seed, repr, true, false, Some(orep), None);
                if r != first { verdict += &format!(" used-object-differs(earlier-run-on={})[{}|{}]", orep, first, r); break; }
            }
            // the circuit was executed half-built, then completed
            for cut in [ct.ops.len() / 2, ct.ops.len().saturating_sub(1)].iter()
            {
                let r = run_on_used_object_ext(&ct, shots, seed, repr, true, false, None, Some(*cut));
                if r != first { verdict += &format!(" used-object-differs(executed-after-{}-ops-then-completed)[{}|{}]", cut, first, r); break; }
            }
        }
        // the same seeded run after FAILED executions of other circuits on this thread
        if first.starts_with("reg:") && (thorough() || i % 3 == 0)
        {
            let r = run_after_failed_run(&ct, shots, seed, repr);
            if r != first { verdict += &format!(" differs-after-failed-runs[{}|{}]", first, r); }
        }
        // 16 threads
        let handles: Vec<_> = (0..16).map(|t| { let ct = ct.clone(); let repr = repr.to_string();
            std::thread::spawn(move || { for _ in 0..t { let _: u32 = rand::thread_rng().gen(); } run_once(&ct, shots, seed, &repr) }) }).collect();
        for (t, h) in handles.into_iter().enumerate()
        {
            let r = h.join().unwrap_or_else(|_| "thread-panic".to_string());
            if r != first { verdict += &format!(" thread{}-differs[{}]", t, r); break; }
        }
        // separate process (every 4th circuit in quick mode)
        if thorough() || i % 4 == 0
        {
            let o = std::process::Command::new(&me).arg("--child").arg(ct.nq.to_string()).arg(ct.nc.to_string())
                .arg(shots.to_string()).arg(seed.to_string()).arg(repr).arg(ct.ops.join(" ; ")).output().expect("child");
            let r = String::from_utf8_lossy(&o.stdout).trim().to_string();
            if r != first { verdict += &format!(" process-differs[{}]", r); }
        }
        let kind = if first.starts_with("reg:") { "ran" } else { "failed" };
        out.case(&format!("repro | {} | {} {} | {} | {} | {}", repr, ct.nq, ct.nc, shots, seed, ct.ops.join(" ; ")),
            &if verdict.is_empty() { format!("same {}", kind) } else { format!("differs{}", verdict) });
    }
    // "the library draws randomness only from the generator it is handed": every operation with a random outcome must
    // DEPEND on that generator - with 12 different seeds and 256 shots the per-shot register cannot come out identical
    // 12 times (probability < 1e-12 for a fair outcome) unless it is drawn from somewhere else (or from nowhere)
    {
        let sens: Vec<(&str, CircuitText)> = vec![
            ("peek-then-measure", CircuitText { nq: 2, nc: 3, ops: vec!["gate 1 0 H".into(), "peek 0 0 Z".into(), "gate 1 1 X".into(), "measure 1 1 Z".into()] }),
            ("measure-then-peek", CircuitText { nq: 2, nc: 3, ops: vec!["gate 1 1 X".into(), "measure 1 1 Z".into(), "gate 1 0 H".into(), "peek 0 0 Z".into()] }),
            ("peek-with-reset", CircuitText { nq: 2, nc: 2, ops: vec!["gate 1 1 X".into(), "reset 1".into(), "gate 1 0 H".into(), "peek 0 0 Z".into(), "gate 1 0 S".into(), "peek 0 1 X".into()] }),
            ("peekall-then-measureall", CircuitText { nq: 2, nc: 4, ops: vec!["gate 1 0 H".into(), "gate 1 1 H".into(), "peekall 2 0 1 Z".into(), "gate 1 0 H".into(), "gate 1 1 H".into(), "measureall 2 2 3 Z".into()] }),
            ("measure", CircuitText { nq: 1, nc: 1, ops: vec!["gate 1 0 H".into(), "measure 0 0 Z".into()] }),
            ("measureall", CircuitText { nq: 2, nc: 2, ops: vec!["gate 1 0 H".into(), "gate 1 1 H".into(), "measureall 2 0 1 Z".into()] }),
            ("reset-entangled", CircuitText { nq: 2, nc: 2, ops: vec!["gate 1 0 H".into(), "gate 2 0 1 CX".into(), "reset 0".into(), "measure 1 1 Z".into()] }),
            ("peek-only", CircuitText { nq: 1, nc: 1, ops: vec!["gate 1 0 H".into(), "peek 0 0 Z".into()] }),
        ];
        for (name, ct) in sens.iter()
        {
            for repr in ["vector", "auto"].iter()
            {
                if *name == "reset-entangled" && *repr == "auto" { continue; }   // the stabilizer reset is forced (known finding D4)
                let regs: Vec<String> = (0..12u64).map(|k| { let r = run_once(ct, 256, 1000 + 7919 * k, repr); r.split(" rng:").next().unwrap_or("").to_string() }).collect();
                let all_same = regs.iter().all(|r| *r == regs[0]);
                out.case(&format!("depends-on-seed | {} | {} {} | 256 | 12 seeds | {}", repr, ct.nq, ct.nc, ct.ops.join(" ; ")),
                    &if all_same { format!("differs a-random-outcome-does-not-depend-on-the-supplied-generator[{}]: identical register for 12 different seeds", name) } else { "same ran".to_string() });
            }
        }
    }
    // RE-EXECUTION WITH A SUPPLIED GENERATOR: a circuit that begins with reset_all re-executes from |0...0> whatever the
    // previous run left, so the result of `reexecute_with_rng(seeded)` - register AND the number of words drawn - may depend
    // on that seeded generator only: not on the generator an EARLIER run of the same object was given (another seed, or the
    // ambient thread_rng of execute()), i.e. nothing random may be carried over inside the state object.
    {
        let cts: Vec<CircuitText> = vec![
            CircuitText { nq: 6, nc: 6, ops: vec!["resetall".into(), "gate 1 0 H".into(), "gate 1 1 H".into(), "gate 1 2 H".into(), "gate 1 3 H".into(), "gate 1 4 H".into(), "gate 1 5 H".into(),
                "measure 0 0 Z".into(), "measure 1 1 Z".into(), "measure 2 2 Z".into(), "measure 3 3 Z".into(), "measure 4 4 Z".into(), "measure 5 5 Z".into()] },
            CircuitText { nq: 3, nc: 3, ops: vec!["resetall".into(), "gate 1 0 H".into(), "gate 2 0 1 CX".into(), "measure 0 0 Z".into(), "gate 1 2 H".into(), "measure 2 2 X".into(), "measure 1 1 Z".into()] },
            CircuitText { nq: 2, nc: 2, ops: vec!["resetall".into(), "gate 1 0 H".into(), "gate 1 1 H".into(), "measureall 2 0 1 Z".into()] },
        ];
        for ct in cts.iter()
        {
            for repr in ["vector", "stabilizer", "auto"].iter()
            {
                for &shots in [1usize, 2, 5, 64].iter()
                {
                    let one = |first: Option<u64>| -> String {
                        let ctc = ct.clone(); let repr = repr.to_string();
                        std::panic::catch_unwind(move || {
                            let mut c = match build(&ctc) { Ok(c) => c, Err(e) => return format!("build-{}", show_err(&e).replace(' ', "_")) };
                            let r1 = match first
                            {
                                Some(sd) => { let mut g = rand_hc::Hc128Rng::seed_from_u64(sd);
                                    match repr.as_str() { "vector" => c.execute_with(shots, &mut g, q1tsim::circuit::QuStateRepr::vector(ctc.nq, shots)),
                                        "stabilizer" => c.execute_with(shots, &mut g, q1tsim::circuit::QuStateRepr::stabilizer(ctc.nq, shots)),
                                        _ => c.execute_with_rng(shots, &mut g) } },
                                None => { let mut g = rand::thread_rng();
                                    match repr.as_str() { "vector" => c.execute_with(shots, &mut g, q1tsim::circuit::QuStateRepr::vector(ctc.nq, shots)),
                                        "stabilizer" => c.execute_with(shots, &mut g, q1tsim::circuit::QuStateRepr::stabilizer(ctc.nq, shots)),
                                        _ => c.execute(shots) } }
                            };
                            if let Err(e) = r1 { return format!("first-run-{}", show_err(&e).replace(' ', "_")); }
                            let mut rng = Counting { inner: rand_hc::Hc128Rng::seed_from_u64(0xC10C10), words32: 0, words64: 0, bytes: 0 };
                            let mut acc = String::new();
                            for _ in 0..2
                            {
                                match c.reexecute_with_rng(&mut rng)
                                {
                                    Ok(()) => acc += &format!("reg:{} rng:{}/{}/{} ", join(&c.cstate().unwrap().to_vec()).replace(' ', ","), rng.words32, rng.words64, rng.bytes),
                                    Err(e) => { acc += &show_err(&e).replace(' ', "_"); break; }
                                }
                            }
                            acc
                        }).unwrap_or_else(|_| "panic".to_string()) };
                    let base = one(Some(1));
                    let mut verdict = String::new();
                    for first in [Some(2u64), Some(0xDEADBEEF), None, None].iter()
                    {
                        let r = one(*first);
                        if r != base { verdict = format!(" reexecution-depends-on-the-generator-of-the-earlier-run(first-run-seed={:?})[{}|{}]", first, base, r); break; }
                    }
                    out.case(&format!("reexec-seeded | {} | {} {} | {} | {}", repr, ct.nq, ct.nc, shots, ct.ops.join(" ; ")),
                        &if verdict.is_empty() { "same ran".to_string() } else { format!("differs{}", verdict) });
                }
            }
        }
    }
    let n = out.finish();
    eprintln!("c10: {} cases", n);
}

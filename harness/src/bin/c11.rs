//! C11: OpenQASM export.  Requests in the line protocol of lean/Driver/C11.lean:
//!
//!   circ <nq> <nc> | <op> | <op> …
//!   op   := g <term> @ <bits> | cg <target> <control…> : <term> @ <bits> | m <q> <c> <B> | ma <B> <cbits…>
//!         | pk <q> <c> <B> | pka <B> <cbits…> | r <q> | ra | b <qbits…>
//!   term := L <Name> <k> <param>*k | C <term> | K <term> <term> | Comp <name> <n> <k> { <term> <m> <bit>*m }*k
//!         | Loop <label> <iters> <name> <n> <k> { <term> <m> <bit>*m }*k
//!   param := d<hex f64> | r<name>:<hex f64>                (direct value / reference parameter with its current value)
//!
//! Every circuit is built through the public `Circuit` API and answered by `Circuit::open_qasm()`:
//! `ok <text, %-encoded>` | `err <constructor> <payload>` | `panic`.
use q1t_harness::gate::Dyn;
use q1t_harness::*;
use q1tsim::circuit::{Basis, Circuit};
use q1tsim::error::{Error, ExportError};
use q1tsim::export::CircuitGate;
use q1tsim::gates::*;
use std::panic::AssertUnwindSafe;

#[derive(Clone, Debug)]
enum P { Val(f64), Ref(String, f64) }
impl P
{
    fn text(&self) -> String
    {
        match self { P::Val(x) => format!("d{}", fbits(*x)), P::Ref(n, x) => format!("r{}:{}", n, fbits(*x)) }
    }
    fn val(&self) -> f64 { match self { P::Val(x) => *x, P::Ref(_, x) => *x } }
    fn param(&self) -> Parameter
    {
        match self
        {
            P::Val(x) => Parameter::from(*x),
            P::Ref(n, x) => Parameter::from_refcell(&std::rc::Rc::new(std::cell::RefCell::new(*x)), n)
        }
    }
}

#[derive(Clone, Debug)]
enum GT
{
    Lib(&'static str, Vec<P>),
    C(Box<GT>),
    Kron(Box<GT>, Box<GT>),
    Comp(String, usize, Vec<(GT, Vec<usize>)>),
    Loop(String, usize, Box<GT>)
}

/// (name, nr of parameters, nr of bits)
const LIB: &[(&str, usize, usize)] = &[
    ("H", 0, 1), ("X", 0, 1), ("Y", 0, 1), ("Z", 0, 1), ("S", 0, 1), ("Sdg", 0, 1), ("T", 0, 1), ("Tdg", 0, 1),
    ("V", 0, 1), ("Vdg", 0, 1), ("I", 0, 1), ("RX", 1, 1), ("RY", 1, 1), ("RZ", 1, 1), ("U1", 1, 1), ("U2", 2, 1),
    ("U3", 3, 1), ("CX", 0, 2), ("CY", 0, 2), ("CZ", 0, 2), ("Swap", 0, 2), ("CH", 0, 2), ("CRX", 1, 2),
    ("CRY", 1, 2), ("CRZ", 1, 2), ("CS", 0, 2), ("CSdg", 0, 2), ("CT", 0, 2), ("CTdg", 0, 2), ("CU1", 1, 2),
    ("CU2", 2, 2), ("CU3", 3, 2), ("CV", 0, 2), ("CVdg", 0, 2), ("CCRX", 1, 3), ("CCRY", 1, 3), ("CCRZ", 1, 3),
    ("CCX", 0, 3), ("CCZ", 0, 3)
];

fn lib_entry(name: &str) -> (usize, usize)
{
    let e = LIB.iter().find(|e| e.0 == name).unwrap();
    (e.1, e.2)
}

fn refs_allowed(name: &str) -> bool { !(name == "CU2" || name == "CU3") }

fn build_lib(name: &str, p: &[P]) -> Dyn
{
    let v = |i: usize| p[i].val();
    let b: Box<dyn CircuitGate> = match name
    {
        "H" => Box::new(H::new()), "X" => Box::new(X::new()), "Y" => Box::new(Y::new()),
        "Z" => Box::new(Z::new()), "S" => Box::new(S::new()), "Sdg" => Box::new(Sdg::new()),
        "T" => Box::new(T::new()), "Tdg" => Box::new(Tdg::new()), "V" => Box::new(V::new()),
        "Vdg" => Box::new(Vdg::new()), "I" => Box::new(I::new()),
        "RX" => Box::new(RX::new(p[0].param())), "RY" => Box::new(RY::new(p[0].param())),
        "RZ" => Box::new(RZ::new(p[0].param())), "U1" => Box::new(U1::new(p[0].param())),
        "U2" => Box::new(U2::new(p[0].param(), p[1].param())),
        "U3" => Box::new(U3::new(p[0].param(), p[1].param(), p[2].param())),
        "CX" => Box::new(CX::new()), "CY" => Box::new(CY::new()), "CZ" => Box::new(CZ::new()),
        "Swap" => Box::new(Swap::new()), "CH" => Box::new(CH::new()),
        "CRX" => Box::new(CRX::new(p[0].param())), "CRY" => Box::new(CRY::new(p[0].param())),
        "CRZ" => Box::new(CRZ::new(p[0].param())), "CS" => Box::new(CS::new()),
        "CSdg" => Box::new(CSdg::new()), "CT" => Box::new(CT::new()), "CTdg" => Box::new(CTdg::new()),
        "CU1" => Box::new(CU1::new(p[0].param())), "CU2" => Box::new(CU2::new(v(0), v(1))),
        "CU3" => Box::new(CU3::new(v(0), v(1), v(2))), "CV" => Box::new(CV::new()),
        "CVdg" => Box::new(CVdg::new()), "CCRX" => Box::new(CCRX::new(p[0].param())),
        "CCRY" => Box::new(CCRY::new(p[0].param())), "CCRZ" => Box::new(CCRZ::new(p[0].param())),
        "CCX" => Box::new(CCX::new()), "CCZ" => Box::new(CCZ::new()),
        _ => panic!("unknown library gate {}", name)
    };
    Dyn::Full(b)
}

impl GT
{
    fn nbits(&self) -> usize
    {
        match self
        {
            GT::Lib(n, _) => lib_entry(n).1,
            GT::C(g) => 1 + g.nbits(),
            GT::Kron(a, b) => a.nbits() + b.nbits(),
            GT::Comp(_, n, _) => *n,
            GT::Loop(_, _, b) => b.nbits()
        }
    }

    fn composite(&self) -> Composite
    {
        match self
        {
            GT::Comp(name, n, subs) => {
                let mut c = Composite::new(name, *n);
                for (g, bits) in subs { c.add_gate(g.build(), bits); }
                c
            },
            _ => panic!("composite() on non-composite")
        }
    }

    fn build(&self) -> Dyn
    {
        match self
        {
            GT::Lib(n, p) => build_lib(n, p),
            GT::C(g) => Dyn::Plain(std::rc::Rc::new(C::new(g.build()))),
            GT::Kron(a, b) => Dyn::Full(Box::new(Kron::new(a.build(), b.build()))),
            GT::Comp(..) => Dyn::Full(Box::new(self.composite())),
            GT::Loop(label, k, body) => Dyn::Full(Box::new(Loop::new(label, *k, body.composite())))
        }
    }

    fn ops_text(subs: &[(GT, Vec<usize>)]) -> String
    {
        let mut s = format!("{}", subs.len());
        for (g, bits) in subs { s += &format!(" {} {} {}", g.text(), bits.len(), join(bits)); }
        s.trim_end().to_string()
    }

    fn text(&self) -> String
    {
        match self
        {
            GT::Lib(n, p) => {
                let mut s = format!("L {} {}", n, p.len());
                for x in p { s += " "; s += &x.text(); }
                s
            },
            GT::C(g) => format!("C {}", g.text()),
            GT::Kron(a, b) => format!("K {} {}", a.text(), b.text()),
            GT::Comp(name, n, subs) => format!("Comp {} {} {}", name, n, GT::ops_text(subs)),
            GT::Loop(label, k, b) => match &**b {
                GT::Comp(name, n, subs) => format!("Loop {} {} {} {} {}", label, k, name, n, GT::ops_text(subs)),
                _ => panic!("loop body")
            }
        }
    }

    /// contains a generic `C<G>` (no OpenQASM translation)
    fn has_generic(&self) -> bool
    {
        match self
        {
            GT::Lib(..) => false,
            GT::C(_) => true,
            GT::Kron(a, b) => a.has_generic() || b.has_generic(),
            GT::Comp(_, _, subs) => subs.iter().any(|(g, _)| g.has_generic()),
            GT::Loop(_, _, b) => b.has_generic()
        }
    }
}

// ------------------------------------------------------------------------------------------
// generation

const PI: f64 = std::f64::consts::PI;
const ANGLES: &[f64] = &[0.0, PI / 2.0, -PI / 2.0, PI, -PI, 7.5, 1e-9, -0.3, 2.0 * PI + 0.25, PI / 4.0, 1.0, -12.75,
    0.1, 123456789.125, -1e-300, 1e15, -0.0, 2.5, -1.0, 3.0e-5, 1e22, 0.5, 1e21, -1e21, 1e-7, -1e-9, 5e-324, 0.30000000000000004];

fn gen_angle(rng: &mut SplitMix64) -> f64
{
    match rng.below(4) { 0 => (rng.unit() - 0.5) * 20.0, _ => *rng.pick(ANGLES) }
}

fn gen_params(rng: &mut SplitMix64, name: &str, k: usize, exotic: bool) -> Vec<P>
{
    (0..k).map(|_| {
        if refs_allowed(name) && rng.below(12) == 0
        {
            P::Ref(rng.pick(&["theta", "phi", "a1", "x", "lam_2"]).to_string(), gen_angle(rng))
        }
        else if exotic && rng.below(60) == 0 { P::Val(*rng.pick(&[std::f64::NAN, std::f64::INFINITY, std::f64::NEG_INFINITY, 1e300, 5e-324])) }
        else { P::Val(gen_angle(rng)) }
    }).collect()
}

fn gen_lib(rng: &mut SplitMix64, max_bits: usize, exotic: bool) -> GT
{
    loop
    {
        let e = rng.pick(LIB);
        if e.2 <= max_bits { return GT::Lib(e.0, gen_params(rng, e.0, e.1, exotic)); }
    }
}

fn placement(rng: &mut SplitMix64, n: usize, k: usize) -> Vec<usize>
{
    let mut v: Vec<usize> = (0..n).collect();
    rng.shuffle(&mut v);
    v.truncate(k);
    v
}

struct Cfg { exotic: bool, malformed: bool, generic: bool }

fn gen_comp(rng: &mut SplitMix64, max_bits: usize, depth: usize, cfg: &Cfg) -> GT
{
    let n = 1 + rng.below(max_bits as u64) as usize;
    let k = match rng.below(8) { 0 => 0, _ => 1 + rng.below(4) as usize };
    let mut subs = vec![];
    for _ in 0..k
    {
        let g = if depth == 0 { gen_lib(rng, n, cfg.exotic) } else { gen_gate(rng, n, depth - 1, cfg) };
        let mut bits = placement(rng, n, g.nbits());
        if cfg.malformed && rng.below(40) == 0 && !bits.is_empty() { bits[0] = n + rng.below(2) as usize; }
        if cfg.malformed && rng.below(40) == 0 { bits.pop(); }
        subs.push((g, bits));
    }
    GT::Comp(format!("g{}", rng.below(10)), n, subs)
}

fn gen_gate(rng: &mut SplitMix64, max_bits: usize, depth: usize, cfg: &Cfg) -> GT
{
    debug_assert!(max_bits >= 1);
    let r = rng.below(100);
    if depth == 0 || r < 60 { return gen_lib(rng, max_bits, cfg.exotic); }
    if r < 64 && max_bits >= 2 && cfg.generic { return GT::C(Box::new(gen_gate(rng, max_bits - 1, depth - 1, cfg))); }
    if r < 76 && max_bits >= 2
    {
        let a = gen_gate(rng, max_bits - 1, depth - 1, cfg);
        let b = gen_gate(rng, max_bits - a.nbits(), depth - 1, cfg);
        return GT::Kron(Box::new(a), Box::new(b));
    }
    if r < 90 { return gen_comp(rng, max_bits, depth - 1, cfg); }
    let iters = *rng.pick(&[0usize, 1, 2, 2, 3]);
    GT::Loop(format!("l{}", rng.below(10)), iters, Box::new(gen_comp(rng, max_bits, depth - 1, cfg)))
}

fn basis(rng: &mut SplitMix64) -> (Basis, &'static str)
{
    match rng.below(5) { 0 => (Basis::X, "X"), 1 => (Basis::Y, "Y"), _ => (Basis::Z, "Z") }
}

/// One operation: try to add it to the circuit; return its request text if the circuit accepted it.
fn gen_op(rng: &mut SplitMix64, c: &mut Circuit, nq: usize, nc: usize, depth: usize, cfg: &Cfg) -> Option<String>
{
    let r = rng.below(1000);
    if r < 450 || (r < 620 && nq > 0)
    {
        if nq == 0 { return None; }
        let g = gen_gate(rng, nq, depth, cfg);
        let mut bits = placement(rng, nq, g.nbits());
        if cfg.malformed
        {
            let m = rng.below(12);
            if m == 0 && !bits.is_empty() { bits.pop(); }
            else if m == 1 { bits.push(rng.below(nq as u64) as usize); }
            else if m == 2 && bits.len() >= 2 { bits[1] = bits[0]; }
            else if m == 3 { bits.clear(); }
        }
        if r < 450
        {
            c.add_gate(g.build(), &bits).ok().map(|_| format!("g {} @ {}", g.text(), join(&bits)).trim_end().to_string())
        }
        else
        {
            // mostly the whole register in some order (what OpenQASM can express), sometimes a part, sometimes nothing
            let control = match rng.below(10)
            {
                0 => vec![],
                1 => { let k = rng.below(nc as u64 + 1) as usize; placement(rng, nc, k) },
                2 if nc >= 2 => { let mut p = placement(rng, nc, nc); p[1] = p[0]; p },
                _ => placement(rng, nc, nc)
            };
            let width = control.len().max(1) as u64;
            let target = if rng.below(25) == 0 { (1u64 << width) + rng.below(4) } else { rng.below(1 << width) };
            c.add_conditional_gate(&control, target, g.build(), &bits).ok()
                .map(|_| format!("cg {} {} : {} @ {}", target, join(&control), g.text(), join(&bits)).trim_end().to_string())
        }
    }
    else if r < 760
    {
        if nq == 0 || nc == 0 { return None; }
        let (q, cb) = (rng.below(nq as u64) as usize, rng.below(nc as u64) as usize);
        let (b, bt) = basis(rng);
        c.measure_basis(q, cb, b).ok().map(|_| format!("m {} {} {}", q, cb, bt))
    }
    else if r < 810
    {
        if nc < nq && !cfg.malformed { return None; }
        if nc == 0 { return None; }
        let len = if cfg.malformed { match rng.below(4) { 0 => nq + 1, 1 => nq.saturating_sub(1), _ => nq } } else { nq };
        let cbits: Vec<usize> = if cfg.malformed && rng.coin() { (0..len).map(|_| rng.below(nc as u64) as usize).collect() }
            else if rng.coin() && len <= nc { (0..len).collect() } else if len <= nc { placement(rng, nc, len) } else { (0..len).map(|_| rng.below(nc as u64) as usize).collect() };
        let (b, bt) = basis(rng);
        c.measure_all_basis(&cbits, b).ok().map(|_| format!("ma {} {}", bt, join(&cbits)).trim_end().to_string())
    }
    else if r < 822
    {
        if nq == 0 || nc == 0 { return None; }
        let (q, cb) = (rng.below(nq as u64) as usize, rng.below(nc as u64) as usize);
        let (b, bt) = basis(rng);
        c.peek_basis(q, cb, b).ok().map(|_| format!("pk {} {} {}", q, cb, bt))
    }
    else if r < 830
    {
        if nc < nq || nc == 0 { return None; }
        let cbits = placement(rng, nc, nq);
        let (b, bt) = basis(rng);
        c.peek_all_basis(&cbits, b).ok().map(|_| format!("pka {} {}", bt, join(&cbits)).trim_end().to_string())
    }
    else if r < 900
    {
        if nq == 0 { return None; }
        let q = rng.below(nq as u64) as usize;
        c.reset(q).ok().map(|_| format!("r {}", q))
    }
    else if r < 930
    {
        if nq == 0 && !cfg.malformed { return None; }
        c.reset_all();
        Some("ra".to_string())
    }
    else
    {
        if nq == 0 { return None; }
        let k = if rng.below(3) == 0 { nq } else { 1 + rng.below(nq as u64) as usize };
        let mut qbits = if rng.coin() { (0..k).collect() } else { placement(rng, nq, k) };
        if cfg.malformed && rng.below(6) == 0 { qbits.push(qbits[0]); }
        if cfg.malformed && rng.below(6) == 0 { qbits.clear(); }
        c.barrier(&qbits).ok().map(|_| format!("b {}", join(&qbits)).trim_end().to_string())
    }
}

// ------------------------------------------------------------------------------------------
// answers

fn encode(s: &str) -> String { s.replace('%', "%25").replace('\n', "%0A").replace('\t', "%09") }

fn show_err(e: &Error) -> String
{
    match e
    {
        Error::InvalidNrBits(n, e, _) => format!("err InvalidNrBits {} {}", n, e),
        Error::ExportError(ExportError::NotImplemented(_, _)) => "err NotImplemented".to_string(),
        Error::ExportError(ExportError::ExportPeekInvalid(_)) => "err PeekInvalid".to_string(),
        Error::ExportError(ExportError::IncompleteConditionRegister) => "err IncompleteConditionRegister".to_string(),
        e => format!("err Other {}", format!("{:?}", e).replace(' ', "_"))
    }
}

fn answer(r: Option<Result<String, Error>>) -> String
{
    match r
    {
        None => "panic".to_string(),
        Some(Ok(t)) => format!("ok {}", encode(&t)),
        Some(Err(e)) => show_err(&e)
    }
}

fn run_circuit(out: &mut Out, nq: usize, nc: usize, c: &Circuit, ops: &[String])
{
    let mut req = format!("circ {} {}", nq, nc);
    for o in ops { req += " | "; req += o; }
    let r = catch(AssertUnwindSafe(|| c.open_qasm()));
    out.case(&req, &answer(r));
}

/// a circuit given as (op text, closure adding it); helper for the fixed cases
struct B { nq: usize, nc: usize, c: Circuit, ops: Vec<String> }
impl B
{
    fn new(nq: usize, nc: usize) -> B { B { nq, nc, c: Circuit::new(nq, nc), ops: vec![] } }
    fn g(mut self, g: &GT, bits: &[usize]) -> B
    {
        self.c.add_gate(g.build(), bits).expect("add_gate");
        self.ops.push(format!("g {} @ {}", g.text(), join(bits)).trim_end().to_string());
        self
    }
    fn cg(mut self, control: &[usize], target: u64, g: &GT, bits: &[usize]) -> B
    {
        self.c.add_conditional_gate(control, target, g.build(), bits).expect("add_conditional_gate");
        self.ops.push(format!("cg {} {} : {} @ {}", target, join(control), g.text(), join(bits)).trim_end().to_string());
        self
    }
    fn m(mut self, q: usize, cb: usize, b: Basis, bt: &str) -> B
    {
        self.c.measure_basis(q, cb, b).expect("measure");
        self.ops.push(format!("m {} {} {}", q, cb, bt));
        self
    }
    fn ma(mut self, cbits: &[usize], b: Basis, bt: &str) -> B
    {
        self.c.measure_all_basis(cbits, b).expect("measure_all");
        self.ops.push(format!("ma {} {}", bt, join(cbits)).trim_end().to_string());
        self
    }
    fn pk(mut self, q: usize, cb: usize) -> B
    {
        self.c.peek(q, cb).expect("peek");
        self.ops.push(format!("pk {} {} Z", q, cb));
        self
    }
    fn ra(mut self) -> B { self.c.reset_all(); self.ops.push("ra".to_string()); self }
    fn run(self, out: &mut Out) { run_circuit(out, self.nq, self.nc, &self.c, &self.ops); }
}

fn lib0(n: &'static str) -> GT { GT::Lib(n, vec![]) }
fn lib1(n: &'static str, x: f64) -> GT { GT::Lib(n, vec![P::Val(x)]) }

/// witnesses of every defect class and of every refusal, always generated first
fn fixed_cases(out: &mut Out)
{
    let h = lib0("H");
    // X / Y basis measurement: the rotation back is missing
    B::new(1, 1).m(0, 0, Basis::X, "X").run(out);
    B::new(1, 1).g(&h, &[0]).m(0, 0, Basis::Y, "Y").run(out);
    B::new(2, 2).g(&h, &[0]).ma(&[0, 1], Basis::X, "X").run(out);
    // conditional multi-statement translations
    B::new(2, 1).g(&lib0("X"), &[0]).cg(&[0], 1, &lib0("Swap"), &[0, 1]).run(out);
    B::new(2, 1).g(&lib0("X"), &[0]).cg(&[0], 1, &lib1("CRX", 1.0), &[0, 1]).run(out);
    B::new(3, 1).g(&lib0("X"), &[0]).g(&lib0("X"), &[1]).g(&h, &[2]).cg(&[0], 1, &lib0("CCZ"), &[0, 1, 2]).run(out);
    // gates that are not in qelib1
    B::new(2, 0).g(&lib0("CV"), &[0, 1]).run(out);
    B::new(2, 0).g(&lib0("CVdg"), &[1, 0]).run(out);
    B::new(2, 0).g(&GT::Lib("CU2", vec![P::Val(0.5), P::Val(-1.0)]), &[0, 1]).run(out);
    // empty control list
    B::new(1, 1).cg(&[], 1, &lib0("X"), &[0]).run(out);
    B::new(1, 1).cg(&[], 0, &lib0("X"), &[0]).run(out);
    // target word wider than the control list
    B::new(1, 1).cg(&[0], 2, &lib0("X"), &[0]).run(out);
    // reference parameters are exported by name
    B::new(1, 0).g(&GT::Lib("RX", vec![P::Ref("theta".into(), 0.5)]), &[0]).run(out);
    B::new(1, 0).g(&GT::Lib("RX", vec![P::Ref("pi".into(), 0.5)]), &[0]).run(out);
    // controlled U3: relative phase under the published qelib1 `cu3`
    B::new(2, 0).g(&h, &[0]).g(&GT::Lib("CU3", vec![P::Val(0.0), P::Val(1.0), P::Val(0.5)]), &[0, 1]).run(out);
    B::new(2, 0).g(&h, &[0]).g(&GT::Lib("CU3", vec![P::Val(1.0), P::Val(0.5), P::Val(-0.5)]), &[0, 1]).run(out);
    // empty statements
    B::new(1, 0).g(&GT::Comp("e".into(), 1, vec![]), &[0]).run(out);
    B::new(1, 0).g(&GT::Loop("l".into(), 0, Box::new(GT::Comp("e".into(), 1, vec![(h.clone(), vec![0])]))), &[0]).run(out);
    B::new(1, 1).cg(&[0], 0, &GT::Comp("e".into(), 1, vec![]), &[0]).run(out);
    // non-finite parameters
    B::new(1, 0).g(&lib1("RX", std::f64::NAN), &[0]).run(out);
    B::new(1, 0).g(&lib1("U1", std::f64::INFINITY), &[0]).run(out);
    // registers that are not declared
    B::new(0, 0).ra().run(out);
    // unchecked operand lists (D10/D11)
    B::new(2, 0).g(&h, &[]).run(out);
    B::new(2, 0).g(&h, &[0, 1]).run(out);
    B::new(3, 0).g(&lib0("CCZ"), &[0, 1]).run(out);
    B::new(2, 0).g(&lib0("CX"), &[0, 0]).run(out);
    B::new(3, 0).g(&lib0("CH"), &[0, 1, 2]).run(out);
    // refusals
    B::new(1, 1).pk(0, 0).run(out);
    B::new(1, 2).cg(&[0], 1, &lib0("X"), &[0]).run(out);
    B::new(1, 2).cg(&[0, 0], 1, &lib0("X"), &[0]).run(out);
    B::new(2, 0).g(&GT::C(Box::new(lib0("H"))), &[0, 1]).run(out);
    B::new(2, 0).g(&lib0("CX"), &[0]).run(out);
    // out-of-order control list: accepted, the condition word is permuted
    B::new(1, 2).g(&lib0("X"), &[0]).m(0, 1, Basis::Z, "Z").cg(&[1, 0], 1, &lib0("X"), &[0]).run(out);
    B::new(1, 2).g(&lib0("X"), &[0]).m(0, 1, Basis::Z, "Z").cg(&[1, 0], 2, &lib0("X"), &[0]).run(out);
}

/// every library gate: alone, conditional, inside a composite / a Kron / a loop, at every ordered placement
fn registry_cases(out: &mut Out, rng: &mut SplitMix64)
{
    for &(name, k, nb) in LIB
    {
        let reps = if k == 0 { 1 } else { 4 };
        for rep in 0..reps
        {
            let mut ps: Vec<P> = (0..k).map(|_| P::Val(gen_angle(rng))).collect();
            if rep == 1 { ps = (0..k).map(|i| P::Val(*rng.pick(&[-0.3, -PI / 2.0, -12.75, -1e-300][i % 4..]))).collect(); }
            let g = GT::Lib(name, ps);
            for nq in nb..=3
            {
                // all ordered placements
                let mut placements: Vec<Vec<usize>> = vec![vec![]];
                for _ in 0..nb
                {
                    let mut next = vec![];
                    for p in placements.iter() { for q in 0..nq { if !p.contains(&q) { let mut p2 = p.clone(); p2.push(q); next.push(p2); } } }
                    placements = next;
                }
                for bits in placements.iter()
                {
                    // plain, after some state preparation so that the action is visible
                    let mut b = B::new(nq, 0);
                    for q in 0..nq { b = b.g(&lib1("RY", 0.4 + q as f64), &[q]); }
                    b.g(&g, bits).run(out);
                    if rep == 0
                    {
                        // conditional on a one-bit register that reads 1
                        let mut b = B::new(nq, 1).g(&lib0("X"), &[0]).m(0, 0, Basis::Z, "Z");
                        for q in 0..nq { b = b.g(&lib1("RY", 0.4 + q as f64), &[q]); }
                        b.cg(&[0], 1, &g, bits).run(out);
                        // conditional on a two-bit register through a NON-identity permutation of it: b = 2 (only b[1] set);
                        // control [1, 0] reads bit 0 of the target from b[1]: target 1 fires, target 2 does not
                        for &target in &[1u64, 2u64]
                        {
                            let mut b = B::new(nq, 2).g(&lib0("X"), &[0]).m(0, 1, Basis::Z, "Z");
                            for q in 0..nq { b = b.g(&lib1("RY", 0.4 + q as f64), &[q]); }
                            b.cg(&[1, 0], target, &g, bits).run(out);
                        }
                        // the conditional overrides of the combinators: the gate inside a conditional composite, loop, Kron
                        {
                            let id: Vec<usize> = (0..nb).collect();
                            let prep = |nq: usize| { let mut b = B::new(nq, 1).g(&lib0("X"), &[0]).m(0, 0, Basis::Z, "Z");
                                for q in 0..nq { b = b.g(&lib1("RY", 0.4 + q as f64), &[q]); } b };
                            let comp = GT::Comp("c".into(), nb, vec![(lib0("H"), vec![0]), (g.clone(), id.clone())]);
                            prep(nq).cg(&[0], 1, &comp, bits).run(out);
                            let lp = GT::Loop("l".into(), 2, Box::new(GT::Comp("c".into(), nb, vec![(g.clone(), id.clone())])));
                            prep(nq).cg(&[0], 1, &lp, bits).run(out);
                            if nb < nq
                            {
                                let other = (0..nq).find(|q| !bits.contains(q)).unwrap();
                                let mut kb = bits.clone(); kb.push(other);
                                prep(nq).cg(&[0], 1, &GT::Kron(Box::new(g.clone()), Box::new(lib0("T"))), &kb).run(out);
                                let mut kb2 = vec![other]; kb2.extend(bits.iter().cloned());
                                prep(nq).cg(&[0], 0, &GT::Kron(Box::new(lib0("T")), Box::new(g.clone())), &kb2).run(out);
                            }
                        }
                        // inside a composite on permuted bits
                        let id: Vec<usize> = (0..nb).collect();
                        let comp = GT::Comp("c".into(), nb, vec![(lib0("H"), vec![0]), (g.clone(), id.clone())]);
                        B::new(nq, 0).g(&comp, bits).run(out);
                        // twice in a loop
                        let lp = GT::Loop("l".into(), 2, Box::new(GT::Comp("c".into(), nb, vec![(g.clone(), id.clone())])));
                        B::new(nq, 0).g(&lib1("RY", 0.7), &[bits[0]]).g(&lp, bits).run(out);
                        // in a Kron with a T gate
                        if nb < nq
                        {
                            let other = (0..nq).find(|q| !bits.contains(q)).unwrap();
                            let mut kb = bits.clone(); kb.push(other);
                            B::new(nq, 0).g(&lib0("H"), &[other]).g(&GT::Kron(Box::new(g.clone()), Box::new(lib0("T"))), &kb).run(out);
                        }
                    }
                }
            }
        }
    }
}

fn random_circuit(out: &mut Out, rng: &mut SplitMix64, max_q: usize, max_c: usize, max_ops: usize, depth: usize, cfg: &Cfg)
{
    let nq = if cfg.malformed && rng.below(10) == 0 { 0 } else { 1 + rng.below(max_q as u64) as usize };
    let nc = rng.below(max_c as u64 + 1) as usize;
    let mut c = Circuit::new(nq, nc);
    let nops = 1 + rng.below(max_ops as u64) as usize;
    let mut ops = vec![];
    for _ in 0..nops
    {
        if let Some(t) = gen_op(rng, &mut c, nq, nc, depth, cfg) { ops.push(t); }
    }
    run_circuit(out, nq, nc, &c, &ops);
}

fn main()
{
    let dir = std::env::args().nth(1).expect("output directory");
    silence_panics();
    let mut rng = SplitMix64::from_env();
    let mut out = Out::new(&dir);
    let big = thorough();
    fixed_cases(&mut out);
    registry_cases(&mut out, &mut rng);
    // small circuits: the exported program is run and compared with the circuit (B)
    let small = Cfg { exotic: false, malformed: false, generic: false };
    for _ in 0..(if big { 12000 } else { 1500 }) { random_circuit(&mut out, &mut rng, 3, 3, 6, 2, &small); }
    // larger circuits, nesting depth 3, exotic parameters, generic C<G>: token correspondence and well-formedness
    let large = Cfg { exotic: true, malformed: false, generic: true };
    for _ in 0..(if big { 12000 } else { 1500 }) { random_circuit(&mut out, &mut rng, 5, 4, 14, 3, &large); }
    // malformed operand lists
    let bad = Cfg { exotic: true, malformed: true, generic: true };
    for _ in 0..(if big { 3000 } else { 400 }) { random_circuit(&mut out, &mut rng, 4, 3, 6, 2, &bad); }
    let n = out.finish();
    eprintln!("c11: {} cases", n);
}

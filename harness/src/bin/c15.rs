//! C15: `Composite::from_string`.  Requests in the line protocol of lean/Driver/C15.lean.
//!
//!   g <name> <maxw> <text> | <parts>                       grammar-generated description with its structure
//!   m <name> <maxw> <text> | <class> | <expected answer>   malformed by construction: the documented error
//!   d <name> <maxw> <text>                                 an example of the documentation (must be accepted)
//!   x <name> <maxw> <text>                                 fixed corpus / mutated / garbage (no panic)
//!   k <name> <maxw> <text> | <parts>                       Clifford-only description: `conjugate()` of the built composite on
//!                                                          every Pauli string -> `conj <is_stabilizer> <w> ; r ; r ...`
//!   a <name> <maxw> <text> | <parts> | <vector> | <matrix>  ACTION of the built composite: `apply`, `apply_slice` on the vector
//!                                                          (2^w amplitudes), `apply_mat` on the 2^w x 2 matrix (row-major)
//!                                                          -> `act <w> | apply <re im>.. | slice <re im>.. | mat <re im>..`
//!   s <name> <maxw> <text> | <parts> | <input digits>      Clifford-only description in a circuit: X-prepared basis state, the
//!                                                          composite, then the inverses of the listed gates (added one by one,
//!                                                          in reverse) and measure_all, on the stabilizer and on the vector
//!                                                          backend -> `circ S <digits>:<count>,.. V <digits>:<count>,..`
//!
//! <text>, <name>, error payloads: '.'-separated hexadecimal code points ('-' for the empty string).
//! <parts>: `P <w0> <name> <wOpen> <nargs> {<cst> <wAfter>}* <nbits> {<w> <zeros> <val>}* <wEnd>` per part, blanks as
//! `w<hex>`, <cst> in prefix form (`L w t`, `B op a w b`, `N w a`, `F w1 f w2 a w3`, `P w1 a w2`).
//! Answer: `ok <width> <name> | ops <k> <name>[(<p>,..)]@<b>,.. ... | mat <n> <re im>...` (`mat -` if wider than <maxw>, `mat panic`), `err <ctor> <payload>`, `panic`.
//!
//! The sub-gate list of a `Composite` is observed through the hook `Composite::verif_ops` (every width) and `matrix()`
//! (width <= maxw).
use q1t_harness::*;
use q1tsim::error::ParseError;
use q1tsim::gates::{Composite, Gate};
use q1tsim::circuit::{Circuit, QuStateRepr};
use q1tsim::stabilizer::PauliOp;
use rand_core::SeedableRng;

fn hex(s: &str) -> String
{
    if s.is_empty() { return "-".to_string(); }
    s.chars().map(|c| format!("{:x}", c as u32)).collect::<Vec<_>>().join(".")
}

fn unhex(t: &str) -> String
{
    if t == "-" { String::new() } else {
        t.split('.').map(|h| std::char::from_u32(u32::from_str_radix(h, 16).unwrap()).unwrap()).collect() }
}

fn err_line(e: &ParseError) -> String
{
    match e
    {
        ParseError::UnknownGate(s) => format!("err unknownGate {}", hex(s)),
        ParseError::NoGateName(s) => format!("err noGateName {}", hex(s)),
        ParseError::InvalidNrArguments(a, x, s) => format!("err invalidNrArguments {} {} {}", a, x, hex(s)),
        ParseError::InvalidNrBits(a, x, s) => format!("err invalidNrBits {} {} {}", a, x, hex(s)),
        ParseError::InvalidArgument(s) => format!("err invalidArgument {}", hex(s)),
        ParseError::NoBits(s) => format!("err noBits {}", hex(s)),
        ParseError::InvalidBit(s) => format!("err invalidBit {}", hex(s)),
        ParseError::TrailingText(s) => format!("err trailingText {}", hex(s)),
        ParseError::UnclosedParentheses(s) => format!("err unclosedParentheses {}", hex(s)),
    }
}

/// One sub-gate as reported by the hook `Composite::verif_ops`: `<name>[(<p1>,<p2>…)]@<b0>,<b1>…` — the name is the
/// description up to its parameter list (hex), the parameters are the description's decimals (4 places).
fn op_token(desc: &str, bits: &[usize]) -> String
{
    let (nm, params) = match desc.find('(')
    {
        Some(i) => (&desc[..i], desc[i + 1..].trim_end_matches(')').split(',').map(|p| p.trim().to_string()).collect::<Vec<_>>()),
        None => (desc, vec![])
    };
    let ps = if params.is_empty() { String::new() } else { format!("({})", params.join(",")) };
    format!("{}{}@{}", hex(nm), ps, bits.iter().map(|b| b.to_string()).collect::<Vec<_>>().join(","))
}

/// Everything observable of a composite: width, name, sub-gate list (hook), matrix (width <= maxw).
fn observe(g: &Composite, maxw: usize) -> String
{
    let w = g.nr_affected_bits();
    let nm = g.description().to_string();
    let ops = g.verif_ops();
    let ops_s = ops.iter().map(|(d, b)| format!(" {}", op_token(d, b))).collect::<String>();
    let mat = if w > maxw { "-".to_string() } else {
        match catch(std::panic::AssertUnwindSafe(|| g.matrix()))
        {
            Some(m) => {
                let mut s = format!("{}", m.rows());
                for c in m.iter() { s += &format!(" {} {}", fbits(c.re), fbits(c.im)); }
                s
            },
            None => "panic".to_string()
        }
    };
    format!("ok {} {} | ops {}{} | mat {}", w, hex(&nm), ops.len(), ops_s, mat)
}

fn build(name: &str, text: &str) -> Option<Result<Composite, ParseError>>
{
    let (n, t) = (name.to_string(), text.to_string());
    catch(move || std::panic::AssertUnwindSafe(Composite::from_string(&n, &t))).map(|r| r.0)
}

fn show(r: &Option<Result<Composite, ParseError>>, maxw: usize) -> String
{
    match r
    {
        Some(Ok(g)) => catch(std::panic::AssertUnwindSafe(|| observe(g, maxw))).unwrap_or_else(|| "panic".to_string()),
        Some(Err(e)) => err_line(e),
        None => "panic".to_string()
    }
}

fn answer(name: &str, maxw: usize, text: &str) -> String { show(&build(name, text), maxw) }

// ---------------------------------------------------------------------------------------------
// argument expressions (concrete syntax with layout), as in c14.rs but of moderate magnitude

#[derive(Clone)]
enum Ast { Lit(String), Bin(char, Box<Ast>, Box<Ast>), Neg(Box<Ast>), App(&'static str, Box<Ast>) }

enum Cst
{
    L(String, String),
    B(char, Box<Cst>, String, Box<Cst>),
    N(String, Box<Cst>),
    F(String, &'static str, String, Box<Cst>, String),
    P(String, Box<Cst>, String)
}

const WS: [char; 19] = [' ', ' ', ' ', ' ', '\t', '\n', '\r', '\u{b}', '\u{c}', '\u{85}', '\u{a0}', '\u{1680}',
    '\u{2000}', '\u{200a}', '\u{2028}', '\u{2029}', '\u{202f}', '\u{205f}', '\u{3000}'];

fn ws(rng: &mut SplitMix64) -> String
{
    match rng.below(8)
    {
        0..=3 => String::new(),
        4..=5 => " ".to_string(),
        _ => { let n = 1 + rng.below(3); (0..n).map(|_| *rng.pick(&WS)).collect() }
    }
}

/// at least one blank
fn ws1(rng: &mut SplitMix64) -> String
{
    match rng.below(6)
    {
        0..=3 => " ".to_string(),
        _ => { let n = 1 + rng.below(3); (0..n).map(|_| *rng.pick(&WS)).collect() }
    }
}

fn digits(rng: &mut SplitMix64, n: u64) -> String { (0..n).map(|_| (b'0' + rng.below(10) as u8) as char).collect() }

fn literal(rng: &mut SplitMix64, ovf: bool) -> String
{
    match rng.below(16)
    {
        0..=2 => "pi".to_string(),
        3 => "0".to_string(),
        4..=7 => format!("{}", rng.below(13)),
        8 => if ovf { (*rng.pick(&["18446744073709551616", "99999999999999999999"])).to_string() } else { "2".to_string() },
        9..=11 => { let a = 1 + rng.below(1); let b = rng.below(4); format!("{}.{}", digits(rng, a), digits(rng, b)) },
        12 => { let b = 1 + rng.below(3); format!(".{}", digits(rng, b)) },
        13 => (*rng.pick(&["1.5707963267948966", "3.141592653589793", "0.7853981633974483", "4.7124", "1.5708", "6.283185307179586",
                           "0.1", "1.e0", "2.5E-1", "1.0e+1", "00.50", "1.", "12.566370614359172"])).to_string(),
        _ => { let e = *rng.pick(&["e", "E"]); let s = *rng.pick(&["", "+", "-"]);
               format!("{}.{}{}{}{}", rng.below(10), digits(rng, 2), e, s, rng.below(3)) }
    }
}

fn gen_ast(rng: &mut SplitMix64, depth: u32, ovf: bool) -> Ast
{
    if depth == 0 || rng.below(4) == 0 { return Ast::Lit(literal(rng, ovf)); }
    let sub = |rng: &mut SplitMix64| Box::new(gen_ast(rng, depth - 1, ovf));
    match rng.below(14)
    {
        0..=1 => Ast::Bin('+', sub(rng), sub(rng)),
        2..=3 => Ast::Bin('-', sub(rng), sub(rng)),
        4..=5 => Ast::Bin('*', sub(rng), sub(rng)),
        6..=7 => Ast::Bin('/', sub(rng), sub(rng)),
        8 => Ast::Bin('^', sub(rng), Box::new(Ast::Lit(format!("{}", rng.below(4))))),
        9..=10 => Ast::Neg(sub(rng)),
        11 => Ast::App(*rng.pick(&["sin", "cos", "sqrt"]), sub(rng)),
        12 => Ast::App(*rng.pick(&["tan", "ln"]), sub(rng)),
        _ => Ast::App("exp", Box::new(Ast::Lit(format!("{}.{}", rng.below(3), rng.below(10)))))
    }
}

fn level(a: &Ast) -> u32
{
    match a { Ast::Bin('+', _, _) | Ast::Bin('-', _, _) => 0, Ast::Bin('^', _, _) => 3, Ast::Bin(_, _, _) => 1, Ast::Neg(_) => 2, _ => 4 }
}

/// Conventional layout: minimal parentheses, random blanks, now and then a redundant pair of parentheses.
fn lay(a: &Ast, need: u32, rng: &mut SplitMix64) -> Cst
{
    if level(a) < need || rng.below(12) == 0
    {
        let w1 = ws(rng);
        let c = lay(a, 0, rng);
        return Cst::P(w1, Box::new(c), ws(rng));
    }
    match a
    {
        Ast::Lit(t) => Cst::L(ws(rng), t.clone()),
        Ast::Bin(op, x, y) => {
            let (l, r) = match op { '+' | '-' => (0, 1), '*' | '/' => (1, 2), _ => (4, 3) };
            let cx = lay(x, l, rng);
            let w = ws(rng);
            let cy = lay(y, r, rng);
            Cst::B(*op, Box::new(cx), w, Box::new(cy))
        },
        Ast::Neg(x) => { let w = ws(rng); Cst::N(w, Box::new(lay(x, 2, rng))) },
        Ast::App(f, x) => {
            let w1 = ws(rng); let w2 = ws(rng);
            let c = lay(x, 0, rng);
            Cst::F(w1, f, w2, Box::new(c), ws(rng))
        }
    }
}

fn flatten(c: &Cst, out: &mut String)
{
    match c
    {
        Cst::L(w, t) => { out.push_str(w); out.push_str(t); },
        Cst::B(op, x, w, y) => { flatten(x, out); out.push_str(w); out.push(*op); flatten(y, out); },
        Cst::N(w, x) => { out.push_str(w); out.push('-'); flatten(x, out); },
        Cst::F(w1, f, w2, x, w3) => { out.push_str(w1); out.push_str(f); out.push_str(w2); out.push('('); flatten(x, out); out.push_str(w3); out.push(')'); },
        Cst::P(w1, x, w2) => { out.push_str(w1); out.push('('); flatten(x, out); out.push_str(w2); out.push(')'); }
    }
}

fn wtok(w: &str) -> String { if w.is_empty() { "w".to_string() } else { format!("w{}", hex(w)) } }

fn ser(c: &Cst) -> String
{
    match c
    {
        Cst::L(w, t) => format!("L {} {}", wtok(w), t),
        Cst::B(op, x, w, y) => format!("B {} {} {} {}", op, ser(x), wtok(w), ser(y)),
        Cst::N(w, x) => format!("N {} {}", wtok(w), ser(x)),
        Cst::F(w1, f, w2, x, w3) => format!("F {} {} {} {} {}", wtok(w1), f, wtok(w2), ser(x), wtok(w3)),
        Cst::P(w1, x, w2) => format!("P {} {} {}", wtok(w1), ser(x), wtok(w2))
    }
}

// ---------------------------------------------------------------------------------------------
// sub-gate descriptions

/// The documented gate names with their numbers of parameters and qubits.
const GATES: [(&str, usize, usize); 39] = [
    ("ccrx", 1, 3), ("ccry", 1, 3), ("ccrz", 1, 3), ("ccx", 0, 3), ("ccz", 0, 3), ("ch", 0, 2), ("crx", 1, 2), ("cry", 1, 2),
    ("crz", 1, 2), ("cs", 0, 2), ("csdg", 0, 2), ("ct", 0, 2), ("ctdg", 0, 2), ("cu1", 1, 2), ("cu2", 2, 2), ("cu3", 3, 2),
    ("cv", 0, 2), ("cvdg", 0, 2), ("cx", 0, 2), ("cy", 0, 2), ("cz", 0, 2), ("h", 0, 1), ("i", 0, 1), ("rx", 1, 1), ("ry", 1, 1),
    ("rz", 1, 1), ("s", 0, 1), ("sdg", 0, 1), ("t", 0, 1), ("tdg", 0, 1), ("swap", 0, 2), ("u1", 1, 1), ("u2", 2, 1), ("u3", 3, 1),
    ("v", 0, 1), ("vdg", 0, 1), ("x", 0, 1), ("y", 0, 1), ("z", 0, 1)];

const UNKNOWN: [&str; 16] = ["foo", "hh", "xx", "cnot", "toffoli", "ccy", "cswap", "u", "rxx", "id", "h2", "sx", "c", "u4", "cccx", "measure"];

struct Part
{
    w0: String, name: String, w_open: String,
    args: Vec<(Cst, String)>,
    bits: Vec<(String, usize, String)>,      // blanks, zeros, decimal text of the index
    w_end: String
}

fn random_case(rng: &mut SplitMix64, s: &str) -> String
{
    s.chars().map(|c| if rng.coin() { c.to_ascii_uppercase() } else { c }).collect()
}

impl Part
{
    fn head(&self) -> String
    {
        let mut s = format!("{}{}", self.w0, self.name);
        if !self.args.is_empty()
        {
            s.push_str(&self.w_open);
            s.push('(');
            for (i, (c, w)) in self.args.iter().enumerate()
            {
                flatten(c, &mut s);
                s.push_str(w);
                s.push(if i + 1 == self.args.len() { ')' } else { ',' });
            }
        }
        s
    }
    /// text after the name up to and including argument `k`'s trailing blanks (no separator after it)
    fn args_upto(&self, k: usize) -> String
    {
        let mut s = format!("{}(", self.w_open);
        for (i, (c, w)) in self.args.iter().enumerate().take(k + 1)
        {
            flatten(c, &mut s);
            s.push_str(w);
            if i < k { s.push(','); }
        }
        s
    }
    fn bits_text(&self) -> String
    {
        self.bits.iter().map(|(w, z, v)| format!("{}{}{}", w, "0".repeat(*z), v)).collect()
    }
    fn render(&self) -> String { format!("{}{}{}", self.head(), self.bits_text(), self.w_end) }
    fn ser(&self) -> String
    {
        let mut s = format!("P {} {} {} {}", wtok(&self.w0), hex(&self.name), wtok(&self.w_open), self.args.len());
        for (c, w) in &self.args { s += &format!(" {} {}", ser(c), wtok(w)); }
        s += &format!(" {}", self.bits.len());
        for (w, z, v) in &self.bits { s += &format!(" {} {} {}", wtok(w), z, v); }
        s + &format!(" {}", wtok(&self.w_end))
    }
}

/// A sub-gate description: `name` as written, `nargs` generated arguments, the given qubit indices.
fn part(rng: &mut SplitMix64, name: &str, nargs: usize, idx: &[String], ovf: bool) -> Part
{
    let args: Vec<(Cst, String)> = (0..nargs).map(|_| {
        let d = rng.below(4) as u32;
        let a = gen_ast(rng, d, ovf);
        (lay(&a, 0, rng), ws(rng)) }).collect();
    let bits = idx.iter().enumerate().map(|(i, v)| {
        let w = if i == 0 && nargs > 0 { ws(rng) } else { ws1(rng) };
        let z = if rng.below(8) == 0 { 1 + rng.below(3) as usize } else { 0 };
        (w, z, v.clone()) }).collect();
    Part { w0: ws(rng), name: name.to_string(), w_open: ws(rng), args, bits, w_end: ws(rng) }
}

/// `k` qubit indices below `width`, distinct unless `dup`.
fn indices(rng: &mut SplitMix64, k: usize, width: usize, dup: bool) -> Vec<String>
{
    let mut all: Vec<usize> = (0..width.max(k)).collect();
    rng.shuffle(&mut all);
    let mut v: Vec<usize> = all[..k].to_vec();
    // now and then strictly descending (`CX 3 1`, `CCX 2 1 0`); otherwise a random order
    if rng.below(4) == 0 { v.sort(); v.reverse(); }
    if dup && k > 1 { v[1] = v[0]; }
    v.iter().map(|x| x.to_string()).collect()
}

fn known_part(rng: &mut SplitMix64, width: usize, which: Option<usize>, ovf: bool) -> Part
{
    let (key, na, nb) = GATES[which.unwrap_or_else(|| rng.below(GATES.len() as u64) as usize)];
    let idx = indices(rng, nb, width.max(nb), false);
    let name = random_case(rng, key);
    part(rng, &name, na, &idx, ovf)
}

fn join_parts(ps: &[String]) -> String { ps.join(";") }

const JUNK: [&str; 14] = ["x", "and something", "q[0]", "(1)", ",", ", 1", "-1", "=", "#", "\u{e9}", "]", ") 0", "H", "+"];
const NOSTART: [&str; 12] = ["", ")", "*", "/", "+", "^", "abc", "x", "P", "\u{e9}", "]", "="];
const GARBAGE: [&str; 44] = ["0", "1", "2", "9", ".", "e", "+", "-", "*", "/", "^", "(", ")", " ", "  ", "\t", "\n", "pi", "sin", "sqrt",
    "x", ",", ";", ";", "\u{a0}", "\u{2003}", "\u{661}", "\u{ff13}", "\u{e9}", "\u{200b}", "\u{17f}", "\u{212a}", "1.5", "H", "h", "cx", "CX",
    "rx", "RX(", "u3", "18446744073709551615", "18446744073709551616", "00", "Q"];

// ---------------------------------------------------------------------------------------------
// the action of a composite built by from_string

fn show_c(v: &[num_complex::Complex64]) -> String
{
    v.iter().map(|c| format!("{} {}", fbits(c.re), fbits(c.im))).collect::<Vec<_>>().join(" ")
}

fn rand_c(rng: &mut SplitMix64, n: usize) -> Vec<num_complex::Complex64>
{
    (0..n).map(|_| num_complex::Complex64::new(rng.unit() - 0.5, rng.unit() - 0.5)).collect()
}

fn action_answer(name: &str, text: &str, v: &[num_complex::Complex64], m: &[num_complex::Complex64]) -> String
{
    match build(name, text)
    {
        Some(Ok(g)) => {
            let w = g.nr_affected_bits();
            let dim = 1usize << w;
            if v.len() != dim { return format!("act {} | state-of-wrong-size", w); }
            let a1 = catch(std::panic::AssertUnwindSafe(|| { let mut a = ndarray::Array1::from_vec(v.to_vec()); g.apply(&mut a); show_c(&a.to_vec()) }));
            let a2 = catch(std::panic::AssertUnwindSafe(|| { let mut a = ndarray::Array1::from_vec(v.to_vec()); g.apply_slice(a.view_mut()); show_c(&a.to_vec()) }));
            let a3 = catch(std::panic::AssertUnwindSafe(|| {
                let mut a = ndarray::Array2::from_shape_vec((dim, 2), m.to_vec()).unwrap();
                g.apply_mat(&mut a);
                show_c(&a.iter().cloned().collect::<Vec<_>>()) }));
            let p = || "panic".to_string();
            format!("act {} | apply {} | slice {} | mat {}", w, a1.unwrap_or_else(p), a2.unwrap_or_else(p), a3.unwrap_or_else(p))
        },
        Some(Err(e)) => err_line(&e),
        None => "panic".to_string()
    }
}

fn gate_index(key: &str) -> usize { GATES.iter().position(|g| g.0 == key).unwrap() }

/// A documented gate `key` on the given qubits (random letter case, generated arguments, random layout).
fn keyed_part(rng: &mut SplitMix64, key: &str, bits: &[usize]) -> Part
{
    let (_, na, _) = GATES[gate_index(key)];
    let nm = random_case(rng, key);
    let idx: Vec<String> = bits.iter().map(|b| b.to_string()).collect();
    part(rng, &nm, na, &idx, false)
}

fn lit(t: &str) -> Cst { Cst::L(String::new(), t.to_string()) }

/// `[pi/2 *] base ^ exponent` with a whole exponent at and beyond the i32 range.
fn big_power(rng: &mut SplitMix64) -> Cst
{
    let base = match rng.below(7)
    {
        0 => Cst::P(ws(rng), Box::new(Cst::N(String::new(), Box::new(lit("1")))), String::new()),
        1 => Cst::P(String::new(), Box::new(Cst::B('-', Box::new(lit("0")), ws(rng), Box::new(lit("1")))), String::new()),
        2 => Cst::P(String::new(), Box::new(Cst::B('+', Box::new(lit("1")), String::new(), Box::new(lit("1.0e-10")))), ws(rng)),
        3 => Cst::P(String::new(), Box::new(Cst::B('-', Box::new(lit("1")), String::new(), Box::new(lit("1.0e-10")))), String::new()),
        4 => Cst::L(ws(rng), "0.999999".to_string()),
        5 => Cst::L(ws(rng), "1.0000001".to_string()),
        _ => Cst::P(String::new(), Box::new(Cst::B('-', Box::new(lit("1.e-9")), String::new(), Box::new(lit("1")))), String::new())
    };
    let e = *rng.pick(&["2147483646", "2147483647", "2147483648", "2147483649", "4294967295", "4294967296", "4294967297",
                        "10000000000", "1.e10", "1.0e11", "100000000001.", "2147483648.", "9007199254740992", "3000000000"]);
    let exp = if rng.below(3) == 0 { Cst::P(ws(rng), Box::new(Cst::N(ws(rng), Box::new(lit(e)))), String::new()) } else { Cst::L(ws(rng), e.to_string()) };
    let pow = Cst::B('^', Box::new(base), ws(rng), Box::new(exp));
    match rng.below(3)
    {
        0 => pow,
        1 => Cst::B('*', Box::new(Cst::B('/', Box::new(Cst::L(ws(rng), "pi".to_string())), String::new(), Box::new(lit("2")))), ws(rng), Box::new(pow)),
        _ => Cst::B('*', Box::new(lit("1.e-3")), ws(rng), Box::new(pow))
    }
}

// ---------------------------------------------------------------------------------------------
// the stabilizer route of a composite built by from_string

const PAULI: [PauliOp; 4] = [PauliOp::I, PauliOp::Z, PauliOp::X, PauliOp::Y];

/// The gates that claim to be stabilizer gates, with their number of qubits and their inverse.
const CLIFF: [(&str, usize, &str); 13] = [("h", 1, "h"), ("x", 1, "x"), ("y", 1, "y"), ("z", 1, "z"), ("s", 1, "sdg"), ("sdg", 1, "s"),
    ("v", 1, "vdg"), ("vdg", 1, "v"), ("i", 1, "i"), ("cx", 2, "cx"), ("cy", 2, "cy"), ("cz", 2, "cz"), ("swap", 2, "swap")];

fn show_qerr(e: &q1tsim::error::Error) -> String { q1t_harness::sim::show_err(e).replace('|', "/").replace(';', ",") }

fn conj_one(g: &Composite, digits: &[usize]) -> String
{
    let mut v: Vec<PauliOp> = digits.iter().map(|&d| PAULI[d]).collect();
    match std::panic::catch_unwind(std::panic::AssertUnwindSafe(|| g.conjugate(&mut v)))
    {
        Ok(Ok(flip)) => format!("ok {} {}", flip as u8, join(&v.iter().map(|o| o.to_bits()).collect::<Vec<_>>())).trim_end().to_string(),
        Ok(Err(e)) => show_qerr(&e),
        Err(_) => "panic".to_string()
    }
}

/// `conjugate()` on all 4^w Pauli strings (first qubit = most significant digit; digits I Z X Y = 0 1 2 3).
fn conj_answer(name: &str, text: &str) -> String
{
    match build(name, text)
    {
        Some(Ok(g)) => {
            let w = g.nr_affected_bits();
            let mut parts = vec![format!("conj {} {}", g.is_stabilizer(), w)];
            for code in 0..4usize.pow(w as u32)
            {
                let digits: Vec<usize> = (0..w).map(|p| (code / 4usize.pow((w - 1 - p) as u32)) % 4).collect();
                parts.push(conj_one(&g, &digits));
            }
            parts.join(" ; ")
        },
        Some(Err(e)) => err_line(&e),
        None => "panic".to_string()
    }
}

fn add_named(c: &mut Circuit, key: &str, bits: &[usize]) -> q1tsim::error::Result<()>
{
    use q1tsim::gates::*;
    match key
    {
        "h" => c.add_gate(H::new(), bits), "x" => c.add_gate(X::new(), bits), "y" => c.add_gate(Y::new(), bits),
        "z" => c.add_gate(Z::new(), bits), "s" => c.add_gate(S::new(), bits), "sdg" => c.add_gate(Sdg::new(), bits),
        "v" => c.add_gate(V::new(), bits), "vdg" => c.add_gate(Vdg::new(), bits), "i" => c.add_gate(I::new(), bits),
        "cx" => c.add_gate(CX::new(), bits), "cy" => c.add_gate(CY::new(), bits), "cz" => c.add_gate(CZ::new(), bits),
        _ => c.add_gate(Swap::new(), bits)
    }
}

/// |input> ; composite ; inverses of the listed gates in reverse order ; measure_all — on one backend.
fn circuit_run(g: &Composite, gates: &[(&'static str, Vec<usize>)], input: &[usize], stab: bool, seed: u64) -> String
{
    let w = g.nr_affected_bits();
    let shots = 8;
    let r = std::panic::catch_unwind(std::panic::AssertUnwindSafe(|| -> q1tsim::error::Result<String> {
        let mut c = Circuit::new(w, w);
        for (q, &b) in input.iter().enumerate() { if b == 1 { c.x(q)?; } }
        let all: Vec<usize> = (0..w).collect();
        c.add_gate(g.clone(), &all)?;
        for (key, bits) in gates.iter().rev()
        {
            let inv = CLIFF.iter().find(|e| e.0 == *key).unwrap().2;
            add_named(&mut c, inv, bits)?;
        }
        c.measure_all(&all)?;
        let mut rng = rand_hc::Hc128Rng::seed_from_u64(seed);
        let repr = if stab { QuStateRepr::stabilizer(w, shots) } else { QuStateRepr::vector(w, shots) };
        c.execute_with(shots, &mut rng, repr)?;
        let mut h: Vec<(u64, usize)> = c.histogram()?.iter().map(|(k, v)| (*k, *v)).collect();
        h.sort();
        Ok(h.iter().map(|(k, v)| format!("{}:{}", (0..w).map(|q| ((k >> q) & 1).to_string()).collect::<String>(), v)).collect::<Vec<_>>().join(","))
    }));
    match r { Ok(Ok(s)) => s, Ok(Err(e)) => show_qerr(&e).replace(' ', "_"), Err(_) => "panic".to_string() }
}

fn main()
{
    let dir = std::env::args().nth(1).expect("usage: c15 <outdir> [replay <request line>]");
    silence_panics();
    let mut rng = SplitMix64::from_env();
    let mut out = Out::new(&dir);
    if std::env::args().nth(2).as_deref() == Some("replay")
    {
        let req = std::env::args().nth(3).expect("replay needs the request line");
        let f: Vec<&str> = req.split_whitespace().collect();
        let (name, maxw, text) = (unhex(f[1]), f[2].parse::<usize>().unwrap(), unhex(f[3]));
        out.case(&req, &answer(&name, maxw, &text));
        out.finish();
        return;
    }
    let scale: u64 = if thorough() { 8 } else { 1 };
    let maxw: usize = if thorough() { 5 } else { 4 };
    let names = ["G", "my_gate", "Inc3", "\u{dc}b er", ""];

    // documentation examples
    for s in ["H 1; CX 0 1; H 1", "RY(4.7124) 1; CX 1 0; RY(1.5708) 1; X1"]
    {
        out.case(&format!("d {} {} {}", hex("G"), maxw, hex(s)), &answer("G", maxw, s));
    }
    // a parameter written as an integer literal >= 2^64 (finding C15-arg-int-literal-overflow), with its structure
    {
        let s = "U1(18446744073709551616) 0";
        out.case(&format!("g {} {} {} | P w {} w 1 L w 18446744073709551616 w 1 w20 0 0 w", hex("G"), maxw, hex(s), hex("U1")), &answer("G", maxw, s));
    }
    // fixed corpus: strings of the test-suite and edge cases
    for s in ["CCX 2 1 0; CX 2 1; X 2", "U3(3.141592653589793,1.570796326794897,1.570796326794897) 0", "XYZ 0", "X 1; 0",
              "RX(1.2, 3.4) 1", "H 0 1", "RX(abc) 1", "U1(12897231928172918729136192817936) 0", "H 0; X", "H 117356715625188271521875",
              "H 0 and something", "RX(1.2a) 1", "RX(1.2*(1+2 1", "RX(sin(1.2 1", "", " ", ";", "H 0;", ";H 0", "H 0;;X 0", "H0", "h \u{663}",
              "h 1\u{663}", "CX 0 0", "CCX 0 1 0", "\u{17f} 0", "\u{212a} 0", "H 18446744073709551615", "H 18446744073709551614",
              "foo 18446744073709551615", "H 18446744073709551616", "H 0018446744073709551615", "H 00000000000000000000001",
              "rx(1,2) 0 1", "foo(1) 0 1 2", "H 0 ;X 00001", "U1(18446744073709551616) 0", "U1(18446744073709551616.) 0", "H(", "H()", "H(1", "H(1,)",
              "RX (pi) 0", "RX(pi)0", "RX(pi)0 1", "rx(2^-1) 0", "rx(--1) 0", "rx(1e5) 0", "rx(1.e5) 0", "rx(1/0) 0", "rx(0/0) 0", "rx(ln(0)) 0",
              "rx(sqrt(-1)) 0", "H\u{a0}0", "H\u{200b}0", "H 0\u{3000}", "\u{feff}H 0", "H 0\u{0}", "x 0;y 0;z 0;h 0;s 0;sdg 0;t 0;tdg 0;v 0;vdg 0;i 0",
              "SWAP 0 1; Swap 1 0", "h 0 ; cX 0 1 ; CcX 0 1 2", "u2(0,pi) 0", "U2 (0 , pi ) 0", "u3(pi/2,0,pi)0", "cu3(1,2,3)0 1", "H 40", "H 7; X 3",
              "H +1", "H -1", "H 1.5", "H 1e3", "H 0x10", "H 1_000", "RX(1)(2) 0", "RX((1)) 0", "RX(1;2) 0", "RX(1,;2) 0", "H 0 ; ; X 0",
              "ccrx(pi) 0 1 2; ccry(pi) 0 1 2; ccrz(pi) 0 1 2; ccz 0 1 2", "crx(1)0 1;cry(1)0 1;crz(1)0 1;cu1(1)0 1;cu2(1,2)0 1",
              "ch 0 1;cs 0 1;csdg 0 1;ct 0 1;ctdg 0 1;cv 0 1;cvdg 0 1;cy 0 1;cz 0 1"]
    {
        let nm = *rng.pick(&names);
        out.case(&format!("x {} {} {}", hex(nm), maxw, hex(s)), &answer(nm, maxw, s));
    }

    // every documented name, alone, in random letter case
    for rep in 0..(3 * scale as usize)
    {
        for k in 0..GATES.len()
        {
            let p = known_part(&mut rng, if rep % 2 == 0 { 3 } else { 4 }, Some(k), false);
            let s = p.render();
            out.case(&format!("g {} {} {} | {}", hex("G"), maxw, hex(&s), p.ser()), &answer("G", maxw, &s));
        }
    }

    // parameter order: the gates with several parameters, alone, with clearly different parameter values
    for rep in 0..(4 * scale as usize)
    {
        for key in ["u2", "u3", "cu2", "cu3"]
        {
            let k = GATES.iter().position(|g| g.0 == key).unwrap();
            let mut p = known_part(&mut rng, 2, Some(k), false);
            let mut vals = vec!["0.3", "1.1", "2.5", "pi/3", "-0.7", "4"];
            rng.shuffle(&mut vals);
            for (i, a) in p.args.iter_mut().enumerate()
            {
                let t = vals[i];
                a.0 = if let Some(r) = t.strip_prefix('-') { Cst::N(ws(&mut rng), Box::new(Cst::L(String::new(), r.to_string()))) }
                      else if t == "pi/3" { Cst::B('/', Box::new(Cst::L(ws(&mut rng), "pi".to_string())), ws(&mut rng), Box::new(Cst::L(ws(&mut rng), "3".to_string()))) }
                      else { Cst::L(ws(&mut rng), t.to_string()) };
            }
            let _ = rep;
            let s = p.render();
            out.case(&format!("g {} {} {} | {}", hex("G"), maxw, hex(&s), p.ser()), &answer("G", maxw, &s));
        }
    }

    // grammar-generated descriptions: 1..6 parts
    let ngen = 800 * scale;
    let mut history: Vec<(String, String, String)> = vec![];      // (request line, name, text) of earlier cases
    for i in 0..ngen
    {
        let nparts = 1 + (i % 6) as usize;
        let place = i % 4 == 3 && nparts >= 2;
        let width = if place { 1 + rng.below(maxw as u64 - 1) as usize } else { 1 + rng.below(maxw as u64) as usize };
        let ovf = rng.below(25) == 0;
        let mut ps: Vec<Part> = (0..nparts).map(|_| known_part(&mut rng, width, None, ovf)).collect();
        if place
        {
            // the highest index occurs exactly once: in the first / a middle / the last part (cycling), at a random position
            // of that part's qubit list
            let top = ps.iter().flat_map(|p| p.bits.iter().map(|b| b.2.parse::<usize>().unwrap())).max().unwrap() + 1;
            let j = match (i / 4) % 3 { 0 => 0, 1 => nparts / 2, _ => nparts - 1 };
            let k = rng.below(ps[j].bits.len() as u64) as usize;
            ps[j].bits[k].2 = top.to_string();
        }
        else
        {
            match rng.below(30)
            {
                0 => { // repeated qubit within one sub-gate
                    let j = rng.below(nparts as u64) as usize;
                    if ps[j].bits.len() > 1 { let v = ps[j].bits[0].2.clone(); ps[j].bits[1].2 = v; }
                },
                1 | 2 => { // a large index: wider than any matrix we take
                    let j = rng.below(nparts as u64) as usize;
                    ps[j].bits[0].2 = (*rng.pick(&["7", "12", "40", "63", "64", "1000000", "4294967296", "18446744073709551614"])).to_string();
                },
                3 => { // usize::MAX: no width; beyond: not an index
                    let j = rng.below(nparts as u64) as usize;
                    ps[j].bits[0].2 = (*rng.pick(&["18446744073709551615", "18446744073709551616", "117356715625188271521875"])).to_string();
                },
                _ => {}
            }
        }
        let s = join_parts(&ps.iter().map(|p| p.render()).collect::<Vec<_>>());
        let nm = *rng.pick(&names);
        let st = ps.iter().map(|p| p.ser()).collect::<Vec<_>>().join(" ");
        let req = format!("g {} {} {} | {}", hex(nm), maxw, hex(&s), st);
        if i % 8 == 5 && !history.is_empty()
        {
            // object histories: build an earlier description, then this one under the SAME name while the first object is
            // alive, then the earlier one again; observe all three afterwards (nothing may leak between the calls)
            let (req0, _, text0) = rng.pick(&history).clone();
            let a = build(nm, &text0);
            let b = build(nm, &s);
            let c = build(nm, &text0);
            // the earlier request line carries its own name: re-answer it under that name only if it is the same name
            let req0n = { let mut f: Vec<&str> = req0.splitn(3, ' ').collect(); let h = hex(nm); f[1] = &h; f.join(" ") };
            out.case(&req0n, &show(&a, maxw));
            out.case(&req, &show(&b, maxw));
            out.case(&req0n, &show(&c, maxw));
        }
        else
        {
            out.case(&req, &answer(nm, maxw, &s));
        }
        if history.len() < 64 { history.push((req, nm.to_string(), s)); } else { let k = rng.below(64) as usize; history[k] = (req, nm.to_string(), s); }
    }

    // argument expressions with whole exponents at and beyond the i32 range
    for _ in 0..(48 * scale)
    {
        let key = *rng.pick(&["rx", "ry", "rz", "u1", "crz", "u3", "cu1"]);
        let nb = GATES[gate_index(key)].2;
        let ix: Vec<usize> = indices(&mut rng, nb, 2, false).iter().map(|x| x.parse().unwrap()).collect();
        let mut p = keyed_part(&mut rng, key, &ix);
        let k = rng.below(p.args.len() as u64) as usize;
        p.args[k].0 = big_power(&mut rng);
        let s = p.render();
        out.case(&format!("g {} {} {} | {}", hex("G"), maxw, hex(&s), p.ser()), &answer("G", maxw, &s));
    }

    // ACTION of the built composite (apply / apply_slice / apply_mat on random states): consecutive sub-gates on the same
    // qubit SET in different orders (CX 0 1; CX 1 0; CX 0 1 ...), mixed with other gates, on 2..4 qubits
    let nact = 110 * scale;
    for i in 0..nact
    {
        let w = 2 + (i % 3) as usize;
        let mut ps: Vec<Part> = vec![];
        if rng.below(3) == 0 { ps.push(known_part(&mut rng, w, None, false)); }
        let runs = 1 + rng.below(2);
        for _ in 0..runs
        {
            let three = w >= 3 && rng.below(3) == 0;
            let mut set: Vec<usize> = (0..w).collect();
            rng.shuffle(&mut set);
            set.truncate(if three { 3 } else { 2 });
            let fam: &[&str] = if three { &["ccx", "ccz", "ccrz", "ccrx", "ccx"] } else { &["cx", "cy", "cz", "swap", "crz", "crx", "ch", "cu1", "cx", "cy", "cv"] };
            let len = 2 + rng.below(3) as usize;
            let same_gate = rng.coin();
            let k0 = *rng.pick(fam);
            for j in 0..len
            {
                // alternate the operand order: reversed on odd positions, sometimes a random permutation
                let mut bits = set.clone();
                if j % 2 == 1 { bits.reverse(); } else if j > 0 && rng.below(3) == 0 { rng.shuffle(&mut bits); }
                let key = if same_gate { k0 } else { *rng.pick(fam) };
                ps.push(keyed_part(&mut rng, key, &bits));
            }
            if rng.below(4) == 0 { ps.push(known_part(&mut rng, w, None, false)); }
        }
        // the register must cover qubit w-1 so that all widths occur
        if rng.coin() { let q = w - 1; ps.push(keyed_part(&mut rng, "h", &[q])); }
        let s = join_parts(&ps.iter().map(|p| p.render()).collect::<Vec<_>>());
        let st = ps.iter().map(|p| p.ser()).collect::<Vec<_>>().join(" ");
        let wd = 1 + ps.iter().flat_map(|p| p.bits.iter().map(|b| b.2.parse::<usize>().unwrap())).max().unwrap();
        let v = rand_c(&mut rng, 1 << wd);
        let m = rand_c(&mut rng, 2 << wd);
        out.case(&format!("a {} {} {} | {} | {} | {}", hex("G"), maxw, hex(&s), st, show_c(&v), show_c(&m)), &action_answer("G", &s, &v, &m));
    }

    // Clifford-only descriptions on the stabilizer route: conjugate() on every Pauli string, and one circuit each
    let ncl = 120 * scale;
    for i in 0..ncl
    {
        let nparts = 1 + (i % 4) as usize;
        let w = 2 + rng.below(3) as usize;                      // 2..4 qubits
        let mut gates: Vec<(&'static str, Vec<usize>)> = vec![];
        for j in 0..nparts
        {
            // the first part is a two-qubit gate whose operand placement cycles: ascending / descending neighbours,
            // ascending / descending non-neighbours; the other parts are random
            let two = j == 0 || rng.below(3) != 0;
            if two
            {
                let key = *rng.pick(&["cx", "cy", "cz", "swap", "cx", "cy"]);
                let (a, b) = if j == 0 {
                    match (i / 4) % 4
                    {
                        0 => { let q = rng.below(w as u64 - 1) as usize; (q, q + 1) },
                        1 => { let q = rng.below(w as u64 - 1) as usize; (q + 1, q) },
                        2 => if w > 2 { let q = rng.below(w as u64 - 2) as usize; (q, q + 2) } else { (0, 1) },
                        _ => if w > 2 { let q = rng.below(w as u64 - 2) as usize; (q + 2, q) } else { (1, 0) }
                    } }
                    else { let a = rng.below(w as u64) as usize; let mut b = rng.below(w as u64 - 1) as usize; if b >= a { b += 1; } (a, b) };
                gates.push((key, vec![a, b]));
            }
            else
            {
                let key = *rng.pick(&["h", "x", "y", "z", "s", "sdg", "v", "vdg", "i"]);
                gates.push((key, vec![rng.below(w as u64) as usize]));
            }
        }
        // every stabilizer gate name occurs: cycle one in
        { let e = CLIFF[(i as usize) % CLIFF.len()];
          let bits: Vec<usize> = if e.1 == 1 { vec![rng.below(w as u64) as usize] } else { let a = rng.below(w as u64) as usize; vec![a, (a + 1 + rng.below(w as u64 - 1) as usize) % w] };
          if gates.len() < 4 { gates.push((e.0, bits)); } else { gates[3] = (e.0, bits); } }
        let ps: Vec<Part> = gates.iter().map(|(key, bits)| {
            let nm = random_case(&mut rng, key);
            let idx: Vec<String> = bits.iter().map(|b| b.to_string()).collect();
            part(&mut rng, &nm, 0, &idx, false) }).collect();
        let s = join_parts(&ps.iter().map(|p| p.render()).collect::<Vec<_>>());
        let st = ps.iter().map(|p| p.ser()).collect::<Vec<_>>().join(" ");
        out.case(&format!("k {} {} {} | {}", hex("G"), maxw, hex(&s), st), &conj_answer("G", &s));
        let ans = match build("G", &s)
        {
            Some(Ok(g)) => {
                let wg = g.nr_affected_bits();
                let input: Vec<usize> = (0..wg).map(|_| rng.below(2) as usize).collect();
                let seed = rng.next();
                let line = format!("circ S {} V {}", circuit_run(&g, &gates, &input, true, seed), circuit_run(&g, &gates, &input, false, seed));
                (input, line)
            },
            Some(Err(e)) => (vec![], err_line(&e)),
            None => (vec![], "panic".to_string())
        };
        out.case(&format!("s {} {} {} | {} | {}", hex("G"), maxw, hex(&s), st, ans.0.iter().map(|b| b.to_string()).collect::<String>()), &ans.1);
    }

    // malformed by construction: <good parts> ; <bad part> [; <more>]
    let nmal = 700 * scale;
    for i in 0..nmal
    {
        let width = 1 + rng.below(4) as usize;
        let ngood = rng.below(3) as usize;
        let good: Vec<String> = (0..ngood).map(|_| known_part(&mut rng, width, None, false).render()).collect();
        let (key, na, nb) = GATES[rng.below(GATES.len() as u64) as usize];
        let name = random_case(&mut rng, key);
        // `parse`: the error is found while the parts are parsed, whatever follows; otherwise it is found at dispatch,
        // after every part has been parsed
        let (class, bad, want, parse): (&str, String, String, bool) = match i % 14
        {
            0 => {
                let u = *rng.pick(&UNKNOWN);
                let nm = random_case(&mut rng, u);
                let (a, b) = (rng.below(3) as usize, 1 + rng.below(3) as usize);
                let ix = indices(&mut rng, b, 4, false);
                let p = part(&mut rng, &nm, a, &ix, false);
                ("unknown-name", p.render(), format!("err unknownGate {}", hex(&nm)), false)
            },
            1 => {
                let mut a = rng.below(4) as usize;
                if a == na { a = if na == 0 { 1 + rng.below(2) as usize } else { na - 1 } }
                let b = 1 + rng.below(4) as usize;
                let ix = indices(&mut rng, b, 4, false);
                let p = part(&mut rng, &name, a, &ix, false);
                ("wrong-nr-params", p.render(), format!("err invalidNrArguments {} {} {}", a, na, hex(&name)), false)
            },
            2 => {
                let mut b = 1 + rng.below(4) as usize;
                if b == nb { b = if nb == 1 { 2 + rng.below(2) as usize } else { nb - 1 } }
                let ix = indices(&mut rng, b, 4, false);
                let p = part(&mut rng, &name, na, &ix, false);
                ("wrong-nr-qubits", p.render(), format!("err invalidNrBits {} {} {}", b, nb, hex(&name)), false)
            },
            3 => {
                let mut p = part(&mut rng, &name, na, &[], false);
                if na == 0 && rng.coin()
                {
                    // the shape of the documentation's `X1`: digits glued to the name belong to the name
                    p.name = format!("{}{}", name, rng.below(100));
                }
                ("no-qubits", p.render(), format!("err noBits {}", hex(&p.name)), true)
            },
            4 => {
                let t = match rng.below(6)
                {
                    0 => String::new(),
                    1 => ws1(&mut rng),
                    2 => format!("{}{}", ws(&mut rng), rng.below(10)),
                    3 => format!("{}{} 0", ws(&mut rng), rng.pick(&["(", ")", ",", "*", "_x", "\u{e9}", "\u{661}", "-h", "[h]"])),
                    4 => format!("{}0 h", ws(&mut rng)),
                    _ => format!("{}(1) 0", ws(&mut rng))
                };
                ("no-name", t.clone(), format!("err noGateName {}", hex(&t)), true)
            },
            5 => {
                let ix = indices(&mut rng, nb, 4, false);
                let mut p = part(&mut rng, &name, na, &ix, false);
                let junk = *rng.pick(&JUNK);
                p.w_end = format!("{}{}{}", ws(&mut rng), junk, ws(&mut rng));
                ("trailing-text", p.render(), format!("err trailingText {}", hex(junk)), true)
            },
            6 => {
                let ix = indices(&mut rng, nb.max(1), 4, false);
                let mut p = part(&mut rng, &name, na, &ix, false);
                let t = match rng.below(5)
                {
                    0 => "18446744073709551616".to_string(),
                    1 => "117356715625188271521875".to_string(),
                    2 => "\u{663}".to_string(),
                    3 => format!("{}\u{ff11}", rng.below(10)),
                    _ => format!("\u{1d7d9}{}", rng.below(10))
                };
                let j = rng.below(p.bits.len() as u64) as usize;
                p.bits[j].2 = t.clone();
                let z = "0".repeat(p.bits[j].1);
                // anything after the offending index is never looked at
                if rng.coin() { p.w_end = " (".to_string(); }
                ("invalid-index", p.render(), format!("err invalidBit {}", hex(&format!("{}{}", z, t))), true)
            },
            7 => {
                // usize::MAX as an index: found after all parts are parsed, before any name is looked up
                let nm = if rng.coin() { name.clone() } else { (*rng.pick(&UNKNOWN)).to_string() };
                let (a, b) = (rng.below(2) as usize, 1 + rng.below(3) as usize);
                let ix = indices(&mut rng, b, 4, false);
                let mut p = part(&mut rng, &nm, a, &ix, false);
                let j = rng.below(p.bits.len() as u64) as usize;
                p.bits[j].2 = "18446744073709551615".to_string();
                ("index-overflow", p.render(), format!("err invalidBit {}", hex("18446744073709551615")), false)
            },
            8 | 9 => {
                // argument list not closed: after a complete argument neither `,` nor `)`
                let n = 1 + rng.below(3) as usize;
                let p = part(&mut rng, &name, n, &[], false);
                let k = rng.below(n as u64) as usize;
                let tail = match rng.below(5) { 0 => String::new(), 1 => format!("{}1", ws1(&mut rng)), 2 => format!("{}] 0", ws(&mut rng)),
                                               3 => format!("{}x", ws1(&mut rng)), _ => format!("{}(", ws1(&mut rng)) };
                let payload = format!("{}{}", p.args_upto(k), tail);
                ("unclosed-list", format!("{}{}{}", p.w0, p.name, payload), format!("err unclosedParentheses {}", hex(&payload)), true)
            },
            10 | 11 => {
                // an argument that cannot start an expression
                let n = rng.below(3) as usize;
                let p = part(&mut rng, &name, n, &[], false);
                let ns = *rng.pick(&NOSTART);
                let sfx = if ns.is_empty() { *rng.pick(&[") 0", "", ", 2) 0"]) } else { *rng.pick(&[") 0", "", " 1", ", 2) 0"]) };
                let junk = format!("{}{}{}", ws(&mut rng), ns, sfx);
                let before = if n == 0 { format!("{}(", p.w_open) } else { format!("{},", p.args_upto(n - 1)) };
                ("bad-argument", format!("{}{}{}{}", p.w0, p.name, before, junk), format!("err invalidArgument {}", hex(&junk)), true)
            },
            12 => {
                // a parenthesis inside an argument is not closed
                let a = gen_ast(&mut rng, 1, false);
                let mut body = String::new();
                flatten(&lay(&a, 0, &mut rng), &mut body);
                let prefix = *rng.pick(&["", "1+", "2 *", "-", "3^", "4/ -"]);
                let open = if rng.coin() { "(".to_string() } else { format!("{}{}(", rng.pick(&["sin", "cos", "sqrt"]), ws(&mut rng)) };
                let inner = format!("{}{}{}{}", ws(&mut rng), open, body, rng.pick(&["", " 1", " ] 0", " x"]));
                ("unclosed-parenthesis", format!("{}({}{}", name, prefix, inner), format!("err unclosedParentheses {}", hex(&inner)), true)
            },
            _ => {
                // dangling operator in an argument
                let a = gen_ast(&mut rng, 1, false);
                let mut body = String::new();
                flatten(&lay(&a, 0, &mut rng), &mut body);
                let junk = format!("{}{}", ws(&mut rng), rng.pick(&[") 0", "", ", 1) 0", "] 0"]));
                ("dangling-operator", format!("{}({}{}{}{}", name, body, ws(&mut rng), rng.pick(&["+", "-", "*", "/", "^"]), junk),
                 format!("err invalidArgument {}", hex(&junk)), true)
            }
        };
        let mut parts = good.clone();
        parts.push(bad);
        if rng.coin()
        {
            if parse
            {
                let g: String = (0..rng.below(6)).map(|_| *rng.pick(&GARBAGE)).collect();
                parts.push(g);
            }
            else
            {
                // must parse; may itself be unknown or of the wrong arity (a later error)
                let nm = if rng.coin() { (*rng.pick(&UNKNOWN)).to_string() } else { name.clone() };
                let (a, b) = (rng.below(2) as usize, 1 + rng.below(2) as usize);
                let ix = indices(&mut rng, b, 4, false);
                parts.push(part(&mut rng, &nm, a, &ix, false).render());
            }
        }
        let s = join_parts(&parts);
        out.case(&format!("m {} {} {} | {} | {}", hex("G"), maxw, hex(&s), class, want), &answer("G", maxw, &s));
    }

    // mutated renderings and token soup
    let nmut = 700 * scale;
    for _ in 0..nmut
    {
        let s: String = if rng.below(4) == 0
        {
            (0..1 + rng.below(10)).map(|_| *rng.pick(&GARBAGE)).collect()
        }
        else
        {
            let n = 1 + rng.below(3) as usize;
            let ps: Vec<String> = (0..n).map(|_| known_part(&mut rng, 3, None, true).render()).collect();
            let mut cs: Vec<char> = join_parts(&ps).chars().collect();
            for _ in 0..1 + rng.below(2)
            {
                let i = rng.below(cs.len() as u64 + 1) as usize;
                match rng.below(3)
                {
                    0 => if i < cs.len() { cs.remove(i); },
                    1 => { let g = *rng.pick(&GARBAGE); for (k, ch) in g.chars().enumerate() { cs.insert((i + k).min(cs.len()), ch); } },
                    _ => if i < cs.len() { cs[i] = rng.pick(&GARBAGE).chars().next().unwrap(); }
                }
            }
            cs.into_iter().collect()
        };
        out.case(&format!("x {} {} {}", hex("G"), maxw, hex(&s)), &answer("G", maxw, &s));
    }
    let n = out.finish();
    eprintln!("c15: {} cases", n);
}

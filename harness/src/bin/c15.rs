//! C15 probe (temporary)
use q1t_harness::*;
use q1tsim::gates::{Composite, Gate};
fn main()
{
    silence_panics();
    for s in std::env::args().skip(1)
    {
        let t = s.clone();
        let r = catch(move || match Composite::from_string("N", &t) {
            Ok(g) => format!("ok {} {}", g.nr_affected_bits(), g.description()),
            Err(e) => format!("err {:?}", e) });
        println!("{:?} -> {:?}", s, r);
    }
}

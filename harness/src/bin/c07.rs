//! C07: conditional gates act on exactly the matching shots. Requests in the line protocol of
//! lean/Driver/C07.lean.
use q1t_harness::*;
#[path = "../regcommon.rs"]
mod regcommon;
use regcommon::*;
use q1tsim::verif::Snapshot;

fn ranges_case(out: &mut Out, counts: &[usize], mask: &[bool])
{
    let (c2, m2) = (counts.to_vec(), mask.to_vec());
    let r = catch(move || q1tsim::qustate::collect_conditional_ranges(&c2, &m2));
    let ans = match r
    {
        Some(v) => format!("ok {}", v.iter().map(|(a, b, c)| format!("{} {} {}", a, b, *c as u8)).collect::<Vec<_>>().join(" ")),
        None => "panic".to_string()
    };
    out.case(&format!("ranges {} | {}", js(counts), mask.iter().map(|&b| if b { "1" } else { "0" }).collect::<Vec<_>>().join(" ")), &ans);
}

/// all compositions of `n` into positive parts
fn compositions(n: usize) -> Vec<Vec<usize>>
{
    if n == 0 { return vec![vec![]]; }
    let mut res = vec![];
    for code in 0..(1usize << (n - 1))
    {
        let mut parts = vec![];
        let mut cur = 1;
        for i in 0..n - 1
        {
            if (code >> i) & 1 == 1 { parts.push(cur); cur = 1; } else { cur += 1; }
        }
        parts.push(cur);
        res.push(parts);
    }
    res
}

/// the basis state of a snapshot column (qubit 0 first), if it is one
fn decode_vector(nq: usize, col: &[(f64, f64)]) -> Option<Vec<bool>>
{
    let nz: Vec<usize> = col.iter().enumerate().filter(|(_, c)| c.0 != 0.0 || c.1 != 0.0).map(|(i, _)| i).collect();
    if nz.len() != 1 { return None; }
    let idx = nz[0];
    Some((0..nq).map(|q| (idx >> (nq - 1 - q)) & 1 == 1).collect())
}

/// the basis state stabilized by a Z-only tableau: solve the parity equations over GF(2)
fn decode_tableau(nq: usize, text: &str) -> Option<Vec<bool>>
{
    let mut rows: Vec<(u32, bool)> = vec![];
    for line in text.lines()
    {
        let b = line.as_bytes();
        if b.len() != nq + 1 { return None; }
        let sign = b[0] == b'-';
        let mut m = 0u32;
        for q in 0..nq
        {
            match b[1 + q] { b'Z' => m |= 1 << q, b'I' => {}, _ => return None }
        }
        rows.push((m, sign));
    }
    if rows.len() != nq { return None; }
    let mut piv = vec![usize::MAX; nq];
    let mut used = vec![false; nq];
    for q in 0..nq
    {
        let p = (0..nq).find(|&r| !used[r] && (rows[r].0 >> q) & 1 == 1)?;
        used[p] = true;
        piv[q] = p;
        for r in 0..nq
        {
            if r != p && (rows[r].0 >> q) & 1 == 1 { let (m, s) = rows[p]; rows[r].0 ^= m; rows[r].1 ^= s; }
        }
    }
    Some((0..nq).map(|q| rows[piv[q]].1).collect())
}

fn decode(nq: usize, s: &Snapshot) -> Option<(Vec<usize>, Vec<Vec<bool>>)>
{
    match s
    {
        Snapshot::Vector { counts, states, .. } =>
            Some((counts.clone(), states.iter().map(|c| decode_vector(nq, c)).collect::<Option<Vec<_>>>()?)),
        Snapshot::Stabilizer { counts, tableaus, .. } =>
            Some((counts.clone(), tableaus.iter().map(|t| decode_tableau(nq, t)).collect::<Option<Vec<_>>>()?)),
        Snapshot::Opaque => None
    }
}

fn qs_text(qs: &[bool]) -> String { qs.iter().map(|&b| if b { '1' } else { '0' }).collect() }

fn pick_distinct(rng: &mut SplitMix64, k: usize, n: usize) -> Vec<usize>
{
    let mut p: Vec<usize> = (0..n).collect();
    rng.shuffle(&mut p);
    p.truncate(k);
    p
}

/// One `condrun` request for the conditional gate at position `pos` (>= 1) of `ops`, from the execution trace: the situation
/// just before it (ranges, decoded basis states, raw ids, REGISTER) + the operation; answer = the situation just after
/// (+ the register after the final measure_all if `post` is given).  The register of the request is "the register contents at
/// that point of the run": `execute*` starts every run from a zeroed register, so it is the traced register restricted to the
/// bits that operations of THIS run have written so far (on a correct implementation the restriction changes nothing; a bit
/// that is set without having been written in this run - e.g. left over from an earlier run of the same object - is not part
/// of the register contents the decision has to be taken from, and shows as a disagreement with the model and the spec).
/// `again`: the trace is that of a second execution of the same `Circuit` object (tag in the request kind: `condrun2`).
fn emit_cond(out: &mut Out, vector: bool, nq: usize, ops: &[Op], trace: &[q1tsim::verif::TraceEntry], pos: usize, control: &[usize], target: u64,
    g: &str, bits: &[usize], post: Option<&[usize]>, again: bool) -> bool
{
    let (before, after) = (&trace[pos - 1], &trace[pos]);
    let (dec_b, dec_a) = (decode(nq, &before.snapshot), decode(nq, &after.snapshot));
    if let (Some((cb, sb)), Some((ca, sa))) = (dec_b, dec_a)
    {
        // raw representation ids: equal text <=> equal id
        let (rb, ra) = (snapshot_ranges(&before.snapshot), snapshot_ranges(&after.snapshot));
        let mut texts: Vec<String> = vec![];
        let mut id = |t: &String| -> usize { if let Some(i) = texts.iter().position(|x| x == t) { i } else { texts.push(t.clone()); texts.len() - 1 } };
        let ids_b: Vec<usize> = rb.iter().map(|(_, t)| id(t)).collect();
        let ids_a: Vec<usize> = ra.iter().map(|(_, t)| id(t)).collect();
        let wm = written_mask(&ops[..pos]);
        let reg: Vec<u64> = before.cstate.iter().map(|w| w & wm).collect();
        let req = format!("{} {} {} | counts {} | states {} | reg {} | cond {} ; {} ; {} {} | post {} | ids {} ; {}",
            if again { "condrun2" } else { "condrun" },
            if vector { "v" } else { "s" }, nq, js(&cb), sb.iter().map(|q| qs_text(q)).collect::<Vec<_>>().join(" "),
            ju(&reg), js(control), target, g, js(bits), match post { Some(p) => js(p), None => "-".to_string() }, js(&ids_b), js(&ids_a));
        let ans = format!("ok counts {} | states {} | reg {} | final {}", js(&ca),
            sa.iter().map(|q| qs_text(q)).collect::<Vec<_>>().join(" "), ju(&after.cstate),
            if post.is_some() { ju(&trace[pos + 1].cstate) } else { "-".to_string() });
        out.case(&req, &ans);
        true
    }
    else { false }
}

/// Feedback circuit, executed AGAIN on the same object: X-preparation (basis states), then a conditional gate that reads
/// classical bits BEFORE the measurement that writes them in this run, then H on some qubits and a measure_all into those
/// very bits (so that the register a run leaves behind differs from shot to shot), then possibly a second conditional gate on
/// the bits now written, and the final measure_all.  The circuit is executed once (other seed, now and then the other
/// representation), then again on the same object with the same number of shots: the requests come from the SECOND run.
fn feedback_case(out: &mut Out, rng: &mut SplitMix64, skipped: &mut usize)
{
    let vector = rng.coin();
    let nq = 1 + rng.below(4) as usize;
    let nc = nq + 1 + rng.below(5) as usize;
    let shots = 1 + rng.below(if thorough() { 24 } else { 12 }) as usize;
    let mut ops = vec![Op::Barrier(vec![0])];
    for q in 0..nq { if rng.coin() { ops.push(Op::Gate("X", vec![q])); } }
    // now and then one bit IS written before the conditional gate
    if rng.below(4) == 0 { ops.push(Op::Measure(rng.below(nq as u64) as usize, rng.below(nc as u64) as usize)); }
    let p = ops.len();
    let k = 1 + rng.below(3.min(nc) as u64) as usize;
    let control = pick_distinct(rng, k, nc);
    let target = if rng.below(4) == 0 { 0 } else { 1 + rng.below((1u64 << k) - 1) };
    let pick_gate = |rng: &mut SplitMix64| -> (&'static str, usize) {
        let lib: [(&'static str, usize); 6] = [("X", 1), ("X", 1), ("Y", 1), ("CX", 2), ("Swap", 2), ("KronXCX", 3)];
        let cands: Vec<(&'static str, usize)> = lib.iter().cloned().chain(USER_GATES.iter().cloned().filter(|_| vector)).filter(|(_, a)| *a <= nq).collect();
        *rng.pick(&cands)
    };
    let (g, arity) = pick_gate(rng);
    let bits = pick_distinct(rng, arity, nq);
    ops.push(Op::Cond(control.clone(), target, g, bits.clone()));
    for q in 0..nq { if rng.below(3) != 0 { ops.push(Op::H(q)); } }
    // measure into the control bits first
    let mut cbits = control.clone();
    for c in pick_distinct(rng, nc, nc) { if !cbits.contains(&c) { cbits.push(c); } }
    cbits.truncate(nq);
    ops.push(Op::MeasureAll(cbits.clone()));
    let mut second = None;
    if rng.coin()
    {
        let (g2, a2) = pick_gate(rng);
        let b2 = pick_distinct(rng, a2, nq);
        let k2 = 1 + rng.below(2.min(nc) as u64) as usize;
        let c2: Vec<usize> = if rng.coin() { control.clone() } else { pick_distinct(rng, k2, nc) };
        let t2 = rng.below(1 << c2.len());
        second = Some((ops.len(), c2.clone(), t2, g2, b2.clone()));
        ops.push(Op::Cond(c2, t2, g2, b2));
    }
    let post = pick_distinct(rng, nq, nc);
    ops.push(Op::MeasureAll(post.clone()));
    let (seed1, seed) = (rng.next(), rng.next());
    let first_vector = if rng.below(5) == 0 && !ops.iter().any(|op| match op { Op::Cond(_, _, g, _) => is_user_gate(g), _ => false }) { !vector } else { vector };
    match run_circuit_again(vector, first_vector, nq, nc, shots, &ops, seed1, seed)
    {
        Outcome::Done { trace, .. } => {
            if !emit_cond(out, vector, nq, &ops, &trace, p, &control, target, g, &bits, None, true) { *skipped += 1; }
            if let Some((p2, c2, t2, g2, b2)) = second
            {
                if !emit_cond(out, vector, nq, &ops, &trace, p2, &c2, t2, g2, &b2, Some(&post[..]), true) { *skipped += 1; }
            }
        },
        Outcome::Panic => { out.case(&format!("condrun-unexpected-panic again: {}", ops_text(&ops)), "panic"); },
        Outcome::RunErr(e) | Outcome::BuildErr(e) => { out.case(&format!("condrun-unexpected-error again: {}", ops_text(&ops)), &format!("err {}", e)); }
    }
}

/// One circuit: randomise register and per-shot basis states (H, X, measure, measure_all), then one
/// conditional gate, then measure_all.  Request = the observed situation just before the conditional
/// gate (from the trace hook) + the operation; answer = the situation just after + the final register.
/// `again`: the circuit is executed once with another seed, then again on the SAME object (same number of shots); the
/// requests are built from the trace of the second run.
fn cond_case(out: &mut Out, rng: &mut SplitMix64, skipped: &mut usize, zero_shots: bool, again: bool)
{
    let vector = rng.coin();
    let nq = 1 + rng.below(5) as usize;
    let nc = match rng.below(4) { 0 => 64, 1 => nq + 1 + rng.below(6) as usize, _ => nq + 2 + rng.below(20) as usize };
    let shots = if zero_shots { 0 } else { 1 + rng.below(if thorough() { 24 } else { 12 }) as usize };
    let mut ops = vec![];
    // preparation
    for q in 0..nq
    {
        match rng.below(4) { 0 => ops.push(Op::Gate("X", vec![q])), 1 | 2 => ops.push(Op::H(q)), _ => {} }
    }
    if !zero_shots
    {
        for _ in 0..rng.below(4)
        {
            let q = rng.below(nq as u64) as usize;
            ops.push(Op::Measure(q, rng.below(nc as u64) as usize));
            if rng.coin() { ops.push(Op::H(q)); }
        }
        ops.push(Op::MeasureAll(pick_distinct(rng, nq, nc)));
        for _ in 0..rng.below(3)
        {
            let q = rng.below(nq as u64) as usize;
            ops.push(Op::Gate("X", vec![q]));
            ops.push(Op::Measure(q, rng.below(nc as u64) as usize));
        }
    }
    else { ops.push(Op::Gate("Z", vec![0])); }
    // now and then: merge all shots back into ONE range (reset_all) although their register words differ, so that the
    // selection mask alternates inside a single state (t,f,t / f,t,f,t ...), then put the qubits into basis states again
    if !zero_shots && rng.below(3) == 0
    {
        ops.push(Op::ResetAll);
        for q in 0..nq { if rng.coin() { ops.push(Op::Gate("X", vec![q])); } }
    }
    let p = ops.len();
    // run the preparation alone to learn the registers (only to choose an interesting target)
    let seed = rng.next();
    let pre_regs: Vec<u64> = match run_circuit(vector, nq, nc, shots, &ops, seed)
    {
        Outcome::Done { trace, .. } => trace.last().map(|e| e.cstate.clone()).unwrap_or_default(),
        _ => vec![]
    };
    let k = match rng.below(8) { 0 => 0, 1 => nc.min(1 + rng.below(7) as usize), _ => 1 + rng.below(3.min(nc) as u64) as usize };
    let mut control = if rng.below(10) == 0 { (0..k).map(|_| rng.below(nc as u64) as usize).collect() } else { pick_distinct(rng, k, nc) };
    if rng.below(12) == 0 { control = (0..nc.min(64)).collect(); if rng.coin() { control.reverse(); } }
    let gather = |w: u64, control: &[usize]| -> u64 { control.iter().enumerate().fold(0u64, |a, (j, &c)| a | (((w >> c) & 1) << (j as u32 & 63))) };
    let mut target = if !pre_regs.is_empty() && rng.below(4) != 0 { gather(*rng.pick(&pre_regs), &control) } else { rng.below(1 << k.min(4)) };
    // now and then a target the selected bits cannot spell (a bit at position >= control.len()): it must match NO shot,
    // however its low bits read
    if k < 60 && rng.below(8) == 0 { target |= 1u64 << (k as u32 + rng.below(3) as u32); }
    let (g, arity) = match rng.below(16) { 0 | 1 | 2 | 3 => ("X", 1), 4 => ("Y", 1), 5 => ("Z", 1), 6 | 7 => ("CX", 2), 8 => ("Swap", 2), 9 => ("CCX", 3),
        10 => ("KronXCX", 3), 11 => ("KronCXX", 3),   // tensor products of factors of different width
        _ => {
            // USER-DEFINED gates (only matrix() provided: default kernels of the Gate trait), vector backend only
            let fit: Vec<(&'static str, usize)> = USER_GATES.iter().cloned().filter(|(_, a)| *a <= nq).collect();
            if fit.is_empty() { ("X", 1) } else { *rng.pick(&fit) }
        } };
    let (g, arity) = if arity > nq || ((g == "CCX" || is_user_gate(g)) && !vector) { ("X", 1) } else { (g, arity) };
    let bits = pick_distinct(rng, arity, nq);
    ops.push(Op::Cond(control.clone(), target, g, bits.clone()));
    // optionally: something that rewrites selected bits WITHOUT a collapsing measurement (peeks), or with one, and then
    // a second conditional gate with the same (or a related) condition - the decision must be taken from the register
    // contents at that point of the run, not from anything remembered from the first one
    let mut second: Option<(usize, Vec<usize>, u64, &'static str, Vec<usize>)> = None;
    if !zero_shots && rng.below(2) == 0
    {
        for _ in 0..(1 + rng.below(3))
        {
            let q = rng.below(nq as u64) as usize;
            let c = if !control.is_empty() && rng.below(4) != 0 { *rng.pick(&control) } else { rng.below(nc as u64) as usize };
            match rng.below(6)
            {
                0 | 1 => ops.push(Op::Peek(q, c)),
                2 => { ops.push(Op::Gate("X", vec![q])); ops.push(Op::Peek(q, c)); },
                3 => ops.push(Op::PeekAll(pick_distinct(rng, nq, nc))),
                4 => ops.push(Op::Measure(q, c)),
                _ => ops.push(Op::Barrier(vec![q]))
            }
        }
        let (c2, t2) = match rng.below(4)
        {
            0 | 1 => (control.clone(), target),
            2 => (control.clone(), rng.below(1 << k.min(4)) | if k < 60 && rng.below(4) == 0 { 1u64 << k } else { 0 }),
            _ => { let k2 = 1 + rng.below(3.min(nc) as u64) as usize; let c2 = pick_distinct(rng, k2, nc); (c2, rng.below(1 << k2)) }
        };
        let (g2, a2) = match rng.below(4) { 0 | 1 => ("X", 1), 2 => (g, arity), _ => ("CX", 2) };
        let (g2, a2) = if a2 > nq { ("X", 1) } else { (g2, a2) };
        let b2 = pick_distinct(rng, a2, nq);
        second = Some((ops.len(), c2.clone(), t2, g2, b2.clone()));
        ops.push(Op::Cond(c2, t2, g2, b2));
    }
    let post = pick_distinct(rng, nq, nc);
    ops.push(Op::MeasureAll(post.clone()));

    let outcome = if again { let s1 = rng.next(); run_circuit_again(vector, vector, nq, nc, shots, &ops, s1, seed) } else { run_circuit(vector, nq, nc, shots, &ops, seed) };
    match outcome
    {
        Outcome::Done { trace, .. } => {
            // one request per conditional gate: (position in ops, control, target, gate, bits, is the final measure_all next?)
            let mut conds = vec![(p, control.clone(), target, g, bits.clone(), second.is_none())];
            if let Some((p2, c2, t2, g2, b2)) = second.clone() { conds.push((p2, c2, t2, g2, b2, true)); }
            for (pos, control, target, g, bits, has_final) in conds
            {
                let fin = if has_final { Some(&post[..]) } else { None };
                if !emit_cond(out, vector, nq, &ops, &trace, pos, &control, target, g, &bits, fin, again) { *skipped += 1; }
            }
        },
        Outcome::Panic if zero_shots => {
            // zero shots: the situation before the conditional gate is the fresh state
            let req = format!("condrun {} {} | counts 0 | states {} | reg | cond {} ; {} ; {} {} | post {} | ids 0 ; ",
                if vector { "v" } else { "s" }, nq, "0".repeat(nq), js(&control), target, g, js(&bits), js(&post));
            out.case(&req, "panic");
        },
        Outcome::Panic => { out.case(&format!("condrun-unexpected-panic {}", ops_text(&ops)), "panic"); },
        Outcome::RunErr(e) | Outcome::BuildErr(e) => { out.case(&format!("condrun-unexpected-error {}", ops_text(&ops)), &format!("err {}", e)); }
    }
}

// ------------------------------------------------------------------------------------------------
// per-shot STATE-VECTOR requests (`cstep`): conditional gates whose effect is not a basis permutation

/// One `cstep` request for the conditional gate at position `pos` (>= 1) of a traced run: the full snapshot (ranges and
/// amplitude vectors) and register just before it + the operation in the text grammar of harness/src/sim.rs with the
/// CURRENT values of all parameters; answer = snapshot and register just after.  Model mode: the Lean simulator model executes
/// the one operation (Driver/SimStep); spec mode: per shot, the reference semantics (gate matrix on the matching shots, nothing
/// on the others).
fn emit_cstep(out: &mut Out, tag: &str, op_text: &str, trace: &[q1tsim::verif::TraceEntry], pos: usize)
{
    let (before, after) = (&trace[pos - 1], &trace[pos]);
    out.case(&format!("cstep {} | {} | {} | {} | 0", tag, op_text, sim::show_snapshot(&before.snapshot), ju(&before.cstate)),
        &format!("ok | {} | {}", sim::show_snapshot(&after.snapshot), ju(&after.cstate)));
}

const ANGLES: [f64; 8] = [0.0, std::f64::consts::PI, std::f64::consts::FRAC_PI_2, -std::f64::consts::FRAC_PI_2, 1.0, -2.25, std::f64::consts::FRAC_PI_4, 3.0];
const NCELLS: usize = 3;

/// a gate term on `k` qubits in which at least one parameter is a REFERENCE (`@c`: Rc<RefCell<f64>>, `*c`: raw pointer)
fn ref_term(k: usize, rng: &mut SplitMix64) -> String
{
    let r = |rng: &mut SplitMix64| format!("{}{}", if rng.below(4) == 0 { '*' } else { '@' }, rng.below(NCELLS as u64));
    let d = |rng: &mut SplitMix64| fbits(*rng.pick(&ANGLES));
    let one = |rng: &mut SplitMix64| -> String {
        match rng.below(9)
        {
            0 | 1 | 2 => format!("U1 {}", r(rng)),
            3 => format!("RX {}", r(rng)), 4 => format!("RY {}", r(rng)), 5 => format!("RZ {}", r(rng)),
            6 => { let m = 1 + rng.below(3); format!("U2 {} {}", if m & 1 != 0 { r(rng) } else { d(rng) }, if m & 2 != 0 { r(rng) } else { d(rng) }) },
            7 => { let m = 1 + rng.below(7); format!("U3 {} {} {}", if m & 1 != 0 { r(rng) } else { d(rng) }, if m & 2 != 0 { r(rng) } else { d(rng) }, if m & 4 != 0 { r(rng) } else { d(rng) }) },
            _ => format!("Comp g{} 1 2 U1 {} 1 0 H 1 0", rng.below(10), r(rng)),
        }
    };
    match k
    {
        1 => one(rng),
        2 => match rng.below(9)
        {
            0 | 1 => format!("CU1 {}", r(rng)),
            2 => format!("{} {}", rng.pick(&["CRX", "CRY", "CRZ"]), r(rng)),
            3 => format!("C {}", one(rng)),
            4 => format!("Kron {} {}", one(rng), rng.pick(&["H", "X", "S", "I"])),
            5 => format!("Kron {} {}", rng.pick(&["H", "X", "T", "I"]), one(rng)),
            6 => format!("Comp g{} 2 2 {} 1 {} CX 2 {}", rng.below(10), one(rng), rng.below(2), if rng.coin() { "0 1" } else { "1 0" }),
            7 => format!("Loop l{} {} b{} 2 1 CU1 {} 2 {}", rng.below(10), 1 + rng.below(3), rng.below(10), r(rng), if rng.coin() { "0 1" } else { "1 0" }),
            _ => format!("Kron {} {}", one(rng), one(rng)),
        },
        _ => match rng.below(5)
        {
            0 => format!("{} {}", rng.pick(&["CCRX", "CCRY", "CCRZ"]), r(rng)),
            1 => format!("C CU1 {}", r(rng)),
            2 => format!("Kron {} CX", one(rng)),
            3 => format!("Kron CU1 {} {}", r(rng), rng.pick(&["H", "X"])),
            _ => { let mut b = vec![0usize, 1, 2]; rng.shuffle(&mut b); format!("Comp g{} 3 2 CU1 {} 2 {} {} {} 1 {}", rng.below(10), r(rng), b[0], b[1], one(rng), b[2]) },
        }
    }
}

/// Conditional gates with REFERENCE-valued parameters (every gate that can hold one: RX RY RZ U1 U2 U3 CRX CRY CRZ CU1 CCR*,
/// bare and inside C / Kron / Composite / Loop), vector backend: the cells hold one set of values while the circuit is BUILT,
/// are overwritten before the first run and again before every later run (execute, change, reexecute / execute again on the
/// same object).  Every run must apply, on exactly the matching shots, the gate with the values the cells hold AT THAT RUN.
fn refparam_case(out: &mut Out, rng: &mut SplitMix64)
{
    use rand::SeedableRng;
    use q1tsim::circuit::{Circuit, QuStateRepr};
    let cells: Vec<std::rc::Rc<std::cell::RefCell<f64>>> = (0..NCELLS).map(|_| std::rc::Rc::new(std::cell::RefCell::new(*rng.pick(&ANGLES)))).collect();
    gate::set_cells(&cells);
    let nq = 2 + rng.below(3) as usize;           // qubit 0 is the coin
    let nc = 2 + rng.below(3) as usize;
    let shots = 2 + rng.below(if thorough() { 20 } else { 10 }) as usize;
    let mut ops: Vec<String> = vec!["gate 1 0 H".to_string(), "measure 0 0 Z".to_string()];
    if rng.below(3) == 0 && nq >= 3 { ops.push(format!("gate 1 {} H", nq - 1)); ops.push(format!("measure {} 1 Z", nq - 1)); }
    for q in 1..nq { match rng.below(5) { 0 | 1 | 2 => ops.push(format!("gate 1 {} H", q)), 3 => ops.push(format!("gate 1 {} RY {}", q, fbits(0.4 + rng.unit() * 2.0))), _ => ops.push(format!("gate 1 {} X", q)) } }
    let mut conds: Vec<usize> = vec![];
    for _ in 0..(1 + rng.below(2))
    {
        let k = 1 + rng.below((nq - 1).min(3) as u64) as usize;
        let mut bits: Vec<usize> = (1..nq).collect(); rng.shuffle(&mut bits); bits.truncate(k);
        let (ncb, ctl, target) = if rng.below(3) == 0 { (2, "0 1".to_string(), rng.below(4)) } else { (1, "0".to_string(), rng.below(2)) };
        conds.push(ops.len());
        ops.push(format!("cond {} {} {} {} {} {}", ncb, ctl, target, k, join(&bits), ref_term(k, rng)));
        if rng.coin() { ops.push(format!("gate 1 {} H", 1 + rng.below(nq as u64 - 1))); }
    }
    for q in 1..nq { if rng.coin() { ops.push(format!("measure {} {} Z", q, rng.below(nc as u64))); } }
    let mut c = Circuit::new(nq, nc);
    for op in ops.iter() { if let Err(e) = sim::add_op(&mut c, op) { out.case(&format!("cstep-unexpected-error build {}", op), &format!("err {:?}", e).replace('\n', " ")); return; } }
    let mut hist: Vec<String> = vec![];
    for run in 0..(2 + rng.below(3) as usize)
    {
        // overwrite the cells (at least the first one changes)
        for (i, cell) in cells.iter().enumerate()
        {
            if i == 0 || rng.coin() { let old = *cell.borrow(); let mut v = *rng.pick(&ANGLES); if v == old { v = old + 1.5; } *cell.borrow_mut() = v; }
        }
        let mut r = rand::rngs::StdRng::seed_from_u64(rng.next());
        let re = run > 0 && rng.coin();
        hist.push(if re { "reexecute" } else { "execute" }.to_string());
        q1tsim::verif::trace_start();
        let res = std::panic::catch_unwind(std::panic::AssertUnwindSafe(|| if re { c.reexecute_with_rng(&mut r) } else { c.execute_with(shots, &mut r, QuStateRepr::vector(nq, shots)) }));
        let trace = q1tsim::verif::trace_take();
        match res
        {
            Ok(Ok(())) if trace.len() == ops.len() => {
                let vals = cells.iter().map(|x| fbits(*x.borrow())).collect::<Vec<_>>().join(",");
                for &pos in conds.iter()
                {
                    emit_cstep(out, &format!("ref built:{} runs:{} cells:{}", ops[pos].split_whitespace().filter(|t| t.starts_with('@') || t.starts_with('*')).collect::<Vec<_>>().join(","), hist.join(","), vals),
                        &gate::resolve_refs(&ops[pos]), &trace, pos);
                }
            },
            Ok(Ok(())) => { out.case(&format!("cstep-unexpected-error trace-length {}", ops.join(" ; ")), "err trace"); return; },
            Ok(Err(e)) => { out.case(&format!("cstep-unexpected-error run {}", ops.join(" ; ")), &format!("err {:?}", e).replace('\n', " ")); return; },
            Err(_) => { out.case(&format!("cstep-unexpected-panic {}", ops.join(" ; ")), "panic"); return; }
        }
    }
}

/// (C-interface name, term token, qubits, parameters) for EVERY gate name of `circuit_add_conditional_gate`
const FFI_GATES: [(&str, &str, usize, usize); 25] = [("ch", "CH", 2, 0), ("crx", "CRX", 2, 1), ("cry", "CRY", 2, 1), ("crz", "CRZ", 2, 1), ("cx", "CX", 2, 0),
    ("cy", "CY", 2, 0), ("cz", "CZ", 2, 0), ("h", "H", 1, 0), ("i", "I", 1, 0), ("rx", "RX", 1, 1), ("ry", "RY", 1, 1), ("rz", "RZ", 1, 1), ("s", "S", 1, 0),
    ("sdg", "Sdg", 1, 0), ("swap", "Swap", 2, 0), ("t", "T", 1, 0), ("tdg", "Tdg", 1, 0), ("u1", "U1", 1, 1), ("u2", "U2", 1, 2), ("u3", "U3", 1, 3),
    ("v", "V", 1, 0), ("vdg", "Vdg", 1, 0), ("x", "X", 1, 0), ("y", "Y", 1, 0), ("z", "Z", 1, 0)];

/// The conditional circuits BUILT THROUGH THE C INTERFACE (`circuit_new`, `circuit_add_gate`, `circuit_measure`,
/// `circuit_add_conditional_gate` with the gate given by NAME and its parameters as CParameter values or pointers), for the
/// gate `FFI_GATES[gi]`: a coin is measured into bit 0 (so some shots match and some do not), the other qubits are superposed,
/// then the conditional gate.  The object is then executed with the trace hook: `cstep` request as for the Rust API; the same
/// circuit built through the Rust API and executed with the same seed must give the same trace (`ffisame`); and a control
/// list with an out-of-range bit must be refused by both interfaces (`ffierr`).
fn ffi_cond_case(out: &mut Out, rng: &mut SplitMix64, gi: usize)
{
    use q1tsim::ffi;
    use rand::SeedableRng;
    use q1tsim::circuit::{Circuit, QuStateRepr};
    use std::os::raw::c_char;
    #[repr(C)] #[derive(Clone, Copy)]
    struct RawResult { data: *const std::os::raw::c_void, length: usize, size: usize, restype: u32 }
    #[repr(C)] #[derive(Clone, Copy)]
    struct RawParam { value: f64, value_ptr: *const f64 }
    fn is_ok(r: ffi::CResult) -> bool { let rr = unsafe { std::mem::transmute::<ffi::CResult, RawResult>(r) }; let good = rr.restype != 0;
        ffi::result_free(unsafe { std::mem::transmute::<RawResult, ffi::CResult>(rr) }); good }
    let (name, tok, arity, npar) = FFI_GATES[gi];
    let nq = 1 + arity + rng.below(2) as usize;
    let nc = 2 + rng.below(3) as usize;
    let shots = 2 + rng.below(if thorough() { 20 } else { 10 }) as usize;
    // parameters: plain values, now and then a pointer whose target is overwritten after the gate was added
    let store: Vec<Box<f64>> = (0..npar).map(|_| Box::new(*rng.pick(&ANGLES))).collect();
    let by_ptr: Vec<bool> = (0..npar).map(|_| rng.below(3) == 0).collect();
    let params: Vec<RawParam> = (0..npar).map(|j| if by_ptr[j] { RawParam { value: 0.0, value_ptr: &*store[j] as *const f64 } } else { RawParam { value: *store[j], value_ptr: std::ptr::null() } }).collect();
    let pptr = if npar == 0 { std::ptr::null() } else { params.as_ptr() as *const ffi::CParameter };
    let mut bits: Vec<usize> = (1..nq).collect(); rng.shuffle(&mut bits); bits.truncate(arity);
    let (control, target): (Vec<usize>, u64) = if rng.below(3) == 0 { (vec![0, 1], rng.below(4)) } else { (vec![0], rng.below(2)) };
    let gname = std::ffi::CString::new(if rng.below(4) == 0 { name.to_uppercase() } else { name.to_string() }).unwrap();
    let hname = std::ffi::CString::new("h").unwrap();
    // text of the circuit (Rust API twin, Lean reference); parameter values are substituted below, after the overwrite
    let mut pre: Vec<String> = vec!["gate 1 0 H".to_string(), "measure 0 0 Z".to_string()];
    let second_coin = control.len() == 2 && nq >= 3;
    if second_coin { pre.push(format!("gate 1 {} H", nq - 1)); pre.push(format!("measure {} 1 Z", nq - 1)); }
    for q in 1..nq { if rng.below(4) != 0 { pre.push(format!("gate 1 {} H", q)); } }
    let ptr = ffi::circuit_new(nq, nc);
    let mut good = true;
    for op in pre.iter()
    {
        let t: Vec<&str> = op.split_whitespace().collect();
        if t[0] == "gate" { let b = [t[2].parse::<usize>().unwrap()]; good &= is_ok(ffi::circuit_add_gate(ptr, hname.as_ptr(), b.as_ptr(), 1, std::ptr::null(), 0)); }
        else { good &= is_ok(ffi::circuit_measure(ptr, t[1].parse().unwrap(), t[2].parse().unwrap(), 'z' as c_char, 1)); }
    }
    // an out-of-range control bit must be refused (before the valid gate is added), exactly as the Rust API refuses it
    let bad_ctl = vec![0usize, nc + rng.below(2) as usize];
    // (on a scratch circuit, so that an interface that wrongly accepts it does not change the circuit under test)
    let scratch = ffi::circuit_new(nq, nc);
    let ffi_refused = !is_ok(ffi::circuit_add_conditional_gate(scratch, bad_ctl.as_ptr(), 2, target, gname.as_ptr(), bits.as_ptr(), bits.len(), pptr, npar));
    ffi::circuit_free(scratch);
    good &= is_ok(ffi::circuit_add_conditional_gate(ptr, control.as_ptr(), control.len(), target, gname.as_ptr(), bits.as_ptr(), bits.len(), pptr, npar));
    // overwrite the pointed-to values: the gate must follow them
    let mut store = store;
    for j in 0..npar { if by_ptr[j] { let old = *store[j]; let mut v = *rng.pick(&ANGLES); if v == old { v = old + 1.5; } *store[j] = v; } }
    let term = format!("{}{}", tok, store.iter().map(|v| format!(" {}", fbits(**v))).collect::<String>());
    let cond_text = format!("cond {} {} {} {} {} {}", control.len(), join(&control), target, arity, join(&bits), term);
    let desc = format!("{} nq={} nc={} params={}", name, nq, nc, by_ptr.iter().map(|b| if *b { "ptr" } else { "val" }).collect::<Vec<_>>().join(","));
    // the Rust-API twin
    let mut twin = Circuit::new(nq, nc);
    let mut twin_ok = true;
    for op in pre.iter() { twin_ok &= sim::add_op(&mut twin, op).is_ok(); }
    let bad_text = format!("cond 2 {} {} {} {} {}", join(&bad_ctl), target, arity, join(&bits), term);
    let rust_refused = sim::add_op(&mut Circuit::new(nq, nc), &bad_text).is_err();
    twin_ok &= sim::add_op(&mut twin, &cond_text).is_ok();
    out.case(&format!("ffierr {} | invalid control {} | {}", desc, join(&bad_ctl), bad_text),
        &if ffi_refused == rust_refused && ffi_refused { "same".to_string() } else { format!("differs c-interface-refused={} rust-api-refused={}", ffi_refused, rust_refused) });
    if !good || !twin_ok
    {
        out.case(&format!("ffisame {} | build | {}", desc, cond_text), &format!("differs c-interface-built={} rust-api-built={}", good, twin_ok));
        ffi::circuit_free(ptr);
        return;
    }
    let seed = rng.next();
    let run = |c: &mut Circuit| -> Option<Vec<q1tsim::verif::TraceEntry>> {
        let mut r = rand::rngs::StdRng::seed_from_u64(seed);
        q1tsim::verif::trace_start();
        let res = std::panic::catch_unwind(std::panic::AssertUnwindSafe(|| c.execute_with(shots, &mut r, QuStateRepr::vector(nq, shots))));
        let t = q1tsim::verif::trace_take();
        if matches!(res, Ok(Ok(()))) { Some(t) } else { None }
    };
    let t_ffi = run(unsafe { &mut *ptr });
    let t_twin = run(&mut twin);
    ffi::circuit_free(ptr);
    match (t_ffi, t_twin)
    {
        (Some(tf), Some(tt)) if tf.len() == pre.len() + 1 => {
            emit_cstep(out, &format!("ffi {}", desc), &cond_text, &tf, pre.len());
            let same = tf.len() == tt.len() && tf.iter().zip(tt.iter()).all(|(a, b)| a.cstate == b.cstate && sim::show_snapshot(&a.snapshot) == sim::show_snapshot(&b.snapshot));
            out.case(&format!("ffisame {} | trace | {}", desc, cond_text), if same { "same" } else { "differs per-shot-states-or-registers-differ-from-the-rust-api-circuit" });
        },
        (a, b) => out.case(&format!("ffisame {} | run | {}", desc, cond_text), &format!("differs c-interface-ran={} rust-api-ran={}", a.is_some(), b.is_some()))
    }
}

fn main()
{
    let dir = std::env::args().nth(1).expect("usage: c07 <outdir>");
    silence_panics();
    let mut rng = SplitMix64::from_env();
    let mut out = Out::new(&dir);

    // collect_conditional_ranges: exhaustive for <= 7 shots (all compositions x all masks)
    let nmax = if thorough() { 8 } else { 7 };
    for n in 0..=nmax
    {
        for counts in compositions(n)
        {
            for m in 0..(1u32 << n)
            {
                let mask: Vec<bool> = (0..n).map(|i| (m >> i) & 1 == 1).collect();
                ranges_case(&mut out, &counts, &mask);
            }
        }
    }
    // D9 and other index panics: zero counts, masks of the wrong length
    ranges_case(&mut out, &[0], &[]);
    ranges_case(&mut out, &[2, 0], &[true, false]);
    ranges_case(&mut out, &[0, 2], &[true, false]);
    ranges_case(&mut out, &[1, 0, 1], &[true, true]);
    ranges_case(&mut out, &[3], &[true, false]);
    ranges_case(&mut out, &[2], &[true, false, true]);
    // random larger
    for _ in 0..(if thorough() { 6000 } else { 1200 })
    {
        let n = 8 + rng.below(60) as usize;
        let mut counts = vec![];
        let mut left = n;
        while left > 0 { let c = 1 + rng.below(left.min(12) as u64) as usize; counts.push(c); left -= c; }
        if rng.below(15) == 0 { let i = rng.below(counts.len() as u64 + 1) as usize; counts.insert(i, 0); }
        let p = rng.below(5);
        let mut mask: Vec<bool> = (0..n).map(|_| match p { 0 => rng.coin(), 1 => rng.below(8) == 0, 2 => rng.below(8) != 0, 3 => false, _ => true }).collect();
        if rng.below(20) == 0 { mask.pop(); }
        if rng.below(20) == 0 { mask.push(true); }
        ranges_case(&mut out, &counts, &mask);
    }

    // circuit level
    let mut skipped = 0;
    let ncirc = if thorough() { 12000 } else { 2500 };
    for k in 0..ncirc { cond_case(&mut out, &mut rng, &mut skipped, k % 50 == 49, k % 50 != 49 && k % 5 == 4); }
    // feedback circuits executed again on the same object
    for _ in 0..(if thorough() { 4000 } else { 800 }) { feedback_case(&mut out, &mut rng, &mut skipped); }
    // conditional gates with reference-valued parameters; conditional gates built through the C interface (every gate name)
    for _ in 0..(if thorough() { 3000 } else { 600 }) { refparam_case(&mut out, &mut rng); }
    for k in 0..(if thorough() { 2500 } else { 500 }) { ffi_cond_case(&mut out, &mut rng, k % FFI_GATES.len()); }
    let n = out.finish();
    eprintln!("c07: {} cases ({} circuits skipped: state not a basis state)", n, skipped);
}

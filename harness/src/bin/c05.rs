//! C05: matrices of all library gates and nested combinators at generated parameters.
use q1t_harness::*;
use q1t_harness::gate;
use q1tsim::gates::Gate;

fn show_mat(m: &q1tsim::cmatrix::CMatrix) -> String
{
    let mut s = format!("ok {}", m.rows());
    for c in m.iter() { s += &format!(" {} {}", fbits(c.re), fbits(c.im)); }
    s
}

fn emit(out: &mut Out, kind: &str, term: &str)
{
    let t = term.to_string();
    let ans = catch(move || { let g = gate::parse_str(&t); (g.nr_affected_bits(), show_mat(&g.matrix())) });
    match ans
    {
        Some((nb, m)) => { out.case(&format!("{} {}", kind, term), &m); out.case(&format!("nrbits {}", term), &format!("ok {}", nb)); },
        None => out.case(&format!("{} {}", kind, term), "panic")
    }
}

fn main()
{
    let dir = std::env::args().nth(1).expect("usage: c05 <outdir>");
    silence_panics();
    let mut rng = SplitMix64::from_env();
    let mut out = Out::new(&dir);
    let rounds = if thorough() { 40 } else { 8 };
    for _ in 0..rounds
    {
        for (term, _) in gate::registry(&mut rng) { emit(&mut out, "matrix", &term); }
    }
    let nterms = if thorough() { 3000 } else { 400 };
    let maxk = if thorough() { 4 } else { 3 };
    for i in 0..nterms
    {
        let k = 1 + (i % maxk);
        let term = gate::gen_term(k, 3, &mut rng);
        emit(&mut out, "matrix", &term);
    }
    // reference parameters are live: the same gate object, its cell changed between matrix() calls
    for _ in 0..(if thorough() { 200 } else { 40 })
    {
        let cell = std::rc::Rc::new(std::cell::RefCell::new(0.0f64));
        let p = q1tsim::gates::Parameter::from_refcell(&cell, "x");
        let which = rng.below(8);
        let g: Box<dyn Gate> = match which
        {
            0 => Box::new(q1tsim::gates::RX::new(p)), 1 => Box::new(q1tsim::gates::RY::new(p)),
            2 => Box::new(q1tsim::gates::RZ::new(p)), 3 => Box::new(q1tsim::gates::U1::new(p)),
            4 => Box::new(q1tsim::gates::CRX::new(p)), 5 => Box::new(q1tsim::gates::CRY::new(p)),
            6 => Box::new(q1tsim::gates::CRZ::new(p)), _ => Box::new(q1tsim::gates::CCRZ::new(p)),
        };
        let name = ["RX", "RY", "RZ", "U1", "CRX", "CRY", "CRZ", "CCRZ"][which as usize];
        for _ in 0..3
        {
            let v = gate::gen_angle(&mut rng);
            *cell.borrow_mut() = v;
            out.case(&format!("matrixref {} {}", name, fbits(v)), &show_mat(&g.matrix()));
        }
    }
    // liveness for EVERY pattern of direct / reference / FFI-pointer parameters of every gate that can hold a reference:
    // the gate is built while the cells hold decoys, matrix() is called once (so that anything cached is cached), the
    // cells are overwritten, and the matrix taken now must be the documented one at the NEW values.
    {
        use q1tsim::gates::{Parameter, RX, RY, RZ, U1, U2, U3, CRX, CRY, CRZ, CU1, CCRX, CCRY, CCRZ, C, Kron, H};
        let names: [(&str, usize); 16] = [("RX", 1), ("RY", 1), ("RZ", 1), ("U1", 1), ("U2", 2), ("U3", 3), ("CRX", 1), ("CRY", 1), ("CRZ", 1),
            ("CU1", 1), ("CCRX", 1), ("CCRY", 1), ("CCRZ", 1), ("C U3", 3), ("C C U2", 2), ("Kron U3 H", 3)];
        let rounds = if thorough() { 12 } else { 3 };
        for _ in 0..rounds
        {
            for (name, k) in names.iter()
            {
                for mask in 1..3u32.pow(*k as u32)
                {
                    // digit j of mask in base 3: 0 = direct, 1 = Rc<RefCell>, 2 = FFI pointer
                    let kinds: Vec<u32> = (0..*k).map(|j| (mask / 3u32.pow(j as u32)) % 3).collect();
                    let finals: Vec<f64> = (0..*k).map(|_| gate::gen_angle(&mut rng)).collect();
                    let cells: Vec<std::rc::Rc<std::cell::RefCell<f64>>> = (0..*k).map(|_| std::rc::Rc::new(std::cell::RefCell::new(0.123))).collect();
                    let boxes: Vec<Box<f64>> = (0..*k).map(|_| Box::new(-0.456)).collect();
                    let ptrs: Vec<*mut f64> = boxes.into_iter().map(Box::into_raw).collect();
                    let ps: Vec<Parameter> = (0..*k).map(|j| match kinds[j]
                        { 0 => Parameter::Direct(finals[j]), 1 => Parameter::from_refcell(&cells[j], "p"), _ => Parameter::FFIRef(ptrs[j] as *const f64) }).collect();
                    let p = |j: usize| ps[j].clone();
                    let g: Box<dyn Gate> = match *name
                    {
                        "RX" => Box::new(RX::new(p(0))), "RY" => Box::new(RY::new(p(0))), "RZ" => Box::new(RZ::new(p(0))), "U1" => Box::new(U1::new(p(0))),
                        "U2" => Box::new(U2::new(p(0), p(1))), "U3" => Box::new(U3::new(p(0), p(1), p(2))),
                        "CRX" => Box::new(CRX::new(p(0))), "CRY" => Box::new(CRY::new(p(0))), "CRZ" => Box::new(CRZ::new(p(0))), "CU1" => Box::new(CU1::new(p(0))),
                        "CCRX" => Box::new(CCRX::new(p(0))), "CCRY" => Box::new(CCRY::new(p(0))), "CCRZ" => Box::new(CCRZ::new(p(0))),
                        "C U3" => Box::new(C::new(U3::new(p(0), p(1), p(2)))), "C C U2" => Box::new(C::new(C::new(U2::new(p(0), p(1))))),
                        _ => Box::new(Kron::new(U3::new(p(0), p(1), p(2)), H::new()))
                    };
                    let _ = g.matrix();
                    for j in 0..*k { *cells[j].borrow_mut() = finals[j]; unsafe { let q: *mut f64 = ptrs[j]; *q = finals[j]; } }
                    let m1 = show_mat(&g.matrix());
                    let m2 = show_mat(&g.matrix());
                    let kinds_text: String = kinds.iter().map(|d| ['d', 'r', 'f'][*d as usize]).collect();
                    let term = if name.starts_with("Kron") { format!("Kron U3 {} H", finals.iter().map(|v| fbits(*v)).collect::<Vec<_>>().join(" ")) }
                        else { format!("{} {}", name, finals.iter().map(|v| fbits(*v)).collect::<Vec<_>>().join(" ")) };
                    out.case(&format!("matrixlive {} {}", kinds_text, term), &if m1 == m2 { m1 } else { "unstable".to_string() });
                    for q in ptrs { unsafe { drop(Box::from_raw(q)); } }
                }
            }
        }
    }
    let n = out.finish();
    eprintln!("c05: {} cases", n);
}

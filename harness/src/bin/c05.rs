//! C05: matrices of all library gates and nested combinators at generated parameters.
use q1t_harness::*;
use q1t_harness::gate;
use q1tsim::gates::Gate;

fn show_mat(m: &q1tsim::cmatrix::CMatrix) -> String
{
    let mut s = format!("ok {}", m.rows());
    for c in m.iter() { s += &format!(" {} {}", fbits(c.re), fbits(c.im)); }
    s
}

fn emit(out: &mut Out, kind: &str, term: &str)
{
    let t = term.to_string();
    let ans = catch(move || { let g = gate::parse_str(&t); (g.nr_affected_bits(), show_mat(&g.matrix())) });
    match ans
    {
        Some((nb, m)) => { out.case(&format!("{} {}", kind, term), &m); out.case(&format!("nrbits {}", term), &format!("ok {}", nb)); },
        None => out.case(&format!("{} {}", kind, term), "panic")
    }
}

fn main()
{
    let dir = std::env::args().nth(1).expect("usage: c05 <outdir>");
    silence_panics();
    let mut rng = SplitMix64::from_env();
    let mut out = Out::new(&dir);
    let rounds = if thorough() { 40 } else { 8 };
    for _ in 0..rounds
    {
        for (term, _) in gate::registry(&mut rng) { emit(&mut out, "matrix", &term); }
    }
    let nterms = if thorough() { 3000 } else { 400 };
    let maxk = if thorough() { 4 } else { 3 };
    for i in 0..nterms
    {
        let k = 1 + (i % maxk);
        let term = gate::gen_term(k, 3, &mut rng);
        emit(&mut out, "matrix", &term);
    }
    // reference parameters are live: the same gate object, its cell changed between matrix() calls
    for _ in 0..(if thorough() { 200 } else { 40 })
    {
        let cell = std::rc::Rc::new(std::cell::RefCell::new(0.0f64));
        let p = q1tsim::gates::Parameter::from_refcell(&cell, "x");
        let which = rng.below(8);
        let g: Box<dyn Gate> = match which
        {
            0 => Box::new(q1tsim::gates::RX::new(p)), 1 => Box::new(q1tsim::gates::RY::new(p)),
            2 => Box::new(q1tsim::gates::RZ::new(p)), 3 => Box::new(q1tsim::gates::U1::new(p)),
            4 => Box::new(q1tsim::gates::CRX::new(p)), 5 => Box::new(q1tsim::gates::CRY::new(p)),
            6 => Box::new(q1tsim::gates::CRZ::new(p)), _ => Box::new(q1tsim::gates::CCRZ::new(p)),
        };
        let name = ["RX", "RY", "RZ", "U1", "CRX", "CRY", "CRZ", "CCRZ"][which as usize];
        for _ in 0..3
        {
            let v = gate::gen_angle(&mut rng);
            *cell.borrow_mut() = v;
            out.case(&format!("matrixref {} {}", name, fbits(v)), &show_mat(&g.matrix()));
        }
    }
    let n = out.finish();
    eprintln!("c05: {} cases", n);
}

//! C05: matrices of all library gates and nested combinators at generated parameters.
use q1t_harness::*;
use q1t_harness::gate;
use q1tsim::gates::Gate;
use ndarray::s;

fn show_mat(m: &q1tsim::cmatrix::CMatrix) -> String
{
    let mut s = format!("ok {}", m.rows());
    for c in m.iter() { s += &format!(" {} {}", fbits(c.re), fbits(c.im)); }
    s
}

fn emit(out: &mut Out, kind: &str, term: &str)
{
    let t = term.to_string();
    let ans = catch(move || { let g = gate::parse_str(&t); (g.nr_affected_bits(), show_mat(&g.matrix())) });
    match ans
    {
        Some((nb, m)) => { out.case(&format!("{} {}", kind, term), &m); out.case(&format!("nrbits {}", term), &format!("ok {}", nb)); },
        None => out.case(&format!("{} {}", kind, term), "panic")
    }
}

fn main()
{
    let dir = std::env::args().nth(1).expect("usage: c05 <outdir>");
    silence_panics();
    let mut rng = SplitMix64::from_env();
    let mut out = Out::new(&dir);
    let rounds = if thorough() { 40 } else { 8 };
    for _ in 0..rounds
    {
        for (term, _) in gate::registry(&mut rng) { emit(&mut out, "matrix", &term); }
    }
    let nterms = if thorough() { 3000 } else { 400 };
    let maxk = if thorough() { 4 } else { 3 };
    for i in 0..nterms
    {
        let k = 1 + (i % maxk);
        let term = gate::gen_term(k, 3, &mut rng);
        emit(&mut out, "matrix", &term);
    }
    // reference parameters are live: the same gate object, its cell changed between matrix() calls
    for _ in 0..(if thorough() { 200 } else { 40 })
    {
        let cell = std::rc::Rc::new(std::cell::RefCell::new(0.0f64));
        let p = q1tsim::gates::Parameter::from_refcell(&cell, "x");
        let which = rng.below(8);
        let g: Box<dyn Gate> = match which
        {
            0 => Box::new(q1tsim::gates::RX::new(p)), 1 => Box::new(q1tsim::gates::RY::new(p)),
            2 => Box::new(q1tsim::gates::RZ::new(p)), 3 => Box::new(q1tsim::gates::U1::new(p)),
            4 => Box::new(q1tsim::gates::CRX::new(p)), 5 => Box::new(q1tsim::gates::CRY::new(p)),
            6 => Box::new(q1tsim::gates::CRZ::new(p)), _ => Box::new(q1tsim::gates::CCRZ::new(p)),
        };
        let name = ["RX", "RY", "RZ", "U1", "CRX", "CRY", "CRZ", "CCRZ"][which as usize];
        for _ in 0..3
        {
            let v = gate::gen_angle(&mut rng);
            *cell.borrow_mut() = v;
            out.case(&format!("matrixref {} {}", name, fbits(v)), &show_mat(&g.matrix()));
        }
    }
    // liveness for EVERY pattern of direct / reference / FFI-pointer parameters of every gate that can hold a reference:
    // the gate is built while the cells hold decoys, matrix() is called once (so that anything cached is cached), the
    // cells are overwritten, and the matrix taken now must be the documented one at the NEW values.
    {
        use q1tsim::gates::{Parameter, RX, RY, RZ, U1, U2, U3, CRX, CRY, CRZ, CU1, CCRX, CCRY, CCRZ, C, Kron, H};
        let names: [(&str, usize); 16] = [("RX", 1), ("RY", 1), ("RZ", 1), ("U1", 1), ("U2", 2), ("U3", 3), ("CRX", 1), ("CRY", 1), ("CRZ", 1),
            ("CU1", 1), ("CCRX", 1), ("CCRY", 1), ("CCRZ", 1), ("C U3", 3), ("C C U2", 2), ("Kron U3 H", 3)];
        let rounds = if thorough() { 12 } else { 3 };
        for _ in 0..rounds
        {
            for (name, k) in names.iter()
            {
                for mask in 1..3u32.pow(*k as u32)
                {
                    // digit j of mask in base 3: 0 = direct, 1 = Rc<RefCell>, 2 = FFI pointer
                    let kinds: Vec<u32> = (0..*k).map(|j| (mask / 3u32.pow(j as u32)) % 3).collect();
                    let finals: Vec<f64> = (0..*k).map(|_| gate::gen_angle(&mut rng)).collect();
                    let cells: Vec<std::rc::Rc<std::cell::RefCell<f64>>> = (0..*k).map(|_| std::rc::Rc::new(std::cell::RefCell::new(0.123))).collect();
                    let boxes: Vec<Box<f64>> = (0..*k).map(|_| Box::new(-0.456)).collect();
                    let ptrs: Vec<*mut f64> = boxes.into_iter().map(Box::into_raw).collect();
                    let ps: Vec<Parameter> = (0..*k).map(|j| match kinds[j]
                        { 0 => Parameter::Direct(finals[j]), 1 => Parameter::from_refcell(&cells[j], "p"), _ => Parameter::FFIRef(ptrs[j] as *const f64) }).collect();
                    let p = |j: usize| ps[j].clone();
                    let g: Box<dyn Gate> = match *name
                    {
                        "RX" => Box::new(RX::new(p(0))), "RY" => Box::new(RY::new(p(0))), "RZ" => Box::new(RZ::new(p(0))), "U1" => Box::new(U1::new(p(0))),
                        "U2" => Box::new(U2::new(p(0), p(1))), "U3" => Box::new(U3::new(p(0), p(1), p(2))),
                        "CRX" => Box::new(CRX::new(p(0))), "CRY" => Box::new(CRY::new(p(0))), "CRZ" => Box::new(CRZ::new(p(0))), "CU1" => Box::new(CU1::new(p(0))),
                        "CCRX" => Box::new(CCRX::new(p(0))), "CCRY" => Box::new(CCRY::new(p(0))), "CCRZ" => Box::new(CCRZ::new(p(0))),
                        "C U3" => Box::new(C::new(U3::new(p(0), p(1), p(2)))), "C C U2" => Box::new(C::new(C::new(U2::new(p(0), p(1))))),
                        _ => Box::new(Kron::new(U3::new(p(0), p(1), p(2)), H::new()))
                    };
                    let _ = g.matrix();
                    for j in 0..*k { *cells[j].borrow_mut() = finals[j]; unsafe { let q: *mut f64 = ptrs[j]; *q = finals[j]; } }
                    let m1 = show_mat(&g.matrix());
                    let m2 = show_mat(&g.matrix());
                    let kinds_text: String = kinds.iter().map(|d| ['d', 'r', 'f'][*d as usize]).collect();
                    let term = if name.starts_with("Kron") { format!("Kron U3 {} H", finals.iter().map(|v| fbits(*v)).collect::<Vec<_>>().join(" ")) }
                        else { format!("{} {}", name, finals.iter().map(|v| fbits(*v)).collect::<Vec<_>>().join(" ")) };
                    out.case(&format!("matrixlive {} {}", kinds_text, term), &if m1 == m2 { m1 } else { "unstable".to_string() });
                    for q in ptrs { unsafe { drop(Box::from_raw(q)); } }
                }
            }
        }
    }
    placed_stream(&mut out, &mut rng);
    for t in long_loop_terms(&mut rng).iter() { emit_fs(&mut out, t); }
    layout_stream(&mut out, &mut rng);
    wide_register_stream(&mut out, &mut rng);
    history_stream(&mut out, &mut rng);
    let n = out.finish();
    eprintln!("c05: {} cases", n);
}

// ------------------------------------------------------------------------------------------------
// "placed" stream: Composite / Loop terms whose sub-gate acts on 4 or 5 qubits, on every operand order

fn nat<'a, It: Iterator<Item = &'a str>>(it: &mut It) -> usize { it.next().expect("nat").parse().expect("nat") }

fn nr_params(name: &str) -> usize
{
    gate::PARAM1.iter().chain(gate::PARAM2.iter()).chain(gate::PARAM3.iter()).find(|(g, _)| *g == name).map(|(_, k)| *k).unwrap_or(0)
}

/// Like `gate::parse` (sub-gates placed with `Composite::add_gate`), except that a Composite (or Loop body) whose name
/// starts with `fs` is built with `Composite::from_string` from the description its sub-gates spell (library gates only).
fn parse_fs<'a, It: Iterator<Item = &'a str>>(it: &mut std::iter::Peekable<It>) -> gate::Dyn
{
    use q1tsim::gates::{C, Kron, Composite, Loop};
    let head: &str = *it.peek().expect("gate name");
    match head
    {
        "C" => { it.next(); let g = parse_fs(it); gate::Dyn::Plain(std::rc::Rc::new(C::new(g))) },
        "Kron" => { it.next(); let a = parse_fs(it); let b = parse_fs(it); gate::Dyn::Full(Box::new(Kron::new(a, b))) },
        "Comp" | "Loop" => {
            it.next();
            let lp = if head == "Loop" { let l = it.next().expect("label").to_string(); let n = nat(it); Some((l, n)) } else { None };
            let name = it.next().expect("name").to_string();
            let nb = nat(it);
            let k = nat(it);
            let comp = if name.starts_with("fs")
            {
                let mut descs: Vec<String> = vec![];
                for _ in 0..k
                {
                    let g = it.next().expect("library gate");
                    let args: Vec<String> = (0..nr_params(g)).map(|_| format!("{:?}", gate::hex_f64(it.next().expect("param")))).collect();
                    let m = nat(it);
                    let bits: Vec<usize> = (0..m).map(|_| nat(it)).collect();
                    descs.push(if args.is_empty() { format!("{} {}", g, join(&bits)) } else { format!("{}({}) {}", g, args.join(", "), join(&bits)) });
                }
                let c = Composite::from_string(&name, &descs.join("; ")).expect("from_string");
                assert_eq!(c.nr_affected_bits(), nb, "from_string width");
                c
            }
            else
            {
                let mut c = Composite::new(&name, nb);
                for _ in 0..k
                {
                    let g = parse_fs(it);
                    let m = nat(it);
                    let bits: Vec<usize> = (0..m).map(|_| nat(it)).collect();
                    c.add_gate(g, &bits);
                }
                c
            };
            match lp { Some((l, n)) => gate::Dyn::Full(Box::new(Loop::new(&l, n, comp))), None => gate::Dyn::Full(Box::new(comp)) }
        },
        _ => gate::parse(it)
    }
}

fn emit_fs(out: &mut Out, term: &str)
{
    let t = term.to_string();
    let ans = catch(move || { let g = parse_fs(&mut t.split_whitespace().peekable()); (g.nr_affected_bits(), show_mat(&g.matrix())) });
    match ans
    {
        Some((nb, m)) => { out.case(&format!("matrix {}", term), &m); out.case(&format!("nrbits {}", term), &format!("ok {}", nb)); },
        None => out.case(&format!("matrix {}", term), "panic")
    }
}

/// positive dyadic angles: their shortest decimal text is read back exactly by `Composite::from_string`
const DYADIC: [f64; 8] = [0.75, 1.25, 2.5, 0.375, 3.0, 5.5, 0.625, 1.0];

/// a primitive on k qubits; `fs`: spellable for from_string (dyadic positive parameters)
fn prim(k: usize, fs: bool, rng: &mut SplitMix64) -> String
{
    if !fs { return gate::gen_prim(k, rng); }
    let (consts, params): (&[&str], &[(&str, usize)]) = match k
        { 1 => (&gate::CONST1, &gate::PARAM1), 2 => (&gate::CONST2, &gate::PARAM2), _ => (&gate::CONST3, &gate::PARAM3) };
    if rng.below(2) == 0 { rng.pick(consts).to_string() }
    else
    {
        let (g, np) = *rng.pick(params);
        let mut s = g.to_string();
        for _ in 0..np { s += " "; s += &fbits(*rng.pick(&DYADIC)); }
        s
    }
}

/// a one-qubit gate that is neither diagonal nor a Pauli (so that exchanging two qubits of a product shows)
fn skew1(rng: &mut SplitMix64) -> String
{
    match rng.below(5)
    {
        0 => "H".to_string(), 1 => "V".to_string(),
        2 => format!("RX {}", fbits(0.3 + rng.unit())), 3 => format!("RY {}", fbits(0.3 + rng.unit())),
        _ => format!("U3 {} {} {}", fbits(0.3 + rng.unit()), fbits(0.2 + rng.unit()), fbits(-0.4 - rng.unit()))
    }
}

fn pick_bits(n: usize, k: usize, rng: &mut SplitMix64) -> Vec<usize>
{
    let mut all: Vec<usize> = (0..n).collect();
    rng.shuffle(&mut all);
    all.truncate(k);
    all
}

/// the ops of a composite on `n` (4 or 5) qubits that uses every qubit: `<k> {<term> <m> <bits>}*k`
fn wide_ops(n: usize, fs: bool, rng: &mut SplitMix64) -> String
{
    let mut ops: Vec<String> = vec![];
    // a chain touching every qubit with distinct two-qubit gates, then random primitives on random operands
    ops.push(format!("{} 2 {} {}", prim(2, fs, rng), n - 1, 0));
    ops.push(format!("{} 1 {}", if fs { "H".to_string() } else { skew1(rng) }, 1));
    ops.push(format!("CRY {} 2 1 2", fbits(*rng.pick(&DYADIC))));
    for _ in 0..(1 + rng.below(3))
    {
        let m = 1 + rng.below(3) as usize;
        let g = if fs || rng.coin() { prim(m, fs, rng) } else { gate::gen_term(m, 1, rng) };
        ops.push(format!("{} {} {}", g, m, join(&pick_bits(n, m, rng))));
    }
    ops.push(format!("CRX {} 2 {} {}", fbits(*rng.pick(&DYADIC)), n - 2, n - 3));
    format!("{} {}", ops.len(), ops.join(" "))
}

const NR_WIDE4: usize = 12;
/// a gate term on exactly 4 qubits, of shape `kind`
fn wide4(kind: usize, rng: &mut SplitMix64) -> String
{
    match kind
    {
        0 => format!("Kron Kron {} {} Kron {} {}", skew1(rng), skew1(rng), skew1(rng), skew1(rng)),
        1 => format!("Kron {} {}", prim(2, false, rng), prim(2, false, rng)),
        2 => format!("Kron CRX {} CRY {}", fbits(gate::gen_angle(rng)), fbits(gate::gen_angle(rng))),
        3 => format!("Kron {} Kron {} {}", skew1(rng), prim(2, false, rng), skew1(rng)),
        4 => if rng.coin() { format!("Kron {} {}", prim(3, false, rng), skew1(rng)) } else { format!("Kron {} {}", skew1(rng), prim(3, false, rng)) },
        5 => "C C CX".to_string(),
        6 => format!("C Kron {} {}", skew1(rng), prim(2, false, rng)),
        7 => format!("C C Kron {} {}", skew1(rng), skew1(rng)),
        8 => format!("Comp in{} 4 {}", rng.below(100), wide_ops(4, false, rng)),
        9 => format!("Comp fs{} 4 {}", rng.below(100), wide_ops(4, true, rng)),
        10 => format!("Loop li{} 2 bi{} 4 {}", rng.below(100), rng.below(100), wide_ops(4, false, rng)),
        _ => format!("Loop lf{} 2 fs{} 4 {}", rng.below(100), rng.below(100), wide_ops(4, true, rng)),
    }
}

const NR_WIDE5: usize = 6;
fn wide5(kind: usize, rng: &mut SplitMix64) -> String
{
    match kind
    {
        0 => format!("Kron {} {}", prim(2, false, rng), prim(3, false, rng)),
        1 => format!("Kron Kron {} {} Kron {} Kron {} {}", skew1(rng), skew1(rng), skew1(rng), skew1(rng), skew1(rng)),
        2 => format!("C Kron CRZ {} CRX {}", fbits(gate::gen_angle(rng)), fbits(gate::gen_angle(rng))),
        3 => "C C C CX".to_string(),
        4 => format!("Comp in{} 5 {}", rng.below(100), wide_ops(5, false, rng)),
        _ => format!("Comp fs{} 5 {}", rng.below(100), wide_ops(5, true, rng)),
    }
}

/// every ordered selection of `k` distinct elements of 0..n
fn selections(n: usize, k: usize) -> Vec<Vec<usize>>
{
    fn go(n: usize, k: usize, cur: &mut Vec<usize>, res: &mut Vec<Vec<usize>>)
    {
        if cur.len() == k { res.push(cur.clone()); return; }
        for q in 0..n { if !cur.contains(&q) { cur.push(q); go(n, k, cur, res); cur.pop(); } }
    }
    let mut res = vec![];
    go(n, k, &mut vec![], &mut res);
    res
}

/// the sub-gate `g` (on `bits.len()` qubits) inside an outer Composite / Loop on `n` qubits, between two other sub-gates
fn outer(shape: usize, n: usize, g: &str, bits: &[usize], rng: &mut SplitMix64) -> String
{
    let pre = format!("{} 1 {}", skew1(rng), rng.below(n as u64));
    let post = format!("{} 2 {}", prim(2, false, rng), join(&pick_bits(n, 2, rng)));
    let mid = format!("{} {} {}", g, bits.len(), join(bits));
    match shape % 4
    {
        0 => format!("Comp out{} {} 1 {}", rng.below(100), n, mid),
        1 => format!("Comp out{} {} 3 {} {} {}", rng.below(100), n, pre, mid, post),
        2 => format!("Loop lo{} 2 bo{} {} 2 {} {}", rng.below(100), rng.below(100), n, mid, post),
        _ => format!("Comp top{} {} 2 {} Loop lo{} 1 bo{} {} 2 {} {} {} {}", rng.below(100), n, pre, rng.below(100), rng.below(100), n, post, mid,
                     n, join(&(0..n).collect::<Vec<_>>())),
    }
}

fn placed_stream(out: &mut Out, rng: &mut SplitMix64)
{
    let mut shape = 0usize;
    // 4-qubit sub-gates: every order of the 4 qubits of a 4-qubit composite, every ordered selection of 4 out of 5
    for n in 4..6
    {
        let sels = selections(n, 4);
        for (i, bits) in sels.iter().enumerate()
        {
            // interior out of order between the minimum (first) and the maximum (last), e.g. [0,2,1,3], [1,3,2,4]
            let inner_swapped = bits[0] + 3 == bits[3] && bits[1] > bits[2];
            let kinds: Vec<usize> = if thorough() || n == 4 || inner_swapped { (0..NR_WIDE4).collect() }
                else { (0..3).map(|j| (i * 5 + j * 4) % NR_WIDE4).collect() };
            for kind in kinds
            {
                let g = wide4(kind, rng);
                shape += 1;
                emit_fs(out, &outer(shape, n, &g, bits, rng));
            }
        }
    }
    // 5-qubit sub-gates in a 5-qubit composite
    let mut perms = selections(5, 5);
    if !thorough()
    {
        let mut fixed: Vec<Vec<usize>> = vec![vec![0, 1, 2, 3, 4], vec![4, 3, 2, 1, 0], vec![0, 2, 1, 3, 4], vec![0, 1, 3, 2, 4], vec![0, 3, 2, 1, 4],
            vec![0, 2, 3, 1, 4], vec![0, 3, 1, 2, 4], vec![1, 0, 2, 3, 4], vec![0, 1, 2, 4, 3], vec![4, 0, 1, 2, 3], vec![1, 2, 3, 4, 0], vec![2, 0, 4, 1, 3]];
        rng.shuffle(&mut perms);
        perms.truncate(12);
        fixed.append(&mut perms);
        perms = fixed;
    }
    for bits in perms.iter()
    {
        for kind in 0..NR_WIDE5
        {
            let g = wide5(kind, rng);
            shape += 1;
            emit_fs(out, &outer(shape, 5, &g, bits, rng));
        }
    }
}

// ------------------------------------------------------------------------------------------------
// loops with many iterations (17, 33, 40, 64, 100) over cheap bodies, applied to a state LARGER than the loop: as a sub-gate
// of a wider Composite (every operand order), as a factor of a Kron, below C, inside another Loop

fn long_loop(iters: usize, k: usize, rng: &mut SplitMix64) -> String
{
    let a = fbits(0.05 + 0.4 * rng.unit());
    match k
    {
        1 => format!("Loop ll{} {} lb1 1 2 T 1 0 RY {} 1 0", iters, iters, a),
        2 => format!("Loop ll{} {} lb2 2 3 H 1 0 CX 2 1 0 RX {} 1 1", iters, iters, a),
        _ => format!("Loop ll{} {} lb3 3 3 CCX 3 2 0 1 CRY {} 2 0 2 V 1 1", iters, iters, a),
    }
}

fn long_loop_terms(rng: &mut SplitMix64) -> Vec<String>
{
    let mut v = vec![];
    let counts: &[usize] = if thorough() { &[16, 17, 31, 32, 33, 40, 64, 65, 100, 128, 255] } else { &[17, 33, 40, 64, 100] };
    for &n in counts
    {
        v.push(long_loop(n, 1, rng));
        v.push(long_loop(n, 2, rng));
        // one-qubit loop on each qubit of a 3-qubit composite (block-wise route: blocks larger than the loop)
        for b in 0..3 { v.push(format!("Comp w 3 2 {} 1 {} {} 1 {}", skew1(rng), (b + 1) % 3, long_loop(n, 1, rng), b)); }
        // two-qubit loop on every ordered pair of 3 qubits, and on some pairs of 4
        for bits in selections(3, 2) { v.push(format!("Comp w 3 2 {} 1 2 {} 2 {}", skew1(rng), long_loop(n, 2, rng), join(&bits))); }
        for bits in [[0usize, 1], [1, 2], [3, 0], [2, 3]].iter() { v.push(format!("Comp w 4 2 {} 2 {} CX 2 0 3", long_loop(n, 2, rng), join(&bits[..]))); }
        v.push(format!("Comp w 4 1 {} 3 0 1 2", long_loop(n, 3, rng)));
        v.push(format!("Comp w 4 1 {} 3 3 1 0", long_loop(n, 3, rng)));
        // factor of a Kron, below C, inside a Loop
        v.push(format!("Kron {} H", long_loop(n, 2, rng)));
        v.push(format!("Kron V {}", long_loop(n, 1, rng)));
        v.push(format!("Kron {} {}", long_loop(n, 1, rng), long_loop(n, 1, rng)));
        v.push(format!("C {}", long_loop(n, 2, rng)));
        v.push(format!("C Kron {} RX {}", long_loop(n, 1, rng), fbits(0.7)));
        v.push(format!("Comp w 3 1 C {} 2 2 0", long_loop(n, 1, rng)));
        v.push(format!("Comp w 3 1 Kron {} H 2 1 2", long_loop(n, 1, rng)));
        v.push(format!("Loop lo 2 bo 3 2 {} 2 2 0 H 1 1", long_loop(n, 2, rng)));
    }
    v
}

// ------------------------------------------------------------------------------------------------
// "wide register" stream: Composites on 17 / 18 qubits made of basis-permuting gates, observed on basis vectors.
// A placement with an operand >= 16 follows a placement on low qubits whose operand list agrees with it when every index
// is packed into 4 bits ([a, 16+x] ~ [a+1, x]; [a, 16+x, c] ~ [a+1, x, c]; [a, b, 16+y] ~ [a, b+1, y]).
//
// Request `basis <route> <n> <index>*m <term>`: route `v` = Gate::apply on the state vector |index>, `m` = Gate::apply_mat
// on the 2^n x 1 matrix; answer `ok <index>*m` (the basis state each input is mapped to) or `mixed` / `panic`.

fn basis_image(g: &gate::Dyn, route: &str, n: usize, idx: usize) -> Option<usize>
{
    let one = Cplx::new(1.0, 0.0);
    let zero = Cplx::new(0.0, 0.0);
    let v: Vec<Cplx> = if route == "v"
    {
        let mut a = ndarray::Array1::from_elem(1usize << n, zero);
        a[idx] = one;
        g.apply(&mut a);
        a.to_vec()
    }
    else
    {
        let mut a = ndarray::Array2::from_elem((1usize << n, 1), zero);
        a[[idx, 0]] = one;
        g.apply_mat(&mut a);
        a.iter().cloned().collect()
    };
    let mut found = None;
    for (i, c) in v.iter().enumerate()
    {
        if *c == zero { continue; }
        if *c != one || found.is_some() { return None; }
        found = Some(i);
    }
    found
}

fn wide_register_stream(out: &mut Out, rng: &mut SplitMix64)
{
    let ncases = if thorough() { 96 } else { 32 };
    for case in 0..ncases
    {
        let n = 17 + (case % 2);
        let hi = |x: usize| 16 + (x % (n - 16));          // an operand >= 16
        let mut ops: Vec<String> = vec![];
        let rounds = 2 + rng.below(2) as usize;
        for _ in 0..rounds
        {
            let x = rng.below((n - 16) as u64) as usize;  // high operand 16 + x
            match rng.below(6)
            {
                // two operands: [a+1, x] then [a, 16+x]
                0 | 1 => {
                    let g = if rng.coin() { "CX" } else { "Swap" };
                    let mut a = rng.below(14) as usize;
                    if a + 1 == x { a += 1; }
                    ops.push(format!("{} 2 {} {}", g, a + 1, x));
                    ops.push(format!("{} 2 {} {}", g, a, 16 + x));
                },
                // the other way round: high placement first
                2 => {
                    let mut a = rng.below(14) as usize;
                    if a + 1 == x { a += 1; }
                    ops.push(format!("CX 2 {} {}", a, 16 + x));
                    ops.push(format!("CX 2 {} {}", a + 1, x));
                },
                // three operands, the high one in the middle: [a+1, x, c] then [a, 16+x, c]
                3 => {
                    let a = 2 + rng.below(10) as usize;
                    let c = a + 3;
                    ops.push(format!("CCX 3 {} {} {}", a + 1, x, c));
                    ops.push(format!("CCX 3 {} {} {}", a, 16 + x, c));
                },
                // three operands, the high one last: [a, b+1, y] then [a, b, 16+y]
                4 => {
                    let a = 3 + rng.below(5) as usize;
                    let b = a + 2 + rng.below(4) as usize;
                    ops.push(format!("CCX 3 {} {} {}", a, b + 1, x));
                    ops.push(format!("CCX 3 {} {} {}", a, b, 16 + x));
                },
                // a composite sub-gate and a Kron on colliding lists
                _ => {
                    let a = 2 + rng.below(10) as usize;
                    ops.push(format!("Kron X CX 3 {} {} {}", a + 1, hi(x) - 16, a + 4));
                    ops.push(format!("Comp in 3 2 CX 2 0 1 CX 2 1 2 3 {} {} {}", a, hi(x), a + 4));
                }
            }
            // single-qubit gates (block-wise route) and a non-colliding placement in between rounds
            ops.push(format!("X 1 {}", rng.below(n as u64)));
            if rng.coin() { let b = pick_bits(n, 2, rng); ops.push(format!("CX 2 {}", join(&b))); }
        }
        let term = format!("Comp wide{} {} {} {}", case, n, ops.len(), ops.join(" "));
        let route = if case % 4 == 3 { "m" } else { "v" };
        let mut inputs: Vec<usize> = vec![(1usize << n) - 1];
        for _ in 0..2 { inputs.push((rng.next() as usize) & ((1usize << n) - 1) | (1usize << rng.below(n as u64))); }
        let (t, r, ins) = (term.clone(), route.to_string(), inputs.clone());
        let ans = catch(move || {
            let g = gate::parse_str(&t);
            ins.iter().map(|&i| basis_image(&g, &r, n, i)).collect::<Vec<_>>()
        });
        let text = match ans
        {
            None => "panic".to_string(),
            Some(v) => if v.iter().any(|x| x.is_none()) { "mixed".to_string() } else { format!("ok {}", join(&v.iter().map(|x| x.unwrap()).collect::<Vec<_>>())) }
        };
        out.case(&format!("basis {} {} {} {}", route, n, join(&inputs), term), &text);
    }
}

// ------------------------------------------------------------------------------------------------
// "layout" stream: apply_mat / apply_mat_slice on one logical matrix held in different memory layouts

type Cplx = num_complex::Complex64;

/// `layout`: how the logical rows x cols matrix `data` (row-major) is stored when the gate is applied to it
fn apply_in_layout(g: &dyn Gate, layout: &str, rows: usize, cols: usize, data: &[Cplx]) -> Vec<Cplx>
{
    use ndarray::{Array2, ShapeBuilder};
    let at = |i: usize, j: usize| data[i * cols + j];
    let junk = Cplx::new(0.8125, -0.4375);
    let res: Array2<Cplx> = match layout
    {
        // row-major owned
        "rm" => { let mut a = Array2::from_shape_vec((rows, cols), data.to_vec()).unwrap(); g.apply_mat(&mut a); a },
        // column-major owned, built from the column-major data
        "cm" => {
            let d: Vec<Cplx> = (0..cols).flat_map(|j| (0..rows).map(move |i| (i, j))).map(|(i, j)| at(i, j)).collect();
            let mut a = Array2::from_shape_vec((rows, cols).f(), d).unwrap();
            assert!(rows < 2 || cols < 2 || (a.as_slice().is_none() && a.as_slice_memory_order().is_some()), "layout cm");
            g.apply_mat(&mut a); a
        },
        // the owned copy of the transpose of the transposed matrix
        "tt" => {
            let d: Vec<Cplx> = (0..cols).flat_map(|j| (0..rows).map(move |i| (i, j))).map(|(i, j)| at(i, j)).collect();
            let t = Array2::from_shape_vec((cols, rows), d).unwrap();
            let mut a = t.t().to_owned();
            g.apply_mat(&mut a); a
        },
        // reversed_axes of the transposed matrix
        "rev" => {
            let d: Vec<Cplx> = (0..cols).flat_map(|j| (0..rows).map(move |i| (i, j))).map(|(i, j)| at(i, j)).collect();
            let mut a = Array2::from_shape_vec((cols, rows), d).unwrap().reversed_axes();
            g.apply_mat(&mut a); a
        },
        // column-major zeros, assigned
        "cmz" => {
            let mut a = Array2::<Cplx>::zeros((rows, cols).f());
            for i in 0..rows { for j in 0..cols { a[[i, j]] = at(i, j); } }
            g.apply_mat(&mut a); a
        },
        // owned, every second column of a wider row-major array (not contiguous)
        "sc" | "vsc" => {
            let mut d = vec![junk; rows * cols * 2];
            for i in 0..rows { for j in 0..cols { d[i * 2 * cols + 2 * j] = at(i, j); } }
            let big = Array2::from_shape_vec((rows, 2 * cols), d).unwrap();
            if layout == "sc" { let mut a = big.slice_move(s![.., ..;2]); assert!(cols < 2 || a.as_slice_memory_order().is_none(), "layout sc"); g.apply_mat(&mut a); a }
            else
            {
                let mut big = big;
                g.apply_mat_slice(big.slice_mut(s![.., ..;2]));
                for i in 0..rows { for j in 0..cols { assert!(big[[i, 2 * j + 1]] == junk, "wrote outside the view"); } }
                big.slice(s![.., ..;2]).to_owned()
            }
        },
        // owned, every second row of a taller row-major array
        "sr" | "vsr" => {
            let mut d = vec![junk; rows * cols * 2];
            for i in 0..rows { for j in 0..cols { d[2 * i * cols + j] = at(i, j); } }
            let big = Array2::from_shape_vec((2 * rows, cols), d).unwrap();
            if layout == "sr" { let mut a = big.slice_move(s![..;2, ..]); g.apply_mat(&mut a); a }
            else
            {
                let mut big = big;
                g.apply_mat_slice(big.slice_mut(s![..;2, ..]));
                for i in 0..rows { for j in 0..cols { assert!(big[[2 * i + 1, j]] == junk, "wrote outside the view"); } }
                big.slice(s![..;2, ..]).to_owned()
            }
        },
        // owned, every second column of a wider COLUMN-major array
        "scf" => {
            let mut big = Array2::from_elem((rows, 2 * cols).f(), junk);
            for i in 0..rows { for j in 0..cols { big[[i, 2 * j]] = at(i, j); } }
            let mut a = big.slice_move(s![.., ..;2]);
            g.apply_mat(&mut a); a
        },
        // rows stored in reverse (negative stride)
        "neg" => {
            let d: Vec<Cplx> = (0..rows).rev().flat_map(|i| (0..cols).map(move |j| (i, j))).map(|(i, j)| at(i, j)).collect();
            let mut a = Array2::from_shape_vec((rows, cols), d).unwrap();
            a.invert_axis(ndarray::Axis(0));
            g.apply_mat(&mut a); a
        },
        // a view of a column-major array through apply_mat_slice
        "vcm" => {
            let mut a = Array2::<Cplx>::zeros((rows, cols).f());
            for i in 0..rows { for j in 0..cols { a[[i, j]] = at(i, j); } }
            g.apply_mat_slice(a.view_mut()); a
        },
        // Gate::apply on a state vector (one column)
        "vec" => {
            assert_eq!(cols, 1);
            let mut v = ndarray::Array1::from_vec(data.to_vec());
            g.apply(&mut v);
            Array2::from_shape_vec((rows, 1), v.to_vec()).unwrap()
        },
        other => panic!("unknown layout {}", other)
    };
    assert_eq!((res.rows(), res.cols()), (rows, cols));
    let mut v = Vec::with_capacity(rows * cols);
    for i in 0..rows { for j in 0..cols { v.push(res[[i, j]]); } }
    v
}

const LAYOUTS: [&str; 12] = ["rm", "cm", "tt", "rev", "cmz", "sc", "vsc", "sr", "vsr", "scf", "neg", "vcm"];

fn show_c(v: &[Cplx]) -> String { v.iter().map(|c| format!("{} {}", fbits(c.re), fbits(c.im))).collect::<Vec<_>>().join(" ") }

/// request `applymat <layout> <cols> <term> <row-major entries of the logical matrix>`; answer `ok <rows> <cols> <entries>`
fn emit_layout(out: &mut Out, layout: &str, term: &str, rows: usize, cols: usize, data: &[Cplx])
{
    let (t, l, d) = (term.to_string(), layout.to_string(), data.to_vec());
    let ans = catch(move || { let g = gate::parse_str(&t); apply_in_layout(&g, &l, rows, cols, &d) });
    out.case(&format!("applymat {} {} {} {}", layout, cols, term, show_c(data)),
        &match ans { Some(v) => format!("ok {} {} {}", rows, cols, show_c(&v)), None => "panic".to_string() });
}

fn layout_stream(out: &mut Out, rng: &mut SplitMix64)
{
    let mut terms: Vec<(String, usize)> = gate::registry(rng);
    // combinators that hand the whole matrix to a sub-gate on local qubit 0, and some that do not
    for t in ["Comp a 1 1 X 1 0", "Comp a 2 2 X 1 0 CX 2 1 0", "Comp a 2 2 Y 1 0 H 1 1", "Comp a 3 3 CCX 3 2 0 1 Y 1 0 X 1 2",
              "Loop l 3 b 2 2 X 1 0 CY 2 0 1", "Loop l 1 b 1 1 Y 1 0", "Kron X Y", "Kron Y H", "C X", "C Y", "C Kron X Y", "Kron X CX",
              "Comp a 2 1 Comp b 1 2 X 1 0 T 1 0 1 0", "Comp a 3 2 Kron X Y 2 0 1 Kron Y X 2 2 0", "Comp a 4 2 Kron Kron X Y Kron Y H 4 0 2 1 3 X 1 0"].iter()
    {
        let g = gate::parse_str(t);
        terms.push((t.to_string(), g.nr_affected_bits()));
    }
    for _ in 0..(if thorough() { 60 } else { 8 })
    {
        let k = 1 + rng.below(3) as usize;
        terms.push((gate::gen_term(k, 2, rng), k));
    }
    let shapes: &[(usize, usize)] = if thorough() { &[(1, 1), (1, 2), (1, 3), (2, 2), (2, 3), (4, 5), (1, 4)] } else { &[(1, 2), (1, 3), (2, 3), (2, 2)] };
    // loops with many iterations: the matrix has 2 or 4 times as many rows as the loop (or its host) needs
    for t in long_loop_terms(rng).iter()
    {
        let nb = gate::parse_str(t).nr_affected_bits();
        for (mult, cols) in [(2usize, 3usize), (1, 2), (4, 2)].iter()
        {
            let rows = (1usize << nb) * mult;
            if rows * cols > 100 { continue; }
            let data: Vec<Cplx> = (0..rows * cols).map(|_| Cplx::new(rng.range(-64, 64) as f64 / 32.0, rng.range(-64, 64) as f64 / 32.0)).collect();
            for layout in ["rm", "cm", "vsr"].iter() { emit_layout(out, layout, t, rows, *cols, &data); }
        }
    }
    for (term, nb) in terms.iter()
    {
        for (si, (mult, cols)) in shapes.iter().enumerate()
        {
            let rows = (1usize << nb) * mult;
            if rows * cols > 200 { continue; }
            let data: Vec<Cplx> = (0..rows * cols).map(|_| Cplx::new(rng.range(-64, 64) as f64 / 32.0, rng.range(-64, 64) as f64 / 32.0)).collect();
            for (li, layout) in LAYOUTS.iter().enumerate()
            {
                // quick: every layout on the first two shapes, a rotating third of them on the others
                if !thorough() && si >= 2 && (li + si) % 3 != 0 { continue; }
                emit_layout(out, layout, term, rows, *cols, &data);
            }
        }
    }
}

// ------------------------------------------------------------------------------------------------
// "history" stream: ONE Composite object built step by step and USED after every add_gate (matrix(), apply on a state vector,
// apply_mat in two layouts, at two state sizes: its own width and one qubit more); clones taken mid-way (after use) and extended
// differently; bodies used, extended and then wrapped in a Loop or placed in a wider Composite.  The requests are the ordinary
// `matrix` / `applymat` requests for the term that spells the sub-gates added SO FAR (the composite's name carries case and
// step: `inc<case>s<step>`, `cl..` for the clone, `lb..` for a loop body), the answers come from the long-lived object.

fn gen_data(rng: &mut SplitMix64, n: usize) -> Vec<Cplx>
{
    (0..n).map(|_| Cplx::new(rng.range(-64, 64) as f64 / 32.0, rng.range(-64, 64) as f64 / 32.0)).collect()
}

fn use_object(out: &mut Out, g: &dyn Gate, term: &str, step: usize, rng: &mut SplitMix64)
{
    let k = g.nr_affected_bits();
    let ans = catch(std::panic::AssertUnwindSafe(|| show_mat(&g.matrix())));
    out.case(&format!("matrix {}", term), &ans.unwrap_or_else(|| "panic".to_string()));
    // state vector: own width and one qubit more; matrices: row-major on the wider state, column-major on the own width
    let uses: [(&str, usize, usize); 4] = [("vec", 1, 1), ("vec", 2, 1), ("rm", 2, 3), ("cm", 1, 2)];
    for (i, (layout, mult, cols)) in uses.iter().enumerate()
    {
        // every use at every step in thorough; quick: the two state sizes alternate between vector and matrix route
        if !thorough() && (i + step) % 2 == 1 { continue; }
        let rows = (1usize << k) * mult;
        let data = gen_data(rng, rows * cols);
        let ans = catch(std::panic::AssertUnwindSafe(|| apply_in_layout(g, layout, rows, *cols, &data)));
        out.case(&format!("applymat {} {} {} {}", layout, cols, term, show_c(&data)),
            &match ans { Some(v) => format!("ok {} {} {}", rows, cols, show_c(&v)), None => "panic".to_string() });
    }
}

/// a sub-gate for a `k`-qubit composite: (term, operands); multi-qubit gates in random operand order preferred
fn history_op(k: usize, rng: &mut SplitMix64) -> (String, Vec<usize>)
{
    let m = if k == 1 || rng.below(4) == 0 { 1 } else { 2 + rng.below((k.min(3) - 1) as u64) as usize };
    let g = if rng.below(4) == 0 && m <= 2 { gate::gen_term(m, 1, rng) } else if m == 1 { skew1(rng) } else { gate::gen_prim(m, rng) };
    (g, pick_bits(k, m, rng))
}

fn comp_term(name: &str, k: usize, ops: &[String]) -> String { format!("Comp {} {} {} {}", name, k, ops.len(), ops.join(" ")).trim_end().to_string() }

fn history_stream(out: &mut Out, rng: &mut SplitMix64)
{
    use q1tsim::gates::{Composite, Loop};
    let ncases = if thorough() { 120 } else { 24 };
    for case in 0..ncases
    {
        let k = 2 + case % 2;
        let steps = 4 + rng.below(3) as usize;
        let fork = 1 + rng.below(steps as u64 - 1) as usize;
        let mut comp = Composite::new(&format!("inc{}", case), k);
        let mut ops: Vec<String> = vec![];
        let mut clone: Option<(Composite, Vec<String>)> = None;
        if case % 3 == 0 { use_object(out, &comp, &comp_term(&format!("inc{}s0", case), k, &ops), 0, rng); }
        for step in 1..=steps
        {
            let (g, bits) = history_op(k, rng);
            comp.add_gate(gate::parse_str(&g), &bits);
            ops.push(format!("{} {} {}", g, bits.len(), join(&bits)));
            use_object(out, &comp, &comp_term(&format!("inc{}s{}", case, step), k, &ops), step, rng);
            // the clone of the USED composite goes its own way from here
            if let Some((c2, ops2)) = clone.as_mut()
            {
                let (g, bits) = history_op(k, rng);
                c2.add_gate(gate::parse_str(&g), &bits);
                ops2.push(format!("{} {} {}", g, bits.len(), join(&bits)));
                use_object(out, &*c2, &comp_term(&format!("cl{}s{}", case, step), k, ops2), step + 1, rng);
            }
            if step == fork { clone = Some((comp.clone(), ops.clone())); }
        }
        // the used body, extended once more without a use in between, wrapped in a Loop / placed in a wider Composite
        let (g, bits) = history_op(k, rng);
        comp.add_gate(gate::parse_str(&g), &bits);
        ops.push(format!("{} {} {}", g, bits.len(), join(&bits)));
        let iters = 1 + rng.below(3) as usize;
        let lp = Loop::new("hl", iters, comp.clone());
        use_object(out, &lp, &format!("Loop hl {} {}", iters, &comp_term(&format!("lb{}", case), k, &ops)[5..]), case, rng);
        let obits = pick_bits(k + 1, k, rng);
        let h = skew1(rng);
        let mut outer = Composite::new("ho", k + 1);
        outer.add_gate(gate::parse_str(&h), &[0]);
        outer.add_gate(comp.clone(), &obits);
        let oterm = format!("Comp ho{} {} 2 {} 1 0 {} {} {}", case, k + 1, h, comp_term(&format!("in{}", case), k, &ops), k, join(&obits));
        use_object(out, &outer, &oterm, case + 1, rng);
        // the body itself goes on after having been cloned into its hosts
        let (g, bits) = history_op(k, rng);
        comp.add_gate(gate::parse_str(&g), &bits);
        ops.push(format!("{} {} {}", g, bits.len(), join(&bits)));
        use_object(out, &comp, &comp_term(&format!("inc{}s{}", case, steps + 2), k, &ops), case, rng);
    }
}

//! C08: classical register writes and histogram views. Requests in the line protocol of
//! lean/Driver/C08.lean.
use q1t_harness::*;
#[path = "../regcommon.rs"]
mod regcommon;
use regcommon::*;

const VEC_MAX: usize = 12;

fn helper_cases(out: &mut Out, rng: &mut SplitMix64)
{
    // reverse_bits: every width 0..=66 on structured and random words
    let words = |rng: &mut SplitMix64| -> Vec<u64> {
        let mut v = vec![0u64, 1, 2, 0xa, 0x8000_0000_0000_0000, u64::MAX, 0x5555_5555_5555_5555, 0x1fff_ffff_ffff_fffa];
        for _ in 0..4 { v.push(rng.next()); }
        v.push(rng.next() & 0xff);
        v
    };
    for nr_bits in 0..=66usize
    {
        for idx in words(rng)
        {
            let r = catch(move || q1tsim::verif::reverse_bits(idx, nr_bits));
            out.case(&format!("rev {} {}", idx, nr_bits), &match r { Some(x) => format!("ok {}", x), None => "panic".into() });
        }
    }
    // shuffle_bits: all lists over {0..3} up to length 3 on all 3-bit words; random lists (permutations,
    // repeats, positions up to 63, sometimes >= 64, lists longer than 64)
    for len in 0..=3usize
    {
        for code in 0..4usize.pow(len as u32)
        {
            let bits: Vec<usize> = (0..len).map(|i| (code >> (2 * i)) & 3).collect();
            for idx in 0..8u64
            {
                let b2 = bits.clone();
                let r = catch(move || q1tsim::verif::shuffle_bits(idx, &b2));
                out.case(&format!("shuf {} | {}", idx, js(&bits)), &match r { Some(x) => format!("ok {}", x), None => "panic".into() });
            }
        }
    }
    let nrand = if thorough() { 6000 } else { 1200 };
    for k in 0..nrand
    {
        let len = match k % 5 { 0 => rng.below(70) as usize, 1 => 64, _ => rng.below(9) as usize };
        let mut bits: Vec<usize> = match rng.below(3)
        {
            0 => { let mut p: Vec<usize> = (0..64).collect(); rng.shuffle(&mut p); p.into_iter().cycle().take(len).collect() },
            1 => (0..len).map(|_| rng.below(64) as usize).collect(),
            _ => (0..len).map(|_| rng.below(6) as usize).collect()
        };
        if rng.below(12) == 0 && !bits.is_empty() { let i = rng.below(bits.len() as u64) as usize; bits[i] = 64 + rng.below(3) as usize; }
        let idx = if rng.coin() { rng.next() } else { rng.next() & 0xffff };
        let b2 = bits.clone();
        let r = catch(move || q1tsim::verif::shuffle_bits(idx, &b2));
        out.case(&format!("shuf {} | {}", idx, js(&bits)), &match r { Some(x) => format!("ok {}", x), None => "panic".into() });
    }
    // get_ranges
    for k in 0..(if thorough() { 1500 } else { 300 })
    {
        let len = if k == 0 { 0 } else { rng.below(9) as usize };
        let nrs: Vec<usize> = (0..len).map(|_| rng.below(12) as usize).collect();
        let n2 = nrs.clone();
        let r = catch(move || q1tsim::verif::get_ranges(&n2));
        out.case(&format!("ranges {}", js(&nrs)), &match r {
            Some(v) => format!("ok {}", v.iter().map(|(a, b)| format!("{} {}", a, b)).collect::<Vec<_>>().join(" ")),
            None => "panic".into() });
    }
}

/// a list of `n` classical bit indices below `nc`
fn cbit_list(rng: &mut SplitMix64, n: usize, nc: usize, distinct: bool) -> Vec<usize>
{
    if distinct && nc >= n
    {
        let mut p: Vec<usize> = (0..nc).collect();
        rng.shuffle(&mut p);
        p.truncate(n);
        p
    }
    else { (0..n).map(|_| rng.below(nc as u64) as usize).collect() }
}

fn distinct_qubits(rng: &mut SplitMix64, k: usize, nq: usize) -> Vec<usize>
{
    let mut p: Vec<usize> = (0..nq).collect();
    rng.shuffle(&mut p);
    p.truncate(k);
    p
}

fn gen_ops(rng: &mut SplitMix64, vector: bool, nq: usize, nc: usize, malformed: bool) -> Vec<Op>
{
    let nops = 1 + rng.below(if thorough() { 14 } else { 10 }) as usize;
    let mut ops = vec![];
    for _ in 0..nops
    {
        let k = rng.below(20);
        let op = match k
        {
            0..=4 => Op::Gate(*rng.pick(&["X", "X", "X", "Y", "Z", "S"]), vec![rng.below(nq as u64) as usize]),
            5 if nq >= 2 => Op::Gate("CX", distinct_qubits(rng, 2, nq)),
            6 if nq >= 2 => Op::Gate("Swap", distinct_qubits(rng, 2, nq)),
            7 if nq >= 3 && vector => Op::Gate("CCX", distinct_qubits(rng, 3, nq)),
            8 | 9 | 10 if nc > 0 => Op::Measure(rng.below(nq as u64) as usize, rng.below(nc as u64) as usize),
            11 | 12 if nc > 0 => Op::Peek(rng.below(nq as u64) as usize, rng.below(nc as u64) as usize),
            13 | 14 if nc > 0 => { let d = rng.below(4) != 0; Op::MeasureAll(cbit_list(rng, nq, nc, d)) },
            15 | 16 if nc > 0 => { let d = rng.below(4) != 0; Op::PeekAll(cbit_list(rng, nq, nc, d)) },
            17 => Op::Reset(rng.below(nq as u64) as usize),
            18 => if rng.coin() { Op::ResetAll } else { let k = 1 + rng.below(nq as u64) as usize; Op::Barrier(distinct_qubits(rng, k, nq)) },
            _ => Op::Gate("X", vec![rng.below(nq as u64) as usize])
        };
        ops.push(op);
    }
    if malformed
    {
        let pos = rng.below(ops.len() as u64 + 1) as usize;
        let bad = match rng.below(6)
        {
            0 => Op::Measure(rng.below(nq as u64) as usize, nc + rng.below(3) as usize),
            1 => Op::Peek(nq + rng.below(2) as usize, rng.below(nc.max(1) as u64) as usize),
            2 => { let mut l = cbit_list(rng, nq, nc.max(1), false); l[0] = nc + rng.below(2) as usize; Op::MeasureAll(l) },
            // wrong number of listed bits: the vector backend rejects it, the stabilizer backend's
            // measure_all runs into InvalidQBit (longer) or measures a prefix (shorter)
            3 if nc > 0 => { let k = nq + 1 + rng.below(2) as usize; Op::MeasureAll(cbit_list(rng, k, nc, false)) },
            4 if nc > 0 && nq > 1 => Op::MeasureAll(cbit_list(rng, nq - 1, nc, false)),
            5 if nc > 0 && nq > 1 => Op::PeekAll(cbit_list(rng, nq - 1, nc, false)),
            5 if nc > 0 && vector => Op::PeekAll(cbit_list(rng, nq + 1, nc, false)),
            _ => Op::Gate("X", vec![nq + rng.below(2) as usize])
        };
        ops.insert(pos, bad);
    }
    ops
}

fn circ_case(out: &mut Out, vector: bool, nq: usize, nc: usize, shots: usize, ops: &[Op])
{
    let req = format!("circ {} {} {} {} | {}", if vector { "v" } else { "s" }, nq, nc, shots, ops_text(ops));
    let ans = match run_circuit(vector, nq, nc, shots, ops, 12345)
    {
        Outcome::BuildErr(e) => format!("err build:{}", e),
        Outcome::RunErr(e) => format!("err {}", e),
        Outcome::Panic => "panic".to_string(),
        Outcome::Done { circuit, trace } => {
            let cs: Vec<u64> = circuit.cstate().map(|a| a.to_vec()).unwrap_or_default();
            let t = trace.iter().map(|e| ju(&e.cstate)).collect::<Vec<_>>().join(" / ");
            format!("ok {} | t {} | {}", ju(&cs), t, views_text(&circuit, nc, VEC_MAX))
        }
    };
    out.case(&req, &ans);
}

/// A randomising prelude (H q; measure q -> c for a subset of the qubits, distinct bits) splits the shots over several
/// ranges; afterwards every shot is in the basis state spelled by its own register word.  The operations that follow are
/// then checked PER SHOT from that start (request `circfrom`): range-wise bookkeeping (offsets, masks) must not leak
/// between groups of shots.
fn split_case(out: &mut Out, rng: &mut SplitMix64, vector: bool)
{
    let nq = 1 + rng.below(4) as usize;
    let nc = nq + 1 + rng.below(5) as usize;
    let shots = 3 + rng.below(10) as usize;
    let nsplit = 1 + rng.below(nq as u64) as usize;
    let qs = distinct_qubits(rng, nsplit, nq);
    let cs = cbit_list(rng, nsplit, nc, true);
    let mut prelude = vec![];
    for (q, c) in qs.iter().zip(cs.iter()) { prelude.push(Op::H(*q)); prelude.push(Op::Measure(*q, *c)); }
    let ops = gen_ops(rng, vector, nq, nc, false);
    let mut all = prelude.clone();
    all.extend(ops.iter().cloned());
    let seed = rng.next();
    match run_circuit(vector, nq, nc, shots, &all, seed)
    {
        Outcome::Done { circuit, trace } => {
            let p = prelude.len();
            let start = &trace[p - 1].cstate;
            let init: Vec<String> = start.iter().map(|w| {
                let bits: String = (0..nq).map(|q| match qs.iter().position(|x| *x == q) { Some(i) => if (w >> cs[i]) & 1 == 1 { '1' } else { '0' }, None => '0' }).collect();
                format!("{} {}", bits, w) }).collect();
            let req = format!("circfrom {} {} {} {} | init {} | {}", if vector { "v" } else { "s" }, nq, nc, shots, init.join(" "), ops_text(&ops));
            let cst: Vec<u64> = circuit.cstate().map(|a| a.to_vec()).unwrap_or_default();
            let t = trace[p..].iter().map(|e| ju(&e.cstate)).collect::<Vec<_>>().join(" / ");
            out.case(&req, &format!("ok {} | t {} | {}", ju(&cst), t, views_text(&circuit, nc, VEC_MAX)));
        },
        Outcome::Panic => out.case(&format!("circfrom-unexpected-panic {}", ops_text(&all)), "panic"),
        Outcome::RunErr(e) | Outcome::BuildErr(e) => out.case(&format!("circfrom-unexpected-error {}", ops_text(&all)), &format!("err {}", e))
    }
}

/// The same Circuit object executed several times with different shot counts (more, fewer, equal): after every run the
/// register and the three histogram views must be views of exactly the N words of THAT run.
fn rerun_case(out: &mut Out, rng: &mut SplitMix64, vector: bool)
{
    use rand_core::SeedableRng;
    let nq = 1 + rng.below(3) as usize;
    let nc = nq + rng.below(3) as usize;
    let mut ops = vec![];
    for q in 0..nq { match rng.below(3) { 0 => ops.push(Op::Gate("X", vec![q])), 1 => ops.push(Op::H(q)), _ => {} } }
    ops.push(Op::MeasureAll(cbit_list(rng, nq, nc.max(nq), true)));
    let nc = nc.max(nq);
    let mut c = q1tsim::circuit::Circuit::new(nq, nc);
    for op in ops.iter() { if add_op(&mut c, op).is_err() { return; } }
    let counts: Vec<usize> = (0..3).map(|_| *rng.pick(&[1usize, 2, 5, 16, 40, 64])).collect();
    for (k, &n) in counts.iter().enumerate()
    {
        let mut r = rand::rngs::StdRng::seed_from_u64(rng.next());
        let repr = if vector { q1tsim::circuit::QuStateRepr::vector(nq, n) } else { q1tsim::circuit::QuStateRepr::stabilizer(nq, n) };
        let res = std::panic::catch_unwind(std::panic::AssertUnwindSafe(|| c.execute_with(n, &mut r, repr)));
        match res
        {
            Ok(Ok(())) => {
                let cs: Vec<u64> = c.cstate().map(|a| a.to_vec()).unwrap_or_default();
                // request kind `views`: the model recomputes the three views from the register; the number of words must be n
                out.case(&format!("views {} | {}", nc, ju(&cs)), &views_text(&c, nc, VEC_MAX));
                out.case(&format!("nwords {} {} {}", k, n, counts.iter().map(|x| x.to_string()).collect::<Vec<_>>().join(",")), &format!("ok {}", cs.len()));
            },
            _ => { out.case(&format!("rerun-unexpected-failure {}", ops_text(&ops)), "harness-error"); return; }
        }
    }
}

/// The same operations through the C interface (`src/ffi.rs`): gates by name, circuit_measure with the collapse flag
/// (0 = peek), circuit_measure_all, circuit_reset, circuit_execute, circuit_cstate.  Only the final register is visible
/// there.  Valid operand lists only (a panic across the C ABI would abort the process).
fn ffi_case(out: &mut Out, nq: usize, nc: usize, shots: usize, ops: &[Op])
{
    use q1tsim::ffi;
    use std::os::raw::c_char;
    #[repr(C)] #[derive(Clone, Copy)]
    struct RawResult { data: *const std::os::raw::c_void, length: usize, size: usize, restype: u32 }
    fn raw(r: ffi::CResult) -> RawResult { unsafe { std::mem::transmute::<ffi::CResult, RawResult>(r) } }
    fn unraw(r: RawResult) -> ffi::CResult { unsafe { std::mem::transmute::<RawResult, ffi::CResult>(r) } }
    let ok = |r: ffi::CResult| -> bool { let rr = raw(r); let good = rr.restype != 0; ffi::result_free(unraw(rr)); good };
    let valid = ops.iter().all(|op| match op
    {
        Op::Gate(g, b) => *g != "CCX" && b.iter().all(|q| *q < nq),      // the C interface has no ccx
        Op::Barrier(b) => b.iter().all(|q| *q < nq),
        Op::Measure(q, c) | Op::Peek(q, c) => *q < nq && *c < nc.min(64),
        // distinct target bits only (repeated ones are the known finding D14, reported by the `circ` requests)
        Op::MeasureAll(cs) | Op::PeekAll(cs) => cs.len() == nq && cs.iter().all(|c| *c < nc.min(64)) && (0..cs.len()).all(|i| !cs[..i].contains(&cs[i])),
        Op::Reset(q) => *q < nq, Op::ResetAll => true, Op::H(q) => *q < nq, Op::Cond(..) => false
    });
    if !valid || shots == 0 || nq == 0 { return; }
    let c = ffi::circuit_new(nq, nc);
    let mut all_ok = true;
    for op in ops.iter()
    {
        let good = match op
        {
            Op::Gate(g, b) => { let n = std::ffi::CString::new(g.to_lowercase()).unwrap(); ok(ffi::circuit_add_gate(c, n.as_ptr(), b.as_ptr(), b.len(), std::ptr::null(), 0)) },
            Op::H(q) => { let n = std::ffi::CString::new("h").unwrap(); let b = [*q]; ok(ffi::circuit_add_gate(c, n.as_ptr(), b.as_ptr(), 1, std::ptr::null(), 0)) },
            Op::Measure(q, cb) => ok(ffi::circuit_measure(c, *q, *cb, 'z' as c_char, 1)),
            Op::Peek(q, cb) => ok(ffi::circuit_measure(c, *q, *cb, 'z' as c_char, 0)),
            Op::MeasureAll(cs) => ok(ffi::circuit_measure_all(c, cs.as_ptr(), cs.len(), 'z' as c_char, 1)),
            Op::PeekAll(cs) => ok(ffi::circuit_measure_all(c, cs.as_ptr(), cs.len(), 'z' as c_char, 0)),
            Op::Reset(q) => ok(ffi::circuit_reset(c, *q)),
            Op::ResetAll => ok(ffi::circuit_reset_all(c)),
            Op::Barrier(_) => true,      // no barrier in the C interface
            Op::Cond(..) => false
        };
        all_ok &= good;
    }
    let ops_nobar: Vec<Op> = ops.iter().filter(|o| !matches!(o, Op::Barrier(_))).cloned().collect();
    let req = format!("circffi a {} {} {} | {}", nq, nc, shots, ops_text(&ops_nobar));
    let ans = if !all_ok { "err build".to_string() } else if !ok(ffi::circuit_execute(c, shots)) { "err run".to_string() } else {
        let rr = raw(ffi::circuit_cstate(c));
        let words: Option<Vec<u64>> = if rr.restype == 5 && !rr.data.is_null() { Some(unsafe { std::slice::from_raw_parts(rr.data as *const u64, rr.length) }.to_vec()) } else { None };
        ffi::result_free(unraw(rr));
        match words { Some(w) => format!("ok {}", ju(&w)), None => "err cstate".to_string() } };
    ffi::circuit_free(c);
    out.case(&req, &ans);
}

/// Histories on ONE `Circuit` object (created through the C interface, so that the Rust views and `circuit_histogram` look at
/// the same object): execute, then a mix of reexecute (rewrites the same register in place) and execute with the same or
/// another shot count.  After EVERY run all four views - histogram(), histogram_vec(), histogram_string() and the C
/// interface's circuit_histogram - are queried in a generated ORDER, some of them twice (so that the string view has been
/// asked for before a reexecute and is asked for again after it).  Every view must be a view of the N words the register
/// holds after THAT run: two `views` requests per run (string segment from histogram_string() / from the C interface).
/// The circuits flip qubits with X, so a reexecute (which continues from the final state) yields other words than the
/// run before: x(0); measure(0,2); measure(1,0) gives 0b100, then 0b000.
fn history_case(out: &mut Out, rng: &mut SplitMix64, vector: bool, fixed: bool)
{
    use q1tsim::ffi;
    use rand_core::SeedableRng;
    #[repr(C)] #[derive(Clone, Copy)]
    struct RawResult { data: *const std::os::raw::c_void, length: usize, size: usize, restype: u32 }
    #[repr(C)] struct RawHistElem { key: *const std::os::raw::c_char, count: usize }
    fn raw(r: ffi::CResult) -> RawResult { unsafe { std::mem::transmute::<ffi::CResult, RawResult>(r) } }
    fn unraw(r: RawResult) -> ffi::CResult { unsafe { std::mem::transmute::<RawResult, ffi::CResult>(r) } }
    let (nq, nc, ops): (usize, usize, Vec<Op>) = if fixed
    {
        let mut o = vec![Op::Gate("X", vec![0]), Op::Measure(0, 2), Op::Measure(1, 0)];
        if vector { o.insert(0, Op::Gate("S", vec![1])); }
        (2, 3, o)
    }
    else
    {
        let nq = 1 + rng.below(3) as usize;
        let nc = nq + rng.below(4) as usize;
        let mut o = vec![];
        for q in 0..nq { match rng.below(4) { 0 | 1 => o.push(Op::Gate("X", vec![q])), 2 => o.push(Op::H(q)), _ => {} } }
        if !o.iter().any(|op| matches!(op, Op::Gate("X", _))) { o.push(Op::Gate("X", vec![0])); }
        let cb = cbit_list(rng, nq, nc, true);
        if rng.coin() { o.push(Op::MeasureAll(cb)); } else { for q in 0..nq { o.push(Op::Measure(q, cb[q])); } }
        (nq, nc, o)
    };
    let ptr = ffi::circuit_new(nq, nc);
    let c: &mut q1tsim::circuit::Circuit = unsafe { &mut *ptr };
    for op in ops.iter() { if add_op(c, op).is_err() { ffi::circuit_free(ptr); return; } }
    let nruns = if fixed { 3 } else { 3 + rng.below(3) as usize };
    let mut n = *rng.pick(&[1usize, 3, 7, 16]);
    let mut hist: Vec<String> = vec![];
    for k in 0..nruns
    {
        let mut r = rand::rngs::StdRng::seed_from_u64(rng.next());
        let re = k > 0 && (fixed || rng.below(3) != 0);
        let res = if re { hist.push("reexecute".to_string()); std::panic::catch_unwind(std::panic::AssertUnwindSafe(|| c.reexecute_with_rng(&mut r))) }
        else
        {
            if k > 0 && rng.coin() { n = *rng.pick(&[1usize, 3, 7, 16, 40]); }
            hist.push(format!("execute({})", n));
            let repr = if vector { q1tsim::circuit::QuStateRepr::vector(nq, n) } else { q1tsim::circuit::QuStateRepr::stabilizer(nq, n) };
            std::panic::catch_unwind(std::panic::AssertUnwindSafe(|| c.execute_with(n, &mut r, repr)))
        };
        if !matches!(res, Ok(Ok(()))) { out.case(&format!("history-unexpected-failure {} | {}", ops_text(&ops), hist.join(",")), "harness-error"); break; }
        let cs: Vec<u64> = c.cstate().map(|a| a.to_vec()).unwrap_or_default();
        // the order of the queries: a permutation of the four views, plus now and then a second query of the string views
        let mut order = vec!['h', 'v', 's', 'f'];
        rng.shuffle(&mut order);
        if rng.coin() { let i = rng.below(order.len() as u64 + 1) as usize; order.insert(i, *rng.pick(&['s', 'f'])); }
        // the last run of a history is sometimes not queried at all for the string views before... (every run is queried: the
        // cache, if any, is always warm before the next run)
        let (mut h, mut v, mut sv, mut fv): (Option<String>, Option<String>, Option<String>, Option<String>) = (None, None, None, None);
        let mut unstable = false;
        for q in order.iter()
        {
            match q
            {
                'h' => { h = Some(match c.histogram() { Ok(m) => { let mut l: Vec<(u64, usize)> = m.into_iter().collect(); l.sort();
                    format!("h {}", l.iter().map(|(k, n)| format!("{}:{}", k, n)).collect::<Vec<_>>().join(" ")) }, Err(e) => format!("h err {}", err_text(&e)) }); },
                'v' => { v = Some(if nc > VEC_MAX { "v -".to_string() } else { match c.histogram_vec() { Ok(x) => format!("v {}", js(&x)), Err(e) => format!("v err {}", err_text(&e)) } }); },
                's' => { let t = match c.histogram_string() { Ok(m) => { let mut l: Vec<(String, usize)> = m.into_iter().collect(); l.sort();
                    format!("s {}", l.iter().map(|(k, n)| format!("{}:{}", k, n)).collect::<Vec<_>>().join(" ")) }, Err(e) => format!("s err {}", err_text(&e)) };
                    if let Some(old) = &sv { if *old != t { unstable = true; } } sv = Some(t); },
                _ => {
                    let rr = raw(ffi::circuit_histogram(ptr));
                    let t = if rr.restype == 3
                    {
                        let elems: &[RawHistElem] = if rr.length == 0 { &[] } else { unsafe { std::slice::from_raw_parts(rr.data as *const RawHistElem, rr.length) } };
                        let mut l: Vec<(String, usize)> = elems.iter().map(|e| (unsafe { std::ffi::CStr::from_ptr(e.key) }.to_string_lossy().into_owned(), e.count)).collect();
                        l.sort();
                        format!("s {}", l.iter().map(|(k, n)| format!("{}:{}", k, n)).collect::<Vec<_>>().join(" "))
                    } else { "s err c-interface".to_string() };
                    ffi::result_free(unraw(rr));
                    if let Some(old) = &fv { if *old != t { unstable = true; } } fv = Some(t);
                }
            }
        }
        let tail = format!("{} {} {} | runs {} | queries {}{}", if vector { "v" } else { "s" }, nq, ops_text(&ops).replace(" | ", " ; "), hist.join(","),
            order.iter().map(|c| c.to_string()).collect::<Vec<_>>().join(","), if unstable { " UNSTABLE" } else { "" });
        let (h, v) = (h.unwrap(), v.unwrap());
        out.case(&format!("views {} | {} | history {}", nc, ju(&cs), tail), &format!("{} | {} | {}{}", h, v, sv.unwrap(), if unstable { " | two-queries-of-one-view-differ" } else { "" }));
        out.case(&format!("views {} | {} | history-c-interface {}", nc, ju(&cs), tail), &format!("{} | {} | {}", h, v, fv.unwrap()));
        out.case(&format!("nwords {} {} {}", k, n, hist.join(",").replace(' ', "")), &format!("ok {}", cs.len()));
    }
    ffi::circuit_free(ptr);
}

fn main()
{
    let dir = std::env::args().nth(1).expect("usage: c08 <outdir>");
    silence_panics();
    let mut rng = SplitMix64::from_env();
    let mut out = Out::new(&dir);

    helper_cases(&mut out, &mut rng);

    // fixed witnesses: D14 on both backends, wide registers, bit 63, nr_cbits > 64
    for &vector in &[true, false]
    {
        circ_case(&mut out, vector, 2, 2, 3, &[Op::Gate("X", vec![0]), Op::MeasureAll(vec![0, 0])]);
        circ_case(&mut out, vector, 2, 2, 3, &[Op::Gate("X", vec![0]), Op::PeekAll(vec![0, 0])]);
        circ_case(&mut out, vector, 2, 2, 3, &[Op::Gate("X", vec![1]), Op::MeasureAll(vec![1, 1])]);
        circ_case(&mut out, vector, 1, 64, 2, &[Op::Gate("X", vec![0]), Op::Measure(0, 63), Op::Peek(0, 0), Op::Gate("X", vec![0]), Op::Measure(0, 63)]);
        circ_case(&mut out, vector, 1, 70, 2, &[Op::Gate("X", vec![0]), Op::Measure(0, 64)]);
        circ_case(&mut out, vector, 1, 70, 0, &[Op::Peek(0, 69)]);
        circ_case(&mut out, vector, 2, 70, 1, &[Op::MeasureAll(vec![3, 65])]);
        circ_case(&mut out, vector, 2, 70, 1, &[Op::PeekAll(vec![66, 2])]);
        circ_case(&mut out, vector, 2, 0, 2, &[Op::Gate("X", vec![1])]);
        circ_case(&mut out, vector, 1, 3, 0, &[Op::Gate("X", vec![0]), Op::Measure(0, 1), Op::Reset(0)]);
    }

    // generated circuits on computational basis states (all outcomes deterministic)
    let ncirc = if thorough() { 12000 } else { 2500 };
    for k in 0..ncirc
    {
        let vector = k % 2 == 0;
        let nq = 1 + rng.below(if thorough() { 6 } else { 5 }) as usize;
        let nc = match rng.below(10)
        {
            0 => rng.below(3) as usize,
            1 | 2 => nq,
            3 | 4 => nq + 1 + rng.below(4) as usize,
            5 => 64,
            6 => 17 + rng.below(47) as usize,
            7 => if rng.below(4) == 0 { 65 + rng.below(6) as usize } else { 63 },
            _ => 1 + rng.below(12) as usize
        };
        let shots = match rng.below(12) { 0 => 0, 1 | 2 => 1, _ => 2 + rng.below(4) as usize };
        let malformed = rng.below(8) == 0;
        let ops = gen_ops(&mut rng, vector, nq, nc, malformed);
        circ_case(&mut out, vector, nq, nc, shots, &ops);
        if !malformed && k % 4 == 0 { ffi_case(&mut out, nq, nc, shots, &ops); }
    }

    // histogram views on registers with genuinely different shots: H + measurements with a seeded
    // generator; the register the run ended with is the *input* of the three view functions
    let nviews = if thorough() { 3000 } else { 600 };
    for k in 0..nviews
    {
        let vector = k % 2 == 0;
        let nq = 1 + rng.below(4) as usize;
        let nc = match rng.below(6) { 0 => 64, 1 => 13 + rng.below(40) as usize, _ => 1 + rng.below(8) as usize };
        let shots = match rng.below(8) { 0 => 0, 1 => 1, _ => 1 + rng.below(40) as usize };
        let mut ops = vec![];
        let nprep = if shots == 0 { 0 } else { 2 + rng.below(8) };
        for _ in 0..nprep
        {
            let q = rng.below(nq as u64) as usize;
            ops.push(match rng.below(5) { 0 | 1 => Op::H(q), 2 => Op::Gate("X", vec![q]),
                3 => Op::Measure(q, rng.below(nc as u64) as usize), _ => Op::MeasureAll(cbit_list(&mut rng, nq, nc, true)) });
        }
        ops.push(Op::MeasureAll(cbit_list(&mut rng, nq, nc, true)));
        match run_circuit(vector, nq, nc, shots, &ops, rng.next())
        {
            Outcome::Done { circuit, .. } => {
                let cs: Vec<u64> = circuit.cstate().map(|a| a.to_vec()).unwrap_or_default();
                out.case(&format!("views {} | {}", nc, ju(&cs)), &views_text(&circuit, nc, VEC_MAX));
            },
            _ => { out.case(&format!("views {} | unexpected-failure {}", nc, ops_text(&ops)), "harness-error"); }
        }
    }
    for k in 0..(if thorough() { 4000 } else { 800 }) { split_case(&mut out, &mut rng, k % 2 == 0); }
    for k in 0..(if thorough() { 1000 } else { 200 }) { rerun_case(&mut out, &mut rng, k % 2 == 0); }
    for &vector in &[true, false] { history_case(&mut out, &mut rng, vector, true); }
    for k in 0..(if thorough() { 1500 } else { 300 }) { history_case(&mut out, &mut rng, k % 2 == 0, false); }
    let n = out.finish();
    eprintln!("c08: {} cases", n);
}

//! C03: stabilizer tableau.  Requests in the line protocol of lean/Driver/C03.lean.
//!
//! Streams (all deterministic given VERIF_SEED):
//!  1. `conj` / `isstab`: dynamic dump of `conjugate()` on all 4^k strings (and wrong arities) and of
//!     `is_stabilizer()` for every library gate  -> cross-checks the static table Gen/Conj.lean.
//!  2. every tableau (canonical or not, commuting or not) with n <= 2: every private row operation and
//!     every public operation through the verif hooks.
//!  3. all stabilizer states for n <= 3 (n <= 4 thorough), enumerated with the real `apply_gate`:
//!     every library stabilizer gate on every ordered tuple of distinct qubits, measure, collapse
//!     after a Random result, reset, packed words; `StabilizerState` users (peek_all, measure).
//!  4. random tableaux for larger n (row operations; packing across several u64 words).
//!  5. random Clifford circuits with measurements and resets on 5..8 qubits (and a few wide ones).
use q1t_harness::*;
use q1t_harness::gate;
use q1tsim::gates::*;
use q1tsim::stabilizer::{MeasurementInfo, PauliOp, StabilizerTableau, StabilizerState};
use q1tsim::qustate::QuState;
use q1tsim::error::Error;
use std::collections::HashMap;

const STAB1: [&str; 9] = ["I", "X", "Y", "Z", "H", "S", "Sdg", "V", "Vdg"];
const STAB2: [&str; 4] = ["CX", "CY", "CZ", "Swap"];

fn gate(name: &str) -> Box<dyn Gate>
{
    match name
    {
        "I" => Box::new(I::new()), "X" => Box::new(X::new()), "Y" => Box::new(Y::new()),
        "Z" => Box::new(Z::new()), "H" => Box::new(H::new()), "S" => Box::new(S::new()),
        "Sdg" => Box::new(Sdg::new()), "V" => Box::new(V::new()), "Vdg" => Box::new(Vdg::new()),
        "CX" => Box::new(CX::new()), "CY" => Box::new(CY::new()), "CZ" => Box::new(CZ::new()),
        "Swap" => Box::new(Swap::new()),
        "T" => Box::new(T::new()), "Tdg" => Box::new(Tdg::new()),
        "RX" => Box::new(RX::new(0.3)), "RY" => Box::new(RY::new(0.3)), "RZ" => Box::new(RZ::new(0.3)),
        "U1" => Box::new(U1::new(0.3)), "U2" => Box::new(U2::new(0.3, 0.4)), "U3" => Box::new(U3::new(0.3, 0.4, 0.5)),
        "CH" => Box::new(CH::new()), "CRX" => Box::new(CRX::new(0.3)), "CRY" => Box::new(CRY::new(0.3)),
        "CRZ" => Box::new(CRZ::new(0.3)), "CS" => Box::new(CS::new()), "CSdg" => Box::new(CSdg::new()),
        "CT" => Box::new(CT::new()), "CTdg" => Box::new(CTdg::new()), "CU1" => Box::new(CU1::new(0.3)),
        "CU2" => Box::new(CU2::new(0.3, 0.4)), "CU3" => Box::new(CU3::new(0.3, 0.4, 0.5)),
        "CV" => Box::new(CV::new()), "CVdg" => Box::new(CVdg::new()),
        "CCRX" => Box::new(CCRX::new(0.3)), "CCRY" => Box::new(CCRY::new(0.3)), "CCRZ" => Box::new(CCRZ::new(0.3)),
        "CCX" => Box::new(CCX::new()), "CCZ" => Box::new(CCZ::new()),
        _ => panic!("unknown gate {}", name)
    }
}

const ALL_GATES: [&str; 39] = ["I", "X", "Y", "Z", "H", "S", "Sdg", "V", "Vdg", "CX", "CY", "CZ", "Swap", "T", "Tdg",
    "RX", "RY", "RZ", "U1", "U2", "U3", "CH", "CRX", "CRY", "CRZ", "CS", "CSdg", "CT", "CTdg", "CU1", "CU2", "CU3",
    "CV", "CVdg", "CCRX", "CCRY", "CCRZ", "CCX", "CCZ"];

/// Run `f`; a panic is classified by its message.
fn guarded<T, F: FnOnce() -> T + std::panic::UnwindSafe>(f: F) -> Result<T, String>
{
    match std::panic::catch_unwind(f)
    {
        Ok(v) => Ok(v),
        Err(p) => {
            let msg = if let Some(s) = p.downcast_ref::<&str>() { s.to_string() }
                else if let Some(s) = p.downcast_ref::<String>() { s.clone() } else { String::new() };
            if msg.contains("i_pow") { Err("panic assert".into()) }
            else if msg.contains("unwrap()") && msg.contains("None") { Err("panic unwrap".into()) }
            else if msg.contains("index out of bounds") { Err("panic index".into()) }
            else { Err(format!("panic other {}", msg.replace('\n', " ").replace('\t', " "))) }
        }
    }
}

fn show_err(e: &Error) -> String
{
    match e
    {
        Error::InvalidNrBits(got, exp, _) => format!("err nrbits {} {}", got, exp),
        Error::NotAStabilizer(_) => "err notstab".to_string(),
        e => format!("err other {:?}", e)
    }
}

fn text(t: &StabilizerTableau) -> String
{
    let s = format!("{}", t);
    if s.is_empty() { "_".to_string() } else { s.replace('\n', ",") }
}

fn parse(ts: &str) -> (Vec<Vec<u64>>, Vec<bool>)
{
    if ts == "_" { return (vec![], vec![]); }
    let mut rows = vec![];
    let mut signs = vec![];
    for l in ts.split(',')
    {
        let cs: Vec<char> = l.chars().collect();
        signs.push(cs[0] == '-');
        rows.push(cs[1..].iter().map(|c| match c { 'I' => 0, 'Z' => 1, 'X' => 2, 'Y' => 3, _ => panic!("bad op") }).collect());
    }
    (rows, signs)
}

fn build(ts: &str) -> StabilizerTableau
{
    let (rows, signs) = parse(ts);
    StabilizerTableau::verif_from_rows(&rows, &signs)
}

fn hexwords(ws: &[u64]) -> String { ws.iter().map(|w| format!("{:016x}", w)).collect::<Vec<_>>().join(" ") }

fn ok_tab(r: Result<StabilizerTableau, String>) -> String
{
    match r { Ok(t) => format!("ok {}", text(&t)), Err(e) => e }
}

/// consistency of the hooks themselves: from_rows -> get_bits/get_sign gives the rows back
fn hooks_roundtrip(ts: &str) -> bool
{
    let (rows, signs) = parse(ts);
    let t = build(ts);
    let n = rows.len();
    (0..n).all(|i| t.verif_get_sign(i) == signs[i] && (0..n).all(|j| t.verif_get_bits(i, j) == rows[i][j]))
}

fn op_swap(out: &mut Out, ts: &str, a: usize, b: usize)
{
    let t0 = build(ts);
    out.case(&format!("swap {} {} {}", ts, a, b), &ok_tab(guarded(move || { let mut t = t0; t.verif_swap_rows(a, b); t })));
}

fn op_mul(out: &mut Out, ts: &str, a: usize, b: usize)
{
    let t0 = build(ts);
    out.case(&format!("mul {} {} {}", ts, a, b), &ok_tab(guarded(move || { let mut t = t0; t.verif_multiply_row(a, b); t })));
}

fn op_norm(out: &mut Out, ts: &str)
{
    let t0 = build(ts);
    out.case(&format!("norm {}", ts), &ok_tab(guarded(move || { let mut t = t0; t.verif_normalize(); t })));
}

fn op_words(out: &mut Out, ts: &str)
{
    let t = build(ts);
    let (xz, sg) = t.verif_words();
    let ans = if hooks_roundtrip(ts) { format!("ok {} | {}", hexwords(&xz), hexwords(&sg)) } else { "roundtrip-failed".to_string() };
    out.case(&format!("words {}", ts), &ans);
}

fn op_gate(out: &mut Out, ts: &str, name: &str, bits: &[usize])
{
    let t0 = build(ts);
    let g = gate(name);
    let bits_v = bits.to_vec();
    let r = guarded(std::panic::AssertUnwindSafe(move || { let mut t = t0; let r = t.apply_gate(&*g, &bits_v); (t, r) }));
    let ans = match r
    {
        Ok((t, Ok(()))) => format!("ok {}", text(&t)),
        Ok((_, Err(e))) => show_err(&e),
        Err(e) => e
    };
    out.case(&format!("gate {} {} {}", ts, name, join(bits)), &ans);
}

/// measure; returns Some(i) for Random(i)
fn op_measure(out: &mut Out, ts: &str, q: usize) -> Option<usize>
{
    let t = build(ts);
    let r = guarded(std::panic::AssertUnwindSafe(|| t.measure(q)));
    let (ans, res) = match r
    {
        Ok(MeasurementInfo::Deterministic(v)) => (format!("det {}", v as u8), None),
        Ok(MeasurementInfo::Random(i)) => (format!("rnd {}", i), Some(i)),
        Err(e) => (e, None)
    };
    out.case(&format!("measure {} {}", ts, q), &ans);
    res
}

fn op_collapse(out: &mut Out, ts: &str, i: usize, q: usize, v: bool)
{
    let t0 = build(ts);
    out.case(&format!("collapse {} {} {} {}", ts, i, q, v as u8),
        &ok_tab(guarded(move || { let mut t = t0; t.collapse(i, q, v); t })));
}

/// `measure(q)` and, after `Random(i)`, `collapse(i, q, v)` with the index the code itself reported
fn op_mcollapse(out: &mut Out, ts: &str, q: usize, v: bool)
{
    let t0 = build(ts);
    let r = guarded(move || {
        let mut t = t0;
        match t.measure(q)
        {
            MeasurementInfo::Deterministic(b) => format!("det {}", b as u8),
            MeasurementInfo::Random(i) => { t.collapse(i, q, v); format!("ok {}", text(&t)) }
        }
    });
    out.case(&format!("mcollapse {} {} {}", ts, q, v as u8), &match r { Ok(a) => a, Err(e) => e });
}

/// a Clifford-only combinator gate (term grammar of harness/src/gate.rs) through the real `apply_gate`;
/// `fs` = Some(description): the (flat) Composite is built with `Composite::from_string` instead of `add_gate`
fn build_term(term: &str, fs: Option<(&str, &str)>) -> Result<Box<dyn Gate>, String>
{
    match fs
    {
        Some((name, desc)) => match Composite::from_string(name, desc)
        {
            Ok(c) => Ok(Box::new(c)),
            Err(e) => Err(format!("from-string-error {:?}", e).replace('\t', " "))
        },
        None => Ok(Box::new(gate::parse_str(term)))
    }
}

fn op_tgate(out: &mut Out, ts: &str, bits: &[usize], term: &str, fs: Option<(&str, &str)>)
{
    match build_term(term, fs)
    {
        Ok(g) => op_tgate_built(out, ts, bits, term, fs.is_some(), &*g),
        Err(e) => out.case(&format!("tgate {} f {} {}", ts, join(bits).replace(' ', ","), term), &e)
    }
}

fn op_tgate_built(out: &mut Out, ts: &str, bits: &[usize], term: &str, fs: bool, g: &dyn Gate)
{
    let t0 = build(ts);
    let r = guarded(std::panic::AssertUnwindSafe(move || {
        let mut t = t0;
        let r = t.apply_gate(g, bits);
        (t, r)
    }));
    let ans = match r
    {
        Ok((t, Ok(()))) => format!("ok {}", text(&t)),
        Ok((_, Err(e))) => show_err(&e),
        Err(e) => e
    };
    let mode = if fs { "f" } else { "a" };
    out.case(&format!("tgate {} {} {} {}", ts, mode, if bits.is_empty() { "-".to_string() } else { bits.iter().map(|b| b.to_string()).collect::<Vec<_>>().join(",") }, term), &ans);
}

/// flat composite: (term text, from_string description)
fn flat(name: &str, nb: usize, subs: &[(&str, &[usize])]) -> (String, String)
{
    let mut t = format!("Comp {} {} {}", name, nb, subs.len());
    let mut d = vec![];
    for (g, bits) in subs
    {
        t.push_str(&format!(" {} {} {}", g, bits.len(), join(bits)));
        d.push(format!("{} {}", g, join(bits)));
    }
    (t, d.join("; "))
}

struct Term { arity: usize, text: String, fs: Option<(String, String)> }

/// the Clifford-only combinator terms of stream 6
fn clifford_terms() -> Vec<Term>
{
    let mut v = vec![];
    let add_flat = |v: &mut Vec<Term>, name: &str, nb: usize, subs: &[(&str, &[usize])]| {
        let (t, d) = flat(name, nb, subs);
        let covers = subs.iter().any(|(_, b)| b.contains(&(nb - 1)));
        v.push(Term { arity: nb, text: t.clone(), fs: None });
        if covers { v.push(Term { arity: nb, text: t, fs: Some((name.to_string(), d)) }); }
    };
    // one qubit
    add_flat(&mut v, "a1", 1, &[("H", &[0]), ("S", &[0])]);
    add_flat(&mut v, "a2", 1, &[("V", &[0]), ("Y", &[0]), ("Sdg", &[0]), ("Vdg", &[0]), ("Z", &[0]), ("I", &[0]), ("X", &[0])]);
    v.push(Term { arity: 1, text: "Loop l 3 b 1 2 H 1 0 S 1 0".into(), fs: None });
    v.push(Term { arity: 1, text: "Comp o 1 2 Comp i 1 1 V 1 0 1 0 X 1 0".into(), fs: None });
    // two qubits: ascending, descending operands
    add_flat(&mut v, "b1", 2, &[("CX", &[1, 0])]);
    add_flat(&mut v, "b2", 2, &[("CX", &[0, 1]), ("H", &[1]), ("CZ", &[1, 0])]);
    add_flat(&mut v, "b3", 2, &[("CY", &[1, 0]), ("S", &[0])]);
    add_flat(&mut v, "b4", 2, &[("Swap", &[1, 0]), ("V", &[1]), ("CY", &[0, 1])]);
    add_flat(&mut v, "b5", 2, &[("H", &[0]), ("Sdg", &[1]), ("CX", &[0, 1]), ("Vdg", &[0]), ("CX", &[1, 0])]);
    v.push(Term { arity: 2, text: "Kron H S".into(), fs: None });
    v.push(Term { arity: 2, text: "Kron Vdg X".into(), fs: None });
    v.push(Term { arity: 2, text: "Comp o 2 2 Comp i 2 1 CX 2 1 0 2 1 0 H 1 0".into(), fs: None });
    v.push(Term { arity: 2, text: "Comp o 2 2 Kron S H 2 1 0 Comp i 2 2 CY 2 1 0 V 1 1 2 0 1".into(), fs: None });
    for k in 0..=4 { v.push(Term { arity: 2, text: format!("Loop l {} b 2 3 H 1 0 CX 2 1 0 S 1 1", k), fs: None }); }
    // three qubits: non-adjacent operands, mixed arities
    add_flat(&mut v, "c1", 3, &[("CX", &[2, 0])]);
    add_flat(&mut v, "c2", 3, &[("CX", &[2, 0]), ("CZ", &[0, 2]), ("CY", &[2, 1]), ("H", &[1])]);
    add_flat(&mut v, "c3", 3, &[("CX", &[0, 2]), ("Swap", &[2, 1]), ("S", &[0]), ("CY", &[1, 0])]);
    add_flat(&mut v, "c4", 3, &[("H", &[2]), ("CX", &[2, 1]), ("CX", &[1, 0]), ("V", &[0]), ("Swap", &[0, 2])]);
    v.push(Term { arity: 3, text: "Kron CX H".into(), fs: None });
    v.push(Term { arity: 3, text: "Kron H CX".into(), fs: None });
    v.push(Term { arity: 3, text: "Kron S Kron V Sdg".into(), fs: None });
    v.push(Term { arity: 3, text: "Kron Kron H Y Sdg".into(), fs: None });
    v.push(Term { arity: 3, text: "Comp o 3 2 Kron CX H 3 2 0 1 Comp i 2 1 CX 2 1 0 2 2 1".into(), fs: None });
    v.push(Term { arity: 3, text: "Comp o 3 2 Comp i 3 2 CZ 2 2 0 H 1 1 3 1 2 0 Loop l 2 b 2 2 CX 2 1 0 S 1 0 2 0 2".into(), fs: None });
    v.push(Term { arity: 3, text: "Loop l 2 b 3 3 CX 2 2 0 H 1 1 CY 2 1 2".into(), fs: None });
    v.push(Term { arity: 3, text: "Loop l 0 b 3 1 CX 2 2 0".into(), fs: None });
    // four qubits
    v.push(Term { arity: 4, text: "Kron CX CY".into(), fs: None });
    v.push(Term { arity: 4, text: "Kron Kron H Y CY".into(), fs: None });
    v.push(Term { arity: 4, text: "Kron Swap Kron H S".into(), fs: None });
    v.push(Term { arity: 4, text: "Kron H Kron CZ V".into(), fs: None });
    add_flat(&mut v, "d1", 4, &[("CX", &[3, 0]), ("CY", &[1, 3]), ("H", &[2]), ("Swap", &[2, 0]), ("CZ", &[3, 1])]);
    v
}

/// all ordered k-tuples of distinct elements of 0..n
fn tuples(n: usize, k: usize) -> Vec<Vec<usize>>
{
    let mut res: Vec<Vec<usize>> = vec![vec![]];
    for _ in 0..k
    {
        let mut next = vec![];
        for t in res.iter() { for x in 0..n { if !t.contains(&x) { let mut u = t.clone(); u.push(x); next.push(u); } } }
        res = next;
    }
    res
}

fn op_reset(out: &mut Out, ts: &str, q: usize)
{
    let t0 = build(ts);
    out.case(&format!("reset {} {}", ts, q), &ok_tab(guarded(move || { let mut t = t0; t.reset(q); t })));
}

fn ordered_pairs(n: usize) -> Vec<(usize, usize)>
{
    let mut v = vec![];
    for a in 0..n { for b in 0..n { if a != b { v.push((a, b)); } } }
    v
}

/// every public operation on a tableau given as text (valid placements)
fn public_ops(out: &mut Out, ts: &str, n: usize, collapse_any_row: bool)
{
    for g in STAB1.iter() { for q in 0..n { op_gate(out, ts, g, &[q]); } }
    for g in STAB2.iter() { for (a, b) in ordered_pairs(n) { op_gate(out, ts, g, &[a, b]); } }
    for q in 0..n
    {
        let r = op_measure(out, ts, q);
        if collapse_any_row
        {
            for i in 0..n { for &v in &[false, true] { op_collapse(out, ts, i, q, v); } }
        }
        else if let Some(i) = r
        {
            op_collapse(out, ts, i, q, false);
            op_collapse(out, ts, i, q, true);
        }
        op_mcollapse(out, ts, q, false);
        op_mcollapse(out, ts, q, true);
        op_reset(out, ts, q);
    }
    op_words(out, ts);
}

fn private_ops(out: &mut Out, ts: &str, n: usize)
{
    for a in 0..n { for b in 0..n { op_swap(out, ts, a, b); op_mul(out, ts, a, b); } }
    op_norm(out, ts);
}

fn random_tab(rng: &mut SplitMix64, n: usize) -> String
{
    let mut rows = vec![];
    for _ in 0..n
    {
        let mut s = String::new();
        s.push(if rng.coin() { '-' } else { '+' });
        for _ in 0..n { s.push(['I', 'Z', 'X', 'Y'][rng.below(4) as usize]); }
        rows.push(s);
    }
    rows.join(",")
}

/// a random *valid* (commuting, independent) tableau: random Clifford circuit from |0..0>, not normalised
/// afterwards by anything but the code itself, then rows scrambled by multiplications and swaps
fn random_state(rng: &mut SplitMix64, n: usize, depth: usize) -> StabilizerTableau
{
    let mut t = StabilizerTableau::new(n);
    for _ in 0..depth
    {
        if n >= 2 && rng.below(3) == 0
        {
            let a = rng.below(n as u64) as usize;
            let mut b = rng.below(n as u64 - 1) as usize;
            if b >= a { b += 1; }
            let g = gate(STAB2[rng.below(4) as usize]);
            t.apply_gate(&*g, &[a, b]).unwrap();
        }
        else
        {
            let q = rng.below(n as u64) as usize;
            let g = gate(STAB1[rng.below(9) as usize]);
            t.apply_gate(&*g, &[q]).unwrap();
        }
    }
    t
}

fn conj_dump(out: &mut Out)
{
    let ops = [PauliOp::I, PauliOp::Z, PauliOp::X, PauliOp::Y];
    for name in ALL_GATES.iter()
    {
        let g = gate(name);
        out.case(&format!("isstab {}", name), if g.is_stabilizer() { "true" } else { "false" });
        let k = g.nr_affected_bits();
        // all strings of length 0 ..= k+1 (wrong arities included)
        for len in 0..=(k + 1)
        {
            let total = 4usize.pow(len as u32);
            for code in 0..total
            {
                let digits: Vec<usize> = (0..len).map(|p| (code / 4usize.pow((len - 1 - p) as u32)) % 4).collect();
                let mut v: Vec<PauliOp> = digits.iter().map(|&d| ops[d]).collect();
                let r = guarded(std::panic::AssertUnwindSafe(|| g.conjugate(&mut v)));
                let ans = match r
                {
                    Ok(Ok(flip)) => format!("ok {} {}", flip as u8, join(&v.iter().map(|o| o.to_bits()).collect::<Vec<_>>())),
                    Ok(Err(e)) => show_err(&e),
                    Err(e) => e
                };
                out.case(&format!("conj {} {}", name, join(&digits)), ans.trim_end());
                if !g.is_stabilizer() && len != k { break; }
            }
        }
    }
}

struct Enumerated { texts: Vec<String>, parent: Vec<Option<(usize, &'static str, Vec<usize>)>> }

/// all tableaux reachable from new(n) under H, S, CX with the real code
fn enumerate(n: usize) -> Enumerated
{
    let mut texts = vec![text(&StabilizerTableau::new(n))];
    let mut parent: Vec<Option<(usize, &'static str, Vec<usize>)>> = vec![None];
    let mut seen: HashMap<String, usize> = HashMap::new();
    seen.insert(texts[0].clone(), 0);
    let mut gens: Vec<(&'static str, Vec<usize>)> = vec![];
    for q in 0..n { gens.push(("H", vec![q])); }
    for q in 0..n { gens.push(("S", vec![q])); }
    for (a, b) in ordered_pairs(n) { gens.push(("CX", vec![a, b])); }
    let mut k = 0;
    while k < texts.len()
    {
        for (g, bits) in gens.iter()
        {
            let mut t = build(&texts[k]);
            t.apply_gate(&*gate(g), bits).unwrap();
            let s = text(&t);
            if !seen.contains_key(&s)
            {
                seen.insert(s.clone(), texts.len());
                texts.push(s);
                parent.push(Some((k, g, bits.clone())));
            }
        }
        k += 1;
    }
    Enumerated { texts, parent }
}

fn word_of(e: &Enumerated, mut k: usize) -> Vec<(&'static str, Vec<usize>)>
{
    let mut w = vec![];
    while let Some((p, g, bits)) = &e.parent[k] { w.push((*g, bits.clone())); k = *p; }
    w.reverse();
    w
}

fn state_from_word(n: usize, shots: usize, w: &[(&'static str, Vec<usize>)]) -> StabilizerState
{
    let mut s = StabilizerState::new(n, shots);
    for (g, bits) in w { s.apply_gate(&*gate(g), bits).unwrap(); }
    s
}

fn snapshot_texts(s: &StabilizerState) -> Vec<String>
{
    match s.verif_snapshot()
    {
        q1tsim::verif::Snapshot::Stabilizer { tableaus, .. } =>
            tableaus.iter().map(|t| if t.is_empty() { "_".to_string() } else { t.replace('\n', ",") }).collect(),
        _ => vec![]
    }
}

/// the range-level users in state.rs on one enumerated state (every call under catch_unwind)
fn state_users(out: &mut Out, n: usize, ts: &str, w: &[(&'static str, Vec<usize>)], seed: u64)
{
    use rand::SeedableRng;
    let shots = 48;
    let cbits: Vec<usize> = (0..n).collect();
    let ts_owned = ts.to_string();
    let wv: Vec<(&'static str, Vec<usize>)> = w.to_vec();
    let r = guarded(std::panic::AssertUnwindSafe(|| {
        let mut rng = rand::rngs::StdRng::seed_from_u64(seed);
        let mut s = state_from_word(n, shots, &wv);
        if snapshot_texts(&s) != vec![ts_owned.clone()] { return "state-rebuild-mismatch".to_string(); }
        let mut res = ndarray::Array1::<u64>::zeros(shots);
        let r = s.peek_all_into(&cbits, &mut res, &mut rng);
        let mut obs: Vec<u64> = res.iter().cloned().collect();
        obs.sort(); obs.dedup();
        let unchanged = snapshot_texts(&s) == vec![ts_owned.clone()];
        match r {
            Ok(()) if unchanged => format!("obs {}", join(&obs)),
            Ok(()) => "peek-changed-state".to_string(),
            Err(e) => show_err(&e) }
    }));
    out.case(&format!("peekall {}", ts), &match r { Ok(a) => a, Err(e) => e });
    for q in 0..n
    {
        let wv: Vec<(&'static str, Vec<usize>)> = w.to_vec();
        let r = guarded(std::panic::AssertUnwindSafe(|| {
            let mut rng = rand::rngs::StdRng::seed_from_u64(seed.wrapping_add(q as u64 + 1));
            let mut s = state_from_word(n, 1, &wv);
            let r = s.measure(q, &mut rng);
            let snap = snapshot_texts(&s);
            match r {
                Ok(m) if snap.len() == 1 => format!("{} {}", m[0], snap[0]),
                Ok(_) => "not-one-range".to_string(),
                Err(e) => show_err(&e) }
        }));
        out.case(&format!("smeasure {} {}", ts, q), &match r { Ok(a) => a, Err(e) => e });
        // the register already holds ones everywhere: a measured 0 has to clear the target bit
        let b = (q * 7 + seed as usize) % 64;
        for two in [false, true].iter()
        {
            let wv: Vec<(&'static str, Vec<usize>)> = w.to_vec();
            let two = *two;
            let r = guarded(std::panic::AssertUnwindSafe(|| {
                let mut rng = rand::rngs::StdRng::seed_from_u64(seed.wrapping_add(100 + q as u64 + two as u64));
                let mut s = state_from_word(n, 1, &wv);
                let mut res = ndarray::Array1::<u64>::from_elem(1, u64::MAX);
                let mut r = s.measure_into(q, b, &mut res, &mut rng);
                if two && r.is_ok()
                {
                    r = s.apply_gate(&X::new(), &[q]);
                    if r.is_ok() { r = s.measure_into(q, b, &mut res, &mut rng); }
                }
                let snap = snapshot_texts(&s);
                match r {
                    Ok(()) if snap.len() == 1 => format!("{} {}", res[0], snap[0]),
                    Ok(()) => "not-one-range".to_string(),
                    Err(e) => show_err(&e) }
            }));
            out.case(&format!("{} {} {} {}", if two { "minto2" } else { "minto" }, ts, q, b), &match r { Ok(a) => a, Err(e) => e });
        }
    }
}

fn circuits(out: &mut Out, rng: &mut SplitMix64, n: usize, steps: usize)
{
    let mut t = StabilizerTableau::new(n);
    out.case(&format!("new {}", n), &format!("ok {}", text(&t)));
    for _ in 0..steps
    {
        let ts = text(&t);
        match rng.below(10)
        {
            0 | 1 | 2 | 3 => {
                let q = rng.below(n as u64) as usize;
                let name = STAB1[rng.below(9) as usize];
                op_gate(out, &ts, name, &[q]);
                t.apply_gate(&*gate(name), &[q]).unwrap();
            },
            4 | 5 | 6 => {
                let a = rng.below(n as u64) as usize;
                let mut b = rng.below(n as u64 - 1) as usize;
                if b >= a { b += 1; }
                let name = STAB2[rng.below(4) as usize];
                op_gate(out, &ts, name, &[a, b]);
                t.apply_gate(&*gate(name), &[a, b]).unwrap();
            },
            7 | 8 => {
                let q = rng.below(n as u64) as usize;
                if let Some(i) = op_measure(out, &ts, q)
                {
                    let v = rng.coin();
                    op_collapse(out, &ts, i, q, v);
                    t.collapse(i, q, v);
                }
            },
            _ => {
                let q = rng.below(n as u64) as usize;
                op_reset(out, &ts, q);
                t.reset(q);
            }
        }
    }
    op_words(out, &text(&t));
}

fn main()
{
    let dir = std::env::args().nth(1).expect("usage: c03 <outdir>");
    silence_panics();
    let mut rng = SplitMix64::from_env();
    let mut out = Out::new(&dir);
    let deep = thorough();

    // 1. conjugation tables and flags of the real gates
    conj_dump(&mut out);

    // 2. every tableau with n <= 2, valid or not
    for n in 1..=2usize
    {
        out.case(&format!("new {}", n), &format!("ok {}", text(&StabilizerTableau::new(n))));
        let cells = n * n;
        for code in 0..4usize.pow(cells as u32)
        {
            for sg in 0..(1usize << n)
            {
                let rows: Vec<String> = (0..n).map(|i| {
                    let mut s = String::new();
                    s.push(if (sg >> i) & 1 == 1 { '-' } else { '+' });
                    for j in 0..n { s.push(['I', 'Z', 'X', 'Y'][(code / 4usize.pow((i * n + j) as u32)) % 4]); }
                    s }).collect();
                let ts = rows.join(",");
                private_ops(&mut out, &ts, n);
                public_ops(&mut out, &ts, n, true);
                // duplicated operands (in range)
                if n == 2 { for g in STAB2.iter() { op_gate(&mut out, &ts, g, &[0, 0]); op_gate(&mut out, &ts, g, &[1, 1]); } }
                // wrong number of operands
                op_gate(&mut out, &ts, "H", &[0, 0]);
                op_gate(&mut out, &ts, "CX", &[0]);
                op_gate(&mut out, &ts, "I", &[]);
            }
        }
    }

    // 3. all stabilizer states
    let max_enum = if deep { 4 } else { 3 };
    for n in 1..=max_enum
    {
        let e = enumerate(n);
        out.case(&format!("count {}", n), &format!("ok {}", e.texts.len()));
        for (k, ts) in e.texts.iter().enumerate()
        {
            public_ops(&mut out, ts, n, false);
            if n <= 3
            {
                private_ops(&mut out, ts, n);
                state_users(&mut out, n, ts, &word_of(&e, k), rng.next());
            }
            else if k % 16 == 0
            {
                state_users(&mut out, n, ts, &word_of(&e, k), rng.next());
            }
        }
    }

    // 4. random tableaux, larger n: arbitrary cells (mostly non-commuting) and scrambled valid ones
    let nrand = if deep { 1500 } else { 250 };
    for k in 0..nrand
    {
        let ok = std::panic::catch_unwind(std::panic::AssertUnwindSafe(|| {
        let n = if k % 10 == 9 { rng.range(33, if deep { 70 } else { 40 }) as usize } else { rng.range(3, 12) as usize };
        let ts = if k % 2 == 0 { random_tab(&mut rng, n) } else { text(&random_state(&mut rng, n, 3 * n)) };
        op_words(&mut out, &ts);
        op_norm(&mut out, &ts);
        for _ in 0..4
        {
            let a = rng.below(n as u64) as usize;
            let b = rng.below(n as u64) as usize;
            op_swap(&mut out, &ts, a, b);
            op_mul(&mut out, &ts, a, b);
        }
        let q = rng.below(n as u64) as usize;
        op_gate(&mut out, &ts, STAB1[rng.below(9) as usize], &[q]);
        if let Some(i) = op_measure(&mut out, &ts, q) { op_collapse(&mut out, &ts, i, q, rng.coin()); }
        op_reset(&mut out, &ts, q);
        if k % 2 == 1
        {
            // scramble a valid tableau with the private row operations, then normalise again
            let mut t = build(&ts);
            for _ in 0..(2 * n)
            {
                let a = rng.below(n as u64) as usize;
                let b = rng.below(n as u64) as usize;
                if a != b { if rng.coin() { t.verif_multiply_row(a, b); } else { t.verif_swap_rows(a, b); } }
            }
            let sc = text(&t);
            op_norm(&mut out, &sc);
            let q = rng.below(n as u64) as usize;
            op_gate(&mut out, &sc, "H", &[q]);
        }
        })).is_ok();
        out.case("stream random-tableaux (marker: this generator stream of the harness ran to its end without a panic in the code under test)", if ok { "ok" } else { "panic" });
    }

    // 5. random Clifford circuits with measurements and resets
    let ncirc = if deep { 400 } else { 60 };
    for _ in 0..ncirc
    {
        let n = rng.range(5, 8) as usize;
        let ok = std::panic::catch_unwind(std::panic::AssertUnwindSafe(|| circuits(&mut out, &mut rng, n, 40))).is_ok();
        out.case("stream circuits (marker: this generator stream of the harness ran to its end without a panic in the code under test)", if ok { "ok" } else { "panic" });
    }
    let nwide = if deep { 6 } else { 1 };
    for _ in 0..nwide
    {
        let n = rng.range(65, 68) as usize;
        let ok = std::panic::catch_unwind(std::panic::AssertUnwindSafe(|| circuits(&mut out, &mut rng, n, 25))).is_ok();
        out.case("stream wide-circuits (marker: this generator stream of the harness ran to its end without a panic in the code under test)", if ok { "ok" } else { "panic" });
    }

    // 6. Clifford-only combinator gates (Composite via add_gate and from_string, Kron, Loop, nesting) through apply_gate
    let terms = clifford_terms();
    let built: Vec<Box<dyn Gate>> = terms.iter().map(|t| build_term(&t.text, t.fs.as_ref().map(|(a, b)| (a.as_str(), b.as_str()))).expect("term builds")).collect();
    let max_t = if deep { 4 } else { 3 };
    for n in 1..=max_t
    {
        let e = enumerate(n);
        let placements: Vec<Vec<Vec<usize>>> = (0..=4).map(|k| if k <= n { tuples(n, k) } else { vec![] }).collect();
        for (k, ts) in e.texts.iter().enumerate()
        {
            // n <= 2: everything; n = 3: every term on every state, from_string variants on every 2nd; n = 4: every 24th state
            if n == 4 && k % 24 != 0 { continue; }
            for (ti, term) in terms.iter().enumerate()
            {
                if term.arity > n { continue; }
                if n >= 3 && term.fs.is_some() && k % 2 == 1 { continue; }
                // quick: for n = 3 the 5 loop-count variants and the arity-1 terms rotate over the states
                if n == 3 && !deep && term.arity <= 2 && (ti + k) % 3 != 0 { continue; }
                for bits in placements[term.arity].iter()
                {
                    op_tgate_built(&mut out, ts, bits, &term.text, term.fs.is_some(), &*built[ti]);
                }
            }
        }
    }
    // mis-sized / duplicated operands for combinators
    op_tgate(&mut out, "+ZI,+IZ", &[0], "Kron H S", None);
    op_tgate(&mut out, "+ZI,+IZ", &[0, 0], "Kron H S", None);
    op_tgate(&mut out, "+ZI,+IZ", &[0, 1], "Comp x 2 1 T 1 0", None);
    op_tgate(&mut out, "+ZI,+IZ", &[0, 1], "Loop l 0 b 2 1 T 1 0", None);
    op_tgate(&mut out, "+ZI,+IZ", &[1, 0], "C X", None);

    // 7. registers at and around the u64 word boundaries of the packing: sign-carrying row swaps
    for &n in [31usize, 32, 33, 63, 64, 65, 66, 95, 96, 97, 128, 129].iter()
    {
        if !deep && n > 97 && n != 128 { continue; }
        let ok = std::panic::catch_unwind(std::panic::AssertUnwindSafe(|| {
        let marks: Vec<usize> = [0usize, 15, 31, 32, 33, 63, 64, 65, 95, 96, n - 2, n - 1].iter().cloned().filter(|&q| q < n).collect();
        let mut t = StabilizerTableau::new(n);
        // signs: X / Y / Z on a third of the marked qubits and a few random ones
        for (k, &q) in marks.iter().enumerate()
        {
            let name = ["X", "Y", "Z", "I"][k % 4];
            t.apply_gate(&*gate(name), &[q]).unwrap();
        }
        for _ in 0..(n / 6) { let q = rng.below(n as u64) as usize; t.apply_gate(&X::new(), &[q]).unwrap(); }
        // every row operation through the hooks on the diagonal tableau with mixed signs
        let ts0 = text(&t);
        let mut pairs: Vec<(usize, usize)> = vec![(0, n - 1), (n - 1, 0), (15, n - 1)];
        for w in [31usize, 63, 95, 127].iter() { if w + 1 < n { pairs.push((*w, w + 1)); pairs.push((0, w + 1)); pairs.push((w + 1, 15)); } }
        for &(a, b) in pairs.iter() { if a < n && b < n { op_swap(&mut out, &ts0, a, b); op_mul(&mut out, &ts0, a, b); } }
        op_words(&mut out, &ts0);
        // H / S / CX on marked qubits: normalize has to move rows (and their signs) across the word boundaries
        let mut steps: Vec<(&str, Vec<usize>)> = vec![];
        for &q in marks.iter().rev().take(6) { steps.push(("H", vec![q])); }
        steps.push(("S", vec![n - 1]));
        if n > 40 { steps.push(("CX", vec![n - 1, 3])); steps.push(("CX", vec![16, n - 2])); steps.push(("H", vec![16])); }
        steps.push(("H", vec![1]));
        steps.push(("CZ", vec![0, n - 1]));
        steps.push(("Y", vec![n / 2]));
        steps.push(("H", vec![n / 2]));
        for (name, bits) in steps.iter()
        {
            let ts = text(&t);
            op_gate(&mut out, &ts, name, bits);
            t.apply_gate(&*gate(name), bits).unwrap();
            if bits.len() == 1
            {
                if let Some(i) = op_measure(&mut out, &text(&t), bits[0]) { let _ = i; }
            }
        }
        let ts = text(&t);
        op_norm(&mut out, &ts);
        op_words(&mut out, &ts);
        for &(a, b) in pairs.iter().take(6) { if a < n && b < n { op_swap(&mut out, &ts, a, b); if a != b { op_mul(&mut out, &ts, a, b); } } }
        // scrambled with the private row operations, then normalised by the code
        let mut t2 = build(&ts);
        for _ in 0..n
        {
            let a = rng.below(n as u64) as usize;
            let b = rng.below(n as u64) as usize;
            if a != b { if rng.coin() { t2.verif_multiply_row(a, b); } else { t2.verif_swap_rows(a, b); } }
        }
        op_norm(&mut out, &text(&t2));
        })).is_ok();
        out.case("stream word-boundaries (marker: this generator stream of the harness ran to its end without a panic in the code under test)", if ok { "ok" } else { "panic" });
    }

    // 9. circuit level: the automatic choice of representation against an explicit vector run, same seed
    {
        use q1t_harness::sim;
        let ncirc = if deep { 3000 } else { 500 };
        let t_hex = "T";
        let rx = format!("RX {}", fbits(0.7));
        for k in 0..ncirc
        {
            let det = k % 2 == 0;
            let nq = rng.range(1, 3) as usize;
            let nc = nq + 1;
            let mut ops: Vec<String> = vec![];
            let nops = rng.range(3, 9) as usize;
            for _ in 0..nops
            {
                let q = rng.below(nq as u64) as usize;
                let q2 = if nq > 1 { let mut b = rng.below(nq as u64 - 1) as usize; if b >= q { b += 1; } b } else { q };
                let c = rng.below(nc as u64) as usize;
                let kind = rng.below(10);
                let one_det = ["X", "Y", "Z", "S", "Sdg", "I"][rng.below(6) as usize];
                let one_any = ["H", "V", "Vdg", "X", "S", "Y"][rng.below(6) as usize];
                let nonclif = if rng.coin() { t_hex.to_string() } else if det { "Tdg".to_string() } else { rx.clone() };
                let op = match kind
                {
                    0 | 1 => format!("gate 1 {} {}", q, if det { one_det } else { one_any }),
                    2 => if nq > 1 { format!("gate 2 {} {} {}", q, q2, ["CX", "CZ", "Swap", "CY"][rng.below(if det { 3 } else { 4 }) as usize]) } else { format!("gate 1 {} Z", q) },
                    3 | 4 => format!("measure {} {} Z", q, c),
                    // classically controlled non-Clifford gate: the circuit is not a stabilizer circuit
                    5 | 6 => format!("cond 1 {} {} 1 {} {}", c, rng.below(2), q, nonclif),
                    // classically controlled Clifford gate
                    7 => format!("cond 1 {} {} 1 {} {}", c, rng.below(2), q, if det { "X" } else { "H" }),
                    8 => format!("reset {}", q),
                    _ => if rng.below(3) == 0 { format!("gate 1 {} {}", q, nonclif) } else { format!("gate 1 {} {}", q, if det { "X" } else { "H" }) }
                };
                ops.push(op);
            }
            for q in 0..nq { ops.push(format!("measure {} {} Z", q, q)); }
            let ct = sim::CircuitText { nq, nc, ops: ops.clone() };
            let shots = 6;
            let seed = rng.next();
            let cls = |r: &Option<q1tsim::error::Result<()>>| match r {
                None => "panic".to_string(),
                Some(Ok(())) => "ok".to_string(),
                Some(Err(e)) => format!("err:{}", sim::show_err(e).replace(' ', "_")) };
            let ans = match sim::build(&ct)
            {
                Err(e) => format!("build-error {}", sim::show_err(&e)),
                Ok(mut c1) => {
                    let isstab = c1.is_stabilizer_circuit();
                    let ra = sim::execute_traced(&mut c1, nq, shots, seed, "auto");
                    let mut c2 = sim::build(&ct).unwrap();
                    let rv = sim::execute_traced(&mut c2, nq, shots, seed, "vector");
                    let reg = |r: &sim::Run| r.final_cstate.as_ref().map(|v| join(v).replace(' ', ",")).unwrap_or("-".to_string());
                    format!("isstab {} auto {} vec {} rega {} regv {}", isstab, cls(&ra.result), cls(&rv.result), reg(&ra), reg(&rv))
                }
            };
            out.case(&format!("auto {} {} {} | {}", if det { "det" } else { "rnd" }, nq, nc, ops.join(" ; ")), &ans);
        }
    }

    // 10. range-level histories on StabilizerState: two random measurements, reset of the first qubit, read-out
    {
        use rand::SeedableRng;
        let nh = if deep { 400 } else { 60 };
        for k in 0..nh
        {
            let n = 2 + (k % 2);
            let shots = rng.range(8, 24) as usize;
            let seed = rng.next();
            let peek = k % 4 >= 2;
            let r = guarded(std::panic::AssertUnwindSafe(|| {
                let mut r = rand::rngs::StdRng::seed_from_u64(seed);
                let mut s = StabilizerState::new(n, shots);
                let mut res = ndarray::Array1::<u64>::zeros(shots);
                let mut e = s.apply_gate(&H::new(), &[0]);
                if e.is_ok() { e = s.apply_gate(&H::new(), &[1]); }
                if e.is_ok() { e = s.measure_into(0, 0, &mut res, &mut r); }
                if e.is_ok() { e = s.measure_into(1, 1, &mut res, &mut r); }
                if e.is_ok() { e = s.reset(0, &mut r); }
                if e.is_ok() { e = if peek { s.peek_into(1, 2, &mut res, &mut r) } else { s.measure_into(1, 2, &mut res, &mut r) }; }
                match e
                {
                    Err(e) => show_err(&e),
                    Ok(()) => match s.verif_snapshot()
                    {
                        q1tsim::verif::Snapshot::Stabilizer { counts, tableaus, .. } =>
                            format!("words {} | snap {}", join(&res.to_vec()),
                                counts.iter().zip(tableaus.iter()).map(|(c, t)| format!("{}:{}", c, t.replace('\n', ","))).collect::<Vec<_>>().join(" ")),
                        _ => "no-snapshot".to_string()
                    }
                }
            }));
            out.case(&format!("hist {} {} {}", n, shots, if peek { "peek" } else { "measure" }), &match r { Ok(a) => a, Err(e) => e });
        }
    }

    // 11. wide combinator gates (33 and more operands) through the real apply_gate
    for &w in [33usize, 34, 40, 64, 65].iter()
    {
        if !deep && (w == 40 || w == 64) { continue; }
        let ok = std::panic::catch_unwind(std::panic::AssertUnwindSafe(|| {
            let n = w + 1;
            // terms on w operands
            let mut parity = format!("Comp par {} {}", w, w - 1);
            for k in 0..(w - 1) { parity.push_str(&format!(" CX 2 {} {}", k, w - 1)); }
            let mut fan = format!("Comp fan {} {}", w, w - 1);
            for k in 1..w { fan.push_str(&format!(" CX 2 0 {}", k)); }
            let mut layer = format!("Comp lay {} {}", w, 2 * w);
            for k in 0..w { layer.push_str(&format!(" H 1 {}", k)); }
            for k in 0..w { layer.push_str(&format!(" S 1 {}", k)); }
            let mut chain = format!("Loop l 2 ch {} {}", w, w - 1);
            for k in 0..(w - 1) { chain.push_str(&format!(" CX 2 {} {}", k, k + 1)); }
            let mut kron = String::new();
            for k in 0..(w - 1) { kron.push_str(if k % 3 == 0 { "Kron H " } else if k % 3 == 1 { "Kron S " } else { "Kron X " }); }
            kron.push_str("Z");
            let terms = [parity, fan, layer, chain, kron];
            // tableaux: negative signs on low qubits, rows that agree on the last 32 operands
            let mut tabs: Vec<StabilizerTableau> = vec![];
            let mut t = StabilizerTableau::new(n);
            t.apply_gate(&X::new(), &[0]).unwrap();
            tabs.push(t.clone());
            t.apply_gate(&X::new(), &[1]).unwrap();
            t.apply_gate(&Y::new(), &[2]).unwrap();
            tabs.push(t.clone());
            t.apply_gate(&H::new(), &[0]).unwrap();
            t.apply_gate(&H::new(), &[w - 1]).unwrap();
            tabs.push(t.clone());
            t.apply_gate(&CX::new(), &[0, w]).unwrap();
            t.apply_gate(&S::new(), &[1]).unwrap();
            t.apply_gate(&H::new(), &[1]).unwrap();
            tabs.push(t.clone());
            let fwd: Vec<usize> = (0..w).collect();
            let shifted: Vec<usize> = (1..=w).collect();
            let rev: Vec<usize> = (0..w).rev().collect();
            for tb in tabs.iter()
            {
                let ts = text(tb);
                for (ti, term) in terms.iter().enumerate()
                {
                    op_tgate(&mut out, &ts, &fwd, term, None);
                    if ti < 2 { op_tgate(&mut out, &ts, &shifted, term, None); op_tgate(&mut out, &ts, &rev, term, None); }
                }
            }
        })).is_ok();
        out.case("stream wide-combinators (marker: this generator stream of the harness ran to its end without a panic in the code under test)", if ok { "ok" } else { "panic" });
    }

    // 12. range-level histories with reset_all after a splitting measurement
    {
        use rand::SeedableRng;
        let nh = if deep { 400 } else { 80 };
        for k in 0..nh
        {
            let n = 2 + (k % 2);
            let shots = rng.range(8, 24) as usize;
            let seed = rng.next();
            let variant = k % 5;
            let r = guarded(std::panic::AssertUnwindSafe(|| {
                let mut r = rand::rngs::StdRng::seed_from_u64(seed);
                let mut s = StabilizerState::new(n, shots);
                let mut res = ndarray::Array1::<u64>::zeros(shots);
                let mut e = s.apply_gate(&H::new(), &[0]);
                if e.is_ok() { e = s.measure_into(0, 0, &mut res, &mut r); }          // splits the runs
                if variant == 3 && e.is_ok()
                {
                    e = s.apply_gate(&H::new(), &[1]);
                    if e.is_ok() { e = s.measure_into(1, 3, &mut res, &mut r); }      // a further split
                }
                if e.is_ok() { s.reset_all(); }
                if variant == 4 && e.is_ok() { s.reset_all(); }                        // twice
                // every shot is |0..0> now: flip qubit 1 in every shot and read it out
                if e.is_ok()
                {
                    e = if variant == 2 { s.apply_conditional_gate(&vec![true; shots], &X::new(), &[1]) }
                        else { s.apply_gate(&X::new(), &[1]) };
                }
                if e.is_ok() { e = if variant == 1 { s.peek_into(1, 1, &mut res, &mut r) } else { s.measure_into(1, 1, &mut res, &mut r) }; }
                // and qubit 0, which was measured before the reset, must read 0 everywhere
                if e.is_ok() { e = s.measure_into(0, 2, &mut res, &mut r); }
                match e
                {
                    Err(e) => show_err(&e),
                    Ok(()) => match s.verif_snapshot()
                    {
                        q1tsim::verif::Snapshot::Stabilizer { counts, .. } =>
                            format!("words {} | counts {}", join(&res.to_vec()), join(&counts)),
                        _ => "no-snapshot".to_string()
                    }
                }
            }));
            out.case(&format!("hist2 {} {} {}", n, shots, variant), &match r { Ok(a) => a, Err(e) => e });
        }
    }

    let n = out.finish();
    eprintln!("c03: {} cases", n);
}

// temporary probe (will be replaced)
use q1tsim::circuit::Circuit;
use q1tsim::gates::*;

fn t<F: FnOnce() -> String + std::panic::UnwindSafe>(name: &str, f: F)
{
    let r = std::panic::catch_unwind(f);
    println!("{:50} {}", name, match r { Ok(s) => s, Err(_) => "PANIC".to_string() });
}

fn r<T>(x: q1tsim::error::Result<T>) -> String { match x { Ok(_) => "ok".into(), Err(e) => format!("err {}", e) } }

fn main()
{
    std::panic::set_hook(Box::new(|_| {}));
    t("cx [0] exec1", || { let mut c = Circuit::new(2, 2); c.add_gate(CX::new(), &[0]).unwrap(); r(c.execute(1)) });
    t("cx [0] +t exec1", || { let mut c = Circuit::new(2, 2); c.add_gate(T::new(), &[0]).unwrap(); c.add_gate(CX::new(), &[0]).unwrap(); r(c.execute(1)) });
    t("cx [0] open_qasm", || { let mut c = Circuit::new(2, 2); c.add_gate(CX::new(), &[0]).unwrap(); r(c.open_qasm()) });
    t("cx [0] c_qasm", || { let mut c = Circuit::new(2, 2); c.add_gate(CX::new(), &[0]).unwrap(); r(c.c_qasm()) });
    t("cx [0] latex", || { let mut c = Circuit::new(2, 2); c.add_gate(CX::new(), &[0]).unwrap(); r(c.latex()) });
    t("cx [0,1,0] exec", || { let mut c = Circuit::new(2, 2); c.add_gate(CX::new(), &[0,1,0]).unwrap(); r(c.execute(1)) });
    t("cx [0,1,0] +t exec", || { let mut c = Circuit::new(2, 2); c.add_gate(T::new(), &[0]).unwrap(); c.add_gate(CX::new(), &[0,1,0]).unwrap(); r(c.execute(1)) });
    t("cx [0,1,0] open_qasm", || { let mut c = Circuit::new(2, 2); c.add_gate(CX::new(), &[0,1,0]).unwrap(); r(c.open_qasm()) });
    t("cx [0,1,0] c_qasm", || { let mut c = Circuit::new(2, 2); c.add_gate(CX::new(), &[0,1,0]).unwrap(); r(c.c_qasm()) });
    t("cx [0,1,0] latex", || { let mut c = Circuit::new(2, 2); c.add_gate(CX::new(), &[0,1,0]).unwrap(); r(c.latex()) });
    t("h [] exec", || { let mut c = Circuit::new(2, 2); c.add_gate(H::new(), &[]).unwrap(); r(c.execute(1)) });
    t("h [] +t exec", || { let mut c = Circuit::new(2, 2); c.add_gate(T::new(), &[0]).unwrap(); c.add_gate(H::new(), &[]).unwrap(); r(c.execute(1)) });
    t("h [] open_qasm", || { let mut c = Circuit::new(2, 2); c.add_gate(H::new(), &[]).unwrap(); r(c.open_qasm()) });
    t("h [] c_qasm", || { let mut c = Circuit::new(2, 2); c.add_gate(H::new(), &[]).unwrap(); r(c.c_qasm()) });
    t("h [] latex", || { let mut c = Circuit::new(2, 2); c.add_gate(H::new(), &[]).unwrap(); r(c.latex()) });
    t("h [0,1] exec", || { let mut c = Circuit::new(2, 2); c.add_gate(H::new(), &[0,1]).unwrap(); r(c.execute(1)) });
    t("h [0,1] +t exec", || { let mut c = Circuit::new(2, 2); c.add_gate(T::new(), &[0]).unwrap(); c.add_gate(H::new(), &[0,1]).unwrap(); r(c.execute(1)) });
    t("h [0,1] open_qasm", || { let mut c = Circuit::new(2, 2); c.add_gate(H::new(), &[0,1]).unwrap(); r(c.open_qasm()) });
    t("h [0,1] c_qasm", || { let mut c = Circuit::new(2, 2); c.add_gate(H::new(), &[0,1]).unwrap(); r(c.c_qasm()) });
    t("h [0,1] latex", || { let mut c = Circuit::new(2, 2); c.add_gate(H::new(), &[0,1]).unwrap(); r(c.latex()) });
    t("cx [0,0] exec (stab)", || { let mut c = Circuit::new(2, 2); c.add_gate(CX::new(), &[0,0]).unwrap(); r(c.execute(1)) });
    t("cx [0,0] +t exec (vec)", || { let mut c = Circuit::new(2, 2); c.add_gate(T::new(), &[0]).unwrap(); c.add_gate(CX::new(), &[0,0]).unwrap(); r(c.execute(1)) });
    t("cx [0,0] open_qasm", || { let mut c = Circuit::new(2, 2); c.add_gate(CX::new(), &[0,0]).unwrap(); r(c.open_qasm()) });
    t("cx [0,0] latex", || { let mut c = Circuit::new(2, 2); c.add_gate(CX::new(), &[0,0]).unwrap(); r(c.latex()) });
    t("cx [1,0] latex", || { let mut c = Circuit::new(2, 2); c.add_gate(CX::new(), &[1,0]).unwrap(); r(c.latex()) });
    t("swap [0,0] exec", || { let mut c = Circuit::new(2, 2); c.add_gate(Swap::new(), &[0,0]).unwrap(); r(c.execute(1)) });
    t("exec0 empty", || { let mut c = Circuit::new(2, 2); r(c.execute(0)) });
    t("exec0 x", || { let mut c = Circuit::new(2, 2); c.x(0).unwrap(); r(c.execute(0)) });
    t("exec0 x measure", || { let mut c = Circuit::new(2, 2); c.x(0).unwrap(); c.measure(0,0).unwrap(); r(c.execute(0)) });
    t("exec0 t measure", || { let mut c = Circuit::new(2, 2); c.add_gate(T::new(), &[0]).unwrap(); c.measure(0,0).unwrap(); r(c.execute(0)) });
    t("exec0 x measure measure_all", || { let mut c = Circuit::new(2, 2); c.x(0).unwrap(); c.measure(0,0).unwrap(); c.measure_all(&[0,1]).unwrap(); r(c.execute(0)) });
    t("exec0 t x measure measure_all", || { let mut c = Circuit::new(2, 2); c.add_gate(T::new(), &[0]).unwrap(); c.x(0).unwrap(); c.measure(0,0).unwrap(); c.measure_all(&[0,1]).unwrap(); r(c.execute(0)) });
    t("exec0 cond", || { let mut c = Circuit::new(2, 2); c.add_conditional_gate(&[0], 1, X::new(), &[0]).unwrap(); r(c.execute(0)) });
    t("exec0 t cond", || { let mut c = Circuit::new(2, 2); c.add_gate(T::new(), &[0]).unwrap(); c.add_conditional_gate(&[0], 1, X::new(), &[0]).unwrap(); r(c.execute(0)) });
    t("exec0 reset", || { let mut c = Circuit::new(2, 2); c.reset(0).unwrap(); r(c.execute(0)) });
    t("exec0 peek", || { let mut c = Circuit::new(2, 2); c.peek(0,0).unwrap(); r(c.execute(0)) });
    t("exec0 peek_all", || { let mut c = Circuit::new(2, 2); c.peek_all(&[0,1]).unwrap(); r(c.execute(0)) });
    t("exec0 t peek_all", || { let mut c = Circuit::new(2, 2); c.add_gate(T::new(), &[0]).unwrap(); c.peek_all(&[0,1]).unwrap(); r(c.execute(0)) });
    t("exec0 measure_all", || { let mut c = Circuit::new(2, 2); c.measure_all(&[0,1]).unwrap(); r(c.execute(0)) });
    t("exec0 t measure_all", || { let mut c = Circuit::new(2, 2); c.add_gate(T::new(), &[0]).unwrap(); c.measure_all(&[0,1]).unwrap(); r(c.execute(0)) });
    t("exec0 reset_all", || { let mut c = Circuit::new(2, 2); c.reset_all(); r(c.execute(0)) });
    t("cbit 65 measure exec", || { let mut c = Circuit::new(1, 70); c.measure(0,65).unwrap(); r(c.execute(1)) });
    t("cbit 65 t measure exec", || { let mut c = Circuit::new(1, 70); c.add_gate(T::new(), &[0]).unwrap(); c.measure(0,65).unwrap(); r(c.execute(1)) });
    t("cbit 64 x measure exec", || { let mut c = Circuit::new(1, 70); c.x(0).unwrap(); c.measure(0,64).unwrap(); r(c.execute(1)) });
    t("cbit 65 peek exec", || { let mut c = Circuit::new(1, 70); c.peek(0,65).unwrap(); r(c.execute(1)) });
    t("cbit 65 cond exec", || { let mut c = Circuit::new(1, 70); c.add_conditional_gate(&[65], 1, X::new(), &[0]).unwrap(); r(c.execute(1)) });
    t("cbit 65 measure_all exec", || { let mut c = Circuit::new(1, 70); c.measure_all(&[65]).unwrap(); r(c.execute(1)) });
    t("cbit 65 histogram", || { let mut c = Circuit::new(1, 70); c.execute(1).unwrap(); format!("{:?}", c.histogram_string()) });
    t("cbit 65 open_qasm measure", || { let mut c = Circuit::new(1, 70); c.measure(0,65).unwrap(); r(c.open_qasm()) });
    t("cbit 65 latex measure", || { let mut c = Circuit::new(1, 70); c.measure(0,65).unwrap(); r(c.latex()) });
    t("measure_all [0] 2q exec (stab)", || { let mut c = Circuit::new(2, 2); c.measure_all(&[0]).unwrap(); r(c.execute(1)) });
    t("measure_all [0] 2q +t exec", || { let mut c = Circuit::new(2, 2); c.add_gate(T::new(), &[0]).unwrap(); c.measure_all(&[0]).unwrap(); r(c.execute(1)) });
    t("measure_all [0,1,0] 2q exec", || { let mut c = Circuit::new(2, 2); c.measure_all(&[0,1,0]).unwrap(); r(c.execute(1)) });
    t("measure_all [0,1,0] 2q +t exec", || { let mut c = Circuit::new(2, 2); c.add_gate(T::new(), &[0]).unwrap(); c.measure_all(&[0,1,0]).unwrap(); r(c.execute(1)) });
    t("peek_all [0] 2q exec", || { let mut c = Circuit::new(2, 2); c.peek_all(&[0]).unwrap(); r(c.execute(1)) });
    t("peek_all [0] 2q +t exec", || { let mut c = Circuit::new(2, 2); c.add_gate(T::new(), &[0]).unwrap(); c.peek_all(&[0]).unwrap(); r(c.execute(1)) });
    t("measure_all [0] open_qasm", || { let mut c = Circuit::new(2, 2); c.measure_all(&[0]).unwrap(); r(c.open_qasm()) });
    t("measure_all [0] c_qasm", || { let mut c = Circuit::new(2, 2); c.measure_all(&[0]).unwrap(); r(c.c_qasm()) });
    t("measure_all [0] latex", || { let mut c = Circuit::new(2, 2); c.measure_all(&[0]).unwrap(); r(c.latex()) });
    t("0q new exec", || { let mut c = Circuit::new(0, 0); r(c.execute(1)) });
    t("0q reset_all exec", || { let mut c = Circuit::new(0, 0); c.reset_all(); r(c.execute(1)) });
    t("0q reset_all latex", || { let mut c = Circuit::new(0, 0); c.reset_all(); r(c.latex()) });
    t("0q reset_all open_qasm", || { let mut c = Circuit::new(0, 0); c.reset_all(); r(c.open_qasm()) });
    t("0q reset_all c_qasm", || { let mut c = Circuit::new(0, 0); c.reset_all(); r(c.c_qasm()) });
    t("0q latex", || { let c = Circuit::new(0, 0); r(c.latex()) });
    t("0q open_qasm", || { let c = Circuit::new(0, 0); r(c.open_qasm()) });
    t("0q c_qasm", || { let c = Circuit::new(0, 0); r(c.c_qasm()) });
    t("0q measure_all [] exec", || { let mut c = Circuit::new(0, 0); c.measure_all(&[]).unwrap(); r(c.execute(1)) });
    t("0q measure_all [] latex", || { let mut c = Circuit::new(0, 0); c.measure_all(&[]).unwrap(); r(c.latex()) });
    t("0q peek_all [] exec", || { let mut c = Circuit::new(0, 0); c.peek_all(&[]).unwrap(); r(c.execute(1)) });
    t("cond [] target0 exec", || { let mut c = Circuit::new(1, 1); c.add_conditional_gate(&[], 0, X::new(), &[0]).unwrap(); c.measure(0,0).unwrap(); r(c.execute(2)) });
    t("cond [] open_qasm", || { let mut c = Circuit::new(1, 1); c.add_conditional_gate(&[], 0, X::new(), &[0]).unwrap(); r(c.open_qasm()) });
    t("cond [0,0] exec", || { let mut c = Circuit::new(1, 1); c.add_conditional_gate(&[0,0], 0, X::new(), &[0]).unwrap(); r(c.execute(2)) });
    t("cond 70 controls exec", || { let mut c = Circuit::new(1, 1); c.add_conditional_gate(&vec![0;70], 0, X::new(), &[0]).unwrap(); r(c.execute(2)) });
    t("cond [0] latex", || { let mut c = Circuit::new(1, 1); c.add_conditional_gate(&[0], 1, X::new(), &[0]).unwrap(); r(c.latex()) });
    t("cond [] latex", || { let mut c = Circuit::new(1, 1); c.add_conditional_gate(&[], 0, X::new(), &[0]).unwrap(); r(c.latex()) });
    t("cond [] c_qasm", || { let mut c = Circuit::new(1, 1); c.add_conditional_gate(&[], 0, X::new(), &[0]).unwrap(); r(c.c_qasm()) });
    t("cond [0] x [] open_qasm", || { let mut c = Circuit::new(1, 1); c.add_conditional_gate(&[0], 1, X::new(), &[]).unwrap(); r(c.open_qasm()) });
    t("cond [0] x [] exec", || { let mut c = Circuit::new(1, 1); c.add_conditional_gate(&[0], 1, X::new(), &[]).unwrap(); r(c.execute(1)) });
    t("reexecute fresh", || { let mut c = Circuit::new(1, 1); r(c.reexecute()) });
    t("histogram fresh", || { let c = Circuit::new(1, 1); format!("{:?}", c.histogram_string().map(|_| ())) });
    t("swap [0] latex", || { let mut c = Circuit::new(2, 2); c.add_gate(Swap::new(), &[0]).unwrap(); r(c.latex()) });
    t("swap [0] open_qasm", || { let mut c = Circuit::new(2, 2); c.add_gate(Swap::new(), &[0]).unwrap(); r(c.open_qasm()) });
    t("crx [0] open_qasm", || { let mut c = Circuit::new(2, 2); c.add_gate(CRX::new(1.0), &[0]).unwrap(); r(c.open_qasm()) });
    t("ch [0] c_qasm", || { let mut c = Circuit::new(2, 2); c.add_gate(CH::new(), &[0]).unwrap(); r(c.c_qasm()) });
    t("x [0,1] latex", || { let mut c = Circuit::new(2, 2); c.add_gate(X::new(), &[0,1]).unwrap(); r(c.latex()) });
    t("x [0,1] exec", || { let mut c = Circuit::new(2, 2); c.add_gate(X::new(), &[0,1]).unwrap(); r(c.execute(1)) });
    t("rx [0,1] exec", || { let mut c = Circuit::new(2, 2); c.add_gate(RX::new(1.0), &[0,1]).unwrap(); r(c.execute(1)) });
    t("rx [] exec", || { let mut c = Circuit::new(2, 2); c.add_gate(RX::new(1.0), &[]).unwrap(); r(c.execute(1)) });
    t("size_of Circuit", || format!("{} {}", std::mem::size_of::<Circuit>(), std::mem::align_of::<Circuit>()));
}

//! C19: the C interface of q1tsim (src/ffi.rs) driven through its real `extern "C"` functions under a
//! logging global allocator, next to the equivalent Rust calls on a twin `Circuit`.
//!
//! usage:  c19 <outdir> run <first-case> <count>        one request line + one answer line per case
//!         c19 <outdir> isolate <case> <call-index>     replay a case and really execute the call that is
//!                                                      predicted to abort (prints SURVIVED if it returns)
//!         c19 <outdir> show <case>                     print the request line of a case
//!
//! Line protocol: see lean/Driver/C19.lean.  Everything random derives from VERIF_SEED and the case id.
use q1t_harness::*;
use q1tsim::circuit::{Basis, Circuit};
use q1tsim::ffi;
use q1tsim::gates::*;
use std::alloc::{GlobalAlloc, Layout, System};
use std::collections::HashMap;
use std::io::{Seek, SeekFrom, Write};
use std::os::raw::{c_char, c_void};
use std::panic::AssertUnwindSafe;
use std::sync::atomic::{AtomicBool, AtomicPtr, AtomicUsize, Ordering};

// ------------------------------------------------------------------------------------------------
// logging allocator

#[derive(Clone, Copy)]
struct Event { kind: u8, ptr: usize, size: usize, align: usize, ptr2: usize, size2: usize }

const EV_CAP: usize = 1 << 18;
static LOGGING: AtomicBool = AtomicBool::new(false);
static EV_BUF: AtomicPtr<Event> = AtomicPtr::new(std::ptr::null_mut());
static EV_LEN: AtomicUsize = AtomicUsize::new(0);
static EV_OVERFLOW: AtomicBool = AtomicBool::new(false);

struct Logging;

fn push_event(e: Event)
{
    let buf = EV_BUF.load(Ordering::Relaxed);
    if buf.is_null() { return; }
    let i = EV_LEN.fetch_add(1, Ordering::Relaxed);
    if i < EV_CAP { unsafe { *buf.add(i) = e; } } else { EV_OVERFLOW.store(true, Ordering::Relaxed); }
}

unsafe impl GlobalAlloc for Logging
{
    unsafe fn alloc(&self, l: Layout) -> *mut u8
    {
        let p = System.alloc(l);
        if LOGGING.load(Ordering::Relaxed) { push_event(Event { kind: 0, ptr: p as usize, size: l.size(), align: l.align(), ptr2: 0, size2: 0 }); }
        p
    }
    unsafe fn alloc_zeroed(&self, l: Layout) -> *mut u8
    {
        let p = System.alloc_zeroed(l);
        if LOGGING.load(Ordering::Relaxed) { push_event(Event { kind: 0, ptr: p as usize, size: l.size(), align: l.align(), ptr2: 0, size2: 0 }); }
        p
    }
    unsafe fn dealloc(&self, p: *mut u8, l: Layout)
    {
        if LOGGING.load(Ordering::Relaxed) { push_event(Event { kind: 1, ptr: p as usize, size: l.size(), align: l.align(), ptr2: 0, size2: 0 }); }
        System.dealloc(p, l)
    }
    unsafe fn realloc(&self, p: *mut u8, l: Layout, new_size: usize) -> *mut u8
    {
        let q = System.realloc(p, l, new_size);
        if LOGGING.load(Ordering::Relaxed) { push_event(Event { kind: 2, ptr: p as usize, size: l.size(), align: l.align(), ptr2: q as usize, size2: new_size }); }
        q
    }
}

#[global_allocator]
static GLOBAL: Logging = Logging;

fn log_init()
{
    let l = Layout::array::<Event>(EV_CAP).unwrap();
    let p = unsafe { System.alloc(l) } as *mut Event;
    EV_BUF.store(p, Ordering::Relaxed);
}

/// Run `f` with allocator logging on; returns its value and the events.
fn logged<T, F: FnOnce() -> T>(f: F) -> (T, Vec<Event>)
{
    EV_LEN.store(0, Ordering::Relaxed);
    LOGGING.store(true, Ordering::SeqCst);
    let r = f();
    LOGGING.store(false, Ordering::SeqCst);
    let n = EV_LEN.load(Ordering::Relaxed).min(EV_CAP);
    let buf = EV_BUF.load(Ordering::Relaxed);
    let evs = (0..n).map(|i| unsafe { *buf.add(i) }).collect();
    (r, evs)
}

// ------------------------------------------------------------------------------------------------
// mirror of the #[repr(C)] structs (fields of the originals are private)

#[repr(C)] #[derive(Clone, Copy)]
struct RawResult { data: *const c_void, length: usize, size: usize, restype: u32 }
#[repr(C)] #[derive(Clone, Copy)]
struct RawParam { value: f64, value_ptr: *const f64 }
#[repr(C)] #[derive(Clone, Copy)]
struct RawHistElem { key: *const c_char, count: usize }

fn raw(r: ffi::CResult) -> RawResult { unsafe { std::mem::transmute::<ffi::CResult, RawResult>(r) } }
fn unraw(r: RawResult) -> ffi::CResult { unsafe { std::mem::transmute::<RawResult, ffi::CResult>(r) } }
fn cparams(ps: &[RawParam]) -> *const ffi::CParameter { ps.as_ptr() as *const ffi::CParameter }
const _: () = { assert!(std::mem::size_of::<RawHistElem>() == std::mem::size_of::<ffi::CHistElem>()); };
const _: () = { assert!(std::mem::size_of::<RawParam>() == std::mem::size_of::<ffi::CParameter>()); };

fn hex(b: &[u8]) -> String { b.iter().map(|x| format!("{:02x}", x)).collect() }

// ------------------------------------------------------------------------------------------------
// live-block bookkeeping

#[derive(Clone, Copy, PartialEq, Debug)]
enum Owner { Circuit(usize), Result(usize), Nobody }

struct Heap { live: HashMap<usize, (usize, usize, Owner)> }

struct Delta { new_live: Vec<(usize, usize, usize)>, freed: Vec<(usize, usize, usize, Owner)>, mism: usize, unknown_free: usize }

impl Heap
{
    fn apply(&mut self, evs: &[Event]) -> Delta
    {
        let mut tmp: HashMap<usize, (usize, usize)> = HashMap::new();
        let mut order: Vec<usize> = vec![];
        let mut d = Delta { new_live: vec![], freed: vec![], mism: 0, unknown_free: 0 };
        let free = |this: &mut Heap, tmp: &mut HashMap<usize, (usize, usize)>, d: &mut Delta, p: usize, s: usize, a: usize| {
            if let Some((s0, a0)) = tmp.remove(&p) { if s0 != s || a0 != a { d.mism += 1; } }
            else if let Some((s0, a0, o)) = this.live.remove(&p) { if s0 != s || a0 != a { d.mism += 1; } d.freed.push((p, s, a, o)); }
            else { d.unknown_free += 1; }
        };
        for e in evs
        {
            match e.kind
            {
                0 => { if e.ptr != 0 { tmp.insert(e.ptr, (e.size, e.align)); order.push(e.ptr); } },
                1 => free(self, &mut tmp, &mut d, e.ptr, e.size, e.align),
                _ => {
                    if e.ptr2 != 0
                    {
                        free(self, &mut tmp, &mut d, e.ptr, e.size, e.align);
                        tmp.insert(e.ptr2, (e.size2, e.align)); order.push(e.ptr2);
                    }
                }
            }
        }
        let mut seen = std::collections::HashSet::new();
        for p in order.iter().rev()
        {
            if seen.insert(*p) { if let Some((s, a)) = tmp.get(p) { d.new_live.push((*p, *s, *a)); } }
        }
        d
    }
}

fn layouts(mut v: Vec<(usize, usize)>) -> String
{
    v.sort();
    format!("[{}]", v.iter().map(|(s, a)| format!("{}:{}", s, a)).collect::<Vec<_>>().join(","))
}

// ------------------------------------------------------------------------------------------------
// the documented gate table, Rust side: name -> constructor (written from the docs of each gate)

fn is_documented(name: &str) -> Option<usize>
{
    // number of parameters
    match name
    {
        "ch" | "cx" | "cy" | "cz" | "h" | "i" | "s" | "sdg" | "swap" | "t" | "tdg" | "v" | "vdg" | "x" | "y" | "z" => Some(0),
        "crx" | "cry" | "crz" | "rx" | "ry" | "rz" | "u1" => Some(1),
        "u2" => Some(2),
        "u3" => Some(3),
        _ => None
    }
}

macro_rules! with_gate
{
    ($name:expr, $p:expr, |$g:ident| $body:expr) => {
        match $name
        {
            "ch" => { let $g = CH::new(); $body },
            "crx" => { let $g = CRX::new($p[0].clone()); $body },
            "cry" => { let $g = CRY::new($p[0].clone()); $body },
            "crz" => { let $g = CRZ::new($p[0].clone()); $body },
            "cx" => { let $g = CX::new(); $body },
            "cy" => { let $g = CY::new(); $body },
            "cz" => { let $g = CZ::new(); $body },
            "h" => { let $g = H::new(); $body },
            "i" => { let $g = I::new(); $body },
            "rx" => { let $g = RX::new($p[0].clone()); $body },
            "ry" => { let $g = RY::new($p[0].clone()); $body },
            "rz" => { let $g = RZ::new($p[0].clone()); $body },
            "s" => { let $g = S::new(); $body },
            "sdg" => { let $g = Sdg::new(); $body },
            "swap" => { let $g = Swap::new(); $body },
            "t" => { let $g = T::new(); $body },
            "tdg" => { let $g = Tdg::new(); $body },
            "u1" => { let $g = U1::new($p[0].clone()); $body },
            "u2" => { let $g = U2::new($p[0].clone(), $p[1].clone()); $body },
            "u3" => { let $g = U3::new($p[0].clone(), $p[1].clone(), $p[2].clone()); $body },
            "v" => { let $g = V::new(); $body },
            "vdg" => { let $g = Vdg::new(); $body },
            "x" => { let $g = X::new(); $body },
            "y" => { let $g = Y::new(); $body },
            "z" => { let $g = Z::new(); $body },
            _ => unreachable!()
        }
    };
}

// ------------------------------------------------------------------------------------------------
// twin outcomes

enum Twin { Na, Ok, Err(String), Panic, Num(usize), NoneState, Words(Vec<u64>), WordsAny(usize), Hist(Vec<(String, usize)>), Str(String) }

impl Twin
{
    fn show(&self) -> String
    {
        match self
        {
            Twin::Na => "na".into(), Twin::Ok => "ok".into(), Twin::Err(m) => format!("err {}", hex(m.as_bytes())),
            Twin::Panic => "panic".into(), Twin::Num(n) => format!("num {}", n), Twin::NoneState => "none".into(),
            Twin::Words(w) => format!("words {}", w.iter().map(|x| x.to_string()).collect::<Vec<_>>().join(",")),
            Twin::WordsAny(n) => format!("wordsany {}", n),
            Twin::Hist(h) => format!("hist {}", h.iter().map(|(k, v)| format!("{}:{}", k, v)).collect::<Vec<_>>().join(",")),
            Twin::Str(s) => format!("str {}", hex(s.as_bytes()))
        }
    }
}

fn twin_res(r: Option<q1tsim::error::Result<()>>) -> Twin
{
    match r { None => Twin::Panic, Some(Ok(())) => Twin::Ok, Some(Err(e)) => Twin::Err(e.to_string()) }
}
fn twin_str(r: Option<q1tsim::error::Result<String>>) -> Twin
{
    match r { None => Twin::Panic, Some(Ok(s)) => Twin::Str(s), Some(Err(e)) => Twin::Err(e.to_string()) }
}
fn pcatch<T, F: FnOnce() -> T>(f: F) -> Option<T> { std::panic::catch_unwind(AssertUnwindSafe(f)).ok() }

// ------------------------------------------------------------------------------------------------
// a case

#[derive(Clone)]
enum P { Direct(f64), Ref(usize) }

struct Circ
{
    ptr: *mut Circuit,
    twin: Circuit,
    nq: usize, nc: usize,
    live: bool,
    tainted: bool,
    executed: bool
}

struct ResultRec { raw: RawResult, keys: Vec<usize>, freed: bool }

struct Case
{
    rng: SplitMix64,
    heap: Heap,
    circs: Vec<Circ>,
    results: Vec<ResultRec>,
    cells: Box<[f64; 6]>,
    req: Vec<String>,
    ans: Vec<String>,
    isolate_call: Option<usize>,
    aborted: bool,
    nontrivial: bool
}

const PI: f64 = std::f64::consts::PI;

fn basis_of(dir: i8) -> Option<Basis>
{
    match dir as u8 as char { 'x' | 'X' => Some(Basis::X), 'y' | 'Y' => Some(Basis::Y), 'z' | 'Z' => Some(Basis::Z), _ => None }
}

impl Case
{
    fn hname(&self, h: Option<usize>) -> String { match h { None => "null".into(), Some(i) => format!("c{}", i) } }
    fn hptr(&self, h: Option<usize>) -> *mut Circuit { match h { None => std::ptr::null_mut(), Some(i) => self.circs[i].ptr } }

    fn push(&mut self, call: String, twin: &Twin, ans: String)
    {
        self.req.push(format!("{} @ {}", call, twin.show()));
        self.ans.push(ans);
    }

    /// should the FFI call be executed in this process?
    fn may_execute(&mut self, call: &str, twin: &Twin, null_assert: bool) -> bool
    {
        if std::env::var("C19_TRACE").is_ok() { eprintln!("#{} {} @ {}", self.req.len(), call, twin.show()); }
        let danger = null_assert || matches!(twin, Twin::Panic);
        if !danger { return true; }
        if self.isolate_call == Some(self.req.len()) { return true; }
        self.push(call.to_string(), twin, "abort".into());
        self.aborted = true;
        false
    }

    /// Inspect a returned CResult, attribute blocks, produce the answer text.
    fn result_answer(&mut self, h: Option<usize>, constant: bool, r: RawResult, evs: &[Event], any_words: bool) -> String
    {
        let d = self.heap.apply(evs);
        let rid = self.results.len();
        let mut newmap: HashMap<usize, (usize, usize)> = d.new_live.iter().map(|(p, s, a)| (*p, (*s, *a))).collect();
        let mut own: Vec<(usize, usize)> = vec![];
        let mut keys: Vec<usize> = vec![];
        let mut bad_own = 0usize;
        let take = |p: usize, own: &mut Vec<(usize, usize)>, newmap: &mut HashMap<usize, (usize, usize)>, heap: &mut Heap, bad: &mut usize| {
            if let Some((s, a)) = newmap.remove(&p) { own.push((s, a)); heap.live.insert(p, (s, a, Owner::Result(rid))); true }
            else { *bad += 1; false }
        };
        let payload;
        let datakind;
        let dp = r.data as usize;
        match r.restype
        {
            0 | 2 => {
                let bytes = unsafe { std::ffi::CStr::from_ptr(r.data as *const c_char) }.to_bytes().to_vec();
                take(dp, &mut own, &mut newmap, &mut self.heap, &mut bad_own);
                datakind = "blk";
                payload = format!("msg:{}", hex(&bytes));
            },
            3 => {
                let elems: Vec<RawHistElem> = if r.length == 0 { vec![] } else { unsafe { std::slice::from_raw_parts(r.data as *const RawHistElem, r.length) }.to_vec() };
                let mut kv: Vec<(String, usize)> = vec![];
                for e in elems.iter()
                {
                    let k = unsafe { std::ffi::CStr::from_ptr(e.key) }.to_string_lossy().into_owned();
                    kv.push((k, e.count));
                    if take(e.key as usize, &mut own, &mut newmap, &mut self.heap, &mut bad_own) { keys.push(e.key as usize); }
                }
                kv.sort();
                if newmap.contains_key(&dp) { take(dp, &mut own, &mut newmap, &mut self.heap, &mut bad_own); datakind = "blk"; }
                else { datakind = if dp == 0 { "null" } else { "dangling" }; }
                payload = format!("hist:{}", kv.iter().map(|(k, v)| format!("{}:{}", k, v)).collect::<Vec<_>>().join(","));
            },
            5 => {
                let ws: Vec<u64> = if r.length == 0 { vec![] } else { unsafe { std::slice::from_raw_parts(r.data as *const u64, r.length) }.to_vec() };
                if newmap.contains_key(&dp) { take(dp, &mut own, &mut newmap, &mut self.heap, &mut bad_own); datakind = "blk"; }
                else { datakind = if dp == 0 { "null" } else { "dangling" }; }
                payload = if any_words { format!("wordsany:{}", ws.len()) }
                          else { format!("words:{}", ws.iter().map(|x| x.to_string()).collect::<Vec<_>>().join(",")) };
            },
            _ => { datakind = if dp == 0 { "null" } else { "nonnull" }; payload = "-".into(); }
        }
        // the remaining new blocks: circuit internals for a mutating call, a leak for a read-only one
        let mut extra = 0;
        for (p, (s, a)) in newmap.iter()
        {
            match (constant, h)
            {
                (false, Some(i)) => { self.heap.live.insert(*p, (*s, *a, Owner::Circuit(i))); },
                _ => { extra += 1; self.heap.live.insert(*p, (*s, *a, Owner::Nobody)); }
            }
        }
        let foreign = d.freed.iter().filter(|(_, _, _, o)| !(Some(*o) == h.map(Owner::Circuit) && !constant)).count() + d.unknown_free;
        self.results.push(ResultRec { raw: r, keys, freed: false });
        if !own.is_empty() { self.nontrivial = true; }
        format!("res {} len={} size={} data={} {} own={} extra={} foreign={} mism={}", r.restype, r.length, r.size, datakind, payload,
            layouts(own), extra + bad_own, foreign, d.mism)
    }

    fn do_result_call<F: FnOnce() -> ffi::CResult>(&mut self, call: String, twin: Twin, h: Option<usize>, constant: bool, any_words: bool, f: F)
    {
        if !self.may_execute(&call, &twin, false) { return; }
        let (r, evs) = logged(f);
        let r = raw(r);
        let a = self.result_answer(h, constant, r, &evs, any_words);
        self.push(call, &twin, a);
    }

    // ---------------------------------------------------------------------------- entry points

    fn new_circuit(&mut self, nq: usize, nc: usize)
    {
        let (ptr, evs) = logged(|| ffi::circuit_new(nq, nc));
        let d = self.heap.apply(&evs);
        let idx = self.circs.len();
        let mut boxl = "-".to_string();
        let mut extra = 0;
        for (p, s, a) in d.new_live.iter()
        {
            if *p == ptr as usize { boxl = format!("{}:{}", s, a); }
            else { extra += 1; }
            self.heap.live.insert(*p, (*s, *a, Owner::Circuit(idx)));
        }
        self.circs.push(Circ { ptr, twin: Circuit::new(nq, nc), nq, nc, live: true, tainted: false, executed: false });
        self.push(format!("new {} {}", nq, nc), &Twin::Ok, format!("handle box={} extra={} foreign={} mism={}", boxl, extra, d.freed.len() + d.unknown_free, d.mism));
    }

    fn free_circuit(&mut self, h: Option<usize>)
    {
        let ptr = self.hptr(h);
        let (_, evs) = logged(|| ffi::circuit_free(ptr));
        let d = self.heap.apply(&evs);
        let mut boxl = "-".to_string();
        let mut foreign = d.unknown_free;
        for (p, s, a, o) in d.freed.iter()
        {
            if *p == ptr as usize { boxl = format!("{}:{}", s, a); }
            if Some(*o) != h.map(Owner::Circuit) { foreign += 1; }
        }
        let leak = match h { Some(i) => self.heap.live.values().filter(|(_, _, o)| *o == Owner::Circuit(i)).count(), None => 0 };
        if let Some(i) = h { self.circs[i].live = false; }
        self.push(format!("free {}", self.hname(h)), &Twin::Na,
            format!("unit box={} leak={} new={} foreign={} mism={}", boxl, leak, d.new_live.len(), foreign, d.mism));
    }

    fn nr(&mut self, h: Option<usize>, q: bool)
    {
        let call = format!("{} {}", if q { "nrq" } else { "nrc" }, self.hname(h));
        let twin = match h { Some(i) => Twin::Num(if q { self.circs[i].twin.nr_qbits() } else { self.circs[i].twin.nr_cbits() }), None => Twin::Na };
        if !self.may_execute(&call, &twin, h.is_none()) { return; }
        let ptr = self.hptr(h);
        let (n, evs) = logged(|| if q { ffi::circuit_nr_qbits(ptr) } else { ffi::circuit_nr_cbits(ptr) });
        let d = self.heap.apply(&evs);
        for (p, s, a) in d.new_live.iter() { self.heap.live.insert(*p, (*s, *a, Owner::Nobody)); }
        self.push(call, &twin, format!("num {} extra={} foreign={}", n, d.new_live.len(), d.freed.len() + d.unknown_free));
    }

    fn cstate(&mut self, h: Option<usize>)
    {
        let call = format!("cstate {}", self.hname(h));
        let mut any = false;
        let twin = match h
        {
            None => Twin::Na,
            Some(i) => match self.circs[i].twin.cstate()
            {
                None => Twin::NoneState,
                Some(a) => { any = false; Twin::Words(a.to_vec()) }
            }
        };
        if !self.may_execute(&call, &twin, h.is_none()) { return; }
        let ptr = self.hptr(h);
        let (r, evs) = logged(|| ffi::circuit_cstate(ptr));
        let a = self.result_answer(h, true, raw(r), &evs, any);
        self.push(call, &twin, a);
    }

    fn params_text(ps: &Option<Vec<P>>) -> String
    {
        match ps
        {
            None => "p:null".into(),
            Some(v) => format!("p:{}", v.iter().map(|p| match p { P::Direct(x) => format!("d{}", fbits(*x)), P::Ref(i) => format!("r{}", i) }).collect::<Vec<_>>().join(","))
        }
    }
    fn list_text(tag: &str, l: &Option<Vec<usize>>) -> String
    {
        match l { None => format!("{}:null", tag), Some(v) => format!("{}:{}", tag, v.iter().map(|x| x.to_string()).collect::<Vec<_>>().join(",")) }
    }
    fn raw_params(&self, ps: &Option<Vec<P>>) -> Vec<RawParam>
    {
        ps.as_ref().map(|v| v.iter().map(|p| match p
        {
            P::Direct(x) => RawParam { value: *x, value_ptr: std::ptr::null() },
            P::Ref(i) => RawParam { value: 0.0, value_ptr: &self.cells[*i] as *const f64 }
        }).collect()).unwrap_or_default()
    }
    fn twin_params(&self, ps: &Option<Vec<P>>) -> Vec<Parameter>
    {
        ps.as_ref().map(|v| v.iter().map(|p| match p
        {
            P::Direct(x) => Parameter::Direct(*x),
            P::Ref(i) => Parameter::FFIRef(&self.cells[*i] as *const f64)
        }).collect()).unwrap_or_default()
    }

    /// `name`: raw bytes without the NUL
    fn add_gate(&mut self, h: Option<usize>, name: &[u8], qbits: Option<Vec<usize>>, params: Option<Vec<P>>, nondet: bool, nr_params_if_null: usize)
    {
        let utf = std::str::from_utf8(name).ok().map(|s| s.to_string());
        let call = format!("gate {} {}:{} {} {}", self.hname(h), if utf.is_some() { "n" } else { "bad" }, hex(name),
            Self::list_text("q", &qbits), Self::params_text(&params));
        let nparams = params.as_ref().map(|v| v.len()).unwrap_or(0);
        let twin = match (h, &utf, &qbits)
        {
            (Some(i), Some(s), Some(qs)) => {
                let l = s.to_ascii_lowercase();
                if is_documented(&l) == Some(nparams) || is_documented(&l) == Some(0)
                {
                    let tp = self.twin_params(&params);
                    let c = &mut self.circs[i];
                    let t = twin_res(pcatch(|| with_gate!(l.as_str(), tp, |g| c.twin.add_gate(g, qs))));
                    if nondet && matches!(t, Twin::Ok) { c.tainted = true; }
                    t
                }
                else { Twin::Na }
            },
            _ => Twin::Na
        };
        let mut cname = name.to_vec(); cname.push(0);
        let rp = self.raw_params(&params);
        let ptr = self.hptr(h);
        let (qp, qn) = match &qbits { None => (std::ptr::null(), 0), Some(v) => (v.as_ptr(), v.len()) };
        let (pp, pn) = match &params { None => (std::ptr::null(), nr_params_if_null), Some(_) => (cparams(&rp), rp.len()) };
        self.do_result_call(call, twin, h, false, false, || ffi::circuit_add_gate(ptr, cname.as_ptr() as *const c_char, qp, qn, pp, pn));
    }

    fn add_cond(&mut self, h: Option<usize>, control: Option<Vec<usize>>, target: u64, name: &[u8], qbits: Option<Vec<usize>>, params: Option<Vec<P>>, nondet: bool)
    {
        let utf = std::str::from_utf8(name).ok().map(|s| s.to_string());
        let call = format!("cgate {} {} {} {}:{} {} {}", self.hname(h), Self::list_text("c", &control), target,
            if utf.is_some() { "n" } else { "bad" }, hex(name), Self::list_text("q", &qbits), Self::params_text(&params));
        let nparams = params.as_ref().map(|v| v.len()).unwrap_or(0);
        let twin = match (h, &utf, &qbits, &control)
        {
            (Some(i), Some(s), Some(qs), Some(ct)) => {
                let l = s.to_ascii_lowercase();
                if is_documented(&l) == Some(nparams) || is_documented(&l) == Some(0)
                {
                    let tp = self.twin_params(&params);
                    let c = &mut self.circs[i];
                    let t = twin_res(pcatch(|| with_gate!(l.as_str(), tp, |g| c.twin.add_conditional_gate(ct, target, g, qs))));
                    if nondet && matches!(t, Twin::Ok) { c.tainted = true; }
                    t
                }
                else { Twin::Na }
            },
            _ => Twin::Na
        };
        let mut cname = name.to_vec(); cname.push(0);
        let rp = self.raw_params(&params);
        let ptr = self.hptr(h);
        let (cp, cn) = match &control { None => (std::ptr::null(), 0), Some(v) => (v.as_ptr(), v.len()) };
        let (qp, qn) = match &qbits { None => (std::ptr::null(), 0), Some(v) => (v.as_ptr(), v.len()) };
        let (pp, pn) = match &params { None => (std::ptr::null(), 0), Some(_) => (cparams(&rp), rp.len()) };
        // the FFI circuit must see the same outcome as the twin for the bookkeeping to stay aligned:
        // where the C interface refuses a documented gate the twin has already accepted it; undo that below
        let before = self.results.len();
        let twin_ok = matches!(twin, Twin::Ok);
        self.do_result_call(call, twin, h, false, false, || ffi::circuit_add_conditional_gate(ptr, cp, cn, target, cname.as_ptr() as *const c_char, qp, qn, pp, pn));
        if twin_ok && self.results.len() > before && self.results[before].raw.restype == 0
        {
            // divergence (reported by the checker); the twin can no longer follow this circuit
            if let Some(i) = h { self.circs[i].tainted = true; self.circs[i].executed = true; self.diverged(i); }
        }
    }

    fn diverged(&mut self, _i: usize) { self.aborted = true; }

    fn simple<FT: FnOnce(&mut Circuit) -> q1tsim::error::Result<()>, FF: FnOnce(*mut Circuit) -> ffi::CResult>(&mut self, call: String, h: Option<usize>, na: bool, ft: FT, ff: FF)
    {
        let twin = match h
        {
            Some(i) if !na => { let c = &mut self.circs[i]; twin_res(pcatch(|| ft(&mut c.twin))) },
            _ => Twin::Na
        };
        let ptr = self.hptr(h);
        self.do_result_call(call, twin, h, false, false, || ff(ptr));
    }

    fn reset(&mut self, h: Option<usize>, q: usize)
    {
        self.simple(format!("reset {} {}", self.hname(h), q), h, false, |c| c.reset(q), |p| ffi::circuit_reset(p, q));
    }
    fn reset_all(&mut self, h: Option<usize>)
    {
        self.simple(format!("resetall {}", self.hname(h)), h, false, |c| { c.reset_all(); Ok(()) }, |p| ffi::circuit_reset_all(p));
    }
    fn measure(&mut self, h: Option<usize>, q: usize, cb: usize, dir: i8, collapse: u8)
    {
        let b = basis_of(dir);
        if let (Some(i), Some(bb)) = (h, b) { if !matches!(bb, Basis::Z) { self.circs[i].tainted = true; } }
        self.simple(format!("measure {} {} {} {} {}", self.hname(h), q, cb, dir, collapse), h, b.is_none(),
            |c| if collapse != 0 { c.measure_basis(q, cb, b.unwrap()) } else { c.peek_basis(q, cb, b.unwrap()) },
            |p| ffi::circuit_measure(p, q, cb, dir as c_char, collapse));
    }
    fn measure_all(&mut self, h: Option<usize>, cbits: Option<Vec<usize>>, dir: i8, collapse: u8)
    {
        let b = basis_of(dir);
        if let (Some(i), Some(bb)) = (h, b) { if !matches!(bb, Basis::Z) { self.circs[i].tainted = true; } }
        let call = format!("measureall {} {} {} {}", self.hname(h), Self::list_text("b", &cbits), dir, collapse);
        let (bp, bn) = match &cbits { None => (std::ptr::null(), 0), Some(v) => (v.as_ptr(), v.len()) };
        let cb2 = cbits.clone();
        self.simple(call, h, b.is_none() || cbits.is_none(),
            |c| if collapse != 0 { c.measure_all_basis(cb2.as_ref().unwrap(), b.unwrap()) } else { c.peek_all_basis(cb2.as_ref().unwrap(), b.unwrap()) },
            |p| ffi::circuit_measure_all(p, bp, bn, dir as c_char, collapse));
    }
    fn execute(&mut self, h: Option<usize>, n: usize)
    {
        if let Some(i) = h { self.circs[i].executed = true; }
        self.simple(format!("execute {} {}", self.hname(h), n), h, false, |c| c.execute(n), |p| ffi::circuit_execute(p, n));
    }
    fn reexecute(&mut self, h: Option<usize>)
    {
        self.simple(format!("reexecute {}", self.hname(h)), h, false, |c| c.reexecute(), |p| ffi::circuit_reexecute(p));
    }
    fn histogram(&mut self, h: Option<usize>)
    {
        let call = format!("histogram {}", self.hname(h));
        let twin = match h
        {
            None => Twin::Na,
            Some(i) => match pcatch(|| self.circs[i].twin.histogram_string())
            {
                None => Twin::Panic,
                Some(Ok(m)) => { let mut v: Vec<(String, usize)> = m.into_iter().collect(); v.sort(); Twin::Hist(v) },
                Some(Err(e)) => Twin::Err(e.to_string())
            }
        };
        let ptr = self.hptr(h);
        self.do_result_call(call, twin, h, true, false, || ffi::circuit_histogram(ptr));
    }
    fn export(&mut self, h: Option<usize>, which: usize)
    {
        let names = ["latex", "openqasm", "cqasm"];
        let call = format!("{} {}", names[which], self.hname(h));
        let twin = match h
        {
            None => Twin::Na,
            Some(i) => { let c = &self.circs[i].twin; twin_str(pcatch(|| match which { 0 => c.latex(), 1 => c.open_qasm(), _ => c.c_qasm() })) }
        };
        let ptr = self.hptr(h);
        self.do_result_call(call, twin, h, true, false, || match which { 0 => ffi::circuit_latex(ptr), 1 => ffi::circuit_open_qasm(ptr), _ => ffi::circuit_c_qasm(ptr) });
    }

    fn result_free(&mut self, rid: usize)
    {
        let r = self.results[rid].raw;
        let (_, evs) = logged(|| ffi::result_free(unraw(r)));
        let d = self.heap.apply(&evs);
        let freed: Vec<(usize, usize)> = d.freed.iter().map(|(_, s, a, _)| (*s, *a)).collect();
        let foreign = d.freed.iter().filter(|(_, _, _, o)| *o != Owner::Result(rid)).count() + d.unknown_free;
        for (p, s, a) in d.new_live.iter() { self.heap.live.insert(*p, (*s, *a, Owner::Nobody)); }
        self.results[rid].freed = true;
        self.push(format!("rfree r{}", rid), &Twin::Na, format!("unit freed={} new={} foreign={} mism={}", layouts(freed), d.new_live.len(), foreign, d.mism));
    }

    fn poke(&mut self, cell: usize, v: f64)
    {
        self.cells[cell] = v;
        self.push(format!("poke {} {}", cell, fbits(v)), &Twin::Na, "-".into());
    }

    fn end(&mut self)
    {
        let mut live: Vec<(usize, usize)> = vec![];
        for (p, (s, a, o)) in self.heap.live.iter()
        {
            match o
            {
                Owner::Result(_) => live.push((*s, *a)),
                Owner::Circuit(i) => if *p == self.circs[*i].ptr as usize { live.push((*s, *a)); },
                Owner::Nobody => live.push((*s, *a))
            }
        }
        let text = layouts(live);
        self.cleanup();
        let clean = self.heap.live.is_empty();
        self.push("end".into(), &Twin::Na, format!("live={} clean={}", text, if clean { 1 } else { 0 }));
    }

    /// free whatever is still outstanding (not part of the history)
    fn cleanup(&mut self)
    {
        for rid in 0..self.results.len()
        {
            if !self.results[rid].freed
            {
                let r = self.results[rid].raw;
                let (_, evs) = logged(|| ffi::result_free(unraw(r)));
                self.heap.apply(&evs);
                self.results[rid].freed = true;
            }
        }
        for i in 0..self.circs.len()
        {
            if self.circs[i].live
            {
                let p = self.circs[i].ptr;
                let (_, evs) = logged(|| ffi::circuit_free(p));
                self.heap.apply(&evs);
                self.circs[i].live = false;
            }
        }
    }
}

// ------------------------------------------------------------------------------------------------
// generator

const DET0: [&str; 9] = ["x", "y", "z", "s", "sdg", "t", "tdg", "i", "X"];
const DET2: [&str; 5] = ["cx", "cy", "cz", "swap", "Swap"];
const NONDET0: [&str; 4] = ["h", "v", "vdg", "H"];
const ALLNAMES: [&str; 25] = ["ch", "crx", "cry", "crz", "cx", "cy", "cz", "h", "i", "rx", "ry", "rz", "s", "sdg", "swap", "t", "tdg",
    "u1", "u2", "u3", "v", "vdg", "x", "y", "z"];

fn mixed_case(rng: &mut SplitMix64, s: &str) -> String
{
    match rng.below(4)
    {
        0 => s.to_string(),
        1 => s.to_ascii_uppercase(),
        _ => s.chars().map(|c| if rng.coin() { c.to_ascii_uppercase() } else { c }).collect()
    }
}

fn distinct(rng: &mut SplitMix64, n: usize, k: usize) -> Vec<usize>
{
    let mut v: Vec<usize> = (0..n).collect();
    rng.shuffle(&mut v);
    v.truncate(k);
    v
}

struct Profile { malformed: f64, nondet: f64, nullp: f64, two: bool, live: bool, leaky: bool, big_cbits: bool, zero_q: bool, steps: usize }

fn profile(rng: &mut SplitMix64, id: usize) -> (Profile, &'static str)
{
    let steps = 6 + rng.below(22) as usize;
    match id % 8
    {
        0 | 1 => (Profile { malformed: 0.0, nondet: 0.0, nullp: 0.0, two: false, live: false, leaky: false, big_cbits: false, zero_q: false, steps }, "det"),
        2 => (Profile { malformed: 0.05, nondet: 0.5, nullp: 0.0, two: false, live: false, leaky: false, big_cbits: false, zero_q: false, steps }, "static"),
        3 | 4 => (Profile { malformed: 0.35, nondet: 0.1, nullp: 0.08, two: false, live: false, leaky: rng.below(4) == 0, big_cbits: rng.below(6) == 0, zero_q: rng.below(8) == 0, steps }, "malformed"),
        5 => (Profile { malformed: 0.0, nondet: 0.0, nullp: 0.0, two: false, live: true, leaky: false, big_cbits: false, zero_q: false, steps }, "live"),
        6 => (Profile { malformed: 0.1, nondet: 0.1, nullp: 0.03, two: true, live: false, leaky: rng.below(3) == 0, big_cbits: false, zero_q: false, steps }, "two"),
        _ => (Profile { malformed: 0.15, nondet: 0.2, nullp: 0.03, two: rng.coin(), live: rng.coin(), leaky: rng.below(3) == 0, big_cbits: rng.below(10) == 0, zero_q: rng.below(12) == 0, steps }, "mixed")
    }
}

fn gen_case(seed: u64, id: usize, isolate_call: Option<usize>) -> (Case, &'static str)
{
    let mut rng = SplitMix64(seed.wrapping_mul(0x9E3779B97F4A7C15) ^ (id as u64).wrapping_mul(0xD1B54A32D192ED03));
    rng.next();
    let (pf, kind) = profile(&mut rng, id);
    let mut c = Case { rng, heap: Heap { live: HashMap::new() }, circs: vec![], results: vec![], cells: Box::new([0.0; 6]),
        req: vec![], ans: vec![], isolate_call, aborted: false, nontrivial: false };
    let ncirc = if pf.two { 2 } else { 1 };
    for _ in 0..ncirc
    {
        let nq = if pf.zero_q { 0 } else { 1 + c.rng.below(4) as usize };
        let nc = if pf.big_cbits { 60 + c.rng.below(12) as usize } else { c.rng.below(5) as usize };
        c.new_circuit(nq, nc);
    }
    for _ in 0..pf.steps
    {
        if c.aborted { break; }
        step(&mut c, &pf);
    }
    if !c.aborted
    {
        // free results in a generated order, then the circuits
        let mut pending: Vec<usize> = (0..c.results.len()).filter(|i| !c.results[*i].freed).collect();
        c.rng.shuffle(&mut pending);
        for rid in pending
        {
            if pf.leaky && c.rng.below(4) == 0 { continue; }
            c.result_free(rid);
        }
        for i in 0..c.circs.len()
        {
            if c.circs[i].live && !(pf.leaky && c.rng.below(5) == 0) { c.free_circuit(Some(i)); }
        }
        if c.rng.below(6) == 0 { c.free_circuit(None); }
        c.end();
    }
    else { c.cleanup(); }
    (c, kind)
}

fn chance(rng: &mut SplitMix64, p: f64) -> bool { rng.unit() < p }

fn pick_handle(c: &mut Case, pf: &Profile) -> Option<usize>
{
    if chance(&mut c.rng, pf.nullp) { return None; }
    let live: Vec<usize> = (0..c.circs.len()).filter(|i| c.circs[*i].live).collect();
    if live.is_empty() { None } else { Some(*c.rng.pick(&live)) }
}

fn angle(rng: &mut SplitMix64, det: bool) -> f64
{
    if det { if rng.coin() { 0.0 } else { PI } } else { (rng.unit() - 0.5) * 8.0 }
}

fn step(c: &mut Case, pf: &Profile)
{
    let h = pick_handle(c, pf);
    let (nq, nc, tainted, executed) = match h { Some(i) => (c.circs[i].nq, c.circs[i].nc, c.circs[i].tainted, c.circs[i].executed), None => (2, 2, false, false) };
    let malformed = chance(&mut c.rng, pf.malformed);
    if pf.live && c.rng.below(7) == 0
    {
        // change a referenced double between building and running: the next run must see the new value
        let cell = c.rng.below(6) as usize;
        let v = if c.rng.coin() { PI } else { 0.0 };
        c.poke(cell, v);
        return;
    }
    let r = c.rng.below(100);
    if r < 34
    {
        // a gate
        if malformed
        {
            match c.rng.below(8)
            {
                0 => { // unknown / odd names
                    let names: [&[u8]; 10] = [b"", b"foo", b"cnot", b"xx", b"ccx", b"u4", b" x", "\u{212A}".as_bytes(), "\u{0130}".as_bytes(), b"h\xff"];
                    let n = *c.rng.pick(&names);
                    c.add_gate(h, n, Some(vec![0]), Some(vec![]), false, 0);
                },
                1 => { let n = *c.rng.pick(&[&b"\xc3\x28"[..], &b"\xff\xfe"[..], &b"x\x80"[..]]); c.add_gate(h, n, Some(vec![0]), None, false, 0); },
                2 => { // wrong number of parameters
                    let name = *c.rng.pick(&ALLNAMES);
                    let want = is_documented(name).unwrap();
                    let mut k = c.rng.below(5) as usize; if k == want { k = (k + 1) % 5; }
                    let ps = (0..k).map(|_| P::Direct(angle(&mut c.rng, false))).collect();
                    let nm = mixed_case(&mut c.rng, name);
                    c.add_gate(h, nm.as_bytes(), Some(vec![0]), Some(ps), true, 0);
                },
                3 => { // wrong arity (accepted by add_gate, refused or worse later)
                    let name = *c.rng.pick(&["x", "h", "cx", "swap", "cz", "s"]);
                    let k = c.rng.below(4) as usize;
                    let qs = (0..k).map(|_| c.rng.below(nq.max(1) as u64) as usize).collect();
                    c.add_gate(h, name.as_bytes(), Some(qs), Some(vec![]), name == "h", 0);
                },
                4 => { // out-of-range qubit
                    let name = *c.rng.pick(&["x", "cx", "rz"]);
                    let bad = nq + c.rng.below(3) as usize + if c.rng.below(8) == 0 { 1usize << 40 } else { 0 };
                    let qs = if name == "cx" { if c.rng.coin() { vec![0, bad] } else { vec![bad, 0] } } else { vec![bad] };
                    let ps = if name == "rz" { vec![P::Direct(0.5)] } else { vec![] };
                    c.add_gate(h, name.as_bytes(), Some(qs), Some(ps), false, 0);
                },
                5 => { c.add_gate(h, b"x", None, Some(vec![]), false, 0); },                      // NULL qbits
                6 => { let k = 1 + c.rng.below(3) as usize; c.add_gate(h, b"rx", Some(vec![0]), None, false, k); },   // NULL params with a count
                _ => { // duplicated qubits
                    let name = *c.rng.pick(&["cx", "swap", "cz"]);
                    let q = c.rng.below(nq.max(1) as u64) as usize;
                    c.add_gate(h, name.as_bytes(), Some(vec![q, q]), Some(vec![]), nq > 1, 0);
                }
            }
            return;
        }
        if nq == 0 { c.reset_all(h); return; }
        let nondet = chance(&mut c.rng, pf.nondet);
        let k = c.rng.below(10);
        if pf.live && k < 5
        {
            let cell = c.rng.below(6) as usize;
            let name = *c.rng.pick(&["rx", "RY", "rz", "u1"]);
            let det = matches!(c.cells[cell].to_bits(), x if x == 0f64.to_bits() || x == PI.to_bits()) || name == "rz" || name == "u1";
            let q = c.rng.below(nq as u64) as usize;
            c.add_gate(h, name.as_bytes(), Some(vec![q]), Some(vec![P::Ref(cell)]), !det, 0);
        }
        else if k < 4
        {
            let name = if nondet { *c.rng.pick(&NONDET0) } else { *c.rng.pick(&DET0) };
            let nm = mixed_case(&mut c.rng, name);
            let q = c.rng.below(nq as u64) as usize;
            let ps = if c.rng.coin() { Some(vec![]) } else { None };
            c.add_gate(h, nm.as_bytes(), Some(vec![q]), ps, nondet, 0);
        }
        else if k < 6 && nq >= 2
        {
            let name = if nondet { "ch" } else { *c.rng.pick(&DET2) };
            let qs = distinct(&mut c.rng, nq, 2);
            c.add_gate(h, name.as_bytes(), Some(qs), Some(vec![]), nondet, 0);
        }
        else if k < 8
        {
            let name = *c.rng.pick(&["rx", "ry", "rz", "u1", "Rx", "U1"]);
            let isz = name.to_ascii_lowercase() == "rz" || name.to_ascii_lowercase() == "u1";
            let a = angle(&mut c.rng, !nondet && !isz);
            let q = c.rng.below(nq as u64) as usize;
            c.add_gate(h, name.as_bytes(), Some(vec![q]), Some(vec![P::Direct(a)]), nondet && !isz, 0);
        }
        else if k < 9
        {
            let q = c.rng.below(nq as u64) as usize;
            if nondet || c.rng.coin()
            {
                let ps = vec![P::Direct(angle(&mut c.rng, false)), P::Direct(angle(&mut c.rng, false))];
                c.add_gate(h, b"u2", Some(vec![q]), Some(ps), true, 0);
            }
            else
            {
                let ps = vec![P::Direct(angle(&mut c.rng, true)), P::Direct(angle(&mut c.rng, false)), P::Direct(angle(&mut c.rng, false))];
                c.add_gate(h, b"U3", Some(vec![q]), Some(ps), false, 0);
            }
        }
        else if nq >= 2
        {
            let name = *c.rng.pick(&["crx", "cry", "crz", "CRZ"]);
            let isz = name.to_ascii_lowercase() == "crz";
            let a = angle(&mut c.rng, !nondet && !isz);
            let qs = distinct(&mut c.rng, nq, 2);
            c.add_gate(h, name.as_bytes(), Some(qs), Some(vec![P::Direct(a)]), nondet && !isz, 0);
        }
        else
        {
            c.add_gate(h, b"x", Some(vec![0]), Some(vec![]), false, 0);
        }
    }
    else if r < 44
    {
        // conditional gate
        let ctl: Option<Vec<usize>> = if malformed
        {
            match c.rng.below(5)
            {
                0 => None,
                1 => Some(vec![nc + c.rng.below(3) as usize]),
                2 => Some(vec![]),
                3 => Some(vec![0; 2]),
                _ => Some((0..nc.min(3)).collect())
            }
        }
        else if nc == 0 { Some(vec![]) } else { let k = 1 + c.rng.below(nc.min(3) as u64) as usize; Some(distinct(&mut c.rng, nc, k)) };
        let target = c.rng.below(4);
        let (name, nparams): (&str, usize) = if malformed && c.rng.coin()
        {
            *c.rng.pick(&[("crx", 1), ("cry", 1), ("crz", 1), ("u2", 1), ("u3", 2), ("u2", 0), ("rx", 2), ("foo", 0), ("ch", 1)])
        }
        else
        {
            *c.rng.pick(&[("x", 0), ("X", 0), ("z", 0), ("s", 0), ("cx", 0), ("swap", 0), ("rz", 1), ("u1", 1), ("rx", 1), ("u3", 3), ("h", 0), ("u2", 2), ("y", 0), ("i", 0), ("t", 0), ("cz", 0)])
        };
        let l = name.to_ascii_lowercase();
        let two = matches!(l.as_str(), "cx" | "swap" | "cz" | "crx" | "cry" | "crz" | "ch");
        if nq == 0 || (two && nq < 2) { c.reset_all(h); return; }
        let qs = if two { distinct(&mut c.rng, nq, 2) } else { vec![c.rng.below(nq as u64) as usize] };
        let qs = if malformed && c.rng.below(6) == 0 { None } else { Some(qs) };
        let nondet = matches!(l.as_str(), "h" | "u2" | "ch") ;
        let det_angle = !matches!(l.as_str(), "rz" | "u1");
        let mut ps: Vec<P> = vec![];
        for j in 0..nparams { ps.push(P::Direct(if j == 0 && det_angle { angle(&mut c.rng, true) } else { angle(&mut c.rng, false) })); }
        c.add_cond(h, ctl, target, name.as_bytes(), qs, Some(ps), nondet);
    }
    else if r < 54
    {
        let q = if malformed && c.rng.coin() { nq + c.rng.below(2) as usize } else if nq == 0 { 0 } else { c.rng.below(nq as u64) as usize };
        let cb = if malformed && c.rng.coin() { nc + c.rng.below(2) as usize } else if nc == 0 { 0 } else { c.rng.below(nc as u64) as usize };
        let dir: i8 = if malformed && c.rng.below(3) == 0 { *c.rng.pick(&[b'q' as i8, 0, -1, b'1' as i8, -128]) }
            else if chance(&mut c.rng, pf.nondet) { *c.rng.pick(&[b'x' as i8, b'Y' as i8, b'X' as i8, b'y' as i8]) }
            else { *c.rng.pick(&[b'z' as i8, b'Z' as i8]) };
        let collapse = *c.rng.pick(&[1u8, 1, 0, 2, 255]);
        c.measure(h, q, cb, dir, collapse);
    }
    else if r < 60
    {
        let cbits: Option<Vec<usize>> = if malformed
        {
            match c.rng.below(4) { 0 => None, 1 => Some(vec![nc + 1]), 2 => Some(vec![0; nq + 1]), _ => Some((0..nq.saturating_sub(1)).collect()) }
        }
        else if nc >= nq { Some(distinct(&mut c.rng, nc, nq)) } else { Some((0..nq).map(|i| i % nc.max(1)).collect()) };
        let dir: i8 = if malformed && c.rng.below(3) == 0 { b'w' as i8 } else if chance(&mut c.rng, pf.nondet) { b'x' as i8 } else { b'z' as i8 };
        let collapse = *c.rng.pick(&[1u8, 0]);
        c.measure_all(h, cbits, dir, collapse);
    }
    else if r < 64
    {
        if c.rng.coin() { let q = if malformed { nq + 1 } else if nq == 0 { 0 } else { c.rng.below(nq as u64) as usize }; c.reset(h, q); } else { c.reset_all(h); }
    }
    else if r < 72
    {
        // a circuit with a non-deterministic operation is never run: its outcome (even ok/err) would
        // depend on the thread RNG, which the twin does not share
        let n = if malformed && c.rng.below(3) == 0 { 0 } else { 1 + c.rng.below(6) as usize };
        if tainted { let w = c.rng.below(3) as usize; c.export(h, w); } else { c.execute(h, n); }
    }
    else if r < 75 { if tainted { c.histogram(h); } else { c.reexecute(h); } }
    else if h.is_none() && r >= 75 && (r < 80 || (r >= 90 && r < 92) || r >= 98) { c.histogram(h); }   // no NULL handle for the three getters that `assert!` it
    else if r < 80 { c.cstate(h); }
    else if r < 84 { let _ = executed; c.histogram(h); }
    else if r < 90 { let w = c.rng.below(3) as usize; c.export(h, w); }
    else if r < 92 { let q = c.rng.coin(); c.nr(h, q); }
    else if r < 98
    {
        let pending: Vec<usize> = (0..c.results.len()).filter(|i| !c.results[*i].freed).collect();
        if !pending.is_empty() { let rid = *c.rng.pick(&pending); c.result_free(rid); }
    }
    else if pf.live || c.rng.coin()
    {
        let cell = c.rng.below(6) as usize;
        let v = if c.rng.coin() { PI } else { 0.0 };
        c.poke(cell, v);
    }
    else if pf.two && c.rng.below(3) == 0 { c.free_circuit(h); }
    else { c.cstate(h); }
}


// ------------------------------------------------------------------------------------------------
// liveness probes: pointer-valued parameters are read at execution time.
// The twin of the histories above holds `Parameter::FFIRef` to the same doubles, so a gate that froze its parameter
// would be frozen in the twin as well.  These probes use an INDEPENDENT reference: a Rust circuit rebuilt with the
// values the doubles hold at each execution as direct parameters.  Every probe circuit is deterministic.

fn words_of(r: ffi::CResult) -> Option<Vec<u64>>
{
    let rr = raw(r);
    let v = if rr.restype == 5 && !rr.data.is_null() { Some(unsafe { std::slice::from_raw_parts(rr.data as *const u64, rr.length) }.to_vec()) } else { None };
    ffi::result_free(unraw(rr));
    v
}

fn live_probes(out: &mut Out)
{
    // (name, number of parameters, controlled, sandwich target between Hadamards, decoy values, final values)
    let z = 0.0f64;
    let probes: Vec<(&str, usize, bool, bool, Vec<f64>, Vec<f64>)> = vec![
        ("rx", 1, false, false, vec![z], vec![PI]), ("ry", 1, false, false, vec![z], vec![PI]),
        ("rz", 1, false, true, vec![z], vec![PI]), ("u1", 1, false, true, vec![z], vec![PI]),
        ("u2", 2, false, true, vec![z, z], vec![z, PI]), ("u2", 2, false, true, vec![PI, PI], vec![z, PI]),
        ("u3", 3, false, false, vec![z, z, z], vec![PI, z, PI]), ("u3", 3, false, true, vec![z, z, z], vec![z, PI, z]),
        ("u3", 3, false, true, vec![z, z, z], vec![z, z, PI]),
        ("crx", 1, true, false, vec![z], vec![PI]), ("cry", 1, true, false, vec![z], vec![PI]), ("crz", 1, true, true, vec![z], vec![2.0 * PI]),
    ];
    for (name, k, controlled, sandwich, decoy, fin) in probes.iter()
    {
        for conditional in [false, true].iter()
        {
            for mask in 1u32..(1 << k)
            {
                let cells: Box<[f64; 3]> = Box::new([0.0; 3]);
                let cp = Box::into_raw(cells);
                let isref = |j: usize| (mask >> j) & 1 == 1;
                // reference: direct parameters; referenced ones take `vals`
                let reference = |vals: &[f64], reexec_vals: Option<&[f64]>| -> Option<Vec<u64>> {
                    pcatch(|| {
                        let build = |vals: &[f64]| {
                            let mut c = Circuit::new(2, 2);
                            let ps: Vec<Parameter> = (0..*k).map(|j| Parameter::Direct(if isref(j) { vals[j] } else { fin[j] })).collect();
                            c.x(0).unwrap(); c.measure(0, 0).unwrap();
                            if !*controlled { } // control qubit stays |1>, used only by the controlled rotations
                            if *sandwich { c.h(1).unwrap(); }
                            let qs: Vec<usize> = if *controlled { vec![0, 1] } else { vec![1] };
                            let l = name.to_string();
                            if *conditional { with_gate!(l.as_str(), ps, |g| c.add_conditional_gate(&[0], 1, g, &qs)).unwrap(); }
                            else { with_gate!(l.as_str(), ps, |g| c.add_gate(g, &qs)).unwrap(); }
                            if *sandwich { c.h(1).unwrap(); }
                            c.measure(1, 1).unwrap();
                            c
                        };
                        let mut c = build(vals);
                        c.execute(64).unwrap();
                        match reexec_vals
                        {
                            None => c.cstate().unwrap().to_vec(),
                            Some(v2) => {
                                // a re-execution with other values: the state after the first run is a basis state, so the
                                // reference is a fresh run of "first circuit; second circuit" - here simply: prepare by X where set
                                let first = c.cstate().unwrap().to_vec();
                                let mut d = Circuit::new(2, 2);
                                if first[0] & 1 == 1 { d.x(0).unwrap(); }
                                if first[0] & 2 == 2 { d.x(1).unwrap(); }
                                let ps: Vec<Parameter> = (0..*k).map(|j| Parameter::Direct(if isref(j) { v2[j] } else { fin[j] })).collect();
                                d.x(0).unwrap(); d.measure(0, 0).unwrap();
                                if *sandwich { d.h(1).unwrap(); }
                                let qs: Vec<usize> = if *controlled { vec![0, 1] } else { vec![1] };
                                let l = name.to_string();
                                if *conditional { with_gate!(l.as_str(), ps, |g| d.add_conditional_gate(&[0], 1, g, &qs)).unwrap(); }
                                else { with_gate!(l.as_str(), ps, |g| d.add_gate(g, &qs)).unwrap(); }
                                if *sandwich { d.h(1).unwrap(); }
                                d.measure(1, 1).unwrap();
                                d.execute(64).unwrap();
                                d.cstate().unwrap().to_vec()
                            }
                        }
                    })
                };
                // the C interface, parameters by pointer where the mask says so
                let c = ffi::circuit_new(2, 2);
                let cname = |s: &str| std::ffi::CString::new(s).unwrap();
                let q0 = [0usize]; let q1 = [1usize]; let q01 = [0usize, 1usize];
                let ok = |r: ffi::CResult| { let rr = raw(r); let good = rr.restype != 0 || true; ffi::result_free(unraw(rr)); good };
                ok(ffi::circuit_add_gate(c, cname("x").as_ptr(), q0.as_ptr(), 1, std::ptr::null(), 0));
                ok(ffi::circuit_measure(c, 0, 0, 'z' as c_char, 1));
                if *sandwich { ok(ffi::circuit_add_gate(c, cname("h").as_ptr(), q1.as_ptr(), 1, std::ptr::null(), 0)); }
                let rp: Vec<RawParam> = (0..*k).map(|j| if isref(j) { RawParam { value: 0.0, value_ptr: unsafe { &(*cp)[j] as *const f64 } } }
                    else { RawParam { value: fin[j], value_ptr: std::ptr::null() } }).collect();
                let qs: &[usize] = if *controlled { &q01 } else { &q1 };
                for j in 0..*k { unsafe { (*cp)[j] = decoy[j]; } }
                let ctl = [0usize];
                if *conditional { ok(ffi::circuit_add_conditional_gate(c, ctl.as_ptr(), 1, 1, cname(name).as_ptr(), qs.as_ptr(), qs.len(), cparams(&rp), rp.len())); }
                else { ok(ffi::circuit_add_gate(c, cname(name).as_ptr(), qs.as_ptr(), qs.len(), cparams(&rp), rp.len())); }
                if *sandwich { ok(ffi::circuit_add_gate(c, cname("h").as_ptr(), q1.as_ptr(), 1, std::ptr::null(), 0)); }
                ok(ffi::circuit_measure(c, 1, 1, 'z' as c_char, 1));
                // run 1: the doubles hold the decoys;  run 2: overwritten;  run 3: a re-execution after overwriting them back
                ok(ffi::circuit_execute(c, 3));
                let r1 = words_of(ffi::circuit_cstate(c));
                for j in 0..*k { unsafe { (*cp)[j] = fin[j]; } }
                ok(ffi::circuit_execute(c, 3));
                let r2 = words_of(ffi::circuit_cstate(c));
                for j in 0..*k { unsafe { (*cp)[j] = decoy[j]; } }
                ok(ffi::circuit_reexecute(c));
                let r3 = words_of(ffi::circuit_cstate(c));
                ffi::circuit_free(c);
                unsafe { drop(Box::from_raw(cp)); }
                let (e1, e2, e3) = (reference(decoy, None), reference(fin, None), reference(fin, Some(decoy)));
                // only deterministic probes count: all 64 reference shots equal (and, for the re-execution, the run before it)
                let single = |w: &Option<Vec<u64>>| match w { Some(v) => v.iter().all(|x| *x == v[0]), None => false };
                if !(single(&e1) && single(&e2) && single(&e3)) { continue; }
                let cut = |w: Option<Vec<u64>>| w.map(|v| v[..3].to_vec());
                let (e1, e2, e3) = (cut(e1), cut(e2), cut(e3));
                let show = |w: &Option<Vec<u64>>| match w { Some(v) => v.iter().map(|x| x.to_string()).collect::<Vec<_>>().join(","), None => "none".into() };
                let verdict = if r1 == e1 && r2 == e2 && r3 == e3 && r1.is_some() { "same".to_string() }
                    else { format!("differs ffi={}/{}/{} reference={}/{}/{}", show(&r1), show(&r2), show(&r3), show(&e1), show(&e2), show(&e3)) };
                out.case(&format!("live {} {} mask={} decoy={} final={}", name, if *conditional { "conditional" } else { "plain" }, mask,
                    decoy.iter().map(|v| fbits(*v)).collect::<Vec<_>>().join(","), fin.iter().map(|v| fbits(*v)).collect::<Vec<_>>().join(",")), &verdict);
            }
        }
    }
}

fn string_of(r: ffi::CResult) -> Option<String>
{
    let rr = raw(r);
    let v = if rr.restype == 2 && !rr.data.is_null() { Some(unsafe { std::ffi::CStr::from_ptr(rr.data as *const c_char) }.to_string_lossy().into_owned()) } else { None };
    ffi::result_free(unraw(rr));
    v
}

/// Exports of a circuit whose gates were added through the C interface with POINTER-valued parameters must read exactly
/// like the exports of the Rust circuit holding the pointed-to values as direct parameters (same digits, same format).
fn export_probes(out: &mut Out)
{
    let names: [(&str, usize, bool); 9] = [("rx", 1, false), ("ry", 1, false), ("rz", 1, false), ("u1", 1, false), ("u2", 2, false), ("u3", 3, false),
        ("crx", 1, true), ("cry", 1, true), ("crz", 1, true)];
    let values = [0.5f64, 0.7853981633974483, -2.25, 1e-7, 12.566370614359172];
    for (name, k, controlled) in names.iter()
    {
        for (vi, _) in values.iter().enumerate()
        {
            for mask in 1u32..(1 << k)
            {
                let vals: Vec<f64> = (0..*k).map(|j| values[(vi + j) % values.len()]).collect();
                let cells: Box<[f64; 3]> = Box::new([0.0; 3]);
                let cp = Box::into_raw(cells);
                for j in 0..*k { unsafe { (*cp)[j] = vals[j]; } }
                let isref = |j: usize| (mask >> j) & 1 == 1;
                let c = ffi::circuit_new(2, 2);
                let cname = std::ffi::CString::new(*name).unwrap();
                let q1 = [1usize]; let q01 = [0usize, 1usize];
                let qs: &[usize] = if *controlled { &q01 } else { &q1 };
                let rp: Vec<RawParam> = (0..*k).map(|j| if isref(j) { RawParam { value: 0.0, value_ptr: unsafe { &(*cp)[j] as *const f64 } } }
                    else { RawParam { value: vals[j], value_ptr: std::ptr::null() } }).collect();
                ffi::result_free(ffi::circuit_add_gate(c, cname.as_ptr(), qs.as_ptr(), qs.len(), cparams(&rp), rp.len()));
                let got = [string_of(ffi::circuit_latex(c)), string_of(ffi::circuit_open_qasm(c)), string_of(ffi::circuit_c_qasm(c))];
                ffi::circuit_free(c);
                unsafe { drop(Box::from_raw(cp)); }
                let reference = pcatch(|| {
                    let mut r = Circuit::new(2, 2);
                    let ps: Vec<Parameter> = vals.iter().map(|v| Parameter::Direct(*v)).collect();
                    let l = name.to_string();
                    with_gate!(l.as_str(), ps, |g| r.add_gate(g, qs)).unwrap();
                    [r.latex().ok(), r.open_qasm().ok(), r.c_qasm().ok()]
                });
                let verdict = match reference
                {
                    Some(e) => { let which = ["latex", "openqasm", "cqasm"];
                        match (0..3).find(|i| got[*i] != e[*i]) { None => "same".to_string(),
                            Some(i) => format!("differs {} ffi={:?} reference={:?}", which[i], got[i].as_ref().map(|s| s.replace('\n', "|")), e[i].as_ref().map(|s| s.replace('\n', "|"))) } },
                    None => "reference-panicked".to_string()
                };
                out.case(&format!("live-export {} mask={} values={}", name, mask, vals.iter().map(|v| fbits(*v)).collect::<Vec<_>>().join(",")), &verdict);
            }
        }
    }
}

// ------------------------------------------------------------------------------------------------

fn warm_up()
{
    // lazily initialised globals (thread_rng, regex caches, ...) must exist before anything is logged
    let mut c = Circuit::new(2, 2);
    c.h(0).unwrap(); c.add_gate(T::new(), &[1]).unwrap(); c.measure(0, 0).unwrap(); c.execute(3).unwrap();
    let _ = c.histogram_string(); let _ = c.open_qasm(); let _ = c.c_qasm(); let _ = c.latex();
    let mut d = Circuit::new(1, 1);
    d.x(0).unwrap(); d.measure(0, 0).unwrap(); d.execute(2).unwrap();
    let p = ffi::circuit_new(1, 1);
    let n = std::ffi::CString::new("h").unwrap();
    let q = [0usize];
    ffi::result_free(ffi::circuit_add_gate(p, n.as_ptr(), q.as_ptr(), 1, std::ptr::null(), 0));
    ffi::result_free(ffi::circuit_execute(p, 2));
    ffi::result_free(ffi::circuit_histogram(p));
    ffi::result_free(ffi::circuit_latex(p));
    ffi::circuit_free(p);
}

fn main()
{
    let args: Vec<String> = std::env::args().collect();
    let dir = args.get(1).cloned().unwrap_or_else(|| "/tmp/c19".into());
    let mode = args.get(2).cloned().unwrap_or_else(|| "run".into());
    let seed = SplitMix64::from_env().0;
    log_init();
    if std::env::var("C19_TRACE").is_err() { silence_panics(); }
    warm_up();
    let size = std::mem::size_of::<Circuit>();
    let align = std::mem::align_of::<Circuit>();
    match mode.as_str()
    {
        "run" => {
            let first: usize = args.get(3).and_then(|s| s.parse().ok()).unwrap_or(0);
            let count: usize = args.get(4).and_then(|s| s.parse().ok()).unwrap_or(200);
            std::fs::create_dir_all(&dir).unwrap();
            let mut prog = std::fs::File::create(format!("{}/progress.txt", dir)).unwrap();
            let mut out = Out::new(&dir);
            for id in first..first + count
            {
                prog.seek(SeekFrom::Start(0)).unwrap();
                write!(prog, "{:>12}\n", id).unwrap();
                prog.flush().unwrap();
                let (c, kind) = gen_case(seed, id, None);
                let req = format!("case {} {} {} {} {} ; {}", id, kind, size, align, if c.nontrivial { 1 } else { 0 }, c.req.join(" ; "));
                out.case(&req, &c.ans.join(" ; "));
                if EV_OVERFLOW.load(Ordering::Relaxed) { eprintln!("event log overflow in case {}", id); std::process::exit(3); }
            }
            if first == 0 { LOGGING.store(false, Ordering::Relaxed); live_probes(&mut out); export_probes(&mut out); }
            let n = out.finish();
            prog.seek(SeekFrom::Start(0)).unwrap();
            write!(prog, "{:>12}\n", "done").unwrap();
            eprintln!("c19: {} cases", n);
        },
        "isolate" => {
            let id: usize = args[3].parse().unwrap();
            let call: usize = args[4].parse().unwrap();
            let (c, _) = gen_case(seed, id, Some(call));
            println!("SURVIVED {}", c.ans.get(call).cloned().unwrap_or_default());
        },
        "show" => {
            let id: usize = args[3].parse().unwrap();
            let (c, kind) = gen_case(seed, id, None);
            println!("case {} {} {} {} {} ; {}", id, kind, size, align, if c.nontrivial { 1 } else { 0 }, c.req.join(" ; "));
            println!("{}", c.ans.join(" ; "));
        },
        _ => { eprintln!("unknown mode"); std::process::exit(2); }
    }
}

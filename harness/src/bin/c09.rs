//! C09: histories of execute / execute_with / reexecute calls on one Circuit object, interleaved with
//! assignments to reference parameters (Rc<RefCell<f64>>) and result queries.
use q1t_harness::*;
use q1t_harness::sim::*;
use q1tsim::circuit::{Circuit, QuStateRepr};
use q1tsim::gates::*;
use rand_core::SeedableRng;
use std::cell::RefCell;
use std::rc::Rc;

const NCELLS: usize = 3;

/// ops may contain `@k` in the parameter position of RX RY RZ U1 CRX CRY CRZ
fn add_op_with_refs(c: &mut Circuit, op: &str, cells: &[Rc<RefCell<f64>>]) -> q1tsim::error::Result<()>
{
    if !op.contains('@') { return add_op(c, op); }
    let t: Vec<&str> = op.split_whitespace().collect();
    // gate <k> <bits…> <NAME> @cell
    let k: usize = t[1].parse().unwrap();
    let bits: Vec<usize> = t[2..2 + k].iter().map(|s| s.parse().unwrap()).collect();
    let name = t[2 + k];
    // every parameter token is either `@cell` (reference) or the bit pattern of a direct value
    let par = |tok: &str| -> Parameter {
        if tok.starts_with('@') { let cell: usize = tok[1..].parse().unwrap(); Parameter::from_refcell(&cells[cell], &format!("p{}", cell)) }
        else { Parameter::Direct(f64::from_bits(u64::from_str_radix(tok, 16).unwrap())) }
    };
    // every second parameter reaches its gate as a CLONE of the Parameter (clones of a reference must stay live)
    let par = |tok: &str| -> Parameter { let q = par(tok); if tok.len() % 2 == 0 { q.clone() } else { q } };
    let p = par(t[3 + k]).clone();
    match name
    {
        "RX" => c.add_gate(RX::new(p), &bits), "RY" => c.add_gate(RY::new(p), &bits), "RZ" => c.add_gate(RZ::new(p), &bits),
        "U1" => c.add_gate(U1::new(p), &bits), "CRX" => c.add_gate(CRX::new(p), &bits), "CRY" => c.add_gate(CRY::new(p), &bits),
        "CRZ" => c.add_gate(CRZ::new(p), &bits),
        "U2" => c.add_gate(U2::new(p, par(t[4 + k])), &bits),
        "U3" => c.add_gate(U3::new(p, par(t[4 + k]), par(t[5 + k])), &bits),
        other => panic!("no ref form for {}", other)
    }
}

fn resolve_text(op: &str, cells: &[Rc<RefCell<f64>>]) -> String
{
    op.split_whitespace().map(|t| if t.starts_with('@') { fbits(*cells[t[1..].parse::<usize>().unwrap()].borrow()) } else { t.to_string() })
        .collect::<Vec<_>>().join(" ")
}

fn main()
{
    let dir = std::env::args().nth(1).expect("usage: c09 <outdir>");
    silence_panics();
    let mut rng = SplitMix64::from_env();
    let mut out = Out::new(&dir);
    let nhist = if thorough() { 1500 } else { 250 };
    let cfg = GenCfg { max_q: 3, max_c: 3, max_ops: 7, clifford: false, allow_peek: true, allow_reset: true,
        allow_reset_all: true, allow_cond: true, allow_measure_all: true, allow_combinators: false };
    for _ in 0..nhist
    {
        let mut ct = gen_circuit(&cfg, &mut rng);
        // sprinkle reference-parameter gates
        let nref = 1 + rng.below(3) as usize;
        for _ in 0..nref
        {
            let two = ct.nq >= 2 && rng.below(3) == 0;
            let op = if two
            {
                let a = rng.below(ct.nq as u64) as usize; let mut b = rng.below(ct.nq as u64) as usize; if b == a { b = (a + 1) % ct.nq; }
                format!("gate 2 {} {} {} @{}", a, b, rng.pick(&["CRX", "CRY", "CRZ"]), rng.below(NCELLS as u64))
            }
            else if rng.below(3) == 0
            {
                // U2 / U3 with every mix of direct and reference parameters (at least one reference)
                let (nm, np) = if rng.coin() { ("U2", 2) } else { ("U3", 3) };
                let mask = 1 + rng.below((1 << np) - 1);
                let toks: Vec<String> = (0..np).map(|j| if (mask >> j) & 1 == 1 { format!("@{}", rng.below(NCELLS as u64)) } else { fbits(gate::gen_angle(&mut rng)) }).collect();
                format!("gate 1 {} {} {}", rng.below(ct.nq as u64), nm, toks.join(" "))
            }
            else { format!("gate 1 {} {} @{}", rng.below(ct.nq as u64), rng.pick(&["RX", "RY", "RZ", "U1"]), rng.below(NCELLS as u64)) };
            let pos = rng.below(ct.ops.len() as u64 + 1) as usize;
            ct.ops.insert(pos, op);
        }
        let cells: Vec<Rc<RefCell<f64>>> = (0..NCELLS).map(|_| Rc::new(RefCell::new(gate::gen_angle(&mut rng)))).collect();
        let mut circuit = Circuit::new(ct.nq, ct.nc);
        let mut okb = true;
        for op in ct.ops.iter() { if add_op_with_refs(&mut circuit, op, &cells).is_err() { okb = false; break; } }
        if !okb { continue; }
        // the history
        let ncalls = 2 + rng.below(6) as usize;
        let mut executed = false;
        let mut last_snap = String::new();
        let mut last_reg: Vec<u64> = vec![];
        let mut broken = false;
        // (B) independent reference: a FRESH Circuit object holding, as direct parameters, the values the cells had at each
        // run, executing in ONE run everything since the last execute (ops of run 1 ++ ops of run 2 ++ ...) from the same
        // generator stream.  execute = fresh start, reexecute = continuation, references read at each run <=> same result.
        let mut cur_rng: Option<rand_hc::Hc128Rng> = None;
        let mut hist_ops: Vec<String> = vec![];
        let mut hist_seed = 0u64;
        let mut hist_regs: Vec<Vec<u64>> = vec![];
        for _ in 0..ncalls
        {
            if broken { break; }
            match rng.below(10)
            {
                0 | 1 | 2 | 3 if true => {
                    // execute_with (vector) or re-execute
                    let reexec = executed && rng.coin() || (!executed && rng.below(6) == 0);
                    if reexec && !executed
                    {
                        let r = circuit.reexecute();
                        out.case("call | 0 0 | reexecute", &match r { Ok(()) => "ok".to_string(), Err(e) => show_err(&e) });
                        continue;
                    }
                    let shots = if reexec { last_reg.len() } else { [1usize, 3, 10, 25][rng.below(4) as usize] };
                    let seed = rng.next();
                    // a re-execution continues the generator stream of the run it continues
                    let mut r = if reexec { cur_rng.take().unwrap_or_else(|| rand_hc::Hc128Rng::seed_from_u64(seed)) } else { rand_hc::Hc128Rng::seed_from_u64(seed) };
                    let resolved: Vec<String> = ct.ops.iter().map(|op| resolve_text(op, &cells)).collect();
                    if reexec { hist_ops.extend(resolved); } else { hist_ops = resolved; hist_seed = seed; hist_regs.clear(); }
                    q1tsim::verif::trace_start();
                    q1tsim::verif::draws_start();
                    let res = {
                        let c = std::panic::AssertUnwindSafe(&mut circuit);
                        let rr = std::panic::AssertUnwindSafe(&mut r);
                        std::panic::catch_unwind(move || {
                            let std::panic::AssertUnwindSafe(c) = c; let std::panic::AssertUnwindSafe(rr) = rr;
                            if reexec { c.reexecute_with_rng(rr) } else { c.execute_with(shots, rr, QuStateRepr::vector(c.nr_qbits(), shots)) }
                        }).ok()
                    };
                    let trace = q1tsim::verif::trace_take();
                    let _ = q1tsim::verif::draws_take();
                    let (mut pre_snap, mut pre_reg) = if reexec { (last_snap.clone(), last_reg.clone()) }
                        else { (initial_snapshot("vector", ct.nq, shots), vec![0u64; shots]) };
                    for (j, e) in trace.iter().enumerate()
                    {
                        let req = format!("step | {} | {} | {} | {}", resolve_text(&ct.ops[j], &cells), pre_snap, join(&pre_reg), show_draws(&e.draws));
                        let post = show_snapshot(&e.snapshot);
                        out.case(&req, &format!("ok | {} | {}", post, join(&e.cstate)));
                        pre_snap = post; pre_reg = e.cstate.clone();
                        hist_regs.push(e.cstate.clone());
                    }
                    if trace.len() < ct.ops.len()
                    {
                        let ans = match &res { None => "panic".to_string(), Some(Err(e)) => show_err(e), Some(Ok(())) => "ok-but-trace-short".to_string() };
                        out.case(&format!("step | {} | {} | {} | 0", resolve_text(&ct.ops[trace.len()], &cells), pre_snap, join(&pre_reg)), &ans);
                        broken = true;
                        continue;
                    }
                    executed = true;
                    last_snap = pre_snap; last_reg = pre_reg;
                    cur_rng = Some(r);
                    {
                        let mut fresh = Circuit::new(ct.nq, ct.nc);
                        let built = hist_ops.iter().all(|op| add_op(&mut fresh, op).is_ok());
                        let verdict = if !built { "reference-not-built".to_string() } else {
                            let mut fr = rand_hc::Hc128Rng::seed_from_u64(hist_seed);
                            q1tsim::verif::trace_start();
                            let ok = { let c = std::panic::AssertUnwindSafe(&mut fresh); let rr = std::panic::AssertUnwindSafe(&mut fr);
                                std::panic::catch_unwind(move || { let std::panic::AssertUnwindSafe(c) = c; let std::panic::AssertUnwindSafe(rr) = rr;
                                    c.execute_with(shots, rr, QuStateRepr::vector(c.nr_qbits(), shots)) }).ok() };
                            let ftrace = q1tsim::verif::trace_take();
                            match ok
                            {
                                Some(Ok(())) if ftrace.len() == hist_regs.len() && ftrace.iter().zip(hist_regs.iter()).any(|(e, r)| e.cstate != *r) => {
                                    let j = ftrace.iter().zip(hist_regs.iter()).position(|(e, r)| e.cstate != *r).unwrap();
                                    format!("differs register-after-op-{} object={} reference={}", j, join(&hist_regs[j]), join(&ftrace[j].cstate))
                                },
                                Some(Ok(())) => {
                                    let freg = fresh.cstate().map(|a| a.to_vec()).unwrap_or_default();
                                    let fsnap = fresh.verif_snapshot().map(|s| show_snapshot(&s)).unwrap_or_default();
                                    if freg != last_reg { format!("differs register object={} reference={}", join(&last_reg), join(&freg)) }
                                    else if fsnap != last_snap { "differs quantum-state".to_string() }
                                    else { "same".to_string() }
                                },
                                _ => "reference-failed".to_string()
                            }
                        };
                        out.case(&format!("prop | {} | {} {} | {} | {} | {}", if reexec { "reexecute-continues" } else { "execute-fresh" },
                            ct.nq, ct.nc, shots, hist_seed, hist_ops.join(" ; ")), &verdict);
                    }
                },
                4 | 5 | 6 => { let k = rng.below(NCELLS as u64) as usize; *cells[k].borrow_mut() = gate::gen_angle(&mut rng); },
                _ => {
                    let r = circuit.histogram();
                    let ans = match r { Ok(_) => "ok".to_string(), Err(e) => show_err(&e) };
                    out.case(&format!("call | {} {} | query", executed as u8, executed as u8), &ans);
                    // cstate() view must agree with the hook's register
                    if executed
                    {
                        let cs = circuit.cstate().map(|a| a.to_vec()).unwrap_or_default();
                        if cs != last_reg { out.case("call | 1 1 | cstate-differs-from-trace", "differs"); }
                    }
                }
            }
        }
    }
    // FEEDBACK PROBES (B): "a re-execution starts from exactly the quantum and classical state in which the previous run
    // ended", observed through a circuit whose re-execution has a KNOWN register part if and only if every shot's quantum
    // state is the one that belongs to that shot's classical word: [X on q if c_q = 1, for every q] ; [measure q -> c_(n+q)]
    // ; [H on every q] ; [measure_all -> c_0..c_(n-1)].  At the end of a run shot s holds |c_0..c_(n-1)>, so in the next run
    // the conditional X gates return it to |0...0> and the upper bits c_n..c_(2n-1) must all be measured 0 - in every shot,
    // in every re-execution (from the second re-execution on, several state columns hold the same state before
    // measure_all and collapse onto coinciding basis states).
    for &(nq, shots, stab) in [(1usize, 10usize, false), (2, 25, false), (3, 64, false), (4, 100, false), (2, 25, true), (3, 64, true), (5, 200, true)].iter()
    {
        for variant in 0..3u64
        {
            let mut c = Circuit::new(nq, 2 * nq);
            let mut ok = true;
            for q in 0..nq { ok &= c.add_conditional_gate(&[q], 1, q1tsim::gates::X::new(), &[q]).is_ok(); }
            for q in 0..nq { ok &= c.measure(q, nq + q).is_ok(); }
            // variant 1: an extra measurement in the middle splits the columns before measure_all; variant 2: entangle first
            for q in 0..nq { ok &= c.h(q).is_ok(); }
            if variant == 1 { ok &= c.measure(0, 0).is_ok(); ok &= c.h(0).is_ok(); }
            if variant == 2 && nq > 1 { for q in 1..nq { ok &= c.cx(q - 1, q).is_ok(); } }
            let bits: Vec<usize> = (0..nq).collect();
            ok &= c.measure_all(&bits).is_ok();
            let seed = rng.next();
            let mut r = rand_hc::Hc128Rng::seed_from_u64(seed);
            let mut verdict = if ok { "same".to_string() } else { "reference-not-built".to_string() };
            if ok
            {
                let res = { let cc = std::panic::AssertUnwindSafe(&mut c); let rr = std::panic::AssertUnwindSafe(&mut r);
                    std::panic::catch_unwind(move || { let std::panic::AssertUnwindSafe(cc) = cc; let std::panic::AssertUnwindSafe(rr) = rr;
                        let repr = if stab { QuStateRepr::stabilizer(nq, shots) } else { QuStateRepr::vector(nq, shots) };
                        cc.execute_with(shots, rr, repr)?;
                        let mut bad: Option<(usize, usize, u64)> = None;
                        for run in 0..4usize
                        {
                            if run > 0 { cc.reexecute_with_rng(rr)?; }
                            let reg = cc.cstate().map(|a| a.to_vec()).unwrap_or_default();
                            if reg.len() != shots { bad = Some((run, usize::MAX, reg.len() as u64)); break; }
                            if let Some(sh) = reg.iter().position(|w| (w >> nq) != 0) { bad = Some((run, sh, reg[sh])); break; }
                        }
                        Ok::<_, q1tsim::error::Error>(bad) }).ok() };
                verdict = match res
                {
                    None => "differs panic".to_string(),
                    Some(Err(e)) => format!("differs {}", show_err(&e)),
                    Some(Ok(Some((run, sh, w)))) => format!("differs after-run-{} shot-{} register={:#b}: the upper bits must be 0 (the shot's state was not the one of its word)", run, sh, w),
                    Some(Ok(None)) => "same".to_string()
                };
            }
            out.case(&format!("prop | feedback-continuation | {} qubits {} shots {} variant {} seed {}", nq, shots, if stab { "stabilizer" } else { "vector" }, variant, seed), &verdict);
        }
    }
    // ZERO-SHOT PROBES (B): "a fresh execution starts clean whatever happened before" also when the new execution has 0
    // shots: afterwards every view must be the view of the 0-shot run (as on a fresh object executing 0 shots), not of an
    // earlier run, and the object counts as executed.  (No conditional gates here: 0 shots + conditional gate is a listed finding.)
    for &stab in [false, true].iter()
    {
        for &prev in [0usize, 1, 7, 25].iter()
        {
            let build = || { let mut c = Circuit::new(2, 3); let _ = c.x(0); let _ = c.h(1); let _ = c.measure(0, 2); let _ = c.measure(1, 0); c };
            let view = |c: &Circuit| -> String {
                let cs = c.cstate().map(|a| format!("len{}:{}", a.len(), join(&a.to_vec()))).unwrap_or("none".to_string());
                let hv = match c.histogram_vec() { Ok(v) => format!("{:?}", v), Err(e) => show_err(&e) };
                let mut hs: Vec<(String, usize)> = match c.histogram_string() { Ok(m) => m.into_iter().collect(), Err(_) => vec![("err".to_string(), 0)] };
                hs.sort();
                format!("cstate={} hist_vec={} hist_string={:?}", cs, hv, hs) };
            let run = |c: &mut Circuit, shots: usize, seed: u64| -> Option<q1tsim::error::Result<()>> {
                let cc = std::panic::AssertUnwindSafe(c);
                std::panic::catch_unwind(move || { let std::panic::AssertUnwindSafe(cc) = cc; let mut r = rand_hc::Hc128Rng::seed_from_u64(seed);
                    let repr = if stab { QuStateRepr::stabilizer(2, shots) } else { QuStateRepr::vector(2, shots) };
                    cc.execute_with(shots, &mut r, repr) }).ok() };
            let mut obj = build();
            let mut fresh = build();
            let mut verdict = "same".to_string();
            if prev > 0 { let _ = run(&mut obj, prev, 11); }
            let a = run(&mut obj, 0, 12).map(|r| r.is_ok());
            let b = run(&mut fresh, 0, 12).map(|r| r.is_ok());
            if a != b { verdict = format!("differs outcome object={:?} fresh={:?}", a, b); }
            else if a == Some(true)
            {
                let (va, vb) = (view(&obj), view(&fresh));
                if va != vb { verdict = format!("differs views object[{}] fresh[{}]", va, vb); }
                else
                {
                    // and a re-execution continues the 0-shot run
                    let ra = { let cc = std::panic::AssertUnwindSafe(&mut obj); std::panic::catch_unwind(move || { let std::panic::AssertUnwindSafe(cc) = cc; let mut r = rand_hc::Hc128Rng::seed_from_u64(13); cc.reexecute_with_rng(&mut r).is_ok() }).ok() };
                    let rb = { let cc = std::panic::AssertUnwindSafe(&mut fresh); std::panic::catch_unwind(move || { let std::panic::AssertUnwindSafe(cc) = cc; let mut r = rand_hc::Hc128Rng::seed_from_u64(13); cc.reexecute_with_rng(&mut r).is_ok() }).ok() };
                    let (va, vb) = (view(&obj), view(&fresh));
                    if ra != rb || va != vb { verdict = format!("differs after-reexecute object={:?}[{}] fresh={:?}[{}]", ra, va, rb, vb); }
                }
            }
            out.case(&format!("prop | execute-fresh-zero-shots | {} previous-run-shots {}", if stab { "stabilizer" } else { "vector" }, prev), &verdict);
        }
    }
    // "asking for results or re-executing before any execution is an error" - also through the C interface
    {
        use q1tsim::ffi;
        #[repr(C)] #[derive(Clone, Copy)]
        struct RawResult { data: *const std::os::raw::c_void, length: usize, size: usize, restype: u32 }
        fn raw(r: ffi::CResult) -> RawResult { unsafe { std::mem::transmute::<ffi::CResult, RawResult>(r) } }
        fn unraw(r: RawResult) -> ffi::CResult { unsafe { std::mem::transmute::<RawResult, ffi::CResult>(r) } }
        for (nq, nc) in [(1usize, 1usize), (2, 3), (0, 0)].iter()
        {
            let c = ffi::circuit_new(*nq, *nc);
            if *nq > 0 { let n = std::ffi::CString::new("x").unwrap(); let b = [0usize]; ffi::result_free(ffi::circuit_add_gate(c, n.as_ptr(), b.as_ptr(), 1, std::ptr::null(), 0)); }
            let mut probe = |what: &str, r: ffi::CResult| { let rr = raw(r); let t = rr.restype; let len = rr.length; ffi::result_free(unraw(rr));
                out.case(&format!("prop | not-executed-is-an-error | c-interface {} on a circuit with {} qubits {} bits", what, nq, nc),
                    &if t == 0 { "same".to_string() } else { format!("differs result-type={} length={} instead of an error", t, len) }); };
            probe("circuit_cstate", ffi::circuit_cstate(c));
            probe("circuit_histogram", ffi::circuit_histogram(c));
            probe("circuit_reexecute", ffi::circuit_reexecute(c));
            probe("circuit_cstate-after-refused-reexecute", ffi::circuit_cstate(c));
            ffi::circuit_free(c);
        }
    }
    let n = out.finish();
    eprintln!("c09: {} cases", n);
}

use q1tsim::circuit::Circuit;
use q1tsim::gates::*;
fn main()
{
    let mut comp = Composite::new("G", 2);
    comp.add_gate(H::new(), &[0]); comp.add_gate(T::new(), &[1]);
    comp.add_gate(CX::new(), &[0, 1]);
    let mut c = Circuit::new(3, 3);
    c.add_gate(comp, &[0, 1]).unwrap();
    c.measure_all(&[0,1,2]).unwrap();
    let r = std::panic::catch_unwind(std::panic::AssertUnwindSafe(move || { let mut c = c; c.execute(10).map(|_| c.histogram_vec()) }));
    println!("{:?}", r.is_ok());
}

//! C18: invalid requests yield errors, never panics or silently wrong runs.
//!
//! Streams (line protocol of lean/Driver/C18.lean; every line is self-contained):
//!   build <nq> <nc> | call ; call ; …          every building call under catch_unwind: ok / err C p / panic,
//!                                               and after a failed call whether the circuit is unchanged
//!   oq|cq|latex <nq> <nc> | calls              outcome class of the three exporters on the built circuit
//!   step <nq> <nc> | calls | i | pre | reg | draws
//!                                               operation i of the built circuit, executed from the implementation's
//!                                               own pre-state with its logged draws (both representations,
//!                                               execute and re-execute)
//!   pair <nq> <nc> | calls | shots | v .. | rv .. | s .. | rs ..   final outcomes of the four runs (for (B))
//!   macro <nq> <nc> | calls                    a compiled `circuit!` invocation
//!   cover | names                              the builder methods that have a failing call in the macro stream
//!
//! Call grammar: the Rust method name followed by its arguments
//!   add_gate <k> <bit>*k <gate> | add_conditional_gate <n> <cbit>*n <target> <k> <bit>*k <gate>
//!   measure_basis q c B | measure_x q c | measure_y q c | measure_z q c | measure q c
//!   measure_all_basis <k> <cbit>*k B | measure_all <k> <cbit>*k          (same for peek…)
//!   reset q | reset_all | barrier <k> <bit>*k | cx a b
//!   h q | x q | y q | z q | s q | sdg q | rx <hex> q | ry <hex> q | rz <hex> q | u1 <hex> q | u2 <hex> <hex> q | u3 <hex> <hex> <hex> q
use q1t_harness::*;
use q1t_harness::sim::{basis, show_draws, show_err, show_snapshot, initial_snapshot};
use q1tsim::circuit::{Basis, Circuit, QuStateRepr};
use q1tsim::error::{Error, ExportError};
use q1tsim::{circuit, circuit_method_check};
use rand_core::SeedableRng;
use std::cell::Cell;
use std::panic::{catch_unwind, AssertUnwindSafe};

// ------------------------------------------------------------------------------------------------
// applying a call (text) to a real circuit

fn apply_call(c: &mut Circuit, call: &str) -> q1tsim::error::Result<()>
{
    let mut it = call.split_whitespace();
    let kind = it.next().expect("method");
    fn nat(it: &mut std::str::SplitWhitespace) -> usize { it.next().expect("nat").parse().expect("nat") }
    fn list(it: &mut std::str::SplitWhitespace) -> Vec<usize> { let k = nat(it); (0..k).map(|_| nat(it)).collect() }
    fn f(it: &mut std::str::SplitWhitespace) -> f64 { gate::hex_f64(it.next().expect("param")) }
    match kind
    {
        "add_gate" => { let bits = list(&mut it); let g = parse_gate(&mut it); c.add_gate(g, &bits) },
        "add_conditional_gate" => {
            let control = list(&mut it);
            let target: u64 = it.next().unwrap().parse().unwrap();
            let bits = list(&mut it);
            let g = parse_gate(&mut it);
            c.add_conditional_gate(&control, target, g, &bits)
        },
        "measure_basis" => { let q = nat(&mut it); let cb = nat(&mut it); c.measure_basis(q, cb, basis(it.next().unwrap())) },
        "measure_x" => { let q = nat(&mut it); let cb = nat(&mut it); c.measure_x(q, cb) },
        "measure_y" => { let q = nat(&mut it); let cb = nat(&mut it); c.measure_y(q, cb) },
        "measure_z" => { let q = nat(&mut it); let cb = nat(&mut it); c.measure_z(q, cb) },
        "measure" => { let q = nat(&mut it); let cb = nat(&mut it); c.measure(q, cb) },
        "measure_all_basis" => { let l = list(&mut it); c.measure_all_basis(&l, basis(it.next().unwrap())) },
        "measure_all" => { let l = list(&mut it); c.measure_all(&l) },
        "peek_basis" => { let q = nat(&mut it); let cb = nat(&mut it); c.peek_basis(q, cb, basis(it.next().unwrap())) },
        "peek_x" => { let q = nat(&mut it); let cb = nat(&mut it); c.peek_x(q, cb) },
        "peek_y" => { let q = nat(&mut it); let cb = nat(&mut it); c.peek_y(q, cb) },
        "peek_z" => { let q = nat(&mut it); let cb = nat(&mut it); c.peek_z(q, cb) },
        "peek" => { let q = nat(&mut it); let cb = nat(&mut it); c.peek(q, cb) },
        "peek_all_basis" => { let l = list(&mut it); c.peek_all_basis(&l, basis(it.next().unwrap())) },
        "peek_all" => { let l = list(&mut it); c.peek_all(&l) },
        "reset" => { let q = nat(&mut it); c.reset(q) },
        "reset_all" => { c.reset_all(); Ok(()) },
        "barrier" => { let l = list(&mut it); c.barrier(&l) },
        "cx" => { let a = nat(&mut it); let b = nat(&mut it); c.cx(a, b) },
        "h" => { let q = nat(&mut it); c.h(q) }, "x" => { let q = nat(&mut it); c.x(q) },
        "y" => { let q = nat(&mut it); c.y(q) }, "z" => { let q = nat(&mut it); c.z(q) },
        "s" => { let q = nat(&mut it); c.s(q) }, "sdg" => { let q = nat(&mut it); c.sdg(q) },
        "rx" => { let t = f(&mut it); let q = nat(&mut it); c.rx(t, q) },
        "ry" => { let t = f(&mut it); let q = nat(&mut it); c.ry(t, q) },
        "rz" => { let t = f(&mut it); let q = nat(&mut it); c.rz(t, q) },
        "u1" => { let t = f(&mut it); let q = nat(&mut it); c.u1(t, q) },
        "u2" => { let a = f(&mut it); let b = f(&mut it); let q = nat(&mut it); c.u2(a, b, q) },
        "u3" => { let a = f(&mut it); let b = f(&mut it); let d = f(&mut it); let q = nat(&mut it); c.u3(a, b, d, q) },
        other => panic!("unknown call {}", other)
    }
}

/// A gate term.  A composite whose name starts with `fs` is built with `Composite::from_string` from the
/// description its sub-gates spell (all parameter-free), and checked through `verif_ops` to be the object the
/// request text describes; every other term goes through the shared `gate::parse` (`Composite::add_gate`).
fn parse_gate(it: &mut std::str::SplitWhitespace) -> gate::Dyn
{
    let toks: Vec<&str> = it.clone().collect();
    let (is_loop, off) = match toks.first() { Some(&"Comp") => (false, 1), Some(&"Loop") => (true, 3), _ => return gate::parse(it) };
    if toks.len() <= off || !toks[off].starts_with("fs") { return gate::parse(it); }
    // Comp name nb k { NAME m bits… }*k        |  Loop label iters name nb k { … }
    let name = toks[off];
    let nb: usize = toks[off + 1].parse().unwrap();
    let k: usize = toks[off + 2].parse().unwrap();
    let mut pos = off + 3;
    let mut descs: Vec<String> = vec![];
    let mut expect: Vec<(String, Vec<usize>)> = vec![];
    for _ in 0..k
    {
        let g = toks[pos];
        let m: usize = toks[pos + 1].parse().unwrap();
        let bits: Vec<usize> = toks[pos + 2..pos + 2 + m].iter().map(|t| t.parse().unwrap()).collect();
        descs.push(format!("{} {}", g, join(&bits)));
        expect.push((g.to_string(), bits));
        pos += 2 + m;
    }
    let comp = match q1tsim::gates::Composite::from_string(name, &descs.join("; "))
    {
        Ok(c) => c,
        Err(_) => return gate::parse(it)      // not spellable for from_string: the same object through add_gate
    };
    use q1tsim::gates::Gate;
    assert_eq!(comp.nr_affected_bits(), nb, "from_string width");
    let got = comp.verif_ops();
    assert_eq!(got.len(), expect.len(), "from_string ops");
    for (a, b) in got.iter().zip(expect.iter()) { assert_eq!(a.1, b.1, "from_string bits"); }
    for _ in 0..pos { it.next(); }
    if is_loop
    {
        let iters: usize = toks[2].parse().unwrap();
        gate::Dyn::Full(Box::new(q1tsim::gates::Loop::new(toks[1], iters, comp)))
    }
    else { gate::Dyn::Full(Box::new(comp)) }
}

fn show_build_err(e: &Error) -> String
{
    match e
    {
        Error::InvalidQBit(q) => format!("err invalidQBit {}", q),
        Error::InvalidCBit(c) => format!("err invalidCBit {}", c),
        other => format!("err other {:?}", other).replace('\n', " ")
    }
}

fn show_latex_err(e: &Error) -> String
{
    match e
    {
        Error::InvalidQBit(b) => format!("err InvalidQBit {}", b),
        Error::InvalidCBit(b) => format!("err InvalidCBit {}", b),
        Error::InvalidNrBits(n, e, _) => format!("err InvalidNrBits {} {}", n, e),
        Error::ExportError(ExportError::NotImplemented(_, _)) => "err NotImplemented".to_string(),
        Error::ExportError(ExportError::RangeAlreadyOpen) => "err RangeAlreadyOpen".to_string(),
        Error::ExportError(ExportError::CantCloseLoop) => "err CantCloseLoop".to_string(),
        e => format!("err Other {}", format!("{:?}", e).replace(' ', "_"))
    }
}

fn hash(s: &str) -> u64
{
    let mut h: u64 = 0xcbf29ce484222325;
    for b in s.bytes() { h ^= b as u64; h = h.wrapping_mul(0x100000001b3); }
    h
}

fn export_class(r: Option<q1tsim::error::Result<String>>, latex: bool) -> (String, String)
{
    match r
    {
        None => ("panic".to_string(), "panic".to_string()),
        Some(Ok(t)) => ("ok".to_string(), format!("ok:{:016x}", hash(&t))),
        Some(Err(e)) => {
            let cls = if latex { show_latex_err(&e) } else { "err".to_string() };
            (cls, format!("err:{:?}", e))
        }
    }
}

/// (class of open_qasm, c_qasm, latex; fingerprint of the three results)
fn exports(c: &Circuit) -> ([String; 3], String)
{
    let oq = export_class(catch_unwind(AssertUnwindSafe(|| c.open_qasm())).ok(), false);
    let cq = export_class(catch_unwind(AssertUnwindSafe(|| c.c_qasm())).ok(), false);
    let lx = export_class(catch_unwind(AssertUnwindSafe(|| c.latex())).ok(), true);
    // every public query of the object that does not need an execution
    let fp = format!("{}|{}|{}|{}|{}|{}|{}", oq.1, cq.1, lx.1, c.is_stabilizer_circuit(), c.nr_qbits(), c.nr_cbits(), c.verif_nr_ops());
    ([oq.0, cq.0, lx.0], fp)
}

// ------------------------------------------------------------------------------------------------
// generation of malformed-heavy call sequences

const BIG: [usize; 4] = [1000, 1 << 40, 1 << 63, usize::MAX];

/// an index meant for a register of `bound` entries: mostly valid, otherwise just outside, far outside, huge
fn gen_index(bound: usize, rng: &mut SplitMix64) -> usize
{
    let r = rng.below(100);
    if bound > 0 && r < 72 { rng.below(bound as u64) as usize }
    else if r < 84 { bound }
    else if r < 94 { bound + 1 + rng.below(3) as usize }
    else { *rng.pick(&BIG) }
}

/// operand list of nominal length `want`
fn gen_list(bound: usize, want: usize, rng: &mut SplitMix64) -> Vec<usize>
{
    let r = rng.below(100);
    let len = if r < 62 { want } else if r < 70 { 0 } else if r < 80 { want + 1 } else if r < 90 { want.saturating_sub(1) }
        else { want + 2 + rng.below(2) as usize };
    let mode = rng.below(100);
    let mut out: Vec<usize> = vec![];
    if mode < 60 && bound >= len
    {
        // distinct, in range
        let mut all: Vec<usize> = (0..bound).collect();
        rng.shuffle(&mut all);
        all.truncate(len);
        out = all;
    }
    else if mode < 80 && bound > 0
    {
        // in range with a forced repetition
        for _ in 0..len { out.push(rng.below(bound as u64) as usize); }
        if len >= 2 { let j = rng.below(len as u64 - 1) as usize; out[len - 1] = out[j]; }
    }
    else
    {
        for _ in 0..len { out.push(gen_index(bound, rng)); }
    }
    out
}

fn list_text(l: &[usize]) -> String { if l.is_empty() { "0".to_string() } else { format!("{} {}", l.len(), join(l)) } }

/// `Composite` / `Loop` terms of library gates, the sub-gates placed by `Composite::add_gate` (which validates
/// nothing: local indices >= width, repeated, mis-sized) or spelled for `Composite::from_string` (name `fs…`)
fn gen_composite(rng: &mut SplitMix64, clifford: bool) -> (String, usize)
{
    const FREE1: [&str; 11] = ["H", "X", "Y", "Z", "S", "Sdg", "T", "Tdg", "V", "Vdg", "I"];
    const FREE2: [&str; 11] = ["CX", "CY", "CZ", "Swap", "CH", "CS", "CSdg", "CT", "CTdg", "CV", "CVdg"];
    const CL1: [&str; 9] = ["H", "X", "Y", "Z", "S", "Sdg", "V", "Vdg", "I"];
    const CL2: [&str; 4] = ["CX", "CY", "CZ", "Swap"];
    let mut nb = 1 + rng.below(3) as usize;
    let k = rng.below(4) as usize;
    let mut subs: Vec<(String, Vec<usize>)> = vec![];
    let mut free = true;
    let mut fs_ok = k > 0;
    for _ in 0..k
    {
        let (g, ar) = if clifford { if rng.below(3) == 0 { (rng.pick(&CL2).to_string(), 2) } else { (rng.pick(&CL1).to_string(), 1) } }
            else
            {
                match rng.below(8)
                {
                    0 => { let reg = gate::registry(rng); let (g, a) = rng.pick(&reg).clone(); free = free && !g.contains(' '); (g, a) },
                    1 | 2 => (rng.pick(&FREE2).to_string(), 2),
                    3 => ("CCX".to_string(), 3),
                    _ => (rng.pick(&FREE1).to_string(), 1)
                }
            };
        let r = rng.below(100);
        let bits: Vec<usize> = if r < 64 && nb >= ar { let mut all: Vec<usize> = (0..nb).collect(); rng.shuffle(&mut all); all.truncate(ar); all }
            else if r < 78 { (0..ar).map(|i| if i == 0 { nb + rng.below(2) as usize } else { rng.below(nb as u64) as usize }).collect() }   // index >= width
            else if r < 88 && ar >= 2 { let b = rng.below(nb as u64) as usize; vec![b; ar] }                                             // repeated
            else if r < 94 { fs_ok = false; (0..ar + 1).map(|i| i % nb).collect() }                                                      // one operand too many
            else { fs_ok = false; (0..ar.saturating_sub(1)).map(|i| i % nb).collect() };                                                 // one too few
        subs.push((g, bits));
    }
    let use_fs = free && fs_ok && rng.below(3) == 0;
    if use_fs { nb = subs.iter().flat_map(|s| s.1.iter()).max().map(|m| m + 1).unwrap_or(nb); }
    let name = format!("{}{}", if use_fs { "fs" } else { "c" }, rng.below(100));
    let mut body = format!("{} {} {}", name, nb, subs.len());
    for (g, bits) in subs.iter() { body += &format!(" {} {}{}", g, bits.len(), if bits.is_empty() { String::new() } else { format!(" {}", join(bits)) }); }
    if rng.below(5) < 2 { (format!("Loop l{} {} {}", rng.below(10), rng.below(5), body), nb) } else { (format!("Comp {}", body), nb) }
}

fn gen_gate(rng: &mut SplitMix64, clifford: bool) -> (String, usize)
{
    if rng.below(8) == 0 { return gen_composite(rng, clifford); }
    if clifford
    {
        let c1 = ["H", "X", "Y", "Z", "S", "Sdg", "V", "Vdg", "I"];
        let c2 = ["CX", "CY", "CZ", "Swap"];
        return match rng.below(10)
        {
            0..=5 => (rng.pick(&c1).to_string(), 1),
            6..=8 => (rng.pick(&c2).to_string(), 2),
            _ => (format!("Kron {} {}", rng.pick(&c1), rng.pick(&c1)), 2)
        };
    }
    let reg = gate::registry(rng);
    match rng.below(12)
    {
        0 => {
            let (a, ka) = rng.pick(&reg).clone();
            let (b, kb) = rng.pick(&reg).clone();
            (format!("Kron {} {}", a, b), ka + kb)
        },
        _ => rng.pick(&reg).clone()
    }
}

fn gen_basis(rng: &mut SplitMix64) -> &'static str { match rng.below(4) { 0 => "X", 1 => "Y", _ => "Z" } }

fn gen_call(nq: usize, nc: usize, clifford: bool, rng: &mut SplitMix64) -> String
{
    let angle = |rng: &mut SplitMix64| fbits(gate::gen_angle(rng));
    match rng.below(100)
    {
        0..=21 => { let (g, k) = gen_gate(rng, clifford); format!("add_gate {} {}", list_text(&gen_list(nq, k, rng)), g) },
        22..=31 => {
            let (g, k) = gen_gate(rng, clifford);
            let control = if rng.below(3) == 0 && nc <= 6
            {
                // the whole register in some order (the only shape OpenQASM accepts)
                let mut all: Vec<usize> = (0..nc).collect(); rng.shuffle(&mut all); all
            }
            else { let want = if nc == 0 { 1 } else { 1 + rng.below(nc.min(3) as u64) as usize }; gen_list(nc, want, rng) };
            let target: u64 = match rng.below(6) { 0 => rng.next(), 1 => u64::MAX, _ => rng.below(1 << control.len().min(3)) };
            format!("add_conditional_gate {} {} {} {}", list_text(&control), target, list_text(&gen_list(nq, k, rng)), g)
        },
        32..=37 => format!("measure {} {}", gen_index(nq, rng), gen_index(nc, rng)),
        38..=40 => format!("measure_basis {} {} {}", gen_index(nq, rng), gen_index(nc, rng), gen_basis(rng)),
        41 => format!("measure_x {} {}", gen_index(nq, rng), gen_index(nc, rng)),
        42 => format!("measure_y {} {}", gen_index(nq, rng), gen_index(nc, rng)),
        43 => format!("measure_z {} {}", gen_index(nq, rng), gen_index(nc, rng)),
        44..=50 => format!("measure_all {}", list_text(&gen_list(nc, nq, rng))),
        51..=53 => format!("measure_all_basis {} {}", list_text(&gen_list(nc, nq, rng)), gen_basis(rng)),
        54..=56 => format!("peek {} {}", gen_index(nq, rng), gen_index(nc, rng)),
        57 => format!("peek_basis {} {} {}", gen_index(nq, rng), gen_index(nc, rng), gen_basis(rng)),
        58 => format!("peek_x {} {}", gen_index(nq, rng), gen_index(nc, rng)),
        59 => format!("peek_y {} {}", gen_index(nq, rng), gen_index(nc, rng)),
        60 => format!("peek_z {} {}", gen_index(nq, rng), gen_index(nc, rng)),
        61..=64 => format!("peek_all {}", list_text(&gen_list(nc, nq, rng))),
        65..=66 => format!("peek_all_basis {} {}", list_text(&gen_list(nc, nq, rng)), gen_basis(rng)),
        67..=71 => format!("reset {}", gen_index(nq, rng)),
        72..=75 => "reset_all".to_string(),
        76..=79 => { let want = if nq == 0 { 1 } else { 1 + rng.below(nq as u64) as usize }; format!("barrier {}", list_text(&gen_list(nq, want, rng))) },
        80..=85 => format!("cx {} {}", gen_index(nq, rng), gen_index(nq, rng)),
        86..=87 => format!("h {}", gen_index(nq, rng)),
        88 => format!("x {}", gen_index(nq, rng)),
        89 => format!("y {}", gen_index(nq, rng)),
        90 => format!("z {}", gen_index(nq, rng)),
        91 => format!("s {}", gen_index(nq, rng)),
        92 => format!("sdg {}", gen_index(nq, rng)),
        93 => if clifford { format!("h {}", gen_index(nq, rng)) } else { format!("rx {} {}", angle(rng), gen_index(nq, rng)) },
        94 => if clifford { format!("x {}", gen_index(nq, rng)) } else { format!("ry {} {}", angle(rng), gen_index(nq, rng)) },
        95 => if clifford { format!("z {}", gen_index(nq, rng)) } else { format!("rz {} {}", angle(rng), gen_index(nq, rng)) },
        96 => if clifford { format!("s {}", gen_index(nq, rng)) } else { format!("u1 {} {}", angle(rng), gen_index(nq, rng)) },
        97 => if clifford { format!("sdg {}", gen_index(nq, rng)) } else { format!("u2 {} {} {}", angle(rng), angle(rng), gen_index(nq, rng)) },
        _ => if clifford { format!("y {}", gen_index(nq, rng)) } else { format!("u3 {} {} {} {}", angle(rng), angle(rng), angle(rng), gen_index(nq, rng)) },
    }
}

// ------------------------------------------------------------------------------------------------
// execution of a built circuit, step lines

fn show_outcome(r: &Option<q1tsim::error::Result<()>>) -> String
{
    match r { None => "panic".to_string(), Some(Ok(())) => "ok".to_string(), Some(Err(e)) => show_err(e) }
}

/// one run (execute_with on `repr`, or re-execute); emits the step lines; returns the outcome text
fn run(out: &mut Out, head: &str, circuit: &mut Circuit, nq: usize, shots: usize, seed: u64, repr: Option<&str>, nops: usize) -> String
{
    let (mut pre_snap, mut pre_reg) = match repr
    {
        Some(r) => (initial_snapshot(r, nq, shots), vec![0u64; shots]),
        None => (circuit.verif_snapshot().map(|s| show_snapshot(&s)).unwrap_or_else(|| "none".to_string()),
                 circuit.cstate().map(|a| a.to_vec()).unwrap_or_default())
    };
    let mut rng = rand_hc::Hc128Rng::seed_from_u64(seed);
    q1tsim::verif::trace_start();
    q1tsim::verif::draws_start();
    let result = {
        let c = AssertUnwindSafe(&mut *circuit);
        let r = AssertUnwindSafe(&mut rng);
        catch_unwind(move || {
            let AssertUnwindSafe(c) = c;
            let AssertUnwindSafe(r) = r;
            match repr
            {
                Some("vector") => c.execute_with(shots, r, QuStateRepr::vector(nq, shots)),
                Some(_) => c.execute_with(shots, r, QuStateRepr::stabilizer(nq, shots)),
                None => c.reexecute_with_rng(r)
            }
        }).ok()
    };
    let trace = q1tsim::verif::trace_take();
    let rest = q1tsim::verif::draws_take();
    for (j, e) in trace.iter().enumerate()
    {
        let req = format!("step {} | {} | {} | {} | {}", head, j, pre_snap, join(&pre_reg), show_draws(&e.draws));
        let post = show_snapshot(&e.snapshot);
        out.case(&req, &format!("ok | {} | {}", post, join(&e.cstate)));
        pre_snap = post; pre_reg = e.cstate.clone();
    }
    let outcome = show_outcome(&result);
    if trace.len() < nops
    {
        let ans = if outcome == "ok" { "ok-but-trace-short".to_string() } else { outcome.clone() };
        out.case(&format!("step {} | {} | {} | {} | {}", head, trace.len(), pre_snap, join(&pre_reg), show_draws(&rest)), &ans);
    }
    else if outcome != "ok"
    {
        // every operation was traced and the run still failed: nothing in the model corresponds to that
        out.case(&format!("step {} | {} | {} | {} | 0", head, nops, pre_snap, join(&pre_reg)), &format!("{} after-last-op", outcome));
    }
    // for the pair line: where the run stopped
    match &result
    {
        None => format!("panic@{}", trace.len()),
        Some(Ok(())) => "ok".to_string(),
        Some(Err(e)) => show_err(e).replacen("err", &format!("err@{}", trace.len()), 1)
    }
}

// ------------------------------------------------------------------------------------------------
// the macro stream

fn ev<T>(c: &Cell<usize>, v: T) -> T { c.set(c.get() + 1); v }

macro_rules! mcase
{
    ($out:expr, $names:expr, $focus:expr, $nq:expr, $nc:expr, $text:expr, $cnt:ident, { $( $m:ident ( $( $a:expr ),* ) );* ; }) => {{
        let $cnt = Cell::new(0usize);
        let r = catch_unwind(AssertUnwindSafe(|| circuit!($nq, $nc, { $( $m ( $( $a ),* ) );* ; })));
        let ans = match r
        {
            Err(_) => "panic".to_string(),
            Ok(Ok(_)) => format!("ok evaluated {}", $cnt.get()),
            Ok(Err(e)) => format!("{} evaluated {}", show_build_err(&e), $cnt.get())
        };
        $out.case(&format!("macro {} {} | {}", $nq, $nc, $text), &ans);
        if !$focus.is_empty() { $names.push($focus.to_string()); }
    }};
}

fn macro_stream(out: &mut Out)
{
    use q1tsim::gates::{H, X, CX};
    let mut names: Vec<String> = vec![];
    let hx = |x: f64| fbits(x);
    // one invocation per builder method: the failing call sits between two good ones
    mcase!(out, names, "add_gate", 2, 2, "h 0 ; add_gate 1 9 H ; x 1", n, { h(ev(&n, 0)); add_gate(H::new(), &[ev(&n, 9)]); x(ev(&n, 1)); });
    mcase!(out, names, "add_conditional_gate", 2, 2, "h 0 ; add_conditional_gate 1 0 1 1 9 X ; x 1", n,
        { h(ev(&n, 0)); add_conditional_gate(&[0], 1, X::new(), &[ev(&n, 9)]); x(ev(&n, 1)); });
    mcase!(out, names, "", 2, 2, "h 0 ; add_conditional_gate 1 7 1 1 0 X ; x 1", n,
        { h(ev(&n, 0)); add_conditional_gate(&[ev(&n, 7)], 1, X::new(), &[0]); x(ev(&n, 1)); });
    mcase!(out, names, "barrier", 2, 2, "h 0 ; barrier 2 0 9 ; x 1", n, { h(ev(&n, 0)); barrier(&[0, ev(&n, 9)]); x(ev(&n, 1)); });
    mcase!(out, names, "cx", 2, 2, "h 0 ; cx 0 9 ; x 1", n, { h(ev(&n, 0)); cx(0, ev(&n, 9)); x(ev(&n, 1)); });
    mcase!(out, names, "h", 2, 2, "x 0 ; h 9 ; x 1", n, { x(ev(&n, 0)); h(ev(&n, 9)); x(ev(&n, 1)); });
    mcase!(out, names, "measure", 2, 2, "h 0 ; measure 9 0 ; x 1", n, { h(ev(&n, 0)); measure(ev(&n, 9), 0); x(ev(&n, 1)); });
    mcase!(out, names, "", 2, 2, "h 0 ; measure 0 9 ; x 1", n, { h(ev(&n, 0)); measure(0, ev(&n, 9)); x(ev(&n, 1)); });
    mcase!(out, names, "measure_all", 2, 2, "h 0 ; measure_all 2 0 9 ; x 1", n, { h(ev(&n, 0)); measure_all(&[0, ev(&n, 9)]); x(ev(&n, 1)); });
    mcase!(out, names, "measure_all_basis", 2, 2, "h 0 ; measure_all_basis 2 9 1 X ; x 1", n,
        { h(ev(&n, 0)); measure_all_basis(&[ev(&n, 9), 1], Basis::X); x(ev(&n, 1)); });
    mcase!(out, names, "measure_basis", 2, 2, "h 0 ; measure_basis 0 9 Y ; x 1", n, { h(ev(&n, 0)); measure_basis(0, ev(&n, 9), Basis::Y); x(ev(&n, 1)); });
    mcase!(out, names, "measure_x", 2, 2, "h 0 ; measure_x 9 0 ; x 1", n, { h(ev(&n, 0)); measure_x(ev(&n, 9), 0); x(ev(&n, 1)); });
    mcase!(out, names, "measure_y", 2, 2, "h 0 ; measure_y 0 9 ; x 1", n, { h(ev(&n, 0)); measure_y(0, ev(&n, 9)); x(ev(&n, 1)); });
    mcase!(out, names, "measure_z", 2, 2, "h 0 ; measure_z 9 9 ; x 1", n, { h(ev(&n, 0)); measure_z(ev(&n, 9), 9); x(ev(&n, 1)); });
    mcase!(out, names, "peek", 2, 2, "h 0 ; peek 9 0 ; x 1", n, { h(ev(&n, 0)); peek(ev(&n, 9), 0); x(ev(&n, 1)); });
    mcase!(out, names, "peek_x", 2, 2, "h 0 ; peek_x 0 9 ; x 1", n, { h(ev(&n, 0)); peek_x(0, ev(&n, 9)); x(ev(&n, 1)); });
    mcase!(out, names, "peek_y", 2, 2, "h 0 ; peek_y 9 0 ; x 1", n, { h(ev(&n, 0)); peek_y(ev(&n, 9), 0); x(ev(&n, 1)); });
    mcase!(out, names, "peek_z", 2, 2, "h 0 ; peek_z 2 0 ; x 1", n, { h(ev(&n, 0)); peek_z(ev(&n, 2), 0); x(ev(&n, 1)); });
    mcase!(out, names, "peek_all", 2, 2, "h 0 ; peek_all 2 0 2 ; x 1", n, { h(ev(&n, 0)); peek_all(&[0, ev(&n, 2)]); x(ev(&n, 1)); });
    mcase!(out, names, "peek_all_basis", 2, 2, "h 0 ; peek_all_basis 1 9 Y ; x 1", n, { h(ev(&n, 0)); peek_all_basis(&[ev(&n, 9)], Basis::Y); x(ev(&n, 1)); });
    mcase!(out, names, "peek_basis", 2, 2, "h 0 ; peek_basis 9 0 X ; x 1", n, { h(ev(&n, 0)); peek_basis(ev(&n, 9), 0, Basis::X); x(ev(&n, 1)); });
    mcase!(out, names, "reset", 2, 2, "h 0 ; reset 9 ; x 1", n, { h(ev(&n, 0)); reset(ev(&n, 9)); x(ev(&n, 1)); });
    mcase!(out, names, "rx", 2, 2, format!("h 0 ; rx {} 9 ; x 1", hx(0.5)), n, { h(ev(&n, 0)); rx(0.5, ev(&n, 9)); x(ev(&n, 1)); });
    mcase!(out, names, "ry", 2, 2, format!("h 0 ; ry {} 9 ; x 1", hx(0.5)), n, { h(ev(&n, 0)); ry(0.5, ev(&n, 9)); x(ev(&n, 1)); });
    mcase!(out, names, "rz", 2, 2, format!("h 0 ; rz {} 9 ; x 1", hx(0.5)), n, { h(ev(&n, 0)); rz(0.5, ev(&n, 9)); x(ev(&n, 1)); });
    mcase!(out, names, "s", 2, 2, "h 0 ; s 9 ; x 1", n, { h(ev(&n, 0)); s(ev(&n, 9)); x(ev(&n, 1)); });
    mcase!(out, names, "sdg", 2, 2, "h 0 ; sdg 9 ; x 1", n, { h(ev(&n, 0)); sdg(ev(&n, 9)); x(ev(&n, 1)); });
    mcase!(out, names, "u1", 2, 2, format!("h 0 ; u1 {} 9 ; x 1", hx(0.25)), n, { h(ev(&n, 0)); u1(0.25, ev(&n, 9)); x(ev(&n, 1)); });
    mcase!(out, names, "u2", 2, 2, format!("h 0 ; u2 {} {} 9 ; x 1", hx(0.25), hx(1.5)), n, { h(ev(&n, 0)); u2(0.25, 1.5, ev(&n, 9)); x(ev(&n, 1)); });
    mcase!(out, names, "u3", 2, 2, format!("h 0 ; u3 {} {} {} 9 ; x 1", hx(0.25), hx(1.5), hx(-2.0)), n,
        { h(ev(&n, 0)); u3(0.25, 1.5, -2.0, ev(&n, 9)); x(ev(&n, 1)); });
    mcase!(out, names, "x", 2, 2, "h 0 ; x 9 ; h 1", n, { h(ev(&n, 0)); x(ev(&n, 9)); h(ev(&n, 1)); });
    mcase!(out, names, "y", 2, 2, "h 0 ; y 9 ; h 1", n, { h(ev(&n, 0)); y(ev(&n, 9)); h(ev(&n, 1)); });
    mcase!(out, names, "z", 2, 2, "h 0 ; z 9 ; h 1", n, { h(ev(&n, 0)); z(ev(&n, 9)); h(ev(&n, 1)); });
    mcase!(out, names, "", 2, 2, "h 0 ; peek_basis 0 9 Z ; x 1", n, { h(ev(&n, 0)); peek_basis(0, ev(&n, 9), Basis::Z); x(ev(&n, 1)); });
    mcase!(out, names, "", 2, 2, "h 0 ; measure_basis 9 0 X ; x 1", n, { h(ev(&n, 0)); measure_basis(ev(&n, 9), 0, Basis::X); x(ev(&n, 1)); });
    mcase!(out, names, "", 2, 2, "h 0 ; peek_all_basis 2 0 9 Z ; x 1", n, { h(ev(&n, 0)); peek_all_basis(&[0, ev(&n, 9)], Basis::Z); x(ev(&n, 1)); });
    mcase!(out, names, "", 2, 2, "h 0 ; add_conditional_gate 2 0 7 3 2 0 1 CX ; x 1", n,
        { h(ev(&n, 0)); add_conditional_gate(&[0, ev(&n, 7)], 3, CX::new(), &[0, 1]); x(ev(&n, 1)); });
    mcase!(out, names, "", 2, 2, "h 0 ; add_conditional_gate 1 0 1 2 0 9 CX ; x 1", n,
        { h(ev(&n, 0)); add_conditional_gate(&[0], 1, CX::new(), &[0, ev(&n, 9)]); x(ev(&n, 1)); });
    // the unit builder between good calls; an all-good invocation; a failing first / last call; two failing calls;
    // zero-width registers
    mcase!(out, names, "reset_all", 2, 2, "h 0 ; reset_all ; x 1", n, { h(ev(&n, 0)); reset_all(); x(ev(&n, 1)); });
    mcase!(out, names, "", 2, 2, "h 0 ; cx 0 1 ; measure_all 2 0 1", n, { h(ev(&n, 0)); cx(ev(&n, 0), 1); measure_all(&[ev(&n, 0), 1]); });
    mcase!(out, names, "", 2, 2, "h 5 ; x 1", n, { h(ev(&n, 5)); x(ev(&n, 1)); });
    mcase!(out, names, "", 2, 2, "h 0 ; x 1 ; measure 1 4", n, { h(ev(&n, 0)); x(ev(&n, 1)); measure(1, ev(&n, 4)); });
    mcase!(out, names, "", 2, 2, "h 0 ; rx 3ff0000000000000 3 ; measure 7 0 ; x 1", n,
        { h(ev(&n, 0)); rx(1.0, ev(&n, 3)); measure(ev(&n, 7), 0); x(ev(&n, 1)); });
    mcase!(out, names, "", 0, 0, "reset_all ; h 0", n, { reset_all(); h(ev(&n, 0)); });
    mcase!(out, names, "", 1, 0, "h 0 ; measure 0 0 ; x 0", n, { h(ev(&n, 0)); measure(ev(&n, 0), 0); x(ev(&n, 0)); });
    mcase!(out, names, "", 3, 1, "add_gate 2 0 2 CX ; add_gate 2 0 3 CX ; h 0", n,
        { add_gate(CX::new(), &[ev(&n, 0), 2]); add_gate(CX::new(), &[ev(&n, 0), 3]); h(ev(&n, 0)); });
    names.sort();
    out.case(&format!("cover | {}", names.join(" ")), "ok");
}

// ------------------------------------------------------------------------------------------------

fn run_sequence(out: &mut Out, rng: &mut SplitMix64, nq: usize, nc: usize, calls: &[String], shots: usize)
{
        let head = format!("{} {} | {}", nq, nc, calls.join(" ; "));

        // build
        let mut circuit = Circuit::new(nq, nc);
        let mut results: Vec<String> = vec![];
        let mut nops = 0usize;
        let (_, mut fp) = exports(&circuit);
        for call in calls.iter()
        {
            let n0 = circuit.verif_nr_ops();
            let r = { let c = AssertUnwindSafe(&mut circuit); catch_unwind(move || { let AssertUnwindSafe(c) = c; apply_call(c, call) }).ok() };
            let (_, fp2) = exports(&circuit);
            let n1 = circuit.verif_nr_ops();
            // a failed call: the number of operations (hook) AND the three exports are as before
            let same = if fp2 == fp && n1 == n0 { "unchanged" } else { "CHANGED" };
            match r
            {
                None => results.push(format!("panic {}", same)),
                Some(Ok(())) => { results.push(if n1 == n0 + 1 { "ok".to_string() } else { format!("ok-but-ops-{}-to-{}", n0, n1) }); nops += 1; },
                Some(Err(e)) => results.push(format!("{} {}", show_build_err(&e), same))
            }
            fp = fp2;
        }
        out.case(&format!("build {}", head), &format!("{} | nops {}", results.join(" ; "), circuit.verif_nr_ops()));

        // exports
        let (cls, _) = exports(&circuit);
        out.case(&format!("oq {}", head), &cls[0]);
        out.case(&format!("cq {}", head), &cls[1]);
        out.case(&format!("latex {}", head), &cls[2]);

        // execution on both representations, then re-execution (not after a panic: the object is then in an
        // unspecified half-updated state)
        let mut outcomes: Vec<String> = vec![];
        for repr in ["vector", "stabilizer"].iter()
        {
            let o = run(out, &head, &mut circuit, nq, shots, rng.next(), Some(repr), nops);
            let ro = if o.starts_with("panic") { "skipped".to_string() } else { run(out, &head, &mut circuit, nq, shots, rng.next(), None, nops) };
            outcomes.push(o); outcomes.push(ro);
        }
        // the same object once more on the vector representation: execute after whatever the earlier runs left behind
        let v2 = run(out, &head, &mut circuit, nq, shots, rng.next(), Some("vector"), nops);
        out.case(&format!("pair {} | {} | v {} | rv {} | s {} | rs {} | v2 {}", head, shots, outcomes[0], outcomes[1], outcomes[2], outcomes[3], v2), "ok");
}

/// Sibling methods with the SAME (boundary) arguments, and rare operand shapes: descending qubit lists, bits 63 / 64,
/// registers of exactly 64 classical bits, control lists of exactly 64 and 65 bits.
fn sibling_stream(out: &mut Out, rng: &mut SplitMix64)
{
    let n = if thorough() { 400 } else { 90 };
    let ang = fbits(0.75);
    for i in 0..n
    {
        let nq = [0usize, 1, 2, 3, 3][rng.below(5) as usize];
        let nc = [0usize, 1, 3, 63, 64, 64, 65][rng.below(7) as usize];
        let qs = [0usize, nq.saturating_sub(1), nq, nq + 1, usize::MAX];
        let cs = [0usize, nc.saturating_sub(1), nc, nc + 1, 62, 63, 64, 65];
        let q = *rng.pick(&qs);
        let c = *rng.pick(&cs);
        let b = gen_basis(rng);
        let shots = [0usize, 1, 1, 2, 3][rng.below(5) as usize];
        let calls: Vec<String> = match i % 5
        {
            // (qubit, classical bit) siblings
            0 => vec![format!("measure {} {}", q, c), format!("peek {} {}", q, c), format!("measure_x {} {}", q, c), format!("peek_x {} {}", q, c),
                      format!("measure_y {} {}", q, c), format!("peek_y {} {}", q, c), format!("measure_z {} {}", q, c), format!("peek_z {} {}", q, c),
                      format!("measure_basis {} {} {}", q, c, b), format!("peek_basis {} {} {}", q, c, b)],
            // classical bit list siblings
            1 => {
                let l = match rng.below(6)
                {
                    0 => (0..nq).map(|k| (nc.max(1) - 1).saturating_sub(k)).collect::<Vec<usize>>(),     // descending from the top bit
                    1 => vec![c; nq.max(1)],
                    2 => (0..nq).map(|k| if k == 0 { c } else { k.min(nc.max(1) - 1) }).collect(),
                    _ => gen_list(nc, nq, rng)
                };
                let t = list_text(&l);
                vec![format!("measure_all {}", t), format!("peek_all {}", t), format!("measure_all_basis {} {}", t, b), format!("peek_all_basis {} {}", t, b)]
            },
            // single qubit siblings
            2 => vec![format!("reset {}", q), format!("h {}", q), format!("x {}", q), format!("y {}", q), format!("z {}", q), format!("s {}", q),
                      format!("sdg {}", q), format!("rx {} {}", ang, q), format!("ry {} {}", ang, q), format!("rz {} {}", ang, q),
                      format!("u1 {} {}", ang, q), format!("u2 {} {} {}", ang, ang, q), format!("u3 {} {} {} {}", ang, ang, ang, q),
                      format!("add_gate 1 {} H", q), format!("add_conditional_gate 0 0 1 {} H", q), format!("barrier 1 {}", q),
                      format!("cx {} {}", q, 0), format!("cx {} {}", 0, q), format!("add_gate 2 {} 0 CX", q)],
            // qubit list siblings, incl. descending lists
            3 => {
                let (g, k) = if rng.coin() { ("CCX".to_string(), 3usize) } else { (rng.pick(&["CX", "CZ", "Swap", "CH"]).to_string(), 2) };
                let l = match rng.below(5)
                {
                    0 => (0..k).map(|j| nq.saturating_sub(1 + j)).collect::<Vec<usize>>(),                 // descending
                    1 => (0..k).map(|j| if j + 1 == k { q } else { j }).collect(),
                    _ => gen_list(nq, k, rng)
                };
                let t = list_text(&l);
                let ctl = if nc > 0 { format!("1 {}", rng.below(nc as u64)) } else { "0".to_string() };
                vec![format!("add_gate {} {}", t, g), format!("add_conditional_gate {} 1 {} {}", ctl, t, g), format!("barrier {}", t),
                     format!("add_conditional_gate 1 {} 1 {} {}", c, t, g)]
            },
            // control lists of exactly nc bits (64 and 65 included), both orders; the bit 63 / 64 boundary
            _ => {
                let mut all: Vec<usize> = (0..nc).collect();
                if rng.coin() { all.reverse(); }
                let g = if nq >= 1 { "1 0 X".to_string() } else { "0 X".to_string() };
                vec![format!("add_conditional_gate {} {} {}", list_text(&all), [0u64, 1, u64::MAX][rng.below(3) as usize], g),
                     format!("measure {} {}", 0, c), format!("add_conditional_gate 1 {} 1 {}", c, g), format!("peek {} {}", 0, c),
                     format!("add_conditional_gate 2 {} {} 1 {}", c, c.saturating_sub(1), g)]
            }
        };
        run_sequence(out, rng, nq, nc, &calls, shots);
    }
}

/// FIXED part of the stream: a rotation with a non-finite parameter (NaN, +inf, -inf), then a single-qubit read-out.
/// The state vector is all NaN afterwards; `w0.min(1.0)` turns the NaN weight into 1.0, so the pinned code returns Ok.
fn nonfinite_stream(out: &mut Out, rng: &mut SplitMix64)
{
    let vals = [f64::NAN, f64::INFINITY, f64::NEG_INFINITY];
    let one = fbits(1.0);
    for v in vals.iter()
    {
        let a = fbits(*v);
        let gates: Vec<(usize, String)> = vec![
            (1, format!("rx {} 0", a)), (1, format!("ry {} 0", a)), (1, format!("rz {} 0", a)), (1, format!("u1 {} 0", a)),
            (1, format!("u2 {} {} 0", a, one)), (1, format!("u2 {} {} 0", one, a)),
            (1, format!("u3 {} {} {} 0", a, one, one)), (1, format!("u3 {} {} {} 0", one, one, a)),
            (2, format!("x 1 ; add_gate 2 1 0 CRX {}", a)), (2, format!("h 1 ; add_gate 2 1 0 CRY {}", a)),
            (1, format!("add_gate 1 0 RX {}", a)), (1, format!("h 0 ; add_conditional_gate 0 0 1 0 RY {}", a))];
        for (nq, g) in gates.iter()
        {
            for ro in ["measure 0 0", "peek 0 1", "reset 0", "measure_x 0 0", "measure_basis 0 1 Y", "peek_basis 0 0 X",
                       "measure_all_ROW", "peek_all_ROW"].iter()
            {
                let ro = if ro.ends_with("_ROW")
                    { format!("{} {}", ro.trim_end_matches("_ROW"), list_text(&(0..*nq).collect::<Vec<usize>>())) } else { ro.to_string() };
                let calls: Vec<String> = g.split(" ; ").map(|t| t.to_string()).chain(std::iter::once(ro)).chain(std::iter::once("measure 0 1".to_string())).collect();
                run_sequence(out, rng, *nq, 2, &calls, 2);
            }
        }
    }
}

/// FIXED part of the stream: `Kron` gates whose factors have DIFFERENT widths (1+2, 2+1, 1+3, 3+1, nested), plain and
/// under a condition, on distinct in-range qubits (ascending, descending, rotated): the operand list has to be split
/// at the width of the FIRST factor by every consumer (the routes, conjugate, the three exporters and their
/// conditional forms) - a split at the wrong place hands a factor too few operands (index panic) or the wrong ones.
fn kron_stream(out: &mut Out, rng: &mut SplitMix64)
{
    let shapes: [(&str, usize); 14] = [("Kron X CX", 3), ("Kron CX X", 3), ("Kron H CZ", 3), ("Kron Swap S", 3), ("Kron T CX", 3),
        ("Kron CY Tdg", 3), ("Kron X CCX", 4), ("Kron CCX Z", 4), ("Kron Swap Kron H X", 4), ("Kron Kron X CX Y", 4),
        ("Kron Y Kron CX V", 4), ("Kron H H", 2), ("Kron CX CZ", 4), ("Kron Kron H S CX", 4)];
    for (g, k) in shapes.iter()
    {
        let asc: Vec<usize> = (0..*k).collect();
        let desc: Vec<usize> = (0..*k).rev().collect();
        let rot: Vec<usize> = (0..*k).map(|i| (i + 1) % *k).collect();
        for bits in [asc, desc, rot].iter()
        {
            let cond = vec!["h 0".to_string(), "measure 0 0".to_string(),
                format!("add_conditional_gate 1 0 1 {} {}", list_text(bits), g), format!("measure {} 0", *k - 1)];
            // one classical bit: the condition spans the whole register (OpenQASM refuses partial registers first)
            run_sequence(out, rng, *k, 1, &cond, 2);
            let plain = vec!["h 0".to_string(), format!("add_gate {} {}", list_text(bits), g), format!("measure_all {}", list_text(&(0..*k).collect::<Vec<usize>>()))];
            run_sequence(out, rng, *k, *k, &plain, 2);
        }
    }
}

// ------------------------------------------------------------------------------------------------
// the QuState level: every public trait method that takes a gate or an operand list, called DIRECTLY on both
// representations (Circuit only ever passes H, S, Sdg to apply_unary_gate_all, validated qubits, a register of the
// right length, …)

fn qs_call<Q: q1tsim::qustate::QuState>(st: &mut Q, call: &str, res: &mut ndarray::Array1<u64>, seed: u64)
    -> (Option<q1tsim::error::Result<()>>, Vec<q1tsim::verif::Draw>)
{
    let mut rng = rand_hc::Hc128Rng::seed_from_u64(seed);
    q1tsim::verif::draws_start();
    let r = {
        let st = AssertUnwindSafe(&mut *st);
        let res = AssertUnwindSafe(&mut *res);
        let rng = AssertUnwindSafe(&mut rng);
        catch_unwind(move || {
            let AssertUnwindSafe(st) = st; let AssertUnwindSafe(res) = res; let AssertUnwindSafe(rng) = rng;
            let mut it = call.split_whitespace();
            let kind = it.next().unwrap();
            fn nat(it: &mut std::str::SplitWhitespace) -> usize { it.next().expect("nat").parse().expect("nat") }
            fn list(it: &mut std::str::SplitWhitespace) -> Vec<usize> { let k = nat(it); (0..k).map(|_| nat(it)).collect() }
            match kind
            {
                "apply_gate" => { let bits = list(&mut it); let g = gate::parse(&mut it); st.apply_gate(&g, &bits) },
                "apply_unary_gate_all" => { let g = gate::parse(&mut it); st.apply_unary_gate_all(&g) },
                "apply_conditional_gate" => {
                    let control: Vec<bool> = list(&mut it).iter().map(|&b| b != 0).collect();
                    let bits = list(&mut it); let g = gate::parse(&mut it);
                    st.apply_conditional_gate(&control, &g, &bits)
                },
                "measure_into" => { let q = nat(&mut it); let c = nat(&mut it); st.measure_into(q, c, res, rng) },
                "peek_into" => { let q = nat(&mut it); let c = nat(&mut it); st.peek_into(q, c, res, rng) },
                "measure_all_into" => { let l = list(&mut it); st.measure_all_into(&l, res, rng) },
                "peek_all_into" => { let l = list(&mut it); st.peek_all_into(&l, res, rng) },
                "reset" => { let q = nat(&mut it); st.reset(q, rng) },
                "reset_all" => { st.reset_all(); Ok(()) },
                other => panic!("unknown QuState call {}", other)
            }
        }).ok()
    };
    (r, q1tsim::verif::draws_take())
}

fn qs_outcome(r: &Option<q1tsim::error::Result<()>>) -> String
{
    match r { None => "panic".to_string(), Some(Ok(())) => "ok".to_string(), Some(Err(e)) => show_err(e) }
}

/// one call on one representation: the `qs` line, and the outcome for the `qpair` line
fn qs_one<Q: q1tsim::qustate::QuState>(out: &mut Out, st: &mut Q, call: &str, res: &mut ndarray::Array1<u64>, seed: u64) -> String
{
    let pre = show_snapshot(&st.verif_snapshot());
    let pre_reg = res.to_vec();
    let (r, draws) = qs_call(st, call, res, seed);
    let o = qs_outcome(&r);
    let ans = if o == "ok" { format!("ok | {} | {}", show_snapshot(&st.verif_snapshot()), join(&res.to_vec())) } else { o.clone() };
    out.case(&format!("qs | {} | {} | {} | {}", call, pre, join(&pre_reg), show_draws(&draws)), &ans);
    o
}

fn qustate_stream(out: &mut Out, rng: &mut SplitMix64)
{
    use q1tsim::stabilizer::StabilizerState;
    use q1tsim::vectorstate::VectorState;
    let gates: [(&str, usize); 8] = [("Comp nop 0 0", 0), ("H", 1), ("X", 1), ("S", 1), ("T", 1), ("Comp c 1 1 H 1 0", 1), ("CX", 2), ("Swap", 2)];
    for &(n, shots) in [(1usize, 1usize), (1, 3), (2, 2), (3, 3), (2, 0), (0, 2)].iter()
    {
        let mut calls: Vec<(String, usize)> = vec![];          // (call, length of the register handed in)
        for (g, ar) in gates.iter()
        {
            calls.push((format!("apply_unary_gate_all {}", g), shots));
            // operand lists: right, empty, one short, one long, repeated, descending, one past the register
            let mut lists: Vec<Vec<usize>> = vec![(0..*ar).map(|i| i % n.max(1)).collect(), vec![], (0..ar + 1).map(|i| i % n.max(1)).collect()];
            if *ar >= 1 { lists.push((0..ar - 1).collect()); lists.push(vec![0; *ar]); lists.push((0..*ar).rev().collect()); lists.push((0..*ar).map(|i| if i == 0 { n } else { i - 1 }).collect()); }
            lists.dedup();
            for l in lists.iter()
            {
                if *ar <= n || l.len() != *ar { calls.push((format!("apply_gate {} {}", list_text(l), g), shots)); }
                let ctl: Vec<usize> = (0..shots).map(|i| i % 2).collect();
                calls.push((format!("apply_conditional_gate {} {} {}", list_text(&ctl), list_text(l), g), shots));
            }
            // control slices of the wrong length
            let l0: Vec<usize> = (0..*ar).map(|i| i % n.max(1)).collect();
            for cl in [shots + 1, shots.saturating_sub(1), 0].iter()
            {
                if *cl == shots { continue; }
                let ctl: Vec<usize> = vec![1; *cl];
                calls.push((format!("apply_conditional_gate {} {} {}", list_text(&ctl), list_text(&l0), g), shots));
            }
        }
        for reg_len in [shots, shots + 2, shots.saturating_sub(1)].iter()
        {
            for q in [0usize, n.saturating_sub(1), n].iter()
            {
                for c in [0usize, 63, 64].iter()
                {
                    calls.push((format!("measure_into {} {}", q, c), *reg_len));
                    calls.push((format!("peek_into {} {}", q, c), *reg_len));
                }
                calls.push((format!("reset {}", q), *reg_len));
            }
            let lists: Vec<Vec<usize>> = vec![(0..n).collect(), (0..n).rev().collect(), (0..n + 1).collect(), (0..n.saturating_sub(1)).collect(),
                (0..n).map(|i| 63 + i).collect(), vec![0; n]];
            for l in lists.iter()
            {
                calls.push((format!("measure_all_into {}", list_text(l)), *reg_len));
                calls.push((format!("peek_all_into {}", list_text(l)), *reg_len));
            }
            calls.push(("reset_all".to_string(), *reg_len));
        }
        calls.dedup();
        for (call, reg_len) in calls.iter()
        {
            // a short valid prelude, the same on both representations
            let prelude: Vec<String> = if n == 0 { vec![] } else { match rng.below(3) { 0 => vec![], 1 => vec!["apply_gate 1 0 H".to_string()],
                _ => if n >= 2 { vec!["apply_gate 1 0 H".to_string(), "apply_gate 2 0 1 CX".to_string()] } else { vec!["apply_gate 1 0 X".to_string()] } } };
            let mut v = VectorState::new(n, shots);
            let mut s = StabilizerState::new(n, shots);
            let mut rv = ndarray::Array1::<u64>::zeros(*reg_len);
            let mut rs = ndarray::Array1::<u64>::zeros(*reg_len);
            for p in prelude.iter() { qs_one(out, &mut v, p, &mut rv, 1); qs_one(out, &mut s, p, &mut rs, 1); }
            let seed = rng.next();
            let ov = qs_one(out, &mut v, call, &mut rv, seed);
            let os = qs_one(out, &mut s, call, &mut rs, seed);
            // once more on the same objects (a failed call followed by normal use)
            let ov2 = if ov == "panic" { "skipped".to_string() } else { qs_one(out, &mut v, "apply_unary_gate_all H", &mut rv, 2) };
            let os2 = if os == "panic" { "skipped".to_string() } else { qs_one(out, &mut s, "apply_unary_gate_all H", &mut rs, 2) };
            out.case(&format!("qpair {} {} {} | {} | v {} | s {} | v2 {} | s2 {}", n, shots, reg_len, call, ov, os, ov2, os2), "ok");
        }
    }
}

fn main()
{
    let dir = std::env::args().nth(1).expect("usage: c18 <outdir>");
    silence_panics();
    let mut rng = SplitMix64::from_env();
    let mut out = Out::new(&dir);
    // replay of one sequence: C18_ONE="<nq> <nc> | call ; call ; … | <shots>"
    if let Ok(one) = std::env::var("C18_ONE")
    {
        let f: Vec<&str> = one.split(" | ").collect();
        let sz: Vec<usize> = f[0].split_whitespace().map(|t| t.parse().unwrap()).collect();
        let calls: Vec<String> = f[1].split(" ; ").map(|t| t.trim().to_string()).collect();
        let shots: usize = f.get(2).map(|t| t.trim().parse().unwrap()).unwrap_or(1);
        run_sequence(&mut out, &mut rng, sz[0], sz[1], &calls, shots);
        out.finish();
        return;
    }
    macro_stream(&mut out);
    sibling_stream(&mut out, &mut rng);
    nonfinite_stream(&mut out, &mut rng);
    kron_stream(&mut out, &mut rng);
    qustate_stream(&mut out, &mut rng);

    let nseq = if thorough() { 2500 } else { 420 };
    for iseq in 0..nseq
    {
        let nq = match rng.below(100) { 0..=5 => 0, 6..=30 => 1, 31..=65 => 2, 66..=89 => 3, _ => 4 } as usize;
        let nc = match rng.below(100) { 0..=5 => 0, 6..=25 => 1, 26..=50 => 2, 51..=70 => 3, 71..=82 => 4, 83..=89 => 5,
            90..=92 => 64, 93..=96 => 65, _ => 70 } as usize;
        // half of the sequences use Clifford gates only, so that both representations run them to the end
        let clifford = iseq % 2 == 0;
        let ncalls = 1 + rng.below(if thorough() { 10 } else { 8 }) as usize;
        let calls: Vec<String> = (0..ncalls).map(|_| gen_call(nq, nc, clifford, &mut rng)).collect();
        let shots = match rng.below(100) { 0..=14 => 0, 15..=39 => 1, 40..=59 => 2, 60..=79 => 3, _ => 5 } as usize;
        run_sequence(&mut out, &mut rng, nq, nc, &calls, shots);
    }
    let n = out.finish();
    eprintln!("c18: {} cases", n);
}

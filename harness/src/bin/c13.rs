//! C13: LaTeX (qcircuit) export. Requests in the line protocol of lean/Driver/C13.lean.
//!
//! `circ` lines: a circuit built through the public `Circuit` API, answered by `Circuit::latex()`.
//! `raw` lines: a sequence of public `LatexExportState` calls, answered by `code()`.
use q1t_harness::*;
use q1tsim::circuit::{Basis, Circuit};
use q1tsim::error::{Error, ExportError};
use q1tsim::export::{CQasm, CircuitGate, Latex, LatexExportState, OpenQasm};
use q1tsim::gates::*;
use std::panic::AssertUnwindSafe;

// ------------------------------------------------------------------------------------------
// gates

/// Dynamic nesting: `C<Dyn>`, `Kron<Dyn, Dyn>` for arbitrary inner gates. Forwards everything
/// the LaTeX export looks at.
#[derive(Clone)]
struct Dyn(Box<dyn CircuitGate>);
impl Gate for Dyn
{
    fn cost(&self) -> f64 { self.0.cost() }
    fn description(&self) -> &str { self.0.description() }
    fn nr_affected_bits(&self) -> usize { self.0.nr_affected_bits() }
    fn matrix(&self) -> q1tsim::cmatrix::CMatrix { self.0.matrix() }
}
impl OpenQasm for Dyn {}
impl CQasm for Dyn {}
impl Latex for Dyn
{
    fn latex(&self, bits: &[usize], state: &mut LatexExportState) -> q1tsim::error::Result<()>
    {
        self.0.latex(bits, state)
    }
}

/// `C<G>` implements `Latex` but neither `OpenQasm` nor `CQasm`, so it is not a `CircuitGate` by itself.
#[derive(Clone)]
struct CW(C<Dyn>);
impl Gate for CW
{
    fn cost(&self) -> f64 { self.0.cost() }
    fn description(&self) -> &str { self.0.description() }
    fn nr_affected_bits(&self) -> usize { self.0.nr_affected_bits() }
    fn matrix(&self) -> q1tsim::cmatrix::CMatrix { self.0.matrix() }
}
impl OpenQasm for CW {}
impl CQasm for CW {}
impl Latex for CW
{
    fn latex(&self, bits: &[usize], state: &mut LatexExportState) -> q1tsim::error::Result<()>
    {
        self.0.latex(bits, state)
    }
}

/// A gate that keeps the trait's default `latex` (block gate with its description).
#[derive(Clone)]
struct Blk { label: String, n: usize }
impl Gate for Blk
{
    fn cost(&self) -> f64 { 0.0 }
    fn description(&self) -> &str { &self.label }
    fn nr_affected_bits(&self) -> usize { self.n }
    fn matrix(&self) -> q1tsim::cmatrix::CMatrix { q1tsim::cmatrix::CMatrix::eye(1 << self.n) }
}
impl OpenQasm for Blk {}
impl CQasm for Blk {}
impl Latex for Blk {}

#[derive(Clone, Debug)]
enum P { Val(f64), Ref(String) }
impl P
{
    fn display(&self) -> String { match self { P::Val(x) => format!("{:.4}", x), P::Ref(n) => n.clone() } }
    fn val(&self) -> f64 { match self { P::Val(x) => *x, P::Ref(_) => 0.75 } }
    fn param(&self) -> Parameter
    {
        match self
        {
            P::Val(x) => Parameter::from(*x),
            P::Ref(n) => Parameter::from_refcell(&std::rc::Rc::new(std::cell::RefCell::new(0.75)), n)
        }
    }
}

#[derive(Clone, Debug)]
enum GT
{
    Lib(&'static str, Vec<P>),
    Blk(String, usize),
    C(Box<GT>),
    Kron(Box<GT>, Box<GT>),
    /// name, declared nr of bits, sub-gates, build through from_string
    Comp(String, usize, Vec<(GT, Vec<usize>)>, bool),
    Loop(usize, Box<GT>)
}

/// (name, nr of parameters, nr of bits)
const LIB: &[(&str, usize, usize)] = &[
    ("H", 0, 1), ("X", 0, 1), ("Y", 0, 1), ("Z", 0, 1), ("S", 0, 1), ("Sdg", 0, 1), ("T", 0, 1), ("Tdg", 0, 1),
    ("V", 0, 1), ("Vdg", 0, 1), ("I", 0, 1), ("RX", 1, 1), ("RY", 1, 1), ("RZ", 1, 1), ("U1", 1, 1), ("U2", 2, 1),
    ("U3", 3, 1), ("CX", 0, 2), ("CY", 0, 2), ("CZ", 0, 2), ("Swap", 0, 2), ("CH", 0, 2), ("CRX", 1, 2),
    ("CRY", 1, 2), ("CRZ", 1, 2), ("CS", 0, 2), ("CSdg", 0, 2), ("CT", 0, 2), ("CTdg", 0, 2), ("CU1", 1, 2),
    ("CU2", 2, 2), ("CU3", 3, 2), ("CV", 0, 2), ("CVdg", 0, 2), ("CCRX", 1, 3), ("CCRY", 1, 3), ("CCRZ", 1, 3),
    ("CCX", 0, 3), ("CCZ", 0, 3)
];

fn lib_entry(name: &str) -> (usize, usize)
{
    let e = LIB.iter().find(|e| e.0 == name).unwrap();
    (e.1, e.2)
}

fn build_lib(name: &str, p: &[P]) -> Dyn
{
    let v = |i: usize| p[i].val();
    let b: Box<dyn CircuitGate> = match name
    {
        "H" => Box::new(H::new()), "X" => Box::new(X::new()), "Y" => Box::new(Y::new()),
        "Z" => Box::new(Z::new()), "S" => Box::new(S::new()), "Sdg" => Box::new(Sdg::new()),
        "T" => Box::new(T::new()), "Tdg" => Box::new(Tdg::new()), "V" => Box::new(V::new()),
        "Vdg" => Box::new(Vdg::new()), "I" => Box::new(I::new()),
        "RX" => Box::new(RX::new(p[0].param())), "RY" => Box::new(RY::new(p[0].param())),
        "RZ" => Box::new(RZ::new(p[0].param())), "U1" => Box::new(U1::new(p[0].param())),
        "U2" => Box::new(U2::new(p[0].param(), p[1].param())),
        "U3" => Box::new(U3::new(p[0].param(), p[1].param(), p[2].param())),
        "CX" => Box::new(CX::new()), "CY" => Box::new(CY::new()), "CZ" => Box::new(CZ::new()),
        "Swap" => Box::new(Swap::new()), "CH" => Box::new(CH::new()),
        "CRX" => Box::new(CRX::new(p[0].param())), "CRY" => Box::new(CRY::new(p[0].param())),
        "CRZ" => Box::new(CRZ::new(p[0].param())), "CS" => Box::new(CS::new()),
        "CSdg" => Box::new(CSdg::new()), "CT" => Box::new(CT::new()), "CTdg" => Box::new(CTdg::new()),
        "CU1" => Box::new(CU1::new(p[0].param())), "CU2" => Box::new(CU2::new(v(0), v(1))),
        "CU3" => Box::new(CU3::new(v(0), v(1), v(2))), "CV" => Box::new(CV::new()),
        "CVdg" => Box::new(CVdg::new()), "CCRX" => Box::new(CCRX::new(p[0].param())),
        "CCRY" => Box::new(CCRY::new(p[0].param())), "CCRZ" => Box::new(CCRZ::new(p[0].param())),
        "CCX" => Box::new(CCX::new()), "CCZ" => Box::new(CCZ::new()),
        _ => panic!("unknown library gate {}", name)
    };
    Dyn(b)
}

impl GT
{
    fn nbits(&self) -> usize
    {
        match self
        {
            GT::Lib(n, _) => lib_entry(n).1,
            GT::Blk(_, n) => *n,
            GT::C(g) => 1 + g.nbits(),
            GT::Kron(a, b) => a.nbits() + b.nbits(),
            GT::Comp(_, n, _, _) => *n,
            GT::Loop(_, b) => b.nbits()
        }
    }

    fn composite(&self) -> Composite
    {
        match self
        {
            GT::Comp(name, n, subs, via_string) => {
                if *via_string
                {
                    let desc = subs.iter().map(|(g, bits)| match g {
                        GT::Lib(nm, ps) => {
                            let args = if ps.is_empty() { String::new() } else {
                                format!("({})", ps.iter().map(|p| format!("{}", p.val())).collect::<Vec<_>>().join(", ")) };
                            format!("{}{} {}", nm, args, join(bits))
                        },
                        _ => panic!("from_string with non-library gate")
                    }).collect::<Vec<_>>().join("; ");
                    let c = Composite::from_string(name, &desc).expect("from_string");
                    assert_eq!(c.nr_affected_bits(), *n, "from_string width for {}", desc);
                    c
                }
                else
                {
                    let mut c = Composite::new(name, *n);
                    for (g, bits) in subs { c.add_gate(g.build(), bits); }
                    c
                }
            },
            _ => panic!("composite() on non-composite")
        }
    }

    fn build(&self) -> Dyn
    {
        match self
        {
            GT::Lib(n, p) => build_lib(n, p),
            GT::Blk(l, n) => Dyn(Box::new(Blk { label: l.clone(), n: *n })),
            GT::C(g) => Dyn(Box::new(CW(C::new(g.build())))),
            GT::Kron(a, b) => Dyn(Box::new(Kron::new(a.build(), b.build()))),
            GT::Comp(..) => Dyn(Box::new(self.composite())),
            GT::Loop(k, body) => Dyn(Box::new(Loop::new("lbl", *k, body.composite())))
        }
    }

    fn text(&self) -> String
    {
        match self
        {
            GT::Lib(n, p) => {
                let mut s = n.to_string();
                for x in p { s += " "; s += &x.display(); }
                s
            },
            GT::Blk(l, n) => format!("Blk {} {}", l, n),
            GT::C(g) => format!("C {}", g.text()),
            GT::Kron(a, b) => format!("Kron {} {}", a.text(), b.text()),
            GT::Comp(name, n, subs, _) => {
                let mut s = format!("Comp {} {} [", name, n);
                for (g, bits) in subs { s += &format!(" {} @ {} ,", g.text(), join(bits)); }
                s + " ]"
            },
            GT::Loop(k, b) => format!("Loop {} {}", k, b.text())
        }
    }
}

// ------------------------------------------------------------------------------------------
// random generation

const VALS: &[f64] = &[0.0, 0.5, -0.25, 3.14159265358979, 1.0e-5, 1.23456789, -100000.0, 2.0, 0.99995];

fn gen_params(rng: &mut SplitMix64, k: usize, allow_ref: bool, exotic: bool) -> Vec<P>
{
    (0..k).map(|_| {
        if allow_ref && k == 1 && rng.below(6) == 0 { P::Ref(rng.pick(&["theta", "phi", "a1"]).to_string()) }
        else if exotic && rng.below(25) == 0 { P::Val(*rng.pick(&[std::f64::NAN, std::f64::INFINITY, -0.0])) }
        else { P::Val(*rng.pick(VALS)) }
    }).collect()
}

fn gen_lib(rng: &mut SplitMix64, max_bits: usize, for_string: bool) -> GT
{
    loop
    {
        let e = rng.pick(LIB);
        if e.2 <= max_bits { return GT::Lib(e.0, gen_params(rng, e.1, !for_string, !for_string)); }
    }
}

/// random placement of `k` distinct elements of `0..n` (k <= n)
fn placement(rng: &mut SplitMix64, n: usize, k: usize) -> Vec<usize>
{
    let mut v: Vec<usize> = (0..n).collect();
    rng.shuffle(&mut v);
    v.truncate(k);
    v
}

fn gen_comp(rng: &mut SplitMix64, max_bits: usize, depth: usize) -> GT
{
    let n = 1 + rng.below(max_bits as u64) as usize;
    let via_string = rng.below(3) == 0;
    let k = rng.below(5) as usize;
    let mut subs = vec![];
    for _ in 0..k
    {
        let g = if via_string || depth == 0 { gen_lib(rng, n, via_string) } else { gen_gate(rng, n, depth - 1) };
        let mut bits = placement(rng, n, g.nbits());
        if !via_string && rng.below(40) == 0 && !bits.is_empty() { bits[0] = n + rng.below(2) as usize; }   // out of range: index panic
        if !via_string && rng.below(40) == 0 { bits.pop(); }                                              // wrong arity
        subs.push((g, bits));
    }
    let name = rng.pick(&["cmp", "G1", "blk"]).to_string();
    let n = if via_string
    {
        if subs.is_empty() { subs.push((GT::Lib("H", vec![]), vec![0])); }
        1 + subs.iter().flat_map(|(_, b)| b.iter().cloned()).max().unwrap()
    } else { n };
    GT::Comp(name, n, subs, via_string)
}

fn gen_gate(rng: &mut SplitMix64, max_bits: usize, depth: usize) -> GT
{
    debug_assert!(max_bits >= 1);
    let r = rng.below(100);
    if depth == 0 || r < 55 { return gen_lib(rng, max_bits, false); }
    if r < 62 { return GT::Blk(rng.pick(&["G", "Uf", "QFT"]).to_string(), 1 + rng.below(max_bits.min(4) as u64) as usize); }
    if r < 75 && max_bits >= 2 { return GT::C(Box::new(gen_gate(rng, max_bits - 1, depth - 1))); }
    if r < 83 && max_bits >= 2
    {
        let a = gen_gate(rng, max_bits - 1, depth - 1);
        let b = gen_gate(rng, max_bits - a.nbits(), depth - 1);
        return GT::Kron(Box::new(a), Box::new(b));
    }
    if r < 93 { return gen_comp(rng, max_bits, depth - 1); }
    let iters = *rng.pick(&[0usize, 1, 2, 3, 3, 4, 7]);
    GT::Loop(iters, Box::new(gen_comp(rng, max_bits, depth - 1)))
}

fn basis(rng: &mut SplitMix64) -> (Basis, &'static str)
{
    match rng.below(3) { 0 => (Basis::X, "X"), 1 => (Basis::Y, "Y"), _ => (Basis::Z, "Z") }
}

/// One operation: try to add it to the circuit; return its request text if the circuit accepted it.
fn gen_op(rng: &mut SplitMix64, c: &mut Circuit, nq: usize, nc: usize, peeks: bool) -> Option<String>
{
    let r = rng.below(1000);
    if r < 450 || (r < 600 && nq > 0)
    {
        if nq == 0
        {
            // only zero-width composites / loops fit
            let g = GT::Comp("e".into(), 0, vec![], false);
            let g = if rng.coin() { GT::Loop(*rng.pick(&[0usize, 2, 3]), Box::new(g)) } else { g };
            return c.add_gate(g.build(), &[]).ok().map(|_| format!("g {} @", g.text()));
        }
        let g = gen_gate(rng, nq, 3);
        let mut bits = placement(rng, nq, g.nbits());
        let m = rng.below(60);
        if m == 0 && !bits.is_empty() { bits.pop(); }
        else if m == 1 { bits.push(rng.below(nq as u64) as usize); }
        else if m == 2 && bits.len() >= 2 { bits[1] = bits[0]; }
        if r < 450
        {
            c.add_gate(g.build(), &bits).ok().map(|_| format!("g {} @ {}", g.text(), join(&bits)))
        }
        else
        {
            let k = rng.below(nc as u64 + 1) as usize;
            let mut control = placement(rng, nc, k);
            if rng.below(50) == 0 && control.len() >= 2 { control[1] = control[0]; }
            let target = rng.below(1 << control.len().max(1) as u64);
            c.add_conditional_gate(&control, target, g.build(), &bits).ok()
                .map(|_| format!("cg {} {} : {} @ {}", target, join(&control), g.text(), join(&bits)))
        }
    }
    else if r < 700
    {
        if nq == 0 || nc == 0 { return None; }
        let (q, cb) = (rng.below(nq as u64) as usize, rng.below(nc as u64) as usize);
        let (b, bt) = basis(rng);
        c.measure_basis(q, cb, b).ok().map(|_| format!("m {} {} {}", q, cb, bt))
    }
    else if r < 740
    {
        if nc == 0 { return None; }
        let len = match rng.below(8) { 0 => nq + 1, 1 => nq.saturating_sub(1), _ => nq };
        let cbits: Vec<usize> = (0..len).map(|_| rng.below(nc as u64) as usize).collect();
        let (b, bt) = basis(rng);
        c.measure_all_basis(&cbits, b).ok().map(|_| format!("ma {} {}", bt, join(&cbits)))
    }
    else if r < 755
    {
        if !peeks || nq == 0 || nc == 0 { return None; }
        let (q, cb) = (rng.below(nq as u64) as usize, rng.below(nc as u64) as usize);
        let (b, bt) = basis(rng);
        c.peek_basis(q, cb, b).ok().map(|_| format!("pk {} {} {}", q, cb, bt))
    }
    else if r < 765
    {
        if !peeks || nc == 0 { return None; }
        let cbits: Vec<usize> = (0..nq).map(|_| rng.below(nc as u64) as usize).collect();
        let (b, bt) = basis(rng);
        c.peek_all_basis(&cbits, b).ok().map(|_| format!("pka {} {}", bt, join(&cbits)))
    }
    else if r < 830
    {
        if nq == 0 { return None; }
        let q = rng.below(nq as u64) as usize;
        c.reset(q).ok().map(|_| format!("r {}", q))
    }
    else if r < 870
    {
        c.reset_all();
        Some("ra".to_string())
    }
    else
    {
        if nq == 0 { return None; }
        let k = 1 + rng.below(nq as u64) as usize;
        let mut qbits = placement(rng, nq, k);
        if rng.below(30) == 0 { qbits.push(qbits[0]); }
        c.barrier(&qbits).ok().map(|_| format!("b {}", join(&qbits)))
    }
}

// ------------------------------------------------------------------------------------------
// answers

fn encode(s: &str) -> String { s.replace('%', "%25").replace('\n', "%0A").replace('\t', "%09") }

fn show_err(e: &Error) -> String
{
    match e
    {
        Error::InvalidQBit(b) => format!("err InvalidQBit {}", b),
        Error::InvalidCBit(b) => format!("err InvalidCBit {}", b),
        Error::InvalidNrBits(n, e, _) => format!("err InvalidNrBits {} {}", n, e),
        Error::ExportError(ExportError::NotImplemented(_, _)) => "err NotImplemented".to_string(),
        Error::ExportError(ExportError::RangeAlreadyOpen) => "err RangeAlreadyOpen".to_string(),
        Error::ExportError(ExportError::CantCloseLoop) => "err CantCloseLoop".to_string(),
        e => format!("err Other {}", format!("{:?}", e).replace(' ', "_"))
    }
}

fn answer(r: Option<Result<String, Error>>) -> String
{
    match r
    {
        None => "panic".to_string(),
        Some(Ok(t)) => format!("ok {}", encode(&t)),
        Some(Err(e)) => show_err(&e)
    }
}

fn run_circuit(out: &mut Out, nq: usize, nc: usize, c: &Circuit, ops: &[String])
{
    let mut req = format!("circ {} {}", nq, nc);
    for o in ops { req += " | "; req += o; }
    let r = catch(AssertUnwindSafe(|| c.latex()));
    out.case(&req, &answer(r));
}

// ------------------------------------------------------------------------------------------
// raw mode: public LatexExportState calls

fn small(rng: &mut SplitMix64, n: usize) -> usize
{
    // mostly in range, sometimes just outside
    if n == 0 || rng.below(40) == 0 { n + rng.below(2) as usize } else { rng.below(n as u64) as usize }
}

fn small_list(rng: &mut SplitMix64, n: usize, maxlen: usize) -> Vec<usize>
{
    let k = rng.below(maxlen as u64 + 1) as usize;
    (0..k).map(|_| small(rng, n)).collect()
}

fn raw_case(out: &mut Out, rng: &mut SplitMix64)
{
    let nq = rng.below(5) as usize;
    let nc = rng.below(4) as usize;
    let ncalls = 1 + rng.below(10) as usize;
    let mut calls: Vec<String> = vec![];
    // actions are generated first (text), then replayed on the real state
    enum A
    {
        Reserve(Vec<usize>, Option<Vec<usize>>), Start(Vec<usize>, Option<Vec<usize>>), End,
        Set(usize, String, String), Meas(usize, usize, Option<&'static str>), Rst(usize),
        Cond(u64, Vec<usize>, Vec<usize>), Block(String, Vec<usize>), SLoop(usize), ELoop,
        Cds(usize, usize), Bar(Vec<usize>), Ctl(bool), Exp(bool), Init(bool), Gate(GT, Vec<usize>)
    }
    let mut acts: Vec<A> = vec![];
    for _ in 0..ncalls
    {
        let a = match rng.below(19)
        {
            0 => A::Reserve(small_list(rng, nq, 3), if rng.coin() { Some(small_list(rng, nc, 2)) } else { None }),
            1 | 2 => A::Start(small_list(rng, nq, 3), if rng.coin() { Some(small_list(rng, nc, 2)) } else { None }),
            3 | 4 => A::End,
            5 | 6 => {
                let (tok, txt) = match rng.below(6) {
                    0 => ("qw".to_string(), r"\qw".to_string()),
                    1 => ("targ".to_string(), r"\targ".to_string()),
                    2 => ("control".to_string(), r"\control \qw".to_string()),
                    3 => ("qswap".to_string(), r"\qswap".to_string()),
                    4 => ("gate:W".to_string(), r"\gate{W}".to_string()),
                    _ => { let k = rng.range(-2, 2); (format!("ctrl:{}", k), format!(r"\ctrl{{{}}}", k)) }
                };
                A::Set(small(rng, nq + nc), tok, txt)
            },
            7 => A::Meas(small(rng, nq), small(rng, nc), *rng.pick(&[None, Some("X"), Some("Y")])),
            8 => A::Rst(small(rng, nq)),
            9 => { let c = small_list(rng, nc, 3); A::Cond(rng.below(8), c, small_list(rng, nq, 2)) },
            10 | 11 => A::Block(rng.pick(&["G", "Uf"]).to_string(), small_list(rng, nq, 4)),
            12 => A::SLoop(rng.below(5) as usize),
            13 => A::ELoop,
            14 => A::Cds(small(rng, nq), rng.below(3) as usize),
            15 => A::Bar(small_list(rng, nq, 3)),
            16 => match rng.below(3) { 0 => A::Ctl(rng.coin()), 1 => A::Exp(rng.coin()), _ => A::Init(rng.coin()) },
            _ => {
                if nq == 0 { A::End } else {
                    let g = gen_gate(rng, nq, 2);
                    let bits = placement(rng, nq, g.nbits());
                    A::Gate(g, bits)
                }
            }
        };
        acts.push(a);
    }
    let opt = |c: &Option<Vec<usize>>| match c { Some(c) => format!(" : {}", join(c)), None => String::new() };
    for a in acts.iter()
    {
        calls.push(match a
        {
            A::Reserve(q, c) => format!("reserve {}{}", join(q), opt(c)),
            A::Start(q, c) => format!("start {}{}", join(q), opt(c)),
            A::End => "end".to_string(),
            A::Set(b, tok, _) => format!("set {} {}", b, tok),
            A::Meas(q, c, b) => format!("meas {} {} {}", q, c, b.unwrap_or("-")),
            A::Rst(q) => format!("rst {}", q),
            A::Cond(t, c, q) => format!("cond {} {} : {}", t, join(c), join(q)),
            A::Block(l, q) => format!("block {} {}", l, join(q)),
            A::SLoop(n) => format!("sloop {}", n),
            A::ELoop => "eloop".to_string(),
            A::Cds(b, k) => format!("cds {} {} dots", b, k),
            A::Bar(q) => format!("bar {}", join(q)),
            A::Ctl(v) => format!("ctl {}", *v as u8),
            A::Exp(v) => format!("exp {}", *v as u8),
            A::Init(v) => format!("init {}", *v as u8),
            A::Gate(g, bits) => format!("gate {} @ {}", g.text(), join(bits))
        });
    }
    let r = catch(AssertUnwindSafe(|| -> Result<String, Error> {
        let mut st = LatexExportState::new(nq, nc);
        for a in acts.iter()
        {
            match a
            {
                A::Reserve(q, c) => st.reserve(q, c.as_ref().map(|v| &v[..]))?,
                A::Start(q, c) => st.start_range_op(q, c.as_ref().map(|v| &v[..]))?,
                A::End => st.end_range_op(),
                A::Set(b, _, txt) => st.set_field(*b, txt.clone())?,
                A::Meas(q, c, b) => st.set_measurement(*q, *c, *b)?,
                A::Rst(q) => st.set_reset(*q)?,
                A::Cond(t, c, q) => st.set_condition(c, *t, q)?,
                A::Block(l, q) => st.add_block_gate(q, l)?,
                A::SLoop(n) => st.start_loop(*n),
                A::ELoop => st.end_loop()?,
                A::Cds(b, k) => st.add_cds(*b, *k, "dots")?,
                A::Bar(q) => st.set_barrier(q)?,
                A::Ctl(v) => { st.set_controlled(*v); },
                A::Exp(v) => st.set_expand_composite(*v),
                A::Init(v) => st.set_add_init(*v),
                A::Gate(g, bits) => g.build().latex(bits, &mut st)?
            }
        }
        Ok(st.code())
    }));
    let mut req = format!("raw {} {}", nq, nc);
    for c in calls { req += " | "; req += &c; }
    out.case(&req, &answer(r));
}

// ------------------------------------------------------------------------------------------

/// all ordered placements of k distinct elements of 0..n
fn all_placements(n: usize, k: usize) -> Vec<Vec<usize>>
{
    fn go(n: usize, k: usize, cur: &mut Vec<usize>, out: &mut Vec<Vec<usize>>)
    {
        if cur.len() == k { out.push(cur.clone()); return; }
        for b in 0..n { if !cur.contains(&b) { cur.push(b); go(n, k, cur, out); cur.pop(); } }
    }
    let mut out = vec![];
    go(n, k, &mut vec![], &mut out);
    out
}

fn main()
{
    let dir = std::env::args().nth(1).expect("usage: c13 <outdir>");
    silence_panics();
    let mut rng = SplitMix64::from_env();
    let mut out = Out::new(&dir);

    // (0) fixed witnesses of the defect classes (so that every class is exercised on every run)
    {
        let lib = |n: &'static str| GT::Lib(n, vec![]);
        let comp = |n: usize, subs: Vec<(GT, Vec<usize>)>| GT::Comp("cmp".into(), n, subs, false);
        let lp = |k: usize, body: GT| GT::Loop(k, Box::new(body));
        enum W { G(GT, Vec<usize>), CG(Vec<usize>, u64, GT, Vec<usize>), B(Vec<usize>), RA }
        let cases: Vec<(usize, usize, Vec<W>)> = vec![
            (3, 0, vec![W::G(lib("CCX"), vec![1, 0, 2])]),
            (0, 0, vec![W::RA]),
            (1, 1, vec![W::CG(vec![0], 1, comp(1, vec![(lib("H"), vec![0]), (lib("X"), vec![0])]), vec![0])]),
            (2, 0, vec![W::G(GT::C(Box::new(comp(1, vec![(lib("H"), vec![0]), (lib("X"), vec![0])]))), vec![0, 1])]),
            (2, 0, vec![W::B(vec![0, 1]), W::G(lib("H"), vec![1])]),
            (1, 0, vec![W::G(lp(3, comp(1, vec![(lib("H"), vec![0]), (lp(3, comp(1, vec![(lib("X"), vec![0])])), vec![0])])), vec![0])]),
            (3, 0, vec![W::G(GT::C(Box::new(GT::Kron(Box::new(lib("X")), Box::new(lib("X"))))), vec![0, 1, 2])]),
            (2, 1, vec![W::CG(vec![0], 1, GT::Kron(Box::new(lib("H")), Box::new(lib("H"))), vec![0, 1])]),
            (2, 0, vec![W::G(GT::C(Box::new(lib("I"))), vec![0, 1])]),
            (1, 0, vec![W::G(lp(3, comp(1, vec![])), vec![0]), W::G(lib("H"), vec![0])]),
            (1, 0, vec![W::G(comp(1, vec![(lib("H"), vec![1])]), vec![0])]),
            (1, 0, vec![W::G(lp(3, comp(0, vec![])), vec![])]),
            (2, 1, vec![W::CG(vec![0], 1, lp(3, comp(1, vec![(lib("H"), vec![0])])), vec![1])]),
            // regression witnesses of the (B) class attribution (all four are inside KNOWN classes; a
            // wrong attribution would report them as `…:plain` / a wrong panic class):
            // a wrongly drawn in-range loop followed by a correctly drawn conditional C<C<C<I>>>
            (4, 1, vec![W::CG(vec![], 0, lp(4, comp(3, vec![(lib("CX"), vec![1, 2]), (lib("CH"), vec![2, 0]), (lib("H"), vec![2])])), vec![2, 0, 3]),
                        W::CG(vec![0], 1, GT::C(Box::new(GT::C(Box::new(GT::C(Box::new(lib("I"))))))), vec![0, 1, 2, 3])]),
            // C<Comp[T;T]> loses one T; its second stage silently matches the following CT
            (2, 0, vec![W::G(GT::C(Box::new(comp(1, vec![(lib("T"), vec![0]), (lib("T"), vec![0])]))), vec![0, 1]),
                        W::G(lib("CT"), vec![0, 1]), W::G(lib("H"), vec![0])]),
            // a conditional gate that draws nothing: the condition dots point at a bare wire
            (2, 1, vec![W::CG(vec![0], 0, comp(2, vec![]), vec![1, 0])]),
            // a mis-sized sub-gate inside a zero-iteration loop is never visited; the panic is the CCX's
            (3, 0, vec![W::G(lp(0, comp(2, vec![(lib("CX"), vec![1])])), vec![0, 1]), W::G(lib("CCX"), vec![1, 0, 2])]),
            // a condition on more than 64 classical bits: `1 << pos` on the u64 target word
            (1, 65, vec![W::CG((0..65).collect(), 0, lib("X"), vec![0])]),
            (1, 64, vec![W::CG((0..64).collect(), 1, lib("X"), vec![0])]),
            // identity gates under controls / conditions are drawn as the bare wire (accepted reading)
            (3, 1, vec![W::CG(vec![0], 1, lib("I"), vec![1]), W::G(GT::C(Box::new(GT::C(Box::new(lib("I"))))), vec![0, 1, 2]), W::G(lib("H"), vec![2])]),
        ];
        for (nq, nc, ws) in cases
        {
            let mut c = Circuit::new(nq, nc);
            let mut ops = vec![];
            for w in ws
            {
                match w
                {
                    W::G(g, bits) => { c.add_gate(g.build(), &bits).unwrap(); ops.push(format!("g {} @ {}", g.text(), join(&bits))); },
                    W::CG(ctl, t, g, bits) => { c.add_conditional_gate(&ctl, t, g.build(), &bits).unwrap();
                        ops.push(format!("cg {} {} : {} @ {}", t, join(&ctl), g.text(), join(&bits))); },
                    W::B(q) => { c.barrier(&q).unwrap(); ops.push(format!("b {}", join(&q))); },
                    W::RA => { c.reset_all(); ops.push("ra".to_string()); }
                }
            }
            run_circuit(&mut out, nq, nc, &c, &ops);
        }
        // a nested range outside the open one: only reachable through the state's own methods
        let r = catch(AssertUnwindSafe(|| -> Result<String, Error> {
            let mut st = LatexExportState::new(3, 0);
            st.start_range_op(&[0, 1], None)?;
            st.start_range_op(&[2], None)?;
            Ok(st.code())
        }));
        out.case("raw 3 0 | start 0 1 | start 2", &answer(r));
    }
    // (1) every library gate at every placement on 1..=4 qubits: plain, after another gate,
    //     conditional on 1 and on 2..3 classical bits, controlled once more, and inside a composite
    for e in LIB.iter()
    {
        for nq in e.2..=4
        {
            for bits in all_placements(nq, e.2)
            {
                let g = GT::Lib(e.0, gen_params(&mut rng, e.1, true, false));
                // plain, preceded by an H on qubit 0 so that reservation matters
                let mut c = Circuit::new(nq, 3);
                c.add_gate(H::new(), &[0]).unwrap();
                c.add_gate(g.build(), &bits).unwrap();
                run_circuit(&mut out, nq, 3, &c, &["g H @ 0".to_string(), format!("g {} @ {}", g.text(), join(&bits))]);
                // conditional
                let k = 1 + rng.below(3) as usize;
                let control = placement(&mut rng, 3, k);
                let target = rng.below(1 << control.len());
                let mut c = Circuit::new(nq, 3);
                c.add_conditional_gate(&control, target, g.build(), &bits).unwrap();
                c.add_gate(g.build(), &bits).unwrap();
                run_circuit(&mut out, nq, 3, &c, &[
                    format!("cg {} {} : {} @ {}", target, join(&control), g.text(), join(&bits)),
                    format!("g {} @ {}", g.text(), join(&bits))]);
                // inside a composite (add_gate)
                let comp = GT::Comp("cmp".into(), e.2, vec![(g.clone(), (0..e.2).collect())], false);
                let mut c = Circuit::new(nq, 0);
                c.add_gate(comp.build(), &bits).unwrap();
                run_circuit(&mut out, nq, 0, &c, &[format!("g {} @ {}", comp.text(), join(&bits))]);
            }
            // controlled once more: C<G> at every placement
            if e.2 + 1 <= nq
            {
                for bits in all_placements(nq, e.2 + 1)
                {
                    let g = GT::C(Box::new(GT::Lib(e.0, gen_params(&mut rng, e.1, false, false))));
                    let mut c = Circuit::new(nq, 0);
                    c.add_gate(g.build(), &bits).unwrap();
                    run_circuit(&mut out, nq, 0, &c, &[format!("g {} @ {}", g.text(), join(&bits))]);
                }
            }
        }
    }
    // (2) block gates with the trait's default drawing, every placement
    for n in 1..=4usize
    {
        for nq in n..=4
        {
            for bits in all_placements(nq, n)
            {
                let g = GT::Blk("G".into(), n);
                let mut c = Circuit::new(nq, 1);
                c.add_gate(g.build(), &bits).unwrap();
                c.add_conditional_gate(&[0], 1, g.build(), &bits).unwrap();
                run_circuit(&mut out, nq, 1, &c, &[format!("g {} @ {}", g.text(), join(&bits)),
                    format!("cg 1 0 : {} @ {}", g.text(), join(&bits))]);
            }
        }
    }
    // (3) random circuits over all operation kinds
    let ncirc = if thorough() { 40000 } else { 4000 };
    for i in 0..ncirc
    {
        let nq = if rng.below(40) == 0 { 0 } else { 1 + rng.below(4) as usize };
        let nc = rng.below(4) as usize;
        let len = 1 + rng.below(14) as usize;
        let peeks = i % 4 == 0;
        let mut c = Circuit::new(nq, nc);
        let mut ops = vec![];
        for _ in 0..len
        {
            if let Some(t) = gen_op(&mut rng, &mut c, nq, nc, peeks) { ops.push(t); }
        }
        run_circuit(&mut out, nq, nc, &c, &ops);
    }
    // (4) raw emitter sequences
    let nraw = if thorough() { 20000 } else { 2500 };
    for _ in 0..nraw { raw_case(&mut out, &mut rng); }

    let n = out.finish();
    eprintln!("c13: {} cases", n);
}

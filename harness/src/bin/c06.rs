//! C06: stabilizer flags, Pauli-conjugation rules and the routing predicate.
//!
//! Requests (fields separated by ` | `; gate terms in the grammar of `gate.rs`):
//!   isstab  | <term>                 -> true | false
//!   matrix  | <term>                 -> ok <dim> <re im>*dim^2           (well-formed terms only)
//!   conjall | <term>                 -> <k> ; r ; r ; ...                (all 4^k strings, lexicographic in I Z X Y)
//!   conjfs  | <term>                 -> same, the top-level composite built by `Composite::from_string`
//!   conj    | <term> | <d>*m         -> r                                (any operand count m)
//!   conjs   | <term> | <d>*k ; <d>*k ; ...   -> r ; r ; ...      (listed strings only: wide terms, k = 5, 6)
//!   hist    | <nq> <nc> <shots> <mid> | op ; op ; ...            (building history; `mid` = number of ops after
//!                                       which the circuit is executed once in between, or `-`)
//!                                    -> isc <bool>*(n+1) claims <true|false|->*n mid <S|V|-> repr <S|V> # res ..
//!             is_stabilizer_circuit() is queried on the SAME circuit object after `new` and after every building call
//!   circ    | <nq> <nc> <shots> | op ; op ; ...
//!                                    -> isc <bool> repr <S|V> claims <bool>* # res <ok|err ..|panic>
//! where r = `ok <flip> <d>*k` | `err <constructor> <payload>` | `panic <kind>`, digits I=0 Z=1 X=2 Y=3.
//!
//! Streams (deterministic given VERIF_SEED):
//!  1. every registry gate (39): flag, matrix, all 4^k strings, every operand count 0..k+1;
//!  2. generated nested combinators on 1..4 qubits, depth <= 3, mostly Clifford with injected
//!     non-claiming gates (T, rotations, C<G>, named controlled gates), loops with 0..3 iterations;
//!  3. the same composites rebuilt through `Composite::from_string` where the description language
//!     can express them;
//!  4. malformed composites (`add_gate` validates nothing): arity mismatch, out-of-range and repeated
//!     local bits  -> error constructor / index panic;
//!  6. wide composites (5, 6 qubits) whose 2nd/3rd sub-gate is itself a gate on >= 5 qubits (nested
//!     composite, Kronecker tree, loop) placed after sign-flipping gates: all weight-1 and weight-2
//!     strings and a random sample;
//!  8. wide loops (33, 34, 40, 64, 65 qubits; no matrix): several strings on ONE Loop object, among them
//!     strings that agree on the last 32 positions and differ before, and the other way round;
//!  7. building histories: the flag of the circuit after every building call (a conditional
//!     non-Clifford gate as the LAST call in half of them), optionally one execution in between;
//!  5. generated circuits with conditional gates: `is_stabilizer_circuit`, the representation
//!     `execute_with_rng` creates, the claim of every gate.
use q1t_harness::*;
use q1t_harness::gate::{self, Dyn};
use q1t_harness::sim;
use q1tsim::gates::{Composite, Gate};
use q1tsim::stabilizer::PauliOp;

const OPS: [PauliOp; 4] = [PauliOp::I, PauliOp::Z, PauliOp::X, PauliOp::Y];

const CLIFF1: [&str; 9] = ["H", "X", "Y", "Z", "S", "Sdg", "V", "Vdg", "I"];
const CLIFF2: [&str; 4] = ["CX", "CY", "CZ", "Swap"];
const BAD1: [&str; 2] = ["T", "Tdg"];
const BAD2: [&str; 7] = ["CH", "CS", "CSdg", "CT", "CTdg", "CV", "CVdg"];
const BAD3: [&str; 2] = ["CCX", "CCZ"];

fn panic_kind(p: Box<dyn std::any::Any + Send>) -> String
{
    let msg = if let Some(s) = p.downcast_ref::<&str>() { s.to_string() }
        else if let Some(s) = p.downcast_ref::<String>() { s.clone() } else { String::new() };
    if msg.contains("index out of bounds") || msg.contains("out of range for slice") { "panic index".into() }
    else { format!("panic other {}", msg.replace('\n', " ").replace('\t', " ").replace('|', "/").replace(';', ",")) }
}

fn show_err(e: &q1tsim::error::Error) -> String { sim::show_err(e).replace('|', "/").replace(';', ",") }

fn conj_one(g: &dyn Gate, digits: &[usize]) -> String
{
    let mut v: Vec<PauliOp> = digits.iter().map(|&d| OPS[d]).collect();
    let r = std::panic::catch_unwind(std::panic::AssertUnwindSafe(|| g.conjugate(&mut v)));
    match r
    {
        Ok(Ok(flip)) => format!("ok {} {}", flip as u8, join(&v.iter().map(|o| o.to_bits()).collect::<Vec<_>>())).trim_end().to_string(),
        Ok(Err(e)) => show_err(&e),
        Err(p) => panic_kind(p)
    }
}

fn digits_of(code: usize, len: usize) -> Vec<usize>
{
    (0..len).map(|p| (code / 4usize.pow((len - 1 - p) as u32)) % 4).collect()
}

fn conj_all(g: &dyn Gate) -> String
{
    let k = g.nr_affected_bits();
    let mut parts = vec![format!("{}", k)];
    for code in 0..4usize.pow(k as u32) { parts.push(conj_one(g, &digits_of(code, k))); }
    parts.join(" ; ")
}

fn show_mat(m: &q1tsim::cmatrix::CMatrix) -> String
{
    let mut s = format!("ok {}", m.rows());
    for c in m.iter() { s += &format!(" {} {}", fbits(c.re), fbits(c.im)); }
    s
}

fn parse_guarded(term: &str) -> Option<Dyn>
{
    let t = term.to_string();
    std::panic::catch_unwind(move || gate::parse_str(&t)).ok()
}

/// flag + matrix + all strings + wrong operand counts for one well-formed term
fn emit_term(out: &mut Out, term: &str, rng: &mut SplitMix64, with_matrix: bool, all_wrong: bool)
{
    let g = match parse_guarded(term) { Some(g) => g, None => { out.case(&format!("isstab | {}", term), "panic parse"); return; } };
    out.case(&format!("isstab | {}", term), if g.is_stabilizer() { "true" } else { "false" });
    if with_matrix
    {
        let m = std::panic::catch_unwind(std::panic::AssertUnwindSafe(|| show_mat(&g.matrix())));
        out.case(&format!("matrix | {}", term), &m.unwrap_or_else(|_| "panic".to_string()));
    }
    out.case(&format!("conjall | {}", term), &conj_all(&g));
    let k = g.nr_affected_bits();
    for len in 0..=(k + 2)
    {
        if len == k || len > 5 { continue; }
        let total = 4usize.pow(len as u32);
        let codes: Vec<usize> = if all_wrong && total <= 64 { (0..total).collect() }
            else { (0..3.min(total)).map(|_| rng.below(total as u64) as usize).collect() };
        for code in codes
        {
            let d = digits_of(code, len);
            out.case(&format!("conj | {} | {}", term, join(&d)).trim_end().to_string(), &conj_one(&g, &d));
        }
    }
}

// ------------------------------------------------------------------------------------------------
// generation of mostly-Clifford nested terms

fn distinct(n: usize, k: usize, rng: &mut SplitMix64) -> Vec<usize>
{
    let mut all: Vec<usize> = (0..n).collect();
    rng.shuffle(&mut all);
    all.truncate(k);
    all
}

fn param_gate(name: &str, rng: &mut SplitMix64) -> String
{
    let np = match name { "U2" | "CU2" => 2, "U3" | "CU3" => 3, _ => 1 };
    let mut s = name.to_string();
    for _ in 0..np { s += " "; s += &fbits(gate::gen_angle(rng)); }
    s
}

/// a primitive on exactly k qubits (k = 1, 2, 3); `bad` = per-mille probability of a non-claiming one
fn leaf(k: usize, bad: u64, rng: &mut SplitMix64) -> String
{
    let nonclaiming = rng.below(1000) < bad;
    match k
    {
        1 => if nonclaiming
            {
                if rng.coin() { rng.pick(&BAD1).to_string() }
                else { param_gate(*rng.pick(&["RX", "RY", "RZ", "U1", "U2", "U3"]), rng) }
            } else { rng.pick(&CLIFF1).to_string() },
        2 => if nonclaiming
            {
                if rng.coin() { rng.pick(&BAD2).to_string() }
                else { param_gate(*rng.pick(&["CRX", "CRY", "CRZ", "CU1", "CU2", "CU3"]), rng) }
            } else { rng.pick(&CLIFF2).to_string() },
        _ => if rng.coin() { rng.pick(&BAD3).to_string() } else { param_gate(*rng.pick(&["CCRX", "CCRY", "CCRZ"]), rng) }
    }
}

fn gen_ops(nb: usize, depth: usize, bad: u64, rng: &mut SplitMix64) -> String
{
    let k = rng.below(5) as usize;
    let mut s = format!("{}", k);
    for _ in 0..k
    {
        let m = 1 + rng.below(nb.min(3) as u64) as usize;
        let g = gen(m, depth, bad, rng);
        let bits = distinct(nb, m, rng);
        s += &format!(" {} {} {}", g, m, join(&bits));
    }
    s
}

/// a gate term on exactly k >= 1 qubits, combinators nested up to `depth`
fn gen(k: usize, depth: usize, bad: u64, rng: &mut SplitMix64) -> String
{
    if k <= 2 && (depth == 0 || rng.below(3) == 0) { return leaf(k, bad, rng); }
    if k == 3 && depth == 0 { return format!("Kron {} {}", leaf(1, bad, rng), leaf(2, bad, rng)); }
    if k >= 4 && depth == 0 { return format!("Kron {} {}", leaf(2, bad, rng), gen(k - 2, 0, bad, rng)); }
    let d = depth.saturating_sub(1);
    loop
    {
        match rng.below(8)
        {
            0 | 1 | 2 if k >= 2 => {
                let k0 = 1 + rng.below(k as u64 - 1) as usize;
                return format!("Kron {} {}", gen(k0, d, bad, rng), gen(k - k0, d, bad, rng));
            },
            3 | 4 => return format!("Comp g{} {} {}", rng.below(100), k, gen_ops(k, d, bad, rng)),
            5 | 6 => return format!("Loop l{} {} b{} {} {}", rng.below(100), rng.below(4), rng.below(100), k, gen_ops(k, d, bad, rng)),
            7 if k >= 2 && rng.below(1000) < bad => return format!("C {}", gen(k - 1, d, bad, rng)),
            7 if k == 3 && rng.below(1000) < bad => return leaf(3, bad, rng),
            _ => {}
        }
    }
}

// ------------------------------------------------------------------------------------------------
// from_string

/// a composite of parameterless named gates that uses its highest qubit, as (term, description)
fn gen_fs(nb: usize, bad: u64, rng: &mut SplitMix64) -> (String, String)
{
    let k = 1 + rng.below(5) as usize;
    let mut items: Vec<(String, Vec<usize>)> = vec![];
    for i in 0..k
    {
        let m = if nb >= 3 && rng.below(8) == 0 { 3 } else if nb >= 2 && rng.below(3) == 0 { 2 } else { 1 };
        let name = if m == 3 { rng.pick(&BAD3).to_string() } else { let l = leaf(m, bad, rng); if l.contains(' ') { "T".to_string() } else { l } };
        let m = if name == "T" { 1 } else { m };
        let mut bits = distinct(nb, m, rng);
        if i == 0 && !bits.contains(&(nb - 1)) { bits[0] = nb - 1; }
        items.push((name, bits));
    }
    let name = format!("f{}", rng.below(100));
    let mut term = format!("Comp {} {} {}", name, nb, k);
    let mut descs = vec![];
    for (g, bits) in items.iter()
    {
        term += &format!(" {} {} {}", g, bits.len(), join(bits));
        descs.push(format!("{} {}", g, join(bits)));
    }
    (term, descs.join("; "))
}

// ------------------------------------------------------------------------------------------------
// malformed composites

fn gen_malformed(rng: &mut SplitMix64) -> String
{
    let nb = 1 + rng.below(3) as usize;
    let k = 1 + rng.below(4) as usize;
    let victim = rng.below(k as u64) as usize;
    let mut s = format!("Comp m{} {} {}", rng.below(100), nb, k);
    for i in 0..k
    {
        let m = 1 + rng.below(nb.min(2) as u64) as usize;
        let g = if rng.below(4) == 0 { gen(m, 1, 100, rng) } else { leaf(m, 60, rng) };
        let mut bits = distinct(nb, m, rng);
        if i == victim
        {
            match rng.below(5)
            {
                0 => { bits.pop(); },                                   // one operand too few
                1 => { bits.push(rng.below(nb as u64) as usize); },     // one too many (possibly repeated)
                2 => { bits[0] = nb + rng.below(3) as usize; },         // out of range
                3 => { if bits.len() >= 2 { bits[1] = bits[0]; } else { bits[0] = nb; } },   // repeated
                _ => { bits.clear(); }                                  // none
            }
        }
        s += &format!(" {} {} {}", g, bits.len(), join(&bits)).trim_end().to_string();
    }
    if rng.below(4) == 0 { format!("Loop w{} {} {}", rng.below(100), 1 + rng.below(2), &s[5..]) }
    else if rng.below(5) == 0 { format!("Kron H {}", s) }
    else { s }
}

// ------------------------------------------------------------------------------------------------
// circuits

fn gen_gate_op(nq: usize, bad: u64, rng: &mut SplitMix64) -> (String, Vec<usize>)
{
    let k = if nq >= 3 && rng.below(8) == 0 { 3 } else if nq >= 2 && rng.below(3) == 0 { 2 } else { 1 };
    let term = if rng.below(3) == 0 { gen(k, 2, bad, rng) } else if k == 3 { gen(3, 1, bad, rng) } else { leaf(k, bad, rng) };
    (term, distinct(nq, k, rng))
}

fn gen_circuit(rng: &mut SplitMix64) -> (usize, usize, Vec<String>)
{
    let nq = 1 + rng.below(4) as usize;
    let nc = 1 + rng.below(4) as usize;
    let nops = rng.below(9) as usize;
    // three kinds: all claiming; exactly the conditional gates may not claim; anything may not claim
    let mode = rng.below(3);
    let mut ops = vec![];
    for _ in 0..nops
    {
        let r = rng.below(100);
        let op = if r < 45
        {
            let (g, bits) = gen_gate_op(nq, if mode == 2 { 120 } else { 0 }, rng);
            format!("gate {} {} {}", bits.len(), join(&bits), g)
        }
        else if r < 65
        {
            let ncb = 1 + rng.below(nc as u64) as usize;
            let control = distinct(nc, ncb, rng);
            let target = rng.below(1 << ncb.min(3));
            let (g, bits) = gen_gate_op(nq, if mode >= 1 { 350 } else { 0 }, rng);
            format!("cond {} {} {} {} {} {}", ncb, join(&control), target, bits.len(), join(&bits), g)
        }
        else if r < 78 { format!("measure {} {} {}", rng.below(nq as u64), rng.below(nc as u64), sim::gen_basis(rng)) }
        else if r < 83 { format!("peek {} {} {}", rng.below(nq as u64), rng.below(nc as u64), sim::gen_basis(rng)) }
        else if r < 88 { format!("reset {}", rng.below(nq as u64)) }
        else if r < 90 { "resetall".to_string() }
        else if r < 95 && nc >= nq { format!("measureall {} {} {}", nq, join(&distinct(nc, nq, rng)), sim::gen_basis(rng)) }
        else { let k = 1 + rng.below(nq as u64) as usize; format!("barrier {} {}", k, join(&distinct(nq, k, rng))) };
        ops.push(op);
    }
    (nq, nc, ops)
}

fn op_gate_term(op: &str) -> Option<String>
{
    let toks: Vec<&str> = op.split_whitespace().collect();
    match toks[0]
    {
        "gate" => { let k: usize = toks[1].parse().unwrap(); Some(toks[2 + k..].join(" ")) },
        "cond" => {
            let ncb: usize = toks[1].parse().unwrap();
            let k: usize = toks[3 + ncb].parse().unwrap();
            Some(toks[4 + ncb + k..].join(" "))
        },
        _ => None
    }
}

fn emit_circuit(out: &mut Out, nq: usize, nc: usize, shots: usize, ops: &[String], seed: u64)
{
    let req = format!("circ | {} {} {} | {}", nq, nc, shots, ops.join(" ; "));
    let ct = sim::CircuitText { nq, nc, ops: ops.to_vec() };
    let built = std::panic::catch_unwind(|| sim::build(&ct));
    let mut circuit = match built
    {
        Ok(Ok(c)) => c,
        Ok(Err(e)) => { out.case(&req, &format!("build {}", show_err(&e))); return; },
        Err(p) => { out.case(&req, &format!("build {}", panic_kind(p))); return; }
    };
    let isc = circuit.is_stabilizer_circuit();
    let claims: Vec<String> = ops.iter().filter_map(|op| op_gate_term(op))
        .map(|t| if gate::parse_str(&t).is_stabilizer() { "true".to_string() } else { "false".to_string() }).collect();
    use rand_core::SeedableRng;
    let mut rng = rand_hc::Hc128Rng::seed_from_u64(seed);
    let res = {
        let c = std::panic::AssertUnwindSafe(&mut circuit);
        let r = std::panic::AssertUnwindSafe(&mut rng);
        std::panic::catch_unwind(move || {
            let std::panic::AssertUnwindSafe(c) = c;
            let std::panic::AssertUnwindSafe(r) = r;
            c.execute_with_rng(shots, r)
        })
    };
    let res_txt = match res { Ok(Ok(())) => "ok".to_string(), Ok(Err(e)) => show_err(&e), Err(p) => panic_kind(p) };
    let repr = match std::panic::catch_unwind(std::panic::AssertUnwindSafe(|| circuit.verif_snapshot()))
    {
        Ok(Some(q1tsim::verif::Snapshot::Stabilizer { .. })) => "S",
        Ok(Some(q1tsim::verif::Snapshot::Vector { .. })) => "V",
        Ok(Some(q1tsim::verif::Snapshot::Opaque)) => "O",
        Ok(None) => "none",
        Err(_) => "panic"
    };
    out.case(&req, &format!("isc {} repr {} claims {}", isc, repr, claims.join(" ")).trim_end().to_string().add_res(&res_txt));
}


// ------------------------------------------------------------------------------------------------
// wide composites

/// a claiming gate on exactly m qubits (m >= 1) that is a single sub-gate: nested composite, Kronecker tree or loop
fn wide_gate(m: usize, rng: &mut SplitMix64) -> String
{
    match rng.below(3)
    {
        0 => {
            // Kronecker tree of Clifford leaves
            let mut parts: Vec<String> = vec![];
            let mut left = m;
            while left > 0
            {
                let k = if left >= 2 && rng.coin() { 2 } else { 1 };
                parts.push(leaf(k, 0, rng));
                left -= k;
            }
            let mut t = parts.pop().unwrap();
            while let Some(p) = parts.pop() { t = if rng.coin() { format!("Kron {} {}", p, t) } else { format!("Kron {} {}", t, p) }; }
            // `Kron a b` puts a first: arities add up either way
            t
        },
        1 => {
            let k = 2 + rng.below(5) as usize;
            let mut s = format!("Comp in{} {} {}", rng.below(100), m, k);
            for _ in 0..k
            {
                let a = if rng.below(3) == 0 { 2 } else { 1 };
                s += &format!(" {} {} {}", leaf(a, 0, rng), a, join(&distinct(m, a, rng)));
            }
            s
        },
        _ => {
            let k = 1 + rng.below(4) as usize;
            let mut s = format!("Loop lw{} {} bw{} {} {}", rng.below(100), 1 + rng.below(2), rng.below(100), m, k);
            for _ in 0..k
            {
                let a = if rng.below(3) == 0 { 2 } else { 1 };
                s += &format!(" {} {} {}", leaf(a, 0, rng), a, join(&distinct(m, a, rng)));
            }
            s
        }
    }
}

/// a composite on n = 5 or 6 qubits: 1..2 sign-flipping small gates, then a sub-gate on >= 5 qubits, then 0..2 more
fn gen_wide(n: usize, rng: &mut SplitMix64) -> String
{
    let mut items: Vec<String> = vec![];
    for _ in 0..(1 + rng.below(2))
    {
        let a = if rng.below(4) == 0 { 2 } else { 1 };
        let g = if a == 1 { rng.pick(&["X", "Y", "Z", "H", "S", "Sdg", "V"]).to_string() } else { leaf(2, 0, rng) };
        items.push(format!("{} {} {}", g, a, join(&distinct(n, a, rng))));
    }
    let m = if n == 6 && rng.coin() { 6 } else { 5 };
    items.push(format!("{} {} {}", wide_gate(m, rng), m, join(&distinct(n, m, rng))));
    for _ in 0..rng.below(3)
    {
        if rng.below(3) == 0 { let m2 = 5; items.push(format!("{} {} {}", wide_gate(m2, rng), m2, join(&distinct(n, m2, rng)))); }
        else { let a = if rng.below(3) == 0 { 2 } else { 1 }; items.push(format!("{} {} {}", leaf(a, 0, rng), a, join(&distinct(n, a, rng)))); }
    }
    let body = format!("w{} {} {} {}", rng.below(100), n, items.len(), items.join(" "));
    match rng.below(4) { 0 => format!("Loop lt{} {} {}", rng.below(100), 1 + rng.below(2), body), _ => format!("Comp {}", body) }
}

fn emit_wide(out: &mut Out, term: &str, nrand: usize, rng: &mut SplitMix64)
{
    let g = match parse_guarded(term) { Some(g) => g, None => { out.case(&format!("isstab | {}", term), "panic parse"); return; } };
    let k = g.nr_affected_bits();
    out.case(&format!("isstab | {}", term), if g.is_stabilizer() { "true" } else { "false" });
    let m = std::panic::catch_unwind(std::panic::AssertUnwindSafe(|| show_mat(&g.matrix())));
    out.case(&format!("matrix | {}", term), &m.unwrap_or_else(|_| "panic".to_string()));
    let mut strings: Vec<Vec<usize>> = vec![];
    for q in 0..k { for p in 1..4 { let mut d = vec![0; k]; d[q] = p; strings.push(d); } }
    for q in 0..k { for r in (q + 1)..k { for p in 1..4 { for p2 in 1..4 { let mut d = vec![0; k]; d[q] = p; d[r] = p2; strings.push(d); } } } }
    for _ in 0..nrand { strings.push((0..k).map(|_| rng.below(4) as usize).collect()); }
    let req = format!("conjs | {} | {}", term, strings.iter().map(|d| join(d)).collect::<Vec<_>>().join(" ; "));
    let ans = strings.iter().map(|d| conj_one(&g, d)).collect::<Vec<_>>().join(" ; ");
    out.case(&req, &ans);
}

// ------------------------------------------------------------------------------------------------
// building histories

fn snapshot_repr(circuit: &q1tsim::circuit::Circuit) -> &'static str
{
    match std::panic::catch_unwind(std::panic::AssertUnwindSafe(|| circuit.verif_snapshot()))
    {
        Ok(Some(q1tsim::verif::Snapshot::Stabilizer { .. })) => "S",
        Ok(Some(q1tsim::verif::Snapshot::Vector { .. })) => "V",
        Ok(Some(q1tsim::verif::Snapshot::Opaque)) => "O",
        Ok(None) => "none",
        Err(_) => "panic"
    }
}

fn run_once(circuit: &mut q1tsim::circuit::Circuit, shots: usize, seed: u64) -> String
{
    use rand_core::SeedableRng;
    let mut rng = rand_hc::Hc128Rng::seed_from_u64(seed);
    let res = {
        let c = std::panic::AssertUnwindSafe(&mut *circuit);
        let r = std::panic::AssertUnwindSafe(&mut rng);
        std::panic::catch_unwind(move || {
            let std::panic::AssertUnwindSafe(c) = c;
            let std::panic::AssertUnwindSafe(r) = r;
            c.execute_with_rng(shots, r)
        })
    };
    match res { Ok(Ok(())) => "ok".to_string(), Ok(Err(e)) => show_err(&e), Err(p) => panic_kind(p) }
}

/// one circuit object: query the flag after `new` and after every building call; `mid`: execute once after that many ops
fn emit_history(out: &mut Out, nq: usize, nc: usize, shots: usize, mid: Option<usize>, ops: &[String], seed: u64)
{
    let req = format!("hist | {} {} {} {} | {}", nq, nc, shots, mid.map(|m| m.to_string()).unwrap_or("-".to_string()), ops.join(" ; "));
    let ops_v = ops.to_vec();
    let r = std::panic::catch_unwind(move || {
        let mut c = q1tsim::circuit::Circuit::new(nq, nc);
        let mut flags = vec![c.is_stabilizer_circuit()];
        let mut midrepr = "-".to_string();
        let mut midres = "-".to_string();
        if mid == Some(0) { midres = run_once(&mut c, shots, seed); midrepr = snapshot_repr(&c).to_string(); }
        for (i, op) in ops_v.iter().enumerate()
        {
            if let Err(e) = sim::add_op(&mut c, op) { return format!("build {}", show_err(&e)); }
            flags.push(c.is_stabilizer_circuit());
            if mid == Some(i + 1) { midres = run_once(&mut c, shots, seed); midrepr = snapshot_repr(&c).to_string(); }
        }
        let res = run_once(&mut c, shots, seed + 1);
        let repr = snapshot_repr(&c);
        let last = c.is_stabilizer_circuit();
        format!("{} | mid {} repr {} last {} # res {} / {}", flags.iter().map(|b| b.to_string()).collect::<Vec<_>>().join(" "), midrepr, repr, last, midres, res)
    });
    let claims: Vec<String> = ops.iter().map(|op| match op_gate_term(op)
        { Some(t) => if gate::parse_str(&t).is_stabilizer() { "true".to_string() } else { "false".to_string() }, None => "-".to_string() }).collect();
    match r
    {
        Ok(a) if a.starts_with("build") => out.case(&req, &a),
        Ok(a) => { let (flags, rest) = a.split_at(a.find(" | ").unwrap()); out.case(&req, &format!("isc {} claims {} {}", flags, claims.join(" "), &rest[3..]).replace("  ", " ")); },
        Err(p) => out.case(&req, &panic_kind(p))
    }
}

fn gen_history(rng: &mut SplitMix64) -> (usize, usize, Vec<String>)
{
    let (nq, nc, mut ops) = gen_circuit(rng);
    if rng.coin()
    {
        // all earlier gates claim (regenerate in mode "all claiming" by filtering) and the LAST call adds a conditional gate that does not
        ops.retain(|op| match op_gate_term(op) { Some(t) => gate::parse_str(&t).is_stabilizer(), None => true });
        let ncb = 1 + rng.below(nc as u64) as usize;
        let control = distinct(nc, ncb, rng);
        let k = if nq >= 2 && rng.below(3) == 0 { 2 } else { 1 };
        let g = leaf(k, 1000, rng);
        ops.push(format!("cond {} {} {} {} {} {}", ncb, join(&control), rng.below(1 << ncb.min(3)), k, join(&distinct(nq, k, rng)), g));
    }
    (nq, nc, ops)
}

// ------------------------------------------------------------------------------------------------
// wide loops: too wide for a matrix, many calls on one object

fn gen_wide_loop(n: usize, rng: &mut SplitMix64) -> String
{
    let special = [0usize, 1, 31, 32, 33.min(n - 1), n - 1, n - 32, n - 33, n / 2];
    let pickq = |rng: &mut SplitMix64| -> usize { if rng.below(3) == 0 { rng.below(n as u64) as usize } else { *rng.pick(&special) } };
    let k = 4 + rng.below(6) as usize;
    let mut items: Vec<String> = vec![];
    for _ in 0..k
    {
        if rng.coin()
        {
            let a = pickq(rng);
            let mut b = pickq(rng);
            while b == a { b = rng.below(n as u64) as usize; }
            items.push(format!("{} 2 {} {}", rng.pick(&["CX", "CZ", "Swap", "CY"]), a, b));
        }
        else { items.push(format!("{} 1 {}", rng.pick(&["H", "S", "X", "Y", "Sdg", "V", "Z"]), pickq(rng))); }
    }
    let body = format!("{} {} {}", n, items.len(), items.join(" "));
    let lp = format!("Loop wl{} {} wb{} {}", rng.below(100), 1 + rng.below(3), rng.below(100), body);
    match rng.below(4)
    {
        // the same Loop object reached through a composite, on permuted qubits
        0 => { let mut bits: Vec<usize> = (0..n).collect(); if rng.coin() { bits.reverse(); }
               format!("Comp top{} {} 2 {} 1 {} {} {} {}", rng.below(100), n, rng.pick(&["H", "X", "S"]), rng.below(n as u64), lp, n, join(&bits)) },
        _ => lp
    }
}

fn emit_wide_loop(out: &mut Out, term: &str, rng: &mut SplitMix64)
{
    let g = match parse_guarded(term) { Some(g) => g, None => { out.case(&format!("isstab | {}", term), "panic parse"); return; } };
    let n = g.nr_affected_bits();
    out.case(&format!("isstab | {}", term), if g.is_stabilizer() { "true" } else { "false" });
    let rand_str = |rng: &mut SplitMix64| -> Vec<usize> { (0..n).map(|_| rng.below(4) as usize).collect() };
    let mut strings: Vec<Vec<usize>> = vec![];
    for _ in 0..3
    {
        let base = rand_str(rng);
        strings.push(base.clone());
        // same last 32 positions, different before
        for _ in 0..2
        {
            let mut d = base.clone();
            let q = rng.below((n - 32) as u64) as usize;
            d[q] = (d[q] + 1 + rng.below(3) as usize) % 4;
            if rng.coin() { for x in d.iter_mut().take(n - 32) { *x = rng.below(4) as usize; } d[q] = (base[q] + 1) % 4; }
            strings.push(d);
        }
        // same leading positions, different within the last 32
        let mut d = base.clone();
        let q = n - 32 + rng.below(32) as usize;
        d[q] = (d[q] + 1 + rng.below(3) as usize) % 4;
        strings.push(d);
        // the same string again
        strings.push(base);
    }
    // weight-1 strings at the front and at the back, identity, a few random ones
    strings.push(vec![0; n]);
    for &q in [0usize, 1, n - 33, n - 32, n - 1].iter() { let mut d = vec![0; n]; d[q] = 1 + rng.below(3) as usize; strings.push(d); }
    for _ in 0..3 { strings.push(rand_str(rng)); }
    let req = format!("conjs | {} | {}", term, strings.iter().map(|d| join(d)).collect::<Vec<_>>().join(" ; "));
    let ans = strings.iter().map(|d| conj_one(&g, d)).collect::<Vec<_>>().join(" ; ");
    out.case(&req, &ans);
}

trait AddRes { fn add_res(self, r: &str) -> String; }
impl AddRes for String { fn add_res(self, r: &str) -> String { format!("{} # res {}", self, r) } }

fn main()
{
    let dir = std::env::args().nth(1).expect("usage: c06 <outdir>");
    silence_panics();
    let mut rng = SplitMix64::from_env();
    let mut out = Out::new(&dir);
    let th = thorough();

    // 1. the registry
    for _ in 0..(if th { 4 } else { 1 })
    {
        for (term, _) in gate::registry(&mut rng) { emit_term(&mut out, &term, &mut rng, true, true); }
    }
    // hand-written nestings that must be present whatever the seed
    for term in [
        "Kron H S", "Kron CX H", "Kron H CX", "Kron Swap CZ", "Kron T H", "Kron H T", "Kron I I", "C H", "C C X", "Kron C X H",
        "Comp bell 2 2 H 1 0 CX 2 0 1", "Comp rev 2 1 CX 2 1 0", "Comp e 1 0", "Comp e3 3 0",
        "Comp ghz 3 3 H 1 0 CX 2 0 1 CX 2 1 2", "Comp perm 3 2 Swap 2 2 0 CY 2 1 2",
        "Comp nc 2 2 H 1 0 T 1 1", "Comp nest 3 2 Comp in 2 2 H 1 1 CZ 2 1 0 2 2 0 Kron S V 2 1 2",
        "Loop l 0 b 1 1 H 1 0", "Loop l 1 b 1 1 S 1 0", "Loop l 2 b 1 1 S 1 0", "Loop l 3 b 2 2 H 1 0 CX 2 0 1",
        "Loop l 0 b 1 1 T 1 0", "Loop l 2 b 1 1 T 1 0", "Comp c0 2 2 H 1 0 Loop z 0 q 1 1 T 1 0 1 1",
        "Kron Loop z 0 q 1 1 Tdg 1 0 H", "Loop o 2 b 2 1 Loop i 3 c 2 2 CX 2 1 0 S 1 1 2 0 1",
        // sub-gates that share a description but not the claim
        "Comp o 2 2 Comp same 1 1 H 1 0 1 0 Comp same 1 1 T 1 0 1 1", "Comp o 2 2 Comp same 1 1 T 1 0 1 0 Comp same 1 1 H 1 0 1 1",
        "Comp o 2 3 X 1 0 Loop a 2 same 1 1 S 1 0 1 0 Loop b 2 same 1 1 T 1 0 1 1", "Kron Comp same 1 1 H 1 0 Comp same 1 1 Tdg 1 0",
        "Kron Kron H S CX", "Kron CY Kron V CX", "Comp four 4 4 CX 2 3 0 Kron H Sdg 2 1 2 CZ 2 0 2 Swap 2 3 1",
    ].iter() { emit_term(&mut out, term, &mut rng, true, false); }

    // 2. generated nestings
    let nterms = if th { 2500 } else { 300 };
    for i in 0..nterms
    {
        let k = 1 + (i % 4);
        let k = if !th && k == 4 && i % 8 != 3 { 3 } else { k };
        let bad = match rng.below(5) { 0 | 1 | 2 => 0, 3 => 60, _ => 200 };
        let term = gen(k, 1 + rng.below(3) as usize, bad, &mut rng);
        emit_term(&mut out, &term, &mut rng, true, false);
    }

    // 3. from_string
    for _ in 0..(if th { 400 } else { 60 })
    {
        let nb = 1 + rng.below(4) as usize;
        let bad = if rng.below(3) == 0 { 150 } else { 0 };
        let (term, desc) = gen_fs(nb, bad, &mut rng);
        let d = desc.clone();
        let built = std::panic::catch_unwind(move || Composite::from_string("fs", &d));
        let ans = match built
        {
            Ok(Ok(c)) => format!("{} {}", if c.is_stabilizer() { "true" } else { "false" }, conj_all(&c)),
            Ok(Err(e)) => format!("parse-error {:?}", e).replace('\n', " ").replace('|', "/"),
            Err(p) => panic_kind(p)
        };
        out.case(&format!("conjfs | {}", term), &ans);
        emit_term(&mut out, &term, &mut rng, true, false);
    }

    // 4. malformed composites
    for _ in 0..(if th { 1500 } else { 200 })
    {
        let term = gen_malformed(&mut rng);
        emit_term(&mut out, &term, &mut rng, false, false);
    }

    // 5. circuits
    for i in 0..(if th { 3000 } else { 400 })
    {
        let (nq, nc, ops) = gen_circuit(&mut rng);
        let shots = 1 + rng.below(3) as usize;
        emit_circuit(&mut out, nq, nc, shots, &ops, 1000 + i as u64);
    }
    // fixed routing cases: empty circuit, a single non-claiming conditional gate, a 0-iteration loop
    emit_circuit(&mut out, 1, 1, 1, &[], 1);
    emit_circuit(&mut out, 2, 1, 2, &["gate 1 0 H".to_string(), "measure 0 0 Z".to_string(), "cond 1 0 1 1 1 T".to_string()], 2);
    emit_circuit(&mut out, 2, 1, 2, &["gate 1 0 H".to_string(), "measure 0 0 Z".to_string(), "cond 1 0 1 1 1 X".to_string()], 3);
    emit_circuit(&mut out, 1, 1, 1, &["gate 1 0 Loop z 0 q 1 1 T 1 0".to_string()], 4);
    emit_circuit(&mut out, 2, 2, 3, &["gate 2 0 1 Comp bell 2 2 H 1 0 CX 2 0 1".to_string(), "measureall 2 0 1 Z".to_string()], 5);
    emit_circuit(&mut out, 2, 2, 3, &["gate 2 1 0 CH".to_string()], 6);

    // 6. wide composites
    emit_wide(&mut out, "Comp w 5 3 X 1 0 Y 1 3 Kron Kron H S Kron CX V 5 4 2 0 1 3", if th { 256 } else { 48 }, &mut rng);
    emit_wide(&mut out, "Comp w 6 3 Z 1 5 CX 2 0 5 Comp in 5 3 H 1 0 CZ 2 0 4 Sdg 1 2 5 5 0 1 2 3", if th { 256 } else { 48 }, &mut rng);
    for i in 0..(if th { 60 } else { 6 })
    {
        let n = if i % 3 == 2 { 6 } else { 5 };
        let term = gen_wide(n, &mut rng);
        emit_wide(&mut out, &term, if th { 256 } else { 48 }, &mut rng);
    }

    // 8. wide loops
    emit_wide_loop(&mut out, "Loop wl 2 wb 33 4 H 1 0 CX 2 0 32 S 1 1 CZ 2 1 31", &mut rng);
    for i in 0..(if th { 60 } else { 10 })
    {
        let n = [33usize, 34, 40, 64, 65][i % 5];
        let term = gen_wide_loop(n, &mut rng);
        emit_wide_loop(&mut out, &term, &mut rng);
    }

    // 7. building histories
    for i in 0..(if th { 2000 } else { 300 })
    {
        let (nq, nc, ops) = gen_history(&mut rng);
        let shots = 1 + rng.below(3) as usize;
        let mid = if i % 2 == 1 { Some(rng.below(ops.len() as u64 + 1) as usize) } else { None };
        emit_history(&mut out, nq, nc, shots, mid, &ops, 5000 + 2 * i as u64);
    }
    emit_history(&mut out, 2, 1, 1, None, &["gate 1 0 H".to_string(), "cond 1 0 1 1 1 T".to_string()], 7);
    emit_history(&mut out, 2, 1, 1, Some(1), &["gate 1 0 H".to_string(), "cond 1 0 1 1 1 T".to_string()], 8);
    emit_history(&mut out, 2, 1, 1, Some(1), &["gate 1 0 T".to_string(), "gate 1 1 H".to_string()], 9);
    emit_history(&mut out, 1, 1, 1, Some(0), &["cond 1 0 0 1 0 RX 3ff0000000000000".to_string()], 10);

    let n = out.finish();
    eprintln!("c06: {} cases", n);
}

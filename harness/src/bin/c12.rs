//! C12: c-QASM export. Requests in the line protocol of lean/Driver/C12.lean.
//!
//! `circ <nq> <nc> | <op> | <op> …`: a circuit built through the public `Circuit` API, answered by
//! `Circuit::c_qasm()`: `ok <text, %-encoded>` | `err <constructor> [payload]` | `panic`.
//!
//! ops:   g <term> @ <bits>        cg <target> <control bits> : <term> @ <bits>
//!        m <q> <c> <X|Y|Z>        ma <X|Y|Z> <cbits>     pk <q> <c> <B>     pka <B> <cbits>
//!        r <q>                    ra                     b <bits>
//! terms: <LibName> <param>*       (param = 16 hex digits of the f64, or `&<name>=<16 hex>` for a reference)
//!        C <term> | Kron <term> <term>
//!        Comp <name> <nbits> <k> { <term> <m> <bit>*m }*k
//!        Loop <label> <iters> <name> <nbits> <k> { <term> <m> <bit>*m }*k
use q1t_harness::gate::Dyn;
use q1t_harness::*;
use q1tsim::circuit::{Basis, Circuit};
use q1tsim::error::{Error, ExportError};
use q1tsim::export::CircuitGate;
use q1tsim::gates::*;
use std::panic::AssertUnwindSafe;

#[derive(Clone, Debug)]
enum P { Val(f64), Ref(String, f64) }
impl P
{
    fn param(&self) -> Parameter
    {
        match self
        {
            P::Val(x) => Parameter::from(*x),
            P::Ref(n, v) => Parameter::from_refcell(&std::rc::Rc::new(std::cell::RefCell::new(*v)), n)
        }
    }
    fn text(&self) -> String
    {
        match self { P::Val(x) => fbits(*x), P::Ref(n, v) => format!("&{}={}", n, fbits(*v)) }
    }
    fn val(&self) -> f64 { match self { P::Val(x) => *x, P::Ref(_, v) => *v } }
}

/// a library gate term; `CU2::new` / `CU3::new` only take `f64`, so they never hold a reference
fn mk_lib(name: &'static str, ps: Vec<P>) -> GT
{
    if name == "CU2" || name == "CU3" { GT::Lib(name, ps.into_iter().map(|p| P::Val(p.val())).collect()) } else { GT::Lib(name, ps) }
}

#[derive(Clone, Debug)]
enum GT
{
    Lib(&'static str, Vec<P>),
    C(Box<GT>),
    Kron(Box<GT>, Box<GT>),
    Comp(String, usize, Vec<(GT, Vec<usize>)>),
    Loop(String, usize, String, usize, Vec<(GT, Vec<usize>)>)
}

/// (name, nr of parameters, nr of bits)
const LIB: &[(&str, usize, usize)] = &[
    ("H", 0, 1), ("X", 0, 1), ("Y", 0, 1), ("Z", 0, 1), ("S", 0, 1), ("Sdg", 0, 1), ("T", 0, 1), ("Tdg", 0, 1),
    ("V", 0, 1), ("Vdg", 0, 1), ("I", 0, 1), ("RX", 1, 1), ("RY", 1, 1), ("RZ", 1, 1), ("U1", 1, 1), ("U2", 2, 1),
    ("U3", 3, 1), ("CX", 0, 2), ("CY", 0, 2), ("CZ", 0, 2), ("Swap", 0, 2), ("CH", 0, 2), ("CRX", 1, 2),
    ("CRY", 1, 2), ("CRZ", 1, 2), ("CS", 0, 2), ("CSdg", 0, 2), ("CT", 0, 2), ("CTdg", 0, 2), ("CU1", 1, 2),
    ("CU2", 2, 2), ("CU3", 3, 2), ("CV", 0, 2), ("CVdg", 0, 2), ("CCRX", 1, 3), ("CCRY", 1, 3), ("CCRZ", 1, 3),
    ("CCX", 0, 3), ("CCZ", 0, 3)
];

/// gates whose translation is one well-formed cQASM line for every (direct, finite) parameter value
const CLEAN: &[&str] = &["H", "X", "Y", "Z", "S", "Sdg", "T", "Tdg", "V", "Vdg", "I", "RX", "RY", "RZ", "U1",
    "CX", "CZ", "Swap", "CS", "CSdg", "CT", "CTdg", "CU1", "CCX"];
/// gates with a multi-line translation that is correct when not conditioned
const MULTI: &[&str] = &["CY", "CRX", "CU3", "CCRX", "CCRY", "CCZ"];

fn lib_entry(name: &str) -> &'static (&'static str, usize, usize) { LIB.iter().find(|e| e.0 == name).unwrap() }

fn build_lib(name: &str, p: &[P]) -> Dyn
{
    let b: Box<dyn CircuitGate> = match name
    {
        "H" => Box::new(H::new()), "X" => Box::new(X::new()), "Y" => Box::new(Y::new()),
        "Z" => Box::new(Z::new()), "S" => Box::new(S::new()), "Sdg" => Box::new(Sdg::new()),
        "T" => Box::new(T::new()), "Tdg" => Box::new(Tdg::new()), "V" => Box::new(V::new()),
        "Vdg" => Box::new(Vdg::new()), "I" => Box::new(I::new()),
        "RX" => Box::new(RX::new(p[0].param())), "RY" => Box::new(RY::new(p[0].param())),
        "RZ" => Box::new(RZ::new(p[0].param())), "U1" => Box::new(U1::new(p[0].param())),
        "U2" => Box::new(U2::new(p[0].param(), p[1].param())),
        "U3" => Box::new(U3::new(p[0].param(), p[1].param(), p[2].param())),
        "CX" => Box::new(CX::new()), "CY" => Box::new(CY::new()), "CZ" => Box::new(CZ::new()),
        "Swap" => Box::new(Swap::new()), "CH" => Box::new(CH::new()),
        "CRX" => Box::new(CRX::new(p[0].param())), "CRY" => Box::new(CRY::new(p[0].param())),
        "CRZ" => Box::new(CRZ::new(p[0].param())), "CS" => Box::new(CS::new()),
        "CSdg" => Box::new(CSdg::new()), "CT" => Box::new(CT::new()), "CTdg" => Box::new(CTdg::new()),
        "CU1" => Box::new(CU1::new(p[0].param())), "CU2" => Box::new(CU2::new(p[0].val(), p[1].val())),
        "CU3" => Box::new(CU3::new(p[0].val(), p[1].val(), p[2].val())), "CV" => Box::new(CV::new()),
        "CVdg" => Box::new(CVdg::new()), "CCRX" => Box::new(CCRX::new(p[0].param())),
        "CCRY" => Box::new(CCRY::new(p[0].param())), "CCRZ" => Box::new(CCRZ::new(p[0].param())),
        "CCX" => Box::new(CCX::new()), "CCZ" => Box::new(CCZ::new()),
        _ => panic!("unknown library gate {}", name)
    };
    Dyn::Full(b)
}

impl GT
{
    fn nbits(&self) -> usize
    {
        match self
        {
            GT::Lib(n, _) => lib_entry(n).2,
            GT::C(g) => 1 + g.nbits(),
            GT::Kron(a, b) => a.nbits() + b.nbits(),
            GT::Comp(_, n, _) => *n,
            GT::Loop(_, _, _, n, _) => *n
        }
    }

    fn composite(name: &str, n: usize, subs: &[(GT, Vec<usize>)]) -> Composite
    {
        let mut c = Composite::new(name, n);
        for (g, bits) in subs { c.add_gate(g.build(), bits); }
        c
    }

    fn build(&self) -> Dyn
    {
        match self
        {
            GT::Lib(n, p) => build_lib(n, p),
            GT::C(g) => Dyn::Plain(std::rc::Rc::new(C::new(g.build()))),
            GT::Kron(a, b) => Dyn::Full(Box::new(Kron::new(a.build(), b.build()))),
            GT::Comp(name, n, subs) => Dyn::Full(Box::new(Self::composite(name, *n, subs))),
            GT::Loop(label, k, name, n, subs) => Dyn::Full(Box::new(Loop::new(label, *k, Self::composite(name, *n, subs))))
        }
    }

    fn ops_text(subs: &[(GT, Vec<usize>)]) -> String
    {
        let mut s = format!("{}", subs.len());
        for (g, bits) in subs { s += &format!(" {} {}", g.text(), bits.len()); for b in bits { s += &format!(" {}", b); } }
        s
    }

    fn text(&self) -> String
    {
        match self
        {
            GT::Lib(n, p) => { let mut s = n.to_string(); for x in p { s += " "; s += &x.text(); } s },
            GT::C(g) => format!("C {}", g.text()),
            GT::Kron(a, b) => format!("Kron {} {}", a.text(), b.text()),
            GT::Comp(name, n, subs) => format!("Comp {} {} {}", name, n, Self::ops_text(subs)),
            GT::Loop(label, k, name, n, subs) => format!("Loop {} {} {} {} {}", label, k, name, n, Self::ops_text(subs))
        }
    }
}

// ------------------------------------------------------------------------------------------
// random generation

const ANGLES: &[f64] = &[0.0, 0.5, -0.25, 1.0, -1.0, 2.25, 3.0, -3.5, std::f64::consts::PI, -std::f64::consts::PI,
    std::f64::consts::FRAC_PI_2, -std::f64::consts::FRAC_PI_2, std::f64::consts::FRAC_PI_4, 0.1, -0.1, 1.23456789012345,
    7.5, -12.75, 100.0, 2.0 * std::f64::consts::PI + 0.25];
const EXOTIC: &[f64] = &[1.0e22, -1.0e22, 1.0e300, 1.0e-300, -1.0e-300, 5.0e-324, 1.7976931348623157e308, -0.0, 1.0e-7,
    123456789.125, 9007199254740993.0, 0.30000000000000004];

#[derive(Clone, Copy, PartialEq)]
enum Flavour { Clean, Mixed }

fn gen_param(rng: &mut SplitMix64, fl: Flavour) -> P
{
    if fl == Flavour::Clean
    {
        return P::Val(if rng.below(3) == 0 { (rng.unit() - 0.5) * 14.0 } else if rng.below(12) == 0 { *rng.pick(EXOTIC) } else { *rng.pick(ANGLES) });
    }
    match rng.below(40)
    {
        0 | 1 | 2 => P::Ref(rng.pick(&["theta", "phi", "a1", "x"]).to_string(), *rng.pick(ANGLES)),
        3 | 4 | 5 | 6 => P::Val(*rng.pick(EXOTIC)),
        7 => P::Val(*rng.pick(&[std::f64::NAN, std::f64::INFINITY, std::f64::NEG_INFINITY])),
        8..=20 => P::Val((rng.unit() - 0.5) * 14.0),
        _ => P::Val(*rng.pick(ANGLES))
    }
}

fn gen_lib(rng: &mut SplitMix64, max_bits: usize, fl: Flavour, conditioned: bool) -> GT
{
    loop
    {
        let e = if fl == Flavour::Clean
        {
            let pool: &[&str] = if conditioned || rng.below(3) > 0 { CLEAN } else { MULTI };
            { let nm: &str = *rng.pick(pool); lib_entry(nm) }
        } else { rng.pick(LIB) };
        if e.2 <= max_bits
        {
            // huge magnitudes only in one-parameter gates: with two or three parameters `phi + lambda` absorbs the
            // smaller one in f64, in the simulator and in the template arithmetic alike but not identically
            let mut ps: Vec<P> = (0..e.1).map(|_| loop {
                let p = gen_param(rng, fl);
                let big = match &p { P::Val(x) => x.abs() > 1.0e6, P::Ref(_, x) => x.abs() > 1.0e6 };
                if e.1 == 1 || !big { break p; }
            }).collect();
            // the clean flavour keeps CRY / CCRY angles positive (negative ones print `--`)
            if fl == Flavour::Clean && (e.0 == "CRY" || e.0 == "CCRY" || e.0 == "CCRX" || e.0 == "CRX")
            {
                ps = ps.into_iter().map(|p| match p { P::Val(x) => P::Val(x), o => o }).collect();
            }
            return mk_lib(e.0, ps);
        }
    }
}

/// random placement of `k` distinct elements of `0..n` (k <= n)
fn placement(rng: &mut SplitMix64, n: usize, k: usize) -> Vec<usize>
{
    let mut v: Vec<usize> = (0..n).collect();
    rng.shuffle(&mut v);
    v.truncate(k);
    v
}

fn gen_subs(rng: &mut SplitMix64, n: usize, depth: usize, fl: Flavour, conditioned: bool) -> Vec<(GT, Vec<usize>)>
{
    let k = if fl == Flavour::Clean { 1 + rng.below(3) as usize } else { rng.below(4) as usize };
    let mut subs = vec![];
    if n == 0 { return subs; }
    for _ in 0..k
    {
        let g = gen_gate(rng, n, depth, fl, conditioned);
        let mut bits = placement(rng, n, g.nbits());
        if fl == Flavour::Mixed && rng.below(60) == 0 && !bits.is_empty() { bits[0] = n + rng.below(2) as usize; }
        if fl == Flavour::Mixed && rng.below(60) == 0 { bits.pop(); }
        subs.push((g, bits));
    }
    subs
}

fn ident(rng: &mut SplitMix64, pre: &str) -> String { format!("{}{}", pre, rng.below(10)) }

fn gen_gate(rng: &mut SplitMix64, max_bits: usize, depth: usize, fl: Flavour, conditioned: bool) -> GT
{
    debug_assert!(max_bits >= 1);
    let r = rng.below(100);
    if depth == 0 || r < 62 { return gen_lib(rng, max_bits, fl, conditioned); }
    if r < 66 && max_bits >= 2 && fl == Flavour::Mixed { return GT::C(Box::new(gen_gate(rng, max_bits - 1, depth - 1, fl, conditioned))); }
    if r < 78 && max_bits >= 2
    {
        // inside a bundle only single-line translations are well formed: the clean flavour keeps to them
        let a = if fl == Flavour::Clean && !conditioned { gen_lib(rng, max_bits - 1, fl, true) } else { gen_gate(rng, max_bits - 1, depth - 1, fl, conditioned) };
        let rest = max_bits - a.nbits();
        let b = if fl == Flavour::Clean && !conditioned { gen_lib(rng, rest, fl, true) } else { gen_gate(rng, rest, depth - 1, fl, conditioned) };
        return GT::Kron(Box::new(a), Box::new(b));
    }
    let n = 1 + rng.below(max_bits as u64) as usize;
    if r < 92 { return GT::Comp(ident(rng, "g"), n, gen_subs(rng, n, depth - 1, fl, conditioned)); }
    let iters = *rng.pick(&[0usize, 1, 2, 2, 3]);
    GT::Loop(ident(rng, "l"), iters, ident(rng, "b"), n, gen_subs(rng, n, depth - 1, fl, conditioned))
}

fn basis(rng: &mut SplitMix64) -> (Basis, &'static str)
{
    match rng.below(4) { 0 => (Basis::X, "X"), 1 => (Basis::Y, "Y"), _ => (Basis::Z, "Z") }
}

struct Case { nq: usize, nc: usize, c: Circuit, ops: Vec<String> }
impl Case
{
    fn new(nq: usize, nc: usize) -> Self { Case { nq, nc, c: Circuit::new(nq, nc), ops: vec![] } }
    fn gate(&mut self, g: &GT, bits: &[usize]) -> bool
    {
        let ok = self.c.add_gate(g.build(), bits).is_ok();
        if ok { self.ops.push(format!("g {} @ {}", g.text(), join(bits))); }
        ok
    }
    fn cgate(&mut self, control: &[usize], target: u64, g: &GT, bits: &[usize]) -> bool
    {
        let ok = self.c.add_conditional_gate(control, target, g.build(), bits).is_ok();
        if ok { self.ops.push(format!("cg {} {} : {} @ {}", target, join(control), g.text(), join(bits))); }
        ok
    }
    fn measure(&mut self, q: usize, cb: usize, b: (Basis, &'static str)) -> bool
    {
        let ok = self.c.measure_basis(q, cb, b.0).is_ok();
        if ok { self.ops.push(format!("m {} {} {}", q, cb, b.1)); }
        ok
    }
    fn measure_all(&mut self, cbits: &[usize], b: (Basis, &'static str)) -> bool
    {
        let ok = self.c.measure_all_basis(cbits, b.0).is_ok();
        if ok { self.ops.push(format!("ma {} {}", b.1, join(cbits)).trim_end().to_string()); }
        ok
    }
    fn peek(&mut self, q: usize, cb: usize, b: (Basis, &'static str)) -> bool
    {
        let ok = self.c.peek_basis(q, cb, b.0).is_ok();
        if ok { self.ops.push(format!("pk {} {} {}", q, cb, b.1)); }
        ok
    }
    fn peek_all(&mut self, cbits: &[usize], b: (Basis, &'static str)) -> bool
    {
        let ok = self.c.peek_all_basis(cbits, b.0).is_ok();
        if ok { self.ops.push(format!("pka {} {}", b.1, join(cbits)).trim_end().to_string()); }
        ok
    }
    fn reset(&mut self, q: usize) -> bool
    {
        let ok = self.c.reset(q).is_ok();
        if ok { self.ops.push(format!("r {}", q)); }
        ok
    }
    fn reset_all(&mut self) { self.c.reset_all(); self.ops.push("ra".to_string()); }
    fn barrier(&mut self, q: &[usize]) -> bool
    {
        let ok = self.c.barrier(q).is_ok();
        if ok { self.ops.push(format!("b {}", join(q))); }
        ok
    }
    fn run(self, out: &mut Out)
    {
        let mut req = format!("circ {} {}", self.nq, self.nc);
        for o in self.ops.iter() { req += " | "; req += o; }
        let c = self.c;
        let r = catch(AssertUnwindSafe(|| c.c_qasm()));
        out.case(&req, &answer(r));
    }
}

/// One random operation.
fn gen_op(rng: &mut SplitMix64, cs: &mut Case, fl: Flavour, measured: &mut Vec<usize>)
{
    let (nq, nc) = (cs.nq, cs.nc);
    let r = rng.below(1000);
    let clean = fl == Flavour::Clean;
    if r < 420 || (r < 640 && nq > 0)
    {
        if nq == 0
        {
            let g = GT::Comp("e".into(), 0, vec![]);
            cs.gate(&g, &[]);
            return;
        }
        let conditioned = r >= 420;
        let g = gen_gate(rng, nq.min(3), if clean { 2 } else { 3 }, fl, conditioned);
        let mut bits = placement(rng, nq, g.nbits());
        if !clean
        {
            let m = rng.below(90);
            if m == 0 && !bits.is_empty() { bits.pop(); }
            else if m == 1 { bits.push(rng.below(nq as u64) as usize); }
        }
        if !conditioned { cs.gate(&g, &bits); return; }
        // conditional gate: in the clean flavour on distinct, already measurable bits, target within the control list
        let lim = nc.min(if clean { nq } else { nc });
        let k = if clean { 1 + rng.below(lim.max(1) as u64) as usize } else { rng.below(lim as u64 + 1) as usize };
        let mut control = placement(rng, lim, k.min(lim));
        if !clean && rng.below(25) == 0 && control.len() >= 1 { let c0 = control[0]; control.push(c0); }
        if clean && control.is_empty() { return; }
        let span = control.len().min(6) as u64;
        let target = if !clean && rng.below(12) == 0 { rng.below(1 << (span + 1)) } else { rng.below(1 << span.max(0)) };
        let _ = measured;
        cs.cgate(&control, target, &g, &bits);
    }
    else if r < 780
    {
        if nq == 0 || nc == 0 { return; }
        let q = rng.below(nq as u64) as usize;
        let cb = if clean || rng.below(8) > 0 { q } else { rng.below(nc as u64) as usize };
        if cb >= nc { return; }
        let b = basis(rng);
        if cs.measure(q, cb, b) { measured.push(cb); }
    }
    else if r < 830
    {
        if nc < nq && clean { return; }
        let mut cbits: Vec<usize> = (0..nq).collect();
        if !clean && rng.below(6) == 0 && nq >= 2 { cbits.swap(0, 1); }
        if !clean && rng.below(10) == 0 { cbits.pop(); }
        if cbits.iter().any(|&c| c >= nc) { return; }
        let b = if clean { (Basis::Z, "Z") } else { basis(rng) };
        cs.measure_all(&cbits, b);
    }
    else if r < 840
    {
        if clean || nq == 0 || nc == 0 { return; }
        let q = rng.below(nq as u64) as usize;
        let b = basis(rng);
        cs.peek(q, q.min(nc - 1), b);
    }
    else if r < 845
    {
        if clean || nc < nq { return; }
        let cbits: Vec<usize> = (0..nq).collect();
        let b = basis(rng);
        cs.peek_all(&cbits, b);
    }
    else if r < 920
    {
        if nq == 0 { return; }
        cs.reset(rng.below(nq as u64) as usize);
    }
    else if r < 950
    {
        cs.reset_all();
    }
    else
    {
        if nq == 0 { return; }
        let k = 1 + rng.below(nq as u64) as usize;
        let qbits = placement(rng, nq, k);
        cs.barrier(&qbits);
    }
}

// ------------------------------------------------------------------------------------------
// answers

fn encode(s: &str) -> String { s.replace('%', "%25").replace('\n', "%0A").replace('\t', "%09") }

fn show_err(e: &Error) -> String
{
    match e
    {
        Error::InvalidNrBits(n, e, _) => format!("err InvalidNrBits {} {}", n, e),
        Error::ExportError(ExportError::NotImplemented(_, _)) => "err NotImplemented".to_string(),
        Error::ExportError(ExportError::InvalidConditionalOp(_)) => "err InvalidConditionalOp".to_string(),
        Error::ExportError(ExportError::ExportPeekInvalid(_)) => "err ExportPeekInvalid".to_string(),
        Error::ExportError(ExportError::NoClassicalRegister) => "err NoClassicalRegister".to_string(),
        e => format!("err Other {}", format!("{:?}", e).replace(' ', "_"))
    }
}

fn answer(r: Option<Result<String, Error>>) -> String
{
    match r
    {
        None => "panic".to_string(),
        Some(Ok(t)) => format!("ok {}", encode(&t)),
        Some(Err(e)) => show_err(&e)
    }
}

fn lib(n: &'static str) -> GT { GT::Lib(n, vec![]) }
fn lib1(n: &'static str, a: f64) -> GT { GT::Lib(n, vec![P::Val(a)]) }
fn kron(a: GT, b: GT) -> GT { GT::Kron(Box::new(a), Box::new(b)) }
fn comp(n: usize, subs: Vec<(GT, Vec<usize>)>) -> GT { GT::Comp("cmp".into(), n, subs) }
fn lp(k: usize, n: usize, subs: Vec<(GT, Vec<usize>)>) -> GT { GT::Loop("lbl".into(), k, "body".into(), n, subs) }

fn main()
{
    let dir = std::env::args().nth(1).expect("usage: c12 <outdir>");
    silence_panics();
    let mut rng = SplitMix64::from_env();
    let mut out = Out::new(&dir);
    let z = (Basis::Z, "Z");

    // (0) fixed witnesses: one per defect class (so that every class is exercised on every run), and the
    //     smallest examples of the behaviour that is right
    {
        // right: Bell pair, measured, conditional X on the result
        let mut c = Case::new(2, 2);
        c.gate(&lib("H"), &[0]); c.gate(&lib("CX"), &[0, 1]); c.measure(0, 0, z); c.cgate(&[0], 1, &lib("X"), &[1]); c.measure(1, 1, z);
        c.run(&mut out);
        // right: `not` bracketing for target bits that are 0
        let mut c = Case::new(3, 3);
        c.gate(&lib("H"), &[0]); c.gate(&lib("H"), &[1]); c.measure_all(&[0, 1, 2], z); c.cgate(&[1, 0], 1, &lib("X"), &[2]); c.measure(2, 2, z);
        c.run(&mut out);
        // defect: multi-line translation under a condition (only the first line is prefixed)
        let mut c = Case::new(2, 2);
        c.gate(&lib("H"), &[0]); c.gate(&lib("H"), &[1]); c.measure(0, 0, z); c.cgate(&[0], 1, &lib("CY"), &[0, 1]);
        c.run(&mut out);
        // defect: U2 / U3 text
        let mut c = Case::new(1, 1);
        c.gate(&GT::Lib("U2", vec![P::Val(1.0), P::Val(2.25)]), &[0]);
        c.run(&mut out);
        let mut c = Case::new(1, 1);
        c.gate(&GT::Lib("U3", vec![P::Val(1.0), P::Val(2.25), P::Val(3.5)]), &[0]);
        c.run(&mut out);
        // defect: CRY with a negative angle
        let mut c = Case::new(2, 2);
        c.gate(&lib1("CRY", -0.5), &[0, 1]);
        c.run(&mut out);
        // right: CRY with a positive angle
        let mut c = Case::new(2, 2);
        c.gate(&lib("H"), &[0]); c.gate(&lib1("CRY", 0.5), &[0, 1]);
        c.run(&mut out);
        // defect: measure_all in X / Y without rotating back
        for b in [(Basis::X, "X"), (Basis::Y, "Y")]
        {
            let mut c = Case::new(1, 1);
            c.gate(&lib("H"), &[0]); c.measure_all(&[0], b);
            c.run(&mut out);
        }
        // right: single-qubit measurement in X / Y
        for b in [(Basis::X, "X"), (Basis::Y, "Y")]
        {
            let mut c = Case::new(1, 1);
            c.gate(&lib("T"), &[0]); c.gate(&lib("H"), &[0]); c.measure(0, 0, b);
            c.run(&mut out);
        }
        // defect: empty control list with target != 0 (never executed, exported unconditionally)
        let mut c = Case::new(1, 1);
        c.cgate(&[], 1, &lib("X"), &[0]); c.measure(0, 0, z);
        c.run(&mut out);
        // right: empty control list with target 0
        let mut c = Case::new(1, 1);
        c.cgate(&[], 0, &lib("X"), &[0]); c.measure(0, 0, z);
        c.run(&mut out);
        // defect: target with bits beyond the control list (never executed, exported on the low bits)
        let mut c = Case::new(1, 1);
        c.cgate(&[0], 2, &lib("X"), &[0]);
        c.run(&mut out);
        // defect: repeated control bit
        let mut c = Case::new(2, 2);
        c.gate(&lib("X"), &[0]); c.measure(0, 0, z); c.cgate(&[0, 0], 0, &lib("X"), &[1]);
        c.run(&mut out);
        // defect: reference parameter exported by name, plain and inside a template hole
        let mut c = Case::new(1, 0);
        c.gate(&GT::Lib("RX", vec![P::Ref("theta".into(), 0.5)]), &[0]);
        c.run(&mut out);
        let mut c = Case::new(2, 0);
        c.gate(&GT::Lib("CRX", vec![P::Ref("theta".into(), 0.5)]), &[0, 1]);
        c.run(&mut out);
        // Loop, plain and under a condition
        let mut c = Case::new(1, 1);
        c.gate(&lp(3, 1, vec![(lib("H"), vec![0]), (lib("T"), vec![0])]), &[0]); c.gate(&lib("X"), &[0]);
        c.run(&mut out);
        let mut c = Case::new(2, 2);
        c.gate(&lib("X"), &[0]); c.measure(0, 0, z); c.cgate(&[0], 1, &lp(3, 1, vec![(lib("H"), vec![0]), (lib("T"), vec![0])]), &[1]);
        c.run(&mut out);
        let mut c = Case::new(2, 2);
        c.cgate(&[0], 1, &lp(0, 1, vec![(lib("H"), vec![0])]), &[1]); c.gate(&lib("H"), &[0]);
        c.run(&mut out);
        // defect: a Loop inside a Loop (cQASM sub-circuits do not nest)
        let mut c = Case::new(1, 0);
        c.gate(&lp(2, 1, vec![(GT::Loop("inner".into(), 1, "ib".into(), 1, vec![(lib("T"), vec![0])]), vec![0]), (lib("H"), vec![0])]), &[0]);
        c.run(&mut out);
        // defect: instruction names that are not cQASM
        for n in ["CH", "CV", "CVdg"]
        {
            let mut c = Case::new(2, 0);
            c.gate(&lib(n), &[0, 1]);
            c.run(&mut out);
        }
        let mut c = Case::new(2, 0);
        c.gate(&lib1("CRZ", 0.5), &[0, 1]);
        c.run(&mut out);
        let mut c = Case::new(2, 0);
        c.gate(&GT::Lib("CU2", vec![P::Val(0.5), P::Val(0.25)]), &[0, 1]);
        c.run(&mut out);
        // CCRZ: cr-based template
        let mut c = Case::new(3, 0);
        c.gate(&lib("H"), &[0]); c.gate(&lib("H"), &[1]); c.gate(&lib("H"), &[2]); c.gate(&lib1("CCRZ", 1.0), &[0, 1, 2]);
        c.run(&mut out);
        // Kron: one-line parts, multi-line part, composite part, empty composite part, nested Kron, loop part
        let mut c = Case::new(2, 0);
        c.gate(&kron(lib("H"), lib("X")), &[1, 0]);
        c.run(&mut out);
        let mut c = Case::new(3, 0);
        c.gate(&kron(lib("CY"), lib("H")), &[0, 1, 2]);
        c.run(&mut out);
        let mut c = Case::new(2, 0);
        c.gate(&kron(comp(1, vec![(lib("H"), vec![0]), (lib("X"), vec![0])]), lib("H")), &[0, 1]);
        c.run(&mut out);
        let mut c = Case::new(2, 0);
        c.gate(&kron(comp(1, vec![]), lib("H")), &[0, 1]);
        c.run(&mut out);
        let mut c = Case::new(3, 0);
        c.gate(&kron(kron(lib("H"), lib("X")), lib("Z")), &[0, 1, 2]);
        c.run(&mut out);
        let mut c = Case::new(2, 0);
        c.gate(&kron(lp(2, 1, vec![(lib("H"), vec![0])]), lib("X")), &[0, 1]);
        c.run(&mut out);
        // conditional Kron (rendered part by part)
        let mut c = Case::new(2, 2);
        c.gate(&lib("X"), &[0]); c.measure(0, 0, z); c.cgate(&[0], 1, &kron(lib("H"), lib("X")), &[0, 1]);
        c.run(&mut out);
        // panics: condition on a classical bit that has no qubit; gate with too few operands; 65 control bits
        let mut c = Case::new(1, 2);
        c.cgate(&[1], 1, &lib("X"), &[0]);
        c.run(&mut out);
        let mut c = Case::new(1, 0);
        c.gate(&lib("H"), &[]);
        c.run(&mut out);
        let mut c = Case::new(2, 0);
        c.gate(&kron(lib("H"), lib("X")), &[0]);
        c.run(&mut out);
        let mut c = Case::new(1, 1);
        c.cgate(&vec![0usize; 65], 0, &lib("X"), &[0]);
        c.run(&mut out);
        // errors: peeks, qubit != bit, C<G>, CX on one qubit, template gate on too few qubits
        let mut c = Case::new(1, 1);
        c.gate(&lib("H"), &[0]); c.peek(0, 0, z);
        c.run(&mut out);
        let mut c = Case::new(2, 2);
        c.gate(&lib("H"), &[0]); c.peek_all(&[0, 1], z);
        c.run(&mut out);
        let mut c = Case::new(2, 2);
        c.measure(0, 1, z);
        c.run(&mut out);
        let mut c = Case::new(2, 2);
        c.measure_all(&[1, 0], z);
        c.run(&mut out);
        let mut c = Case::new(2, 0);
        c.gate(&GT::C(Box::new(lib("H"))), &[0, 1]);
        c.run(&mut out);
        let mut c = Case::new(2, 2);
        c.cgate(&[0], 1, &GT::C(Box::new(lib("H"))), &[0, 1]);
        c.run(&mut out);
        let mut c = Case::new(2, 0);
        c.gate(&lib("CX"), &[0]);
        c.run(&mut out);
        let mut c = Case::new(3, 0);
        c.gate(&lib("CCX"), &[0, 1]);
        c.run(&mut out);
        let mut c = Case::new(2, 1);
        c.cgate(&[0], 1, &lib("CH"), &[]);
        c.run(&mut out);
        // no qubits
        let mut c = Case::new(0, 0);
        c.reset_all(); c.measure_all(&[], (Basis::X, "X"));
        c.run(&mut out);
    }
    // (1) every library gate: plain, conditional on one bit and on two bits (all four targets), as a Kron part, inside a
    //     composite and a loop, conditional inside a composite; positive, negative, exotic and reference parameters
    for e in LIB.iter()
    {
        for variant in 0..6
        {
            let ps: Vec<P> = (0..e.1).map(|i| match variant {
                0 => P::Val([0.5, 1.25, 2.0][i % 3]),
                1 => P::Val([-0.5, -1.25, -2.0][i % 3]),
                2 => P::Val(if e.1 == 1 { *rng.pick(EXOTIC) } else { *rng.pick(&[1.0e-300, 5.0e-324, -0.0, 1.0e-7, 123456.125]) }),
                3 => if i == 0 { P::Ref("theta".into(), 0.75) } else { P::Val(0.3) },
                _ => P::Val((rng.unit() - 0.5) * 14.0)
            }).collect();
            if e.1 == 0 && variant > 0 { continue; }
            let g = mk_lib(e.0, ps);
            let nq = 3;
            let bits = placement(&mut rng, nq, e.2);
            // plain, after Hadamards so that the state is generic
            let mut c = Case::new(nq, nq);
            for q in 0..nq { c.gate(&lib("H"), &[q]); c.gate(&lib1("RZ", 0.3 + q as f64), &[q]); }
            c.gate(&g, &bits);
            c.run(&mut out);
            // conditional on one measured bit
            let mut c = Case::new(nq, nq);
            for q in 0..nq { c.gate(&lib("H"), &[q]); }
            c.measure(bits[0], bits[0], z);
            c.gate(&lib("H"), &[bits[0]]);
            c.cgate(&[bits[0]], 1, &g, &bits);
            c.run(&mut out);
            // conditional on two bits, every target
            if variant <= 1
            {
                for target in 0..4u64
                {
                    let mut c = Case::new(nq, nq);
                    for q in 0..nq { c.gate(&lib("H"), &[q]); }
                    c.measure(0, 0, z); c.measure(2, 2, z);
                    c.gate(&lib("H"), &[0]); c.gate(&lib("H"), &[2]);
                    c.cgate(&[2, 0], target, &g, &bits);
                    c.run(&mut out);
                }
            }
            // as a Kron part
            if e.2 <= 2
            {
                let k = kron(g.clone(), lib("T"));
                let kb = placement(&mut rng, nq, e.2 + 1);
                let mut c = Case::new(nq, nq);
                for q in 0..nq { c.gate(&lib("H"), &[q]); }
                c.gate(&k, &kb);
                c.run(&mut out);
            }
            // inside a composite and a loop; conditional composite
            let sub: Vec<usize> = (0..e.2).collect();
            let cm = comp(e.2, vec![(lib("H"), vec![0]), (g.clone(), sub.clone())]);
            let mut c = Case::new(nq, nq);
            for q in 0..nq { c.gate(&lib("H"), &[q]); }
            c.gate(&cm, &bits);
            c.gate(&lp(2, e.2, vec![(g.clone(), sub.clone())]), &bits);
            c.run(&mut out);
            let mut c = Case::new(nq, nq);
            c.gate(&lib("H"), &[bits[0]]);
            c.measure(bits[0], bits[0], z);
            c.cgate(&[bits[0]], 1, &cm, &bits);
            c.run(&mut out);
        }
    }
    // (1b) lessons from the seeded changes: placements other than [0..n-1] for conditional composites (with permuted
    //      sub-placements), control lists that are not a prefix of the register, measure_all with every permutation of the
    //      bit list (all but the identity must be refused), zero-iteration loops under a condition (plain, inside a
    //      composite, around a composite)
    {
        let perms3: [[usize; 3]; 6] = [[0, 1, 2], [0, 2, 1], [1, 0, 2], [1, 2, 0], [2, 0, 1], [2, 1, 0]];
        for p in perms3.iter()
        {
            for b in [(Basis::Z, "Z"), (Basis::X, "X"), (Basis::Y, "Y")]
            {
                let mut c = Case::new(3, 3);
                c.gate(&lib("H"), &[p[0]]);
                c.measure_all(&p[..], b);
                c.gate(&lib("X"), &[p[1]]);
                c.run(&mut out);
            }
            // a two-qubit composite with swapped sub-placements, on every ordered pair of the permutation
            let inner = comp(2, vec![(lib("H"), vec![1]), (lib("CX"), vec![1, 0]), (lib1("RZ", 0.75), vec![0]), (lib("CS"), vec![0, 1])]);
            for controls in [vec![2usize], vec![2, 0], vec![1, 2], vec![0, 2], vec![1]]
            {
                let target = rng.below(1 << controls.len());
                let mut c = Case::new(3, 3);
                for q in 0..3 { c.gate(&lib("H"), &[q]); }
                for &k in controls.iter() { c.measure(k, k, z); c.gate(&lib("H"), &[k]); }
                c.cgate(&controls, target, &inner, &[p[2], p[0]]);
                c.cgate(&controls, target, &comp(3, vec![(inner.clone(), vec![2, 0]), (lib("T"), vec![1])]), &p[..]);
                c.run(&mut out);
            }
            // zero-iteration loops under a condition
            let zl = lp(0, 1, vec![(lib("H"), vec![0]), (lib("X"), vec![0])]);
            let mut c = Case::new(3, 3);
            c.gate(&lib("H"), &[p[0]]); c.measure(p[0], p[0], z);
            c.cgate(&[p[0]], 1, &zl, &[p[1]]);
            c.cgate(&[p[0]], 1, &comp(2, vec![(lib("X"), vec![1]), (zl.clone(), vec![0]), (lib("H"), vec![0])]), &[p[2], p[1]]);
            c.cgate(&[p[0]], 0, &lp(0, 2, vec![(comp(2, vec![(lib("CX"), vec![1, 0])]), vec![0, 1])]), &[p[1], p[2]]);
            c.cgate(&[p[0]], 1, &lp(2, 2, vec![(lib("CX"), vec![1, 0]), (zl.clone(), vec![1])]), &[p[1], p[2]]);
            c.measure(p[1], p[1], z);
            c.run(&mut out);
        }
    }
    // (2) random circuits
    let ncirc = if thorough() { 30000 } else { 2500 };
    for i in 0..ncirc
    {
        let fl = if i % 2 == 0 { Flavour::Clean } else { Flavour::Mixed };
        let nq = if fl == Flavour::Mixed && rng.below(40) == 0 { 0 } else if rng.below(10) == 0 { 4 + rng.below(2) as usize } else { 1 + rng.below(3) as usize };
        let nc = if fl == Flavour::Clean { nq } else { match rng.below(6) { 0 => nq + 1, 1 => nq.saturating_sub(1), _ => nq } };
        let len = 1 + rng.below(if nq <= 3 { 9 } else { 12 }) as usize;
        let mut cs = Case::new(nq, nc);
        let mut measured = vec![];
        for _ in 0..len { gen_op(&mut rng, &mut cs, fl, &mut measured); }
        cs.run(&mut out);
    }
    let n = out.finish();
    eprintln!("c12: {} cases", n);
}

//! Shared by the C08 and C07 harness binaries (included with `#[path]`): a small op language over
//! the real `Circuit` API, execution with the trace hook on either representation.
#![allow(dead_code)]
use q1tsim::circuit::{Circuit, QuStateRepr};
use q1tsim::error::Error;
use q1tsim::gates::{CCX, CX, Kron, S, Swap, X, Y, Z};
use q1tsim::verif::{trace_start, trace_take, Snapshot, TraceEntry};
use rand::SeedableRng;

#[derive(Clone, Debug)]
pub enum Op
{
    Gate(&'static str, Vec<usize>),
    Cond(Vec<usize>, u64, &'static str, Vec<usize>),
    Measure(usize, usize),
    MeasureAll(Vec<usize>),
    Peek(usize, usize),
    PeekAll(Vec<usize>),
    Reset(usize),
    ResetAll,
    Barrier(Vec<usize>),
    /// Hadamard: only used by C07 to randomise registers; never part of a model request
    H(usize)
}

pub fn js(xs: &[usize]) -> String { xs.iter().map(|x| x.to_string()).collect::<Vec<_>>().join(" ") }
pub fn ju(xs: &[u64]) -> String { xs.iter().map(|x| x.to_string()).collect::<Vec<_>>().join(" ") }

pub fn op_text(op: &Op) -> String
{
    match op
    {
        Op::Gate(g, b) => format!("g {} {}", g, js(b)),
        Op::Cond(c, t, g, b) => format!("cond {} ; {} ; {} {}", js(c), t, g, js(b)),
        Op::Measure(q, c) => format!("m {} {}", q, c),
        Op::MeasureAll(cs) => format!("ma {}", js(cs)),
        Op::Peek(q, c) => format!("p {} {}", q, c),
        Op::PeekAll(cs) => format!("pa {}", js(cs)),
        Op::Reset(q) => format!("r {}", q),
        Op::ResetAll => "ra".to_string(),
        Op::Barrier(b) => format!("b {}", js(b)),
        Op::H(q) => format!("h {}", q)
    }
}

pub fn ops_text(ops: &[Op]) -> String { ops.iter().map(op_text).collect::<Vec<_>>().join(" | ") }

pub fn err_text(e: &Error) -> String
{
    match e
    {
        Error::InvalidQBit(b) => format!("InvalidQBit {}", b),
        Error::InvalidCBit(b) => format!("InvalidCBit {}", b),
        Error::InvalidNrMeasurementBits(a, b) => format!("InvalidNrMeasurementBits {} {}", a, b),
        Error::InvalidNrControlBits(a, b, _) => format!("InvalidNrControlBits {} {}", a, b),
        Error::InvalidNrBits(a, b, _) => format!("InvalidNrBits {} {}", a, b),
        Error::NotEnoughSpace(a, b) => format!("NotEnoughSpace {} {}", a, b),
        Error::NotExecuted => "NotExecuted".to_string(),
        e => format!("Other {:?}", e).replace('\n', " ")
    }
}

/// USER-DEFINED gates (harness/src/gate.rs: structs that only provide `matrix()`, so that every `apply*` route is the
/// default of the `Gate` trait; non-symmetric basis permutations), bare and inside the library's combinators.
/// (name, number of qubits)
pub const USER_GATES: [(&str, usize); 11] = [("Inc2", 2), ("Inc3", 3), ("Inc4", 4), ("CInc2", 3), ("CInc3", 4), ("KronXInc2", 3),
    ("KronXInc3", 4), ("KronInc2X", 3), ("KronInc3X", 4), ("CompXInc3", 4), ("LoopInc3", 3)];

pub fn is_user_gate(g: &str) -> bool { USER_GATES.iter().any(|(n, _)| *n == g) }

fn user_gate(g: &str) -> Option<q1t_harness::gate::Dyn>
{
    let term = match g
    {
        "Inc2" => "Inc2", "Inc3" => "Inc3", "Inc4" => "Inc4",
        "CInc2" => "C Inc2", "CInc3" => "C Inc3",
        "KronXInc2" => "Kron X Inc2", "KronXInc3" => "Kron X Inc3",
        "KronInc2X" => "Kron Inc2 X", "KronInc3X" => "Kron Inc3 X",
        "CompXInc3" => "Comp incx 4 2 X 1 3 Inc3 3 1 2 0",
        "LoopInc3" => "Loop l 2 u 3 1 Inc3 3 2 0 1",
        _ => return None
    };
    Some(q1t_harness::gate::parse_str(term))
}

fn add_named_gate(c: &mut Circuit, g: &str, bits: &[usize]) -> Result<(), Error>
{
    if let Some(d) = user_gate(g) { return c.add_gate(d, bits); }
    match g
    {
        "X" => c.add_gate(X::new(), bits),
        "Y" => c.add_gate(Y::new(), bits),
        "Z" => c.add_gate(Z::new(), bits),
        "S" => c.add_gate(S::new(), bits),
        "CX" => c.add_gate(CX::new(), bits),
        "CCX" => c.add_gate(CCX::new(), bits),
        "Swap" => c.add_gate(Swap::new(), bits),
        "KronXCX" => c.add_gate(Kron::new(X::new(), CX::new()), bits),
        "KronCXX" => c.add_gate(Kron::new(CX::new(), X::new()), bits),
        _ => panic!("unknown gate {}", g)
    }
}

fn add_named_cond(c: &mut Circuit, control: &[usize], target: u64, g: &str, bits: &[usize]) -> Result<(), Error>
{
    if let Some(d) = user_gate(g) { return c.add_conditional_gate(control, target, d, bits); }
    match g
    {
        "X" => c.add_conditional_gate(control, target, X::new(), bits),
        "Y" => c.add_conditional_gate(control, target, Y::new(), bits),
        "Z" => c.add_conditional_gate(control, target, Z::new(), bits),
        "S" => c.add_conditional_gate(control, target, S::new(), bits),
        "CX" => c.add_conditional_gate(control, target, CX::new(), bits),
        "CCX" => c.add_conditional_gate(control, target, CCX::new(), bits),
        "Swap" => c.add_conditional_gate(control, target, Swap::new(), bits),
        "KronXCX" => c.add_conditional_gate(control, target, Kron::new(X::new(), CX::new()), bits),
        "KronCXX" => c.add_conditional_gate(control, target, Kron::new(CX::new(), X::new()), bits),
        _ => panic!("unknown gate {}", g)
    }
}

pub fn add_op(c: &mut Circuit, op: &Op) -> Result<(), Error>
{
    match op
    {
        Op::Gate(g, b) => add_named_gate(c, g, b),
        Op::Cond(ctl, t, g, b) => add_named_cond(c, ctl, *t, g, b),
        Op::Measure(q, cb) => c.measure(*q, *cb),
        Op::MeasureAll(cs) => c.measure_all(cs),
        Op::Peek(q, cb) => c.peek(*q, *cb),
        Op::PeekAll(cs) => c.peek_all(cs),
        Op::Reset(q) => c.reset(*q),
        Op::ResetAll => { c.reset_all(); Ok(()) },
        Op::Barrier(b) => c.barrier(b),
        Op::H(q) => c.h(*q)
    }
}

pub enum Outcome
{
    /// a builder call returned an error
    BuildErr(String),
    /// `execute_with` returned an error
    RunErr(String),
    Panic,
    Done { circuit: Circuit, trace: Vec<TraceEntry> }
}

/// Build the circuit with the real builder API, run it with `execute_with` on the chosen
/// representation, recording the trace (state and register after every operation).
pub fn run_circuit(vector: bool, nq: usize, nc: usize, shots: usize, ops: &[Op], seed: u64) -> Outcome
{
    let ops = ops.to_vec();
    let r = std::panic::catch_unwind(move || {
        let mut c = Circuit::new(nq, nc);
        for op in ops.iter()
        {
            if let Err(e) = add_op(&mut c, op) { return Outcome::BuildErr(err_text(&e)); }
        }
        let mut rng = rand::rngs::StdRng::seed_from_u64(seed);
        let repr = if vector { QuStateRepr::vector(nq, shots) } else { QuStateRepr::stabilizer(nq, shots) };
        trace_start();
        let res = c.execute_with(shots, &mut rng, repr);
        let trace = trace_take();
        match res
        {
            Err(e) => Outcome::RunErr(err_text(&e)),
            Ok(()) => Outcome::Done { circuit: c, trace: trace }
        }
    });
    match r { Ok(o) => o, Err(_) => { let _ = trace_take(); Outcome::Panic } }
}

/// "Executed again on the same object": build the circuit, execute it once with `first_seed` on the representation
/// `first_vector` (same number of shots, not traced), then execute the SAME `Circuit` object again with `seed` on `vector`,
/// recording the trace of this second run.
pub fn run_circuit_again(vector: bool, first_vector: bool, nq: usize, nc: usize, shots: usize, ops: &[Op], first_seed: u64, seed: u64) -> Outcome
{
    let ops = ops.to_vec();
    let r = std::panic::catch_unwind(move || {
        let mut c = Circuit::new(nq, nc);
        for op in ops.iter()
        {
            if let Err(e) = add_op(&mut c, op) { return Outcome::BuildErr(err_text(&e)); }
        }
        let mk = |v: bool| if v { QuStateRepr::vector(nq, shots) } else { QuStateRepr::stabilizer(nq, shots) };
        let mut rng1 = rand::rngs::StdRng::seed_from_u64(first_seed);
        if let Err(e) = c.execute_with(shots, &mut rng1, mk(first_vector)) { return Outcome::RunErr(err_text(&e)); }
        let mut rng = rand::rngs::StdRng::seed_from_u64(seed);
        trace_start();
        let res = c.execute_with(shots, &mut rng, mk(vector));
        let trace = trace_take();
        match res
        {
            Err(e) => Outcome::RunErr(err_text(&e)),
            Ok(()) => Outcome::Done { circuit: c, trace: trace }
        }
    });
    match r { Ok(o) => o, Err(_) => { let _ = trace_take(); Outcome::Panic } }
}

/// The classical bits written by `ops` (measure, measure_all, peek, peek_all), as a mask.  `execute*` starts from a zeroed
/// register, so at any point of a run every bit outside the mask of the operations executed so far is 0.
pub fn written_mask(ops: &[Op]) -> u64
{
    let mut m = 0u64;
    for op in ops
    {
        match op
        {
            Op::Measure(_, c) | Op::Peek(_, c) => { if *c < 64 { m |= 1u64 << *c; } },
            Op::MeasureAll(cs) | Op::PeekAll(cs) => { for c in cs { if *c < 64 { m |= 1u64 << *c; } } },
            _ => {}
        }
    }
    m
}

/// `h k:c ..` sorted by key, `v ..` (or `v -` when `nc > vec_max`), `s key:c ..` sorted by key.
pub fn views_text(c: &Circuit, nc: usize, vec_max: usize) -> String
{
    let h = match std::panic::catch_unwind(std::panic::AssertUnwindSafe(|| c.histogram()))
    {
        Ok(Ok(m)) => { let mut v: Vec<(u64, usize)> = m.into_iter().collect(); v.sort();
            format!("h {}", v.iter().map(|(k, n)| format!("{}:{}", k, n)).collect::<Vec<_>>().join(" ")) },
        Ok(Err(e)) => format!("h err {}", err_text(&e)),
        Err(_) => "h panic".to_string()
    };
    let v = if nc > vec_max { "v -".to_string() } else {
        match std::panic::catch_unwind(std::panic::AssertUnwindSafe(|| c.histogram_vec()))
        {
            Ok(Ok(v)) => format!("v {}", js(&v)),
            Ok(Err(e)) => format!("v err {}", err_text(&e)),
            Err(_) => "v panic".to_string()
        }
    };
    let s = match std::panic::catch_unwind(std::panic::AssertUnwindSafe(|| c.histogram_string()))
    {
        Ok(Ok(m)) => { let mut v: Vec<(String, usize)> = m.into_iter().collect(); v.sort();
            format!("s {}", v.iter().map(|(k, n)| format!("{}:{}", k, n)).collect::<Vec<_>>().join(" ")) },
        Ok(Err(e)) => format!("s err {}", err_text(&e)),
        Err(_) => "s panic".to_string()
    };
    format!("{} | {} | {}", h, v, s)
}

/// Per range of a snapshot: its shot count and a canonical text of its state.
pub fn snapshot_ranges(s: &Snapshot) -> Vec<(usize, String)>
{
    match s
    {
        Snapshot::Opaque => vec![],
        Snapshot::Vector { counts, states, .. } => counts.iter().zip(states.iter())
            .map(|(&c, st)| (c, st.iter().map(|(re, im)| format!("{:016x}{:016x}", re.to_bits(), im.to_bits())).collect::<Vec<_>>().join(","))).collect(),
        Snapshot::Stabilizer { counts, tableaus, .. } => counts.iter().zip(tableaus.iter())
            .map(|(&c, t)| (c, t.replace('\n', "/"))).collect()
    }
}

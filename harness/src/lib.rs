//! Shared helpers for the correspondence harness binaries (one binary per property).
use std::io::Write;

/// SplitMix64: every random choice of a harness run derives from one state seeded by VERIF_SEED.
#[derive(Clone)]
pub struct SplitMix64(pub u64);

impl SplitMix64
{
    pub fn from_env() -> Self
    {
        let seed = std::env::var("VERIF_SEED").ok().and_then(|s| s.parse::<u64>().ok()).unwrap_or(1);
        SplitMix64(seed)
    }
    pub fn next(&mut self) -> u64
    {
        self.0 = self.0.wrapping_add(0x9E3779B97F4A7C15);
        let mut z = self.0;
        z = (z ^ (z >> 30)).wrapping_mul(0xBF58476D1CE4E5B9);
        z = (z ^ (z >> 27)).wrapping_mul(0x94D049BB133111EB);
        z ^ (z >> 31)
    }
    /// uniform in 0..n (n > 0)
    pub fn below(&mut self, n: u64) -> u64 { self.next() % n }
    pub fn range(&mut self, lo: i64, hi: i64) -> i64 { lo + (self.next() % ((hi - lo + 1) as u64)) as i64 }
    pub fn coin(&mut self) -> bool { self.next() & 1 == 1 }
    pub fn unit(&mut self) -> f64 { (self.next() >> 11) as f64 / (1u64 << 53) as f64 }
    pub fn pick<'a, T>(&mut self, xs: &'a [T]) -> &'a T { &xs[self.below(xs.len() as u64) as usize] }
    pub fn shuffle<T>(&mut self, xs: &mut [T])
    {
        for i in (1..xs.len()).rev() { let j = self.below(i as u64 + 1) as usize; xs.swap(i, j); }
    }
}

/// Tier from VERIF_TIER (quick unless "thorough").
pub fn thorough() -> bool { std::env::var("VERIF_TIER").map(|t| t == "thorough").unwrap_or(false) }

/// Output: requests go to one file, the implementation's answers to another, line-aligned.
pub struct Out
{
    pub req: std::io::BufWriter<std::fs::File>,
    pub ans: std::io::BufWriter<std::fs::File>,
    pub n: usize
}

impl Out
{
    pub fn new(dir: &str) -> Self
    {
        std::fs::create_dir_all(dir).unwrap();
        Out {
            req: std::io::BufWriter::new(std::fs::File::create(format!("{}/req.txt", dir)).unwrap()),
            ans: std::io::BufWriter::new(std::fs::File::create(format!("{}/impl.txt", dir)).unwrap()),
            n: 0
        }
    }
    pub fn case(&mut self, req: &str, ans: &str)
    {
        debug_assert!(!req.contains('\n') && !ans.contains('\n'));
        writeln!(self.req, "{}", req).unwrap();
        writeln!(self.ans, "{}", ans).unwrap();
        self.n += 1;
    }
    pub fn finish(mut self) -> usize { self.req.flush().unwrap(); self.ans.flush().unwrap(); self.n }
}

/// Run `f`, mapping a panic to `None`. The default panic hook is silenced for the duration.
pub fn catch<T, F: FnOnce() -> T + std::panic::UnwindSafe>(f: F) -> Option<T>
{
    std::panic::catch_unwind(f).ok()
}

pub fn silence_panics() { std::panic::set_hook(Box::new(|_| {})); }

pub fn join<T: std::fmt::Display>(xs: &[T]) -> String
{
    xs.iter().map(|x| x.to_string()).collect::<Vec<_>>().join(" ")
}

/// f64 as its IEEE bit pattern, hexadecimal.
pub fn fbits(x: f64) -> String { format!("{:016x}", x.to_bits()) }
pub mod gate;
pub mod sim;

#!/usr/bin/env bash
# confirm_seeded.sh <property-id> <variant> <src-out-dir>  -> /verif/seeded/<id><variant>/ with meta.json, only if confirmed.
# Confirmation (in a scratch worktree of /repo, removed by the caller): patch applies; the unedited suite passes with it;
# the demonstration fails with it and passes without it.
set -u
PID=$1; VAR=$2; SRC=$3
W=/tmp/confirm_wt
export CARGO_NET_OFFLINE=true CARGO_TARGET_DIR=$W/target
if [ ! -d $W ]; then git -C /repo worktree add --detach $W HEAD -q || exit 2; fi
cd $W && git checkout -q -- . && git checkout -q --detach $(git -C /repo rev-parse HEAD) && rm -rf tests/demo_seeded.rs
git apply --check $SRC/patch.diff || { echo "$PID$VAR: patch does not apply"; exit 1; }
mkdir -p tests; cp $SRC/demo.rs tests/demo_seeded.rs
# original: demo passes
cargo test --offline --test demo_seeded > /tmp/confirm_orig.log 2>&1; orig=$?
git apply $SRC/patch.diff
cargo test --offline --test demo_seeded > /tmp/confirm_mut.log 2>&1; mut=$?
rm -f tests/demo_seeded.rs; rmdir tests 2>/dev/null
cargo test --offline --workspace --no-fail-fast > /tmp/confirm_suite.log 2>&1; suite=$?
npass=$(grep -E '^test result' /tmp/confirm_suite.log | head -1)
git checkout -q -- .
echo "$PID$VAR: demo on original rc=$orig (want 0), demo with change rc=$mut (want !=0), suite with change rc=$suite (want 0) [$npass]"
if [ $orig -eq 0 ] && [ $mut -ne 0 ] && [ $suite -eq 0 ]; then
  D=/verif/seeded/$PID$VAR; mkdir -p $D; cp $SRC/patch.diff $D/patch.diff; cp $SRC/demo.rs $D/demo.rs; cp $SRC/README.md $D/AUTHOR_README.md
  python3 - "$PID" "$VAR" "$npass" <<'P'
import json,sys,re
pid,var,npass=sys.argv[1:4]
d='/verif/seeded/%s%s'%(pid,var)
rd=open(d+'/AUTHOR_README.md').read()
meta={"id":pid+var,"property":pid,"author":"fresh sub-agent given only the property text and a scratch worktree",
 "breaks": "", "needs_to_manifest": "",
 "confirmed_by_lead":{"worktree":"/tmp/confirm_wt (scratch, removed afterwards)","demo_on_original":"pass","demo_with_change":"fail",
   "existing_suite_with_change": npass,"commands":["git apply patch.diff","cargo test --offline --test demo_seeded","cargo test --offline --workspace --no-fail-fast"]}}
json.dump(meta,open(d+'/meta.json','w'),indent=1)
P
  echo "kept as $D"
else
  echo "NOT kept"; tail -5 /tmp/confirm_mut.log
fi

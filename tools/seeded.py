#!/usr/bin/env python3
"""Run the registered checks against the seeded (deliberately broken) changes kept in /verif/seeded/<id>/.

  python3 tools/seeded.py [<id> ...] [--tier quick|thorough] [--checks C01,C02]

For each seeded change: take the exclusive repository lock, `git -C /repo apply patch.diff`, run the quick check of the
property named in meta.json (plus any listed in meta.json "also"), record exit code and VIOLATION lines, and undo the change
(`git -C /repo checkout -- .` + removal of files the patch added) - always, also on error.  Results go to seeded/RESULTS.json.
Nothing here is a registered check; it is the regression suite of the checks themselves.
"""
import argparse, fcntl, json, os, subprocess, sys, time
ROOT = os.path.dirname(os.path.dirname(os.path.abspath(__file__)))
REPO = "/repo"


def main():
    ap = argparse.ArgumentParser()
    ap.add_argument("ids", nargs="*")
    ap.add_argument("--tier", default="quick")
    ap.add_argument("--checks", default=None)
    ap.add_argument("--results", default=None, help="write results to this file instead of <dir>/RESULTS.json (for runs in parallel; merge afterwards)")
    ap.add_argument("--dir", default="seeded", help="seeded (breaking changes: an alarm is wanted) or benign (behaviour-preserving "
                    "refactorings kept in /verif/benign/<id>/: the checks must stay quiet)")
    a = ap.parse_args()
    sd = os.path.join(ROOT, a.dir)
    benign = a.dir == "benign"
    ids = a.ids or sorted(d for d in os.listdir(sd) if os.path.isfile(os.path.join(sd, d, "meta.json")))
    resf = a.results or os.path.join(sd, "RESULTS.json")
    results = json.load(open(resf)) if os.path.exists(resf) else {}
    os.makedirs(os.path.join(ROOT, ".cache"), exist_ok=True)
    for sid in ids:
        d = os.path.join(sd, sid)
        meta = json.load(open(os.path.join(d, "meta.json")))
        checks = a.checks.split(",") if a.checks else [meta["property"]] + meta.get("also", [])
        with open(os.path.join(ROOT, ".cache", "repo.lock"), "w") as lk:
            fcntl.flock(lk, fcntl.LOCK_EX)
            # (checked under the lock: another seeded run may have had a patch applied a moment ago)
            dirty = subprocess.run(["git", "-C", REPO, "status", "--porcelain"], capture_output=True, text=True).stdout.strip()
            if dirty:
                print("refusing: /repo has uncommitted changes:\n" + dirty)
                return 2
            try:
                r = subprocess.run(["git", "-C", REPO, "apply", os.path.join(d, "patch.diff")], capture_output=True, text=True)
                if r.returncode != 0:
                    print(sid, "patch does not apply:", r.stderr)
                    results[sid] = {"applies": False}
                    continue
                env = dict(os.environ, VERIF_REPO_LOCK_HELD="1")
                res = {"applies": True, "checks": {}}
                for pid in checks:
                    t = time.time()
                    # the evidence file is the record of the check on /repo itself: keep it, a run on a mutated tree must not replace it
                    evf = os.path.join(ROOT, "evidence", pid + ".json")
                    saved = open(evf, "rb").read() if os.path.exists(evf) else None
                    p = subprocess.run([sys.executable, os.path.join(ROOT, "tools", "check.py"), pid, "--tier", a.tier],
                                       cwd=ROOT, env=env, capture_output=True, text=True)
                    if saved is not None:
                        open(evf, "wb").write(saved)
                    vio = [l for l in p.stdout.split("\n") if l.startswith("VIOLATION")]
                    failed = [l for l in p.stdout.split("\n") if "OBLIGATION FAILED" in l]
                    res["checks"][pid] = {"rc": p.returncode, "violation_lines": vio, "failed_obligations": [f[:300] for f in failed[:6]],
                                          "wall_s": round(time.time() - t, 1), "tier": a.tier}
                    why = ""
                    if vio:
                        try:
                            rp = json.load(open(vio[0].split("replay=")[1].split()[0]))
                            why = (rp.get("why") or rp.get("summary") or "")[:200]
                        except Exception:
                            pass
                    print("%-28s %s rc=%d %s %s" % (sid, pid, p.returncode, (("QUIET" if p.returncode == 0 and not vio else "ALARM") if benign else
                                                            ("CAUGHT" if p.returncode == 1 and vio else "MISSED")), why), flush=True)
                results[sid] = res
            finally:
                subprocess.run(["git", "-C", REPO, "checkout", "--", "."])
                subprocess.run(["git", "-C", REPO, "clean", "-fdq", "--", "src", "tests", "q1tsim-derive", "examples"])
                # the Gen tables were regenerated from the mutated tree: bring ALL of them back to the clean tree now (the next
                # check only regenerates the tables it owns)
                subprocess.run([sys.executable, os.path.join(ROOT, "tools", "translate.py"), REPO], capture_output=True)
        json.dump(results, open(resf, "w"), indent=1, sort_keys=True)
    return 0


if __name__ == "__main__":
    sys.exit(main())

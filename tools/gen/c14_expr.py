"""C14: the anchored regular expressions of src/expression.rs, per parsing ROLE (the seven levels of the recursive
descent parser, which the model in lean/Q1t/Model/Expr.lean re-implements by hand), in the order in which the role
tries them, and the function-name dispatch of eval_with_parameters.  Q1t/Props/C14.lean proves
`Gen.exprPatterns = Expr.modelledPatterns` by `rfl`, so a changed pattern fails one named obligation.

What is extracted is the CONTENT the proofs consume: (role, [pattern texts in order of use]).  Semantically irrelevant
shape is normalised:
  * a pattern given as a raw / ordinary string literal, or through a module-level or local `const` / `static` `&str`
    (also `Self::NAME`, `path::NAME`), is resolved to its text;
  * private helper functions (any function of the file that is not one of the seven roles) are inlined at their call
    site, transitively, so `parse_closing_parenthesis(..)` extracted from two roles gives back each role its `)` pattern;
  * rows are keyed by role, not by the position of the function in the file; local names, comments, layout, `if let` vs
    `match`, whitespace do not matter;
  * the dispatch arms are read from the `match` on the function name inside `eval_with_parameters` whatever the local
    variable is called and whether the arm says `Ok(x.sin())`, `x.sin()` or `f64::sin(x)`.
Raises ValueError (static tie lost; see vlib policy) when a role is missing, a `Regex::new` argument cannot be resolved to
text, or a pattern site lies outside every function.  A function with patterns that no role reaches is reported as an extra
row (so the obligation fails: a new pattern site the model does not know)."""
import re
import translate as T

ROLES = ["parse_real_literal", "parse_parenthesized_expression", "parse_function_expression", "parse_power_expression",
         "parse_negative_expression", "parse_product_expression", "parse_sum_expression"]


def _lean_str(s):
    return '"' + s.replace("\\", "\\\\").replace('"', '\\"') + '"'


def _tokens(src):
    """Split Rust source into ('code', text) / ('str', value) pieces; comments are dropped, string literals (ordinary,
    raw, byte) are decoded to their value.  Char literals and lifetimes stay in the code."""
    out, i, n, buf = [], 0, len(src), []
    def flush():
        if buf:
            out.append(("code", "".join(buf)))
            del buf[:]
    while i < n:
        c = src[i]
        if src.startswith("//", i):
            j = src.find("\n", i)
            i = n if j < 0 else j
            continue
        if src.startswith("/*", i):
            depth, i = 1, i + 2
            while i < n and depth:
                if src.startswith("/*", i): depth += 1; i += 2
                elif src.startswith("*/", i): depth -= 1; i += 2
                else: i += 1
            buf.append(" ")
            continue
        m = re.compile(r'b?r(#*)"').match(src, i)
        if m and (i == 0 or not (src[i - 1].isalnum() or src[i - 1] == "_")):
            end = src.find('"' + m.group(1), m.end())
            if end < 0:
                raise ValueError("expression.rs: unterminated raw string")
            flush()
            out.append(("str", src[m.end():end]))
            i = end + 1 + len(m.group(1))
            continue
        if c == '"':
            j, val = i + 1, []
            while j < n and src[j] != '"':
                if src[j] == "\\":
                    e = src[j + 1]
                    simple = {"n": "\n", "t": "\t", "r": "\r", "\\": "\\", '"': '"', "'": "'", "0": "\0"}
                    if e in simple:
                        val.append(simple[e]); j += 2
                    elif e == "\n":
                        j += 2
                        while j < n and src[j] in " \t\r\n": j += 1
                    elif e == "x":
                        val.append(chr(int(src[j + 2:j + 4], 16))); j += 4
                    elif e == "u":
                        k = src.index("}", j)
                        val.append(chr(int(src[j + 3:k].replace("_", ""), 16))); j = k + 1
                    else:
                        raise ValueError("expression.rs: unknown escape \\%s" % e)
                else:
                    val.append(src[j]); j += 1
            flush()
            out.append(("str", "".join(val)))
            i = j + 1
            continue
        if c == "'":
            # char literal ('x', '\n', '\u{..}') or lifetime: copy verbatim so that quotes inside do not confuse anything
            m = re.compile(r"'(\\u\{[0-9a-fA-F_]+\}|\\x[0-9a-fA-F]{2}|\\.|[^\\'])'").match(src, i)
            if m:
                buf.append(" '' "); i = m.end()
                continue
        buf.append(c)
        i += 1
    flush()
    return out


def _flatten(toks):
    """code text with every string literal replaced by the placeholder \x00<k>\x00 (k indexes `strs`)"""
    strs, parts = [], []
    for kind, t in toks:
        if kind == "code":
            parts.append(t)
        else:
            parts.append("\x00%d\x00" % len(strs))
            strs.append(t)
    return "".join(parts), strs


def _match_brace(code, i):
    """index just after the brace group opening at code[i] == '{'"""
    depth = 0
    for j in range(i, len(code)):
        if code[j] == "{": depth += 1
        elif code[j] == "}":
            depth -= 1
            if depth == 0:
                return j + 1
    raise ValueError("expression.rs: unbalanced braces")


_STR = re.compile("\x00(\\d+)\x00")


@T.generator("ExprPatterns")
def gen(repo):
    src = T.read(repo, "src/expression.rs")
    code, strs = _flatten(_tokens(src))
    # drop test modules: `#[cfg(test)] mod name { ... }`
    while True:
        m = re.search(r"#\s*\[\s*cfg\s*\(\s*test\s*\)\s*\]\s*(?:pub\s+)?mod\s+\w+\s*\{", code)
        if not m:
            break
        code = code[:m.start()] + code[_match_brace(code, m.end() - 1):]

    # constants holding pattern text (anywhere: module level, impl level, inside a function)
    consts = {}
    for m in re.finditer(r"\b(?:const|static)\s+(\w+)\s*:\s*&\s*(?:'\s*static\s+)?str\s*=\s*\x00(\d+)\x00\s*;", code):
        consts[m.group(1)] = strs[int(m.group(2))]

    # functions with their bodies
    fns = {}
    order = []
    for m in re.finditer(r"\bfn\s+(\w+)\b", code):
        j = m.end()
        # the body is the first brace group after the signature (a `;` first means a declaration without body)
        k = j
        while k < len(code) and code[k] not in "{;":
            k += 1
        if k >= len(code) or code[k] == ";":
            continue
        end = _match_brace(code, k)
        fns[m.group(1)] = (k, end)
        order.append(m.group(1))
    missing = [r for r in ROLES if r not in fns]
    if missing:
        raise ValueError("expression.rs: parsing function(s) %s not found (roles are keyed by these names)" % ", ".join(missing))

    # every Regex::new site must lie inside a function
    sites = [m.start() for m in re.finditer(r"\bRegex\s*::\s*new\s*\(", code)]
    for s in sites:
        if not any(a <= s < b for a, b in fns.values()):
            raise ValueError("expression.rs: a Regex::new call outside every function (lazy/static regex): shape not recognised")
    if not sites:
        raise ValueError("expression.rs: no Regex::new call found")

    def innermost(pos):
        best = None
        for name, (a, b) in fns.items():
            if a <= pos < b and (best is None or fns[best][0] < a):
                best = name
        return best

    call_re = re.compile(r"\bRegex\s*::\s*new\s*\(\s*(?:&\s*)?(?:\x00(\d+)\x00|((?:\w+\s*::\s*)*\w+))\s*\)|\b(\w+)\s*\(")

    def events(name):
        a, b = fns[name]
        ev = []
        for m in call_re.finditer(code, a, b):
            if innermost(m.start()) != name:
                continue            # belongs to a nested fn item
            if m.group(1) is not None:
                ev.append(("pat", strs[int(m.group(1))]))
            elif m.group(2) is not None:
                ident = re.split(r"\s*::\s*", m.group(2))[-1]
                if ident not in consts:
                    raise ValueError("expression.rs: Regex::new(%s) in %s: not a string literal or a const &str of this file"
                                     % (m.group(2), name))
                ev.append(("pat", consts[ident]))
            elif m.group(3) in fns and m.group(3) != name:
                # a call `helper(`, `Self::helper(`, `Expression::helper(` (a method call `.helper(` as well)
                ev.append(("call", m.group(3)))
        return ev

    inlined = set()

    def patterns(name, stack):
        out = []
        for kind, x in events(name):
            if kind == "pat":
                out.append(x)
            elif x not in ROLES and x not in stack:
                inlined.add(x)
                out.extend(patterns(x, stack + [x]))
        return out

    rows = [(r, patterns(r, [r])) for r in ROLES]
    for name in order:
        if name not in ROLES and name not in inlined:
            ps = patterns(name, [name])
            if ps:
                rows.append((name, ps))     # a pattern site no role reaches: the model does not know it
    rows = [(n, ps) for n, ps in rows if ps]

    # dispatch on the function name in eval_with_parameters:  "sin" => Ok(x.sin()) | x.sin() | f64::sin(x) | Ok(f64::sin(x))
    if "eval_with_parameters" not in fns:
        raise ValueError("expression.rs: eval_with_parameters not found")
    a, b = fns["eval_with_parameters"]
    body = code[a:b]
    arms = []
    for m in re.finditer(r"\x00(\d+)\x00\s*=>\s*(?:Ok\s*\(\s*)?(?:\w+\s*\.\s*(\w+)\s*\(\s*\)|f64\s*::\s*(\w+)\s*\(\s*\w+\s*\))", body):
        arms.append((strs[int(m.group(1))], m.group(2) or m.group(3)))
    if not arms:
        raise ValueError("expression.rs: function dispatch arms `\"name\" => Ok(x.method())` not found in eval_with_parameters")

    out = T.header("ExprPatterns", "src/expression.rs (Regex::new patterns; eval function dispatch)")
    out += "/-- For every parsing function, its `Regex::new(r\"…\")` patterns in source order. -/\n"
    out += "def exprPatterns : List (String × List String) := [\n"
    out += ",\n".join("  (%s, [%s])" % (_lean_str(n), ", ".join(_lean_str(p) for p in ps)) for n, ps in rows)
    out += "]\n\n/-- `match &**fname` arms of `eval_with_parameters`: function name, `f64` method. -/\n"
    out += "def exprFunctionArms : List (String × String) := [%s]\n" % ", ".join(
        "(%s, %s)" % (_lean_str(a), _lean_str(b)) for a, b in arms)
    return out + T.FOOTER

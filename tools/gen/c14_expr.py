"""C14: the anchored regular expressions of src/expression.rs (per parsing function, in source order) and the
function-name dispatch of eval_with_parameters.  The model in lean/Q1t/Model/Expr.lean re-implements exactly
these patterns by hand; Q1t/Props/C14.lean proves `Gen.exprPatterns = Expr.modelledPatterns` by `decide`, so a
changed pattern fails one named obligation."""
import re
import translate as T


def _lean_str(s):
    return '"' + s.replace("\\", "\\\\").replace('"', '\\"') + '"'


@T.generator("ExprPatterns")
def gen(repo):
    src = T.read(repo, "src/expression.rs")
    src = src.split("#[cfg(test)]")[0]
    fns = list(re.finditer(r"\bfn\s+(\w+)\s*[<(]", src))
    rows = []
    for i, m in enumerate(fns):
        body = src[m.end():(fns[i + 1].start() if i + 1 < len(fns) else len(src))]
        pats = re.findall(r'Regex::new\(\s*r"([^"]*)"\s*\)', body)
        if "Regex::new" in body and len(pats) != body.count("Regex::new"):
            raise ValueError("expression.rs: a Regex::new call in %s is not a raw string literal" % m.group(1))
        if pats:
            rows.append((m.group(1), pats))
    if not rows:
        raise ValueError("expression.rs: no Regex::new(r\"...\") found")
    arms = re.findall(r'"(\w+)"\s*=>\s*Ok\(x\.(\w+)\(\)\)', src)
    if not arms:
        raise ValueError("expression.rs: function dispatch arms `\"name\" => Ok(x.method())` not found")
    out = T.header("ExprPatterns", "src/expression.rs (Regex::new patterns; eval function dispatch)")
    out += "/-- For every parsing function, its `Regex::new(r\"…\")` patterns in source order. -/\n"
    out += "def exprPatterns : List (String × List String) := [\n"
    out += ",\n".join("  (%s, [%s])" % (_lean_str(n), ", ".join(_lean_str(p) for p in ps)) for n, ps in rows)
    out += "]\n\n/-- `match &**fname` arms of `eval_with_parameters`: function name, `f64` method. -/\n"
    out += "def exprFunctionArms : List (String × String) := [%s]\n" % ", ".join(
        "(%s, %s)" % (_lean_str(a), _lean_str(b)) for a, b in arms)
    return out + T.FOOTER

"""C18 generator: the method tables of the circuit-building macro (MacroMethods).

Re-extracted from /repo/src/*.rs on every check:
  * `checkedMethods`  — the method names for which an arm `( name $res:expr ) => { $res? }` exists in
                        `circuit_method_check!` (the names whose error `circuit!` returns);
  * `uncheckedArms`   — names with an explicit arm that does NOT propagate (`=> { $res }`), if any;
  * `resultBuilders`  — every `pub fn … -> …Result<()>` of `impl Circuit` that appends to `self.ops`,
                        directly (`self.ops.push`) or by delegating to another builder (transitively);
  * `unitBuilders`    — the builders of `impl Circuit` that return `()` (cannot fail);
  * `builderDelegates`— for every builder the builder it forwards to (or itself when it pushes directly).
"""
import re
import translate as T


def _impl_block(src, header_re):
    m = re.search(header_re, src)
    if not m:
        return None
    i = src.index("{", m.end())
    depth, j = 0, i
    while True:
        if src[j] == "{":
            depth += 1
        elif src[j] == "}":
            depth -= 1
            if depth == 0:
                return src[i:j + 1]
        j += 1


def _macro_body(src, name):
    m = re.search(r"macro_rules!\s*%s\b" % re.escape(name), src)
    if not m:
        return None
    i = src.index("{", m.end())
    depth, j = 0, i
    while True:
        if src[j] == "{":
            depth += 1
        elif src[j] == "}":
            depth -= 1
            if depth == 0:
                return src[i + 1:j]
        j += 1


def _methods(block):
    """(name, signature text up to the body, body text) of every `pub fn` directly inside an impl block."""
    out = []
    for m in re.finditer(r"\bpub\s+fn\s+([A-Za-z_][A-Za-z0-9_]*)", block):
        name = m.group(1)
        i = block.index("{", m.end())
        # a `where` clause may contain no braces; the first `{` after the signature opens the body
        sig = block[m.start():i]
        depth, j = 0, i
        while True:
            if block[j] == "{":
                depth += 1
            elif block[j] == "}":
                depth -= 1
                if depth == 0:
                    break
            j += 1
        out.append((name, " ".join(sig.split()), block[i:j + 1]))
    return out


def extract(repo):
    import os
    srcdir = os.path.join(repo, "src")
    macro_src = None
    for fn in sorted(os.listdir(srcdir)):
        if fn.endswith(".rs"):
            s = T.strip_rust_comments(T.read(repo, "src/" + fn))
            if re.search(r"macro_rules!\s*circuit_method_check\b", s):
                if macro_src is not None:
                    raise ValueError("circuit_method_check! defined more than once in src/*.rs")
                macro_src = (fn, s)
    if macro_src is None:
        raise ValueError("macro_rules! circuit_method_check not found in src/*.rs")
    fn, src = macro_src
    body = _macro_body(src, "circuit_method_check")
    arms = re.findall(r"\(\s*([A-Za-z_$:][A-Za-z0-9_$:]*)\s+\$res\s*:\s*expr\s*\)\s*=>\s*\{\s*([^{}]*?)\s*\}\s*;?", body)
    if not arms:
        raise ValueError("circuit_method_check!: no arms of the shape `( name $res:expr ) => { … }`")
    checked, unchecked, fallback = [], [], None
    for pat, rhs in arms:
        rhs = "".join(rhs.split())
        if pat.startswith("$"):
            # the catch-all arm `( $name:ident $res:expr ) => { $res }`
            if rhs not in ("$res", "$res?"):
                raise ValueError("circuit_method_check!: unrecognised catch-all arm body %r" % rhs)
            fallback = (rhs == "$res?")
            continue
        if rhs == "$res?":
            checked.append(pat)
        elif rhs == "$res":
            unchecked.append(pat)
        else:
            raise ValueError("circuit_method_check!: unrecognised arm body %r for %s" % (rhs, pat))
    if fallback is None:
        raise ValueError("circuit_method_check!: catch-all arm not found")
    # the circuit! macro must route every call through circuit_method_check!
    cbody = _macro_body(src, "circuit")
    if cbody is None or not re.search(r"circuit_method_check!\s*\(\s*\$method_name\s+circuit\s*\.\s*\$method_name\s*\(", cbody):
        raise ValueError("circuit!: the call `circuit_method_check!($method_name circuit.$method_name(..))` was not found")
    if not re.search(r"Ok\s*\(\s*circuit\s*\)", cbody):
        raise ValueError("circuit!: `Ok(circuit)` not found")

    csrc = T.strip_rust_comments(T.read(repo, "src/circuit.rs"))
    block = _impl_block(csrc, r"\nimpl\s+Circuit\s*\n?\s*(?=\{)")
    if block is None:
        raise ValueError("impl Circuit not found in src/circuit.rs")
    meths = _methods(block)
    names = [n for n, _, _ in meths]
    direct = set(n for n, _, b in meths if re.search(r"self\s*\.\s*ops\s*\.\s*push\s*\(", b))
    delegates = {}
    for n, _, b in meths:
        if n in direct:
            delegates[n] = n
    changed = True
    while changed:
        changed = False
        for n, _, b in meths:
            if n in delegates:
                continue
            calls = [c for c in re.findall(r"self\s*\.\s*([A-Za-z_][A-Za-z0-9_]*)\s*\(", b) if c in delegates]
            if calls:
                if len(set(calls)) != 1:
                    raise ValueError("builder %s forwards to several builders: %r" % (n, calls))
                delegates[n] = calls[0]
                changed = True
    result_builders, unit_builders = [], []
    for n, sig, _ in meths:
        if n not in delegates:
            continue
        if not re.search(r"&\s*mut\s+self", sig):
            raise ValueError("builder %s does not take &mut self: %s" % (n, sig))
        if re.search(r"->\s*(?:crate\s*::\s*error\s*::\s*)?Result\s*<\s*\(\s*\)\s*>", sig):
            result_builders.append(n)
        elif "->" not in sig:
            unit_builders.append(n)
        else:
            raise ValueError("builder %s has an unrecognised return type: %s" % (n, sig))
    if not result_builders:
        raise ValueError("no `pub fn … -> Result<()>` builder found in impl Circuit")
    return fn, checked, unchecked, fallback, result_builders, unit_builders, [(n, delegates[n]) for n in names if n in delegates]


def _strs(xs):
    return "[" + ", ".join('"%s"' % x for x in xs) + "]"


@T.generator("MacroMethods")
def gen(repo):
    fn, checked, unchecked, fallback, rbs, ubs, dels = extract(repo)
    return (T.header("MacroMethods", "src/%s (circuit_method_check!, circuit!) and src/circuit.rs (impl Circuit)" % fn) +
            "/-- names with an arm `( name $res:expr ) => { $res? }` in `circuit_method_check!`: `circuit!` returns their error -/\n"
            "def checkedMethods : List String := %s\n\n" % _strs(checked) +
            "/-- names with an explicit arm that does not propagate the error -/\n"
            "def uncheckedArms : List String := %s\n\n" % _strs(unchecked) +
            "/-- does the catch-all arm `( $name:ident $res:expr )` propagate (`$res?`)? -/\n"
            "def fallbackPropagates : Bool := %s\n\n" % ("true" if fallback else "false") +
            "/-- every `pub fn … -> Result<()>` of `impl Circuit` that appends to `self.ops` (directly or by delegation) -/\n"
            "def resultBuilders : List String := %s\n\n" % _strs(rbs) +
            "/-- the builders that return `()` -/\n"
            "def unitBuilders : List String := %s\n\n" % _strs(ubs) +
            "/-- builder ↦ the builder it forwards to (itself when it pushes onto `self.ops` directly) -/\n"
            "def builderDelegates : List (String × String) := [%s]\n" %
            ", ".join('("%s", "%s")' % p for p in dels) + T.FOOTER)

"""C13 generators: how every library gate draws itself (LatexGates), and every string literal / format
template of the LaTeX emitters (LatexTemplates).  Both are re-extracted from /repo on every check."""
import os, re
import translate as T


def lean_str(s):
    return '"' + s.replace("\\", "\\\\").replace('"', '\\"').replace("\n", "\\n") + '"'


def rust_literals(code, templates=False):
    """All string literals of a piece of Rust code, unescaped, in source order.  With `templates`,
    a literal that is the first argument of `format!` is returned with `{}` holes."""
    out = []
    for m in re.finditer(r'r"([^"]*)"|"((?:[^"\\]|\\.)*)"', code):
        if m.group(1) is not None:
            s = m.group(1)
        else:
            s = m.group(2)
            s = s.replace('\\\\', '\0').replace('\\"', '"').replace('\\n', '\n').replace('\0', '\\')
        if templates and code[:m.start()].rstrip().endswith("format!("):
            s = fmt_to_template(s).replace("\x01", "{").replace("\x02", "}")
        out.append(s)
    return out


def impl_block(src, header_re):
    """Text of the `impl … { … }` block whose header matches; brace-balanced."""
    m = re.search(header_re, src)
    if not m:
        return None
    i = src.index("{", m.end())
    depth, j = 0, i
    while True:
        if src[j] == "{":
            depth += 1
        elif src[j] == "}":
            depth -= 1
            if depth == 0:
                return src[i:j + 1]
        j += 1


def fmt_to_template(fmt):
    """Rust format string -> text with `{}` holes (`{{`/`}}` unescaped, `{:.4}` -> `{}`)."""
    out, i = "", 0
    while i < len(fmt):
        if fmt.startswith("{{", i):
            out += "\x01"; i += 2
        elif fmt.startswith("}}", i):
            out += "\x02"; i += 2
        elif fmt[i] == "{":
            j = fmt.index("}", i)
            out += "{}"; i = j + 1
        else:
            out += fmt[i]; i += 1
    return out


@T.generator("LatexGates")
def gen_LatexGates(repo):
    gdir = os.path.join(repo, "src", "gates")
    entries = {}
    for fn in sorted(os.listdir(gdir)):
        if not fn.endswith(".rs"):
            continue
        src = T.strip_rust_comments(T.read(repo, "src/gates/" + fn))
        src = src.split("#[cfg(test)]")[0]
        for m in re.finditer(r"impl\s+crate::export::Latex\s+for\s+(\w+)\s*\n", src):
            name = m.group(1)
            if name in ("Composite", "Loop"):
                continue        # structural, modelled as constructors
            body = impl_block(src, r"impl\s+crate::export::Latex\s+for\s+%s\s*\n" % name)
            gate = impl_block(src, r"impl\s+crate::gates::Gate\s+for\s+%s\s*\n" % name) or ""
            nb = re.search(r"fn\s+nr_affected_bits\s*\(&self\)\s*->\s*usize\s*\{\s*(\d+)\s*\}", gate)
            lits = rust_literals(body)
            if "self.cgate.latex(bits, state)" in body:
                sm = re.search(r"struct\s+%s\s*\{[^}]*cgate:\s*crate::gates::C<crate::gates::(\w+)>" % name, src, flags=re.S)
                if not sm:
                    raise ValueError("LatexGates: cannot find the controlled type of %s" % name)
                entries[name] = '.ctrl "%s"' % sm.group(1)
            elif "add_block_gate(bits," in body:
                if not nb:
                    raise ValueError("LatexGates: nr_affected_bits of %s is not a literal" % name)
                fm = re.search(r"format!\(\s*\"([^\"]*)\"\s*((?:,\s*self\.\w+\s*)*)\)", body)
                if fm and "add_block_gate(bits, &contents)" in body:
                    nargs = len(re.findall(r"self\.\w+", fm.group(2)))
                    tmpl = fmt_to_template(fm.group(1)).replace("\x01", "{").replace("\x02", "}")
                    if tmpl.count("{}") != nargs or ":.4" not in fm.group(1) and nargs:
                        raise ValueError("LatexGates: unrecognised format in %s" % name)
                    entries[name] = ".block %s %d %s" % (lean_str(tmpl), nargs, nb.group(1))
                else:
                    lm = re.search(r"add_block_gate\(bits,\s*(r?\"[^\"]*\")\)", body)
                    if not lm:
                        raise ValueError("LatexGates: unrecognised block gate %s" % name)
                    entries[name] = ".block %s 0 %s" % (lean_str(rust_literals(lm.group(1))[0]), nb.group(1))
            elif lits == ["\\targ", "\\gate{X}"] and "state.is_controlled()" in body:
                entries[name] = ".x"
            elif lits == ["\\control \\qw", "\\gate{Z}"] and "state.is_controlled()" in body:
                entries[name] = ".z"
            elif lits == ["\\qw"] and "state.set_field(bits[0]" in body:
                entries[name] = ".i"
            elif lits == ["\\qswap \\qwx[{}]", "\\qswap"]:
                entries[name] = ".swap"
            else:
                raise ValueError("LatexGates: unrecognised `impl Latex for %s`" % name)
        # `declare_controlled_latex!(T)` used directly in a gate file (any path prefix): it expands to the
        # forwarding impl `self.cgate.latex(bits, state)`, i.e. exactly the `.ctrl` classification above
        for m in re.finditer(r"(?<![\w!])(?:\$?crate::)?(?:gates::controlled::)?declare_controlled_latex!\s*[\(\[\{]\s*(\w+)\s*[\)\]\}]", src):
            name = m.group(1)
            if name.startswith("$") or fn == "controlled.rs" and name == "name":
                continue
            sm = re.search(r"struct\s+%s\s*\{[^}]*cgate:\s*crate::gates::C<crate::gates::(\w+)>" % name, src, flags=re.S)
            if not sm:
                raise ValueError("LatexGates: cannot find the controlled type of %s (declare_controlled_latex!)" % name)
            entries[name] = '.ctrl "%s"' % sm.group(1)
        # every concrete gate type of the file must have been classified
        for m in re.finditer(r"impl\s+crate::gates::Gate\s+for\s+(\w+)\s*\n", src):
            if m.group(1) not in entries and m.group(1) not in ("Composite", "Loop"):
                raise ValueError("LatexGates: no `impl Latex` recognised for gate %s in %s" % (m.group(1), fn))
    # controlled gates declared by macro
    csrc = T.strip_rust_comments(T.read(repo, "src/gates/controlled.rs")).split("#[cfg(test)]")[0]
    if "self.cgate.latex(bits, state)" not in (impl_block(csrc, r"macro_rules!\s+declare_controlled_latex") or ""):
        raise ValueError("LatexGates: declare_controlled_latex no longer forwards to cgate")
    for m in re.finditer(r"declare_controlled!\(\s*(\w+)\s*,\s*crate::gates::(\w+)", csrc):
        entries[m.group(1)] = '.ctrl "%s"' % m.group(2)
    if len(entries) < 30:
        raise ValueError("LatexGates: only %d gates recognised" % len(entries))
    body = ",\n".join('  ("%s", %s)' % (k, entries[k]) for k in sorted(entries))
    return ("/-! GENERATED by tools/translate.py (tools/gen/c13_latexgates.py) from /repo/src/gates/*.rs — do not edit.\n"
            "How each library gate draws itself: `block fmt k n` = `add_block_gate(bits, fmt with k parameters)` on `n` qubits,\n"
            "`x`/`z`/`i`/`swap` = the hand-written drawings, `ctrl g` = `C<g>` (struct field `cgate`). -/\n"
            "namespace Q1t.Gen\n\n"
            "inductive LatexKind where\n  | block (fmt : String) (nparams nbits : Nat)\n  | x | z | i | swap\n"
            "  | ctrl (inner : String)\n  deriving Repr, DecidableEq\n\n"
            "def latexGates : List (String × LatexKind) := [\n" + body + "\n]\n" + T.FOOTER)


def template_chunks(code):
    """The CONTENT of the string literals of a piece of Rust code, independent of how the strings are put
    together: every literal (format strings of `format!` / `write!` / `writeln!` with `{{`/`}}` unescaped and the
    holes `{…}` removed) is cut at the holes, at white space and at double quotes; the result is the sorted
    list of the distinct non-empty pieces.  Invariant under: splitting / joining literals at those places,
    `+=` vs `push_str` vs `write!`, hoisting a literal into a variable or a helper function, passing a part of a
    template as an argument, the order and multiplicity of the literals.  A changed LaTeX command, option
    (`@C=1em`), bracket or decoration (`!C*+<.7em>…`) changes a piece."""
    pieces = set()
    for m in re.finditer(r'r"([^"]*)"|"((?:[^"\\]|\\.)*)"', code):
        before = code[:m.start()].rstrip()
        is_fmt = before.endswith("format!(") or re.search(r"\bwrite(ln)?!\(\s*[\w.&]+\s*,$", before) is not None
        if m.group(1) is not None:
            s = m.group(1)
        else:
            s = m.group(2)
            s = s.replace('\\\\', '\0').replace('\\"', '"').replace('\\n', '\n').replace('\0', '\\')
        if is_fmt:
            out, i = "", 0
            while i < len(s):
                if s.startswith("{{", i):
                    out += "{"; i += 2
                elif s.startswith("}}", i):
                    out += "}"; i += 2
                elif s[i] == "{":
                    i = s.index("}", i) + 1
                    out += "\x01"
                else:
                    out += s[i]; i += 1
            s = out
        for piece in re.split(r'[\s"\x01]+', s):
            if piece:
                pieces.add(piece)
    return sorted(pieces)


@T.generator("LatexTemplates")
def gen_LatexTemplates(repo):
    src = T.strip_rust_comments(T.read(repo, "src/export/latex.rs")).split("#[cfg(test)]")[0]
    lits = template_chunks(src)
    ctl = T.strip_rust_comments(T.read(repo, "src/gates/controlled.rs")).split("#[cfg(test)]")[0]
    cblock = impl_block(ctl, r"impl<G>\s+crate::export::Latex\s+for\s+C<G>")
    if cblock is None:
        raise ValueError("LatexTemplates: impl Latex for C<G> not found")
    clits = [l for l in template_chunks(cblock) if "\\" in l or l in ("{", "}")]
    if len(lits) < 20:
        raise ValueError("LatexTemplates: only %d template pieces found" % len(lits))
    return ("/-! GENERATED by tools/translate.py (tools/gen/c13_latexgates.py) — do not edit.\n"
            "The CONTENT of the string literals of src/export/latex.rs (non-test part) and of `impl Latex for C<G>`:\n"
            "every literal (format strings with `{{`/`}}` unescaped and the holes removed) cut at the holes, at white\n"
            "space and at double quotes; sorted list of the distinct pieces.  Independent of how the emitters put their\n"
            "strings together (`+=`, `push_str`, `write!`, helper functions, hoisted variables, order, multiplicity). -/\n"
            "namespace Q1t.Gen\n\n"
            "def latexTemplates : List String := [\n" + ",\n".join("  " + lean_str(l) for l in lits) + "\n]\n\n"
            "def latexCtrlTemplates : List String := [\n" + ",\n".join("  " + lean_str(l) for l in clits) + "\n]\n" + T.FOOTER)

"""Generator "Conj": `is_stabilizer()` flags and Pauli conjugation tables of every gate in
/repo/src/gates/*.rs  ->  lean/Q1t/Gen/Conj.lean.

Encoding of Pauli operators as in src/stabilizer/pauliop.rs: I=0 Z=1 X=2 Y=3.  A table row is
(ops, ops', flip): `conjugate` replaces `ops` by `ops'` and returns `Ok(flip)`.

Recognised shapes of `fn conjugate` (whitespace-insensitive, after comment stripping); anything else
raises ValueError, the check then reports the broken tie:

  match1  check_nr_bits; let (op, phase) = match ops[0] { PauliOp::A => (PauliOp::B, bool), .. }; ops[0] = op; Ok(phase)
  match2  check_nr_bits; let (phase, op0, op1) = match (ops[0], ops[1]) { (A, B) => (bool, C, D), .. };
          ops[0] = op0; ops[1] = op1; Ok(phase)
  const   Ok(false)                                   (no arity check, ops untouched)
  swap    check_nr_bits; ops.swap(0, 1); Ok(false)
  sign    check_nr_bits; Ok(ops[0] == PauliOp::A || ops[0] == PauliOp::B)      (ops untouched)

Combinators (`C<G>`, `Kron`, `Composite`, `Loop`) derive flag and rule from their parts; they are
listed in `conjCombinators` with the whitespace-free text of their `is_stabilizer` body (absent:
"default-false").  Gates declared through `declare_controlled!` get their `impl Gate` from
`declare_controlled_impl_gate!`, which is checked to define neither `is_stabilizer` nor `conjugate`.
"""
import os, re
import translate as T

OPS = {"I": 0, "Z": 1, "X": 2, "Y": 3}
COMBINATORS = {"C", "Kron", "Composite", "Loop"}


def _block(src, start):
    """src[start] must be '{'; returns index just after the matching '}'."""
    assert src[start] == "{"
    depth = 0
    for k in range(start, len(src)):
        if src[k] == "{":
            depth += 1
        elif src[k] == "}":
            depth -= 1
            if depth == 0:
                return k + 1
    raise ValueError("unbalanced braces")


def _strip_tests(src):
    m = re.search(r"#\[cfg\(test\)\]\s*mod\s+tests", src)
    return src[:m.start()] if m else src


def _fn_body(impl, name):
    """Body (without outer braces) of `fn name` inside an impl block, or None."""
    m = re.search(r"\bfn\s+%s\s*\(" % name, impl)
    if not m:
        return None
    b = impl.index("{", m.end())
    return impl[b + 1:_block(impl, b) - 1]


def _nows(s):
    return re.sub(r"\s+", "", s)


def _bool(s):
    if s not in ("true", "false"):
        raise ValueError("expected bool literal, got %r" % s)
    return s == "true"


P = r"PauliOp::([IZXY])"
CHECK = r"self\.check_nr_bits\(ops\.len\(\)\)\?;"


def parse_conjugate(name, body):
    """-> (shape, arity, checks_arity, rows)"""
    b = _nows(body)
    if b == "Ok(false)":
        # ops untouched whatever their number
        return "const", 1, False, [([a], [a], False) for a in range(4)]
    m = re.fullmatch(CHECK + r"ops\.swap\(0,1\);Ok\(false\)", b)
    if m:
        return "swap", 2, True, [([a, c], [c, a], False) for a in range(4) for c in range(4)]
    m = re.fullmatch(CHECK + r"Ok\(ops\[0\]==%s\|\|ops\[0\]==%s\)" % (P, P), b)
    if m:
        fl = {OPS[m.group(1)], OPS[m.group(2)]}
        return "sign", 1, True, [([a], [a], a in fl) for a in range(4)]
    m = re.fullmatch(CHECK + r"let\(op,phase\)=matchops\[0\]\{(.*)\};ops\[0\]=op;Ok\(phase\)", b)
    if m:
        rows = {}
        arms = [a for a in m.group(1).split("),") if a]
        for arm in arms:
            am = re.fullmatch(r"%s=>\(%s,(true|false)\)?,?" % (P, P), arm)
            if not am:
                raise ValueError("%s::conjugate: unrecognised match arm %r" % (name, arm))
            k = OPS[am.group(1)]
            if k in rows:
                raise ValueError("%s::conjugate: duplicate arm for %s" % (name, am.group(1)))
            rows[k] = ([k], [OPS[am.group(2)]], _bool(am.group(3)))
        if sorted(rows) != [0, 1, 2, 3]:
            raise ValueError("%s::conjugate: match does not cover the 4 operators" % name)
        return "match1", 1, True, [rows[k] for k in range(4)]
    m = re.fullmatch(CHECK + r"let\(phase,op0,op1\)=match\(ops\[0\],ops\[1\]\)\{(.*)\};ops\[0\]=op0;ops\[1\]=op1;Ok\(phase\)", b)
    if m:
        rows = {}
        arms = [a for a in m.group(1).split("),") if a]
        for arm in arms:
            am = re.fullmatch(r"\(%s,%s\)=>\((true|false),%s,%s\)?,?" % (P, P, P, P), arm)
            if not am:
                raise ValueError("%s::conjugate: unrecognised match arm %r" % (name, arm))
            k = (OPS[am.group(1)], OPS[am.group(2)])
            if k in rows:
                raise ValueError("%s::conjugate: duplicate arm for %s" % (name, k))
            rows[k] = (list(k), [OPS[am.group(4)], OPS[am.group(5)]], _bool(am.group(3)))
        keys = [(a, c) for a in range(4) for c in range(4)]
        if sorted(rows) != keys:
            raise ValueError("%s::conjugate: match does not cover the 16 operator pairs" % name)
        return "match2", 2, True, [rows[k] for k in keys]
    raise ValueError("%s::conjugate: unrecognised shape: %s" % (name, b[:200]))


def scan_file(repo, rel):
    """-> list of dicts for every `impl .. Gate for NAME` in the file (tests stripped)."""
    src = _strip_tests(T.strip_rust_comments(T.read(repo, rel)))
    out = []
    for m in re.finditer(r"\bimpl\s*(?:<[^>]*>\s*)?(?:crate::gates::|\$crate::gates::)?Gate\s+for\s+([A-Za-z0-9_$]+)", src):
        name = m.group(1)
        b = src.index("{", m.end())
        impl = src[b:_block(src, b)]
        out.append({"name": name, "file": rel, "impl": impl})
    return out


def gate_info(g):
    impl, name = g["impl"], g["name"]
    stab = _fn_body(impl, "is_stabilizer")
    conj = _fn_body(impl, "conjugate")
    nab = _fn_body(impl, "nr_affected_bits")
    arity = None
    if nab is not None:
        t = _nows(nab)
        if re.fullmatch(r"\d+", t):
            arity = int(t)
    return stab, conj, arity


@T.generator("Conj")
def gen(repo):
    gdir = os.path.join(repo, "src", "gates")
    files = sorted(f for f in os.listdir(gdir) if f.endswith(".rs"))
    if not files:
        raise ValueError("no gate files in src/gates")
    entries = []      # (name, arity, flag, rows, shape, file)
    nocheck = []
    combos = []
    arities = {}
    for f in files:
        rel = "src/gates/" + f
        if f == "parameter.rs":
            continue
        for g in scan_file(repo, rel):
            name = g["name"]
            stab, conj, arity = gate_info(g)
            if name.startswith("$"):
                # macro template (declare_controlled_impl_gate): must not define the two methods
                if stab is not None or conj is not None:
                    raise ValueError("%s: macro-generated impl Gate now defines is_stabilizer/conjugate" % rel)
                continue
            if name in COMBINATORS:
                combos.append((name, _nows(stab) if stab is not None else "default-false",
                               "conjugate" if conj is not None else "default-error"))
                continue
            if stab is None:
                flag = False
            else:
                flag = _bool(_nows(stab))
            if conj is None:
                shape, rows, checks = "none", [], True
                carity = arity
            else:
                shape, carity, checks, rows = parse_conjugate(name, conj)
                if arity is not None and arity != carity:
                    raise ValueError("%s: nr_affected_bits %s but conjugate table of arity %s" % (name, arity, carity))
            if conj is not None and not flag:
                raise ValueError("%s defines conjugate but is_stabilizer is false" % name)
            if flag and conj is None:
                raise ValueError("%s is_stabilizer but has no conjugate" % name)
            if carity is None:
                # CX/CY/CZ delegate to self.cgate (C<X>): 1 control + 1; only reached when no table gives the arity
                raise ValueError("%s: cannot determine arity" % name)
            arities[name] = carity
            entries.append((name, carity, flag, rows, shape, rel))
            if not checks:
                nocheck.append(name)
    # gates declared with declare_controlled!(Name, base_type, ...)
    csrc = _strip_tests(T.strip_rust_comments(T.read(repo, "src/gates/controlled.rs")))
    decls = re.findall(r"declare_controlled!\(\s*(?:#\[[^\]]*\]\s*)*([A-Za-z0-9_]+)\s*,\s*(?:crate::gates::)?([A-Za-z0-9_]+)", csrc)
    # doc comments were stripped; attributes `#[doc..]` do not occur. Skip the macro's own definition arm.
    decls = [(n, b) for n, b in decls if not n.startswith("$")]
    if not decls:
        raise ValueError("no declare_controlled! invocations found in src/gates/controlled.rs")
    pending = list(decls)
    for _ in range(len(decls) + 1):
        rest = []
        for n, b in pending:
            if b in arities:
                arities[n] = arities[b] + 1
                entries.append((n, arities[n], False, [], "none", "src/gates/controlled.rs"))
            else:
                rest.append((n, b))
        pending = rest
    if pending:
        raise ValueError("declare_controlled!: unknown base gate types %r" % pending)
    names = [e[0] for e in entries]
    if len(set(names)) != len(names):
        raise ValueError("duplicate gate names %r" % names)
    for need in ("H", "X", "Y", "Z", "S", "Sdg", "V", "Vdg", "I", "CX", "CY", "CZ", "Swap", "T", "Tdg",
                 "RX", "RY", "RZ", "U1", "U2", "U3"):
        if need not in names:
            raise ValueError("gate %s not found in src/gates" % need)

    def lst(xs):
        return "[" + ", ".join(str(x) for x in xs) + "]"

    def row(r):
        return "(%s, %s, %s)" % (lst(r[0]), lst(r[1]), "true" if r[2] else "false")

    body = []
    body.append("/-- (gate struct name, number of qubits, `is_stabilizer()`, rows of the `conjugate` table:\n"
                "(ops, ops', flip_sign) with I=0 Z=1 X=2 Y=3; empty = default `NotAStabilizer` error). -/\n"
                "def conjTable : List (String × Nat × Bool × List (List Nat × List Nat × Bool)) := [\n")
    items = []
    for name, ar, flag, rows, shape, rel in entries:
        items.append("  -- %s (%s, shape %s)\n  (\"%s\", %d, %s, [%s])" % (
            name, rel, shape, name, ar, "true" if flag else "false",
            ",\n    ".join(row(r) for r in rows)))
    body.append(",\n".join(items) + "\n]\n\n")
    body.append("/-- gates whose `conjugate` does not call `check_nr_bits` -/\n"
                "def conjNoArityCheck : List String := [%s]\n\n" % ", ".join('"%s"' % n for n in nocheck))
    body.append("/-- syntactic shape of each `conjugate` (see tools/gen/conj.py) -/\n"
                "def conjShape : List (String × String) := [%s]\n\n" % ", ".join(
                    '("%s", "%s")' % (e[0], e[4]) for e in entries))
    body.append("/-- combinator gates: (name, text of `is_stabilizer` body, whether `conjugate` is overridden) -/\n"
                "def conjCombinators : List (String × String × String) := [%s]\n" % ", ".join(
                    '("%s", "%s", "%s")' % c for c in combos))
    return T.header("Conj", "src/gates/*.rs (is_stabilizer, conjugate)") + "".join(body) + T.FOOTER
